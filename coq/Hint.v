From Coq Require Import ZArith Arith Lia List Bool Sorted.
Import ListNotations.
Section Hint.
Variable cmp : Z -> Z -> bool.
Hypothesis irrefl : forall x, cmp x x = false.
Hypothesis trans : forall x y z, cmp x y = true -> cmp y z = true -> cmp x z = true.
Hypothesis negtrans : forall x y z, cmp x y = false -> cmp y z = false -> cmp x z = false.
Lemma asym x y : cmp x y = true -> cmp y x = false.
Proof. intros H. destruct (cmp y x) eqn:E; [|reflexivity]. pose proof (trans x y x H E). pose proof (irrefl x). congruence. Qed.
(* cmp a b, b ~ v  ==>  cmp a v ;  a ~ v, cmp a b ==> cmp v b *)
Lemma lt_equiv_r a b v : cmp a b = true -> cmp v b = false -> cmp a v = true.
Proof. intros H1 H2. destruct (cmp a v) eqn:E; [reflexivity|]. pose proof (negtrans a v b E H2). congruence. Qed.
Definition sorted (l : list Z) := StronglySorted (fun a b => cmp a b = true) l.
Notation "l @ i" := (nth i l 0%Z) (at level 20).
Lemma sorted_nth l : sorted l -> forall j k, j < k -> k < length l -> cmp (l @ j) (l @ k) = true.
Proof. induction 1 as [|x l Hs IH Hall]; intros j k Hjk Hk; [cbn in Hk; lia|].
  destruct k; [lia|]. cbn in Hk. destruct j; cbn [nth].
  - rewrite Forall_forall in Hall. apply Hall. apply nth_In. lia.
  - apply IH; lia. Qed.
(* std::lower_bound on a range partitioned by (fun x => cmp x v): the partition point *)
Fixpoint lb (l : list Z) (v : Z) : nat := match l with [] => 0 | x :: t => if cmp x v then S (lb t v) else 0 end.
Lemma lb_spec l v : sorted l -> lb l v <= length l /\ (forall j, j < lb l v -> cmp (l @ j) v = true) /\ (lb l v < length l -> cmp (l @ (lb l v)) v = false).
Proof. induction 1 as [|x l Hs IH Hall]; cbn [lb length]; [repeat split; intros; try lia|].
  destruct (cmp x v) eqn:E.
  - destruct IH as (I1 & I2 & I3). repeat split; [lia| |].
    + intros [|j] Hj; cbn [nth]; [assumption|apply I2; lia].
    + intros Hlt. cbn [nth]. apply I3. lia.
  - repeat split; [lia|intros; lia|]. intros _. exact E. Qed.
Lemma lb_unique l v i : sorted l -> i <= length l -> (forall j, j < i -> cmp (l @ j) v = true) -> (i < length l -> cmp (l @ i) v = false) -> i = lb l v.
Proof. intros Hs Hi Hb Ha. destruct (lb_spec l v Hs) as (L1 & L2 & L3).
  destruct (lt_eq_lt_dec i (lb l v)) as [[Hlt|Heq]|Hgt]; [|assumption|].
  - rewrite (L2 i Hlt) in Ha. specialize (Ha ltac:(lia)). discriminate.
  - rewrite (Hb _ Hgt) in L3. specialize (L3 ltac:(lia)). discriminate. Qed.
Lemma In_firstn (l : list Z) k y : In y (firstn k l) -> In y l.
Proof. revert k. induction l as [|x l IH]; intros [|k]; cbn; try tauto. intros [->|H]; [left; reflexivity|right; eauto]. Qed.
Lemma sorted_firstn k l : sorted l -> sorted (firstn k l).
Proof. intros H. revert k. induction H as [|x l Hs IH Hall]; intros [|k]; cbn [firstn]; try constructor.
  - apply IH.
  - apply Forall_forall. intros y Hy. rewrite Forall_forall in Hall. apply Hall. apply (In_firstn l k y Hy). Qed.
Lemma nth_firstn_lt' (l : list Z) k j : j < k -> nth j (firstn k l) 0%Z = nth j l 0%Z.
Proof. revert k j. induction l as [|x l IH]; intros [|k] [|j] H; cbn; try reflexivity; try lia. apply IH. lia. Qed.
Lemma lb_firstn k l v : sorted l -> lb l v <= k -> k <= length l -> lb (firstn k l) v = lb l v.
Proof. intros Hs Hk Hkl. symmetry. destruct (lb_spec l v Hs) as (L1 & L2 & L3).
  apply lb_unique; [apply sorted_firstn; assumption|rewrite firstn_length; lia| |].
  - intros j Hj. rewrite nth_firstn_lt' by lia. apply L2; assumption.   
  - rewrite firstn_length. intros Hlt. rewrite nth_firstn_lt' by lia. apply L3. lia. Qed.
Definition insert_at (i : nat) (v : Z) (l : list Z) := firstn i l ++ v :: skipn i l.
Definition insert_val (l : list Z) (v : Z) : list Z * nat :=
  let i := lb l v in if (i =? length l) || cmp v (l @ i) then (insert_at i v l, i) else (l, i).
(* flatset.hpp:441-478, iterators as offsets from begin() *)
Definition insert_hint (l : list Z) (h : nat) (v : Z) : list Z * nat :=
  let n := length l in
  if (h =? n) || negb (cmp (l @ h) v) then
    let prev := h - 1 in
    if (h =? 0) || negb (cmp v (l @ prev)) then
      if negb (h =? n) && negb (cmp v (l @ h)) then (l, h)
      else if negb (h =? 0) && negb (cmp (l @ prev) v) then (l, prev)
      else (insert_at h v l, h)
    else
      let i := lb (firstn prev l) v in
      if (i =? prev) || cmp v (l @ i) then (insert_at i v l, i) else (l, i)
  else
    let nx := h + 1 in
    if (nx =? n) || negb (cmp (l @ nx) v) then
      if negb (nx =? n) && negb (cmp v (l @ nx)) then (l, nx) else (insert_at nx v l, nx)
    else insert_val l v.
Lemma lb_char l v i : sorted l -> i <= length l -> (i = 0 \/ cmp (l @ (i - 1)) v = true) ->
  (i = length l \/ cmp (l @ i) v = false) -> i = lb l v.
Proof. intros Hs Hi Hp Hn. apply lb_unique; try assumption.
  - intros j Hj. destruct Hp as [->|Hp]; [lia|]. destruct (Nat.eq_dec j (i - 1)) as [->|Hne]; [assumption|].
    apply (trans _ (l @ (i - 1))); [apply sorted_nth; try assumption; lia|assumption].
  - intros Hlt. destruct Hn as [->|Hn]; [lia|assumption]. Qed.
Ltac bsplit := repeat match goal with
  | H : (_ || _) = true |- _ => apply orb_true_iff in H
  | H : (_ || _) = false |- _ => apply orb_false_iff in H; destruct H
  | H : (_ && _) = true |- _ => apply andb_true_iff in H; destruct H
  | H : (_ && _) = false |- _ => apply andb_false_iff in H
  | H : negb _ = true |- _ => apply negb_true_iff in H
  | H : negb _ = false |- _ => apply negb_false_iff in H
  | H : (_ =? _) = true |- _ => apply Nat.eqb_eq in H
  | H : (_ =? _) = false |- _ => apply Nat.eqb_neq in H
  end.
(* --- the plain insertion keeps the list sorted and returns the position of an element equivalent to v --- *)
Lemma sorted_skipn k l : sorted l -> sorted (skipn k l).
Proof. intros H. revert k. induction H as [|x l Hs IH Hall]; intros [|k]; cbn [skipn]; try constructor; auto. Qed.
Lemma sorted_app_cons l1 l2 v : sorted l1 -> sorted l2 ->
  (forall x, In x l1 -> cmp x v = true) -> (forall y, In y l2 -> cmp v y = true) -> sorted (l1 ++ v :: l2).
Proof. intros H1 H2 Ha Hb. induction H1 as [|x l1 Hs IH Hall]; cbn [app].
  - constructor; [assumption|]. apply Forall_forall. assumption.
  - constructor.
    + apply IH. intros y Hy. apply Ha. right. assumption.
    + apply Forall_forall. intros y Hy. apply in_app_or in Hy. destruct Hy as [Hy|[<-|Hy]].
      * rewrite Forall_forall in Hall. apply Hall. assumption.
      * apply Ha. left. reflexivity.
      * apply (trans x v y); [apply Ha; left; reflexivity|apply Hb; assumption]. Qed.
Lemma In_firstn_nth (l : list Z) k y : In y (firstn k l) -> exists j, j < k /\ j < length l /\ l @ j = y.
Proof. revert k. induction l as [|x l IH]; intros [|k]; cbn; try tauto. intros [->|H].
  - exists 0. cbn [length nth]. split; [lia|split; [lia|reflexivity]].
  - destruct (IH k H) as (j & A & B & E). exists (S j). cbn [length nth]. split; [lia|split; [lia|exact E]]. Qed.
Lemma In_skipn_nth (l : list Z) k y : In y (skipn k l) -> exists j, k <= j /\ j < length l /\ l @ j = y.
Proof. revert k. induction l as [|x l IH]; intros [|k]; cbn [skipn]; try (cbn; tauto).
  - intros H. apply (In_nth _ _ 0%Z) in H. destruct H as (j & A & B). exists j. split; [lia|split; assumption].
  - intros H. destruct (IH k H) as (j & A & B & E). exists (S j). cbn [length nth]. split; [lia|split; [lia|exact E]]. Qed.
Lemma nth_insert_at i v l : i <= length l -> insert_at i v l @ i = v.
Proof. intros H. unfold insert_at. rewrite app_nth2 by (rewrite firstn_length; lia). rewrite firstn_length.
  replace (i - Nat.min i (length l)) with 0 by lia. reflexivity. Qed.
Lemma insert_val_ok l v : sorted l ->
  sorted (fst (insert_val l v)) /\ cmp (fst (insert_val l v) @ snd (insert_val l v)) v = false /\ cmp v (fst (insert_val l v) @ snd (insert_val l v)) = false.
Proof. intros Hs. destruct (lb_spec l v Hs) as (L1 & L2 & L3). unfold insert_val.
  destruct ((lb l v =? length l) || cmp v (l @ lb l v)) eqn:C; cbn [fst snd].
  - split; [|rewrite nth_insert_at by assumption; split; apply irrefl].
    unfold insert_at. apply sorted_app_cons; [apply sorted_firstn; assumption|apply sorted_skipn; assumption| |].
    + intros x Hx. destruct (In_firstn_nth _ _ _ Hx) as (j & A & B & <-). apply L2. assumption.
    + intros y Hy. destruct (In_skipn_nth _ _ _ Hy) as (j & A & B & <-).
      apply orb_true_iff in C. destruct C as [C|C]; [apply Nat.eqb_eq in C; lia|].
      destruct (Nat.eq_dec j (lb l v)) as [->|Hne]; [assumption|].
      apply (trans v (l @ lb l v)); [assumption|apply sorted_nth; try assumption; lia].
  - apply orb_false_iff in C. destruct C as [C1 C2]. apply Nat.eqb_neq in C1. split; [assumption|]. split; [apply L3; lia|assumption]. Qed.
Theorem hint_is_hint l h v : sorted l -> h <= length l -> insert_hint l h v = insert_val l v.
Proof. intros Hs Hh. unfold insert_hint.
  destruct ((h =? length l) || negb (cmp (l @ h) v)) eqn:C1.
  - destruct ((h =? 0) || negb (cmp v (l @ (h - 1)))) eqn:C2.
    + destruct (negb (h =? length l) && negb (cmp v (l @ h))) eqn:C3.
      * (* exit 1: *hint equivalent to v *) bsplit.
        assert (Hc : cmp (l @ h) v = false) by (destruct C1 as [C1|C1]; bsplit; [lia|assumption]).
        assert (Hi : h = lb l v). { apply lb_char; auto. destruct (Nat.eq_dec h 0) as [E|E]; [left; assumption|right].
          apply (lt_equiv_r _ (l @ h)); [apply sorted_nth; try assumption; lia|assumption]. }
        unfold insert_val. rewrite <- Hi. destruct (Nat.eqb_spec h (length l)); [lia|]. rewrite H0. reflexivity.
      * destruct (negb (h =? 0) && negb (cmp (l @ (h - 1)) v)) eqn:C4.
        -- (* exit 2: *prev equivalent to v *) bsplit. destruct C2 as [C2|C2]; bsplit; [lia|].
           assert (Hi : h - 1 = lb l v). { apply lb_char; auto; [lia| ].
             destruct (Nat.eq_dec (h - 1) 0) as [E|E]; [left; assumption|right].
             apply (lt_equiv_r _ (l @ (h - 1))); [apply sorted_nth; try assumption; lia|assumption]. }
           unfold insert_val. rewrite <- Hi. destruct (Nat.eqb_spec (h - 1) (length l)); [lia|]. rewrite C2. reflexivity.
        -- (* exit 3: correct hint, insert at hint *) bsplit.
           assert (Hi : h = lb l v). { apply lb_char; auto.
             - destruct C4 as [C4|C4]; bsplit; [left; assumption|right; assumption].
             - destruct C1 as [C1|C1]; bsplit; [left; assumption|right; assumption]. }
           unfold insert_val. rewrite <- Hi. destruct (Nat.eqb_spec h (length l)); [reflexivity|].
           destruct C3 as [C3|C3]; bsplit; [lia|]. rewrite C3. reflexivity.
    + (* exits 4/5: left side not sorted w.r.t. v, binary search in [b, prev) *) bsplit.
      assert (Hle : lb l v <= h - 1). { destruct (lb_spec l v Hs) as (_ & L2 & _). destruct (le_lt_dec (lb l v) (h - 1)); [assumption|].
        pose proof (L2 (h - 1) ltac:(lia)) as Hx. rewrite (asym _ _ H0) in Hx. discriminate. }
      rewrite (lb_firstn (h - 1) l v Hs Hle ltac:(lia)). unfold insert_val.
      destruct (Nat.eqb_spec (lb l v) (length l)); [lia|]. cbn [orb].
      destruct (Nat.eqb_spec (lb l v) (h - 1)) as [E|E]; cbn [orb]; [rewrite E, H0; reflexivity|reflexivity].
  - bsplit. destruct ((h + 1 =? length l) || negb (cmp (l @ (h + 1)) v)) eqn:C2; [|reflexivity].
    (* exits 6/7: v just after hint *)
    assert (Hi : h + 1 = lb l v). { apply lb_char; auto; [lia|right; replace (h + 1 - 1) with h by lia; assumption|].
      bsplit. destruct C2 as [C2|C2]; bsplit; [left; assumption|right; assumption]. }
    unfold insert_val. rewrite <- Hi.
    destruct (Nat.eqb_spec (h + 1) (length l)); cbn [negb andb orb]; [reflexivity|].
    destruct (cmp v (l @ (h + 1))); reflexivity.
Qed.
Lemma hint_result_ok l h v : sorted l -> h <= length l ->
  sorted (fst (insert_hint l h v)) /\ cmp (fst (insert_hint l h v) @ snd (insert_hint l h v)) v = false /\ cmp v (fst (insert_hint l h v) @ snd (insert_hint l h v)) = false.
Proof. intros Hs Hh. rewrite (hint_is_hint l h v Hs Hh). apply insert_val_ok. assumption. Qed.
End Hint.




