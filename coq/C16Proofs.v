(* C16: the integer bookkeeping regenerated from the source under -std=c++11, c++14, c++20 (Gen/L0x<std>_<S>.v) and under
   c++17 (Gen/L0_<S>.v) is proved equal to the same hand model by the same translation-validation file (Gen/TVx<std>_<S>.v,
   Gen/TV_<S>.v); hence the standards agree with each other on every in-range input. *)
From Coq Require Import ZArith Lia Bool.
From Amc Require Import GenPrelude Words.
From Amc.Gen Require L0_u8 L0x11_u8 L0x14_u8 L0x20_u8 L0_s32 L0x11_s32 L0x14_s32 L0x20_s32.
From Amc.Gen Require TV_u8 TVx11_u8 TVx14_u8 TVx20_u8 TV_s32 TVx11_s32 TVx14_s32 TVx20_s32.
Local Open Scope Z_scope.

Definition InRange (M : Z) (s : words) := 0 <= capa_ s <= M /\ 0 <= size_ s <= M.

Lemma u8_std_independent st n : InRange 255 st -> 0 <= n <= 255 ->
  L0x11_u8.sv_setSize st n = L0_u8.sv_setSize st n /\ L0x14_u8.sv_setSize st n = L0_u8.sv_setSize st n /\ L0x20_u8.sv_setSize st n = L0_u8.sv_setSize st n /\
  L0x11_u8.sv_incrSize st = L0_u8.sv_incrSize st /\ L0x14_u8.sv_incrSize st = L0_u8.sv_incrSize st /\ L0x20_u8.sv_incrSize st = L0_u8.sv_incrSize st /\
  L0x11_u8.sv_decrSize st = L0_u8.sv_decrSize st /\ L0x14_u8.sv_decrSize st = L0_u8.sv_decrSize st /\ L0x20_u8.sv_decrSize st = L0_u8.sv_decrSize st /\
  L0x11_u8.sv_capacity st = L0_u8.sv_capacity st /\ L0x14_u8.sv_capacity st = L0_u8.sv_capacity st /\ L0x20_u8.sv_capacity st = L0_u8.sv_capacity st.
Proof. intros H Hn.
  rewrite (TVx11_u8.sv_setSize_tv st n H Hn), (TVx14_u8.sv_setSize_tv st n H Hn), (TVx20_u8.sv_setSize_tv st n H Hn), (TV_u8.sv_setSize_tv st n H Hn).
  rewrite (TVx11_u8.sv_incrSize_tv st H), (TVx14_u8.sv_incrSize_tv st H), (TVx20_u8.sv_incrSize_tv st H), (TV_u8.sv_incrSize_tv st H).
  rewrite (TVx11_u8.sv_decrSize_tv st H), (TVx14_u8.sv_decrSize_tv st H), (TVx20_u8.sv_decrSize_tv st H), (TV_u8.sv_decrSize_tv st H).
  rewrite (TVx11_u8.sv_capacity_tv st H), (TVx14_u8.sv_capacity_tv st H), (TVx20_u8.sv_capacity_tv st H), (TV_u8.sv_capacity_tv st H).
  repeat split; reflexivity. Qed.

Lemma s32_std_independent st n : InRange 2147483647 st -> 0 <= n <= 2147483647 ->
  L0x11_s32.sv_setSize st n = L0_s32.sv_setSize st n /\ L0x14_s32.sv_setSize st n = L0_s32.sv_setSize st n /\ L0x20_s32.sv_setSize st n = L0_s32.sv_setSize st n /\
  L0x11_s32.sv_incrSize st = L0_s32.sv_incrSize st /\ L0x14_s32.sv_incrSize st = L0_s32.sv_incrSize st /\ L0x20_s32.sv_incrSize st = L0_s32.sv_incrSize st.
Proof. intros H Hn.
  rewrite (TVx11_s32.sv_setSize_tv st n H Hn), (TVx14_s32.sv_setSize_tv st n H Hn), (TVx20_s32.sv_setSize_tv st n H Hn), (TV_s32.sv_setSize_tv st n H Hn).
  rewrite (TVx11_s32.sv_incrSize_tv st H), (TVx14_s32.sv_incrSize_tv st H), (TVx20_s32.sv_incrSize_tv st H), (TV_s32.sv_incrSize_tv st H).
  repeat split; reflexivity. Qed.

Lemma growth_std_independent oldCapa newSize exact : 0 <= oldCapa <= 255 -> 0 <= newSize < 2 ^ 63 ->
  L0x11_u8.SafeNextCapacity oldCapa newSize exact = L0_u8.SafeNextCapacity oldCapa newSize exact /\
  L0x14_u8.SafeNextCapacity oldCapa newSize exact = L0_u8.SafeNextCapacity oldCapa newSize exact /\
  L0x20_u8.SafeNextCapacity oldCapa newSize exact = L0_u8.SafeNextCapacity oldCapa newSize exact.
Proof. intros Ho Hn. assert (H62 : oldCapa < 2 ^ 62) by lia.
  rewrite (TVx11_u8.SafeNextCapacity_tv oldCapa newSize exact Ho H62 Hn), (TVx14_u8.SafeNextCapacity_tv oldCapa newSize exact Ho H62 Hn),
          (TVx20_u8.SafeNextCapacity_tv oldCapa newSize exact Ho H62 Hn), (TV_u8.SafeNextCapacity_tv oldCapa newSize exact Ho H62 Hn).
  repeat split; reflexivity. Qed.
