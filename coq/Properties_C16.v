(* C16 - behaviour independent of C++ standard, pedantic mode, assertions, optimisation.  PARTIAL.
   What a source-level model can say: the code the library selects per language standard computes the same function.
   - [C16_word_functions_std_independent_*], [C16_growth_std_independent]: the size/capacity bookkeeping of the three storage
     bases and the growth policy, REGENERATED from clang's AST of the current headers under -std=c++11, c++14, c++17 and c++20,
     agree on every in-range input (each is proved equal to the same hand model by the same translation-validation file);
   - [C16_swap_sizetype_std_independent_*]: the two branches of swap_sizetype's #ifdef AMC_CXX17 ladder (single condition
     before C++17, nested `if constexpr` from C++17) agree, for size-type pairs of different width and of equal width but
     different signedness; the pre-C++17 / C++17 / C++20 variants of the memory algorithms are C15's theorems.
   Assertions, optimisation level, AMC_NONSTD_FEATURES and everything that is not integer bookkeeping have no counterpart in
   the model: they are decided on the implementation - the same fixed-seed script corpus runs through drivers built under
   {c++11, c++14, c++17, c++20} x {assertions, NDEBUG} x {-O0, -O2} (vectors) resp. {c++17, c++20} x ... (sets) and with /
   without AMC_NONSTD_FEATURES (standard operations only); the transcripts must be byte-identical pairwise; compile-fail
   probes show that features a configuration does not offer are absent at compile time. *)
From Coq Require Import ZArith Bool.
From Amc Require Import GenPrelude Words C16Proofs SwapGuardTV.
From Amc.Gen Require L0_u8 L0x11_u8 L0x14_u8 L0x20_u8 L0_s32 L0x11_s32 L0x14_s32 L0x20_s32 SwapGuard.
Local Open Scope Z_scope.

Theorem C16_word_functions_std_independent_u8 :
  forall st n, InRange 255 st -> 0 <= n <= 255 ->
  L0x11_u8.sv_setSize st n = L0_u8.sv_setSize st n /\ L0x14_u8.sv_setSize st n = L0_u8.sv_setSize st n /\ L0x20_u8.sv_setSize st n = L0_u8.sv_setSize st n /\
  L0x11_u8.sv_incrSize st = L0_u8.sv_incrSize st /\ L0x14_u8.sv_incrSize st = L0_u8.sv_incrSize st /\ L0x20_u8.sv_incrSize st = L0_u8.sv_incrSize st /\
  L0x11_u8.sv_decrSize st = L0_u8.sv_decrSize st /\ L0x14_u8.sv_decrSize st = L0_u8.sv_decrSize st /\ L0x20_u8.sv_decrSize st = L0_u8.sv_decrSize st /\
  L0x11_u8.sv_capacity st = L0_u8.sv_capacity st /\ L0x14_u8.sv_capacity st = L0_u8.sv_capacity st /\ L0x20_u8.sv_capacity st = L0_u8.sv_capacity st.
Proof. exact u8_std_independent. Qed.

Theorem C16_word_functions_std_independent_s32 :
  forall st n, InRange 2147483647 st -> 0 <= n <= 2147483647 ->
  L0x11_s32.sv_setSize st n = L0_s32.sv_setSize st n /\ L0x14_s32.sv_setSize st n = L0_s32.sv_setSize st n /\ L0x20_s32.sv_setSize st n = L0_s32.sv_setSize st n /\
  L0x11_s32.sv_incrSize st = L0_s32.sv_incrSize st /\ L0x14_s32.sv_incrSize st = L0_s32.sv_incrSize st /\ L0x20_s32.sv_incrSize st = L0_s32.sv_incrSize st.
Proof. exact s32_std_independent. Qed.

Theorem C16_growth_std_independent :
  forall oldCapa newSize exact, 0 <= oldCapa <= 255 -> 0 <= newSize < 2 ^ 63 ->
  L0x11_u8.SafeNextCapacity oldCapa newSize exact = L0_u8.SafeNextCapacity oldCapa newSize exact /\
  L0x14_u8.SafeNextCapacity oldCapa newSize exact = L0_u8.SafeNextCapacity oldCapa newSize exact /\
  L0x20_u8.SafeNextCapacity oldCapa newSize exact = L0_u8.SafeNextCapacity oldCapa newSize exact.
Proof. exact growth_std_independent. Qed.

Theorem C16_swap_sizetype_std_independent_width :
  forall l r, 0 <= l <= 255 -> 0 <= r <= 4294967295 ->
  SwapGuard.swap_sizetype_cxx11_u8_u32 l r = SwapGuard.swap_sizetype_cxx17_u8_u32 l r /\
  SwapGuard.swap_sizetype_cxx14_u8_u32 l r = SwapGuard.swap_sizetype_cxx20_u8_u32 l r /\
  SwapGuard.swap_sizetype_cxx11_u8_u32 l r = SwapGuard.swap_sizetype_cxx20_u8_u32 l r.
Proof. exact swap_sizetype_std_independent_u8_u32. Qed.

Theorem C16_swap_sizetype_std_independent_signedness :
  forall l r, 0 <= l <= 255 -> 0 <= r <= 127 ->
  SwapGuard.swap_sizetype_cxx11_u8_s8 l r = SwapGuard.swap_sizetype_cxx17_u8_s8 l r /\
  SwapGuard.swap_sizetype_cxx14_u8_s8 l r = SwapGuard.swap_sizetype_cxx20_u8_s8 l r /\
  SwapGuard.swap_sizetype_cxx11_u8_s8 l r = SwapGuard.swap_sizetype_cxx20_u8_s8 l r.
Proof. exact swap_sizetype_std_independent_u8_s8. Qed.
