(* C17 - static contract: executable model of the compile-time facts of amc.

   What is modelled, and where it comes from in /repo/include/amc:
   - type_traits.hpp     has_trivially_relocatable / is_trivially_relocatable_impl / is_trivially_relocatable and its
                         partial specialisation for std::pair                                  -> [is_tr], [is_tr_ty]
   - fixedcapacityvector.hpp  SmallestSizeType<N>                                             -> [smallest_size_type]
   - vectorcommon.hpp    StdVectorBase / SmallVectorBase / StaticVectorBase data members, ElemWithPtrStorage (kNbSlots,
                         alignas(max) uint8_t[max]), VectorWithInplaceStorage::_elems[N - k], NoInlineStorage
                                                                        -> [sizeof_vec], [sizeof_sv], [sizeof_fcv]
                         (Itanium C++ ABI layout written as arithmetic: members are placed in declaration order at the
                         next multiple of their alignment; a derived class places its members after the data size of a
                         non-POD base; sizeof is the data size rounded up to the alignment)
   - vectorcommon.hpp    the three bases' `trivially_relocatable` typedefs, flatset.hpp / smallset.hpp typedefs
                                                                        -> constructors of [ty] and [is_tr_ty]
   - vectorcommon.hpp    DefineDestructor / VectorDestr                                     -> [fcv_triv_dtor]
   - vectorcommon.hpp    is_swap_noexcept, is_shift_nothrow, is_move_construct_nothrow and the noexcept specifications
                         of Vector(Vector&&), operator=(Vector&&), swap             -> [move_ctor_noexcept] ...
   The tie to the code is the check (lib/c17.py): every row printed by the compiler probe is re-evaluated here
   ([check_row]) and must agree.  Everything below computes under vm_compute. *)
From Coq Require Import ZArith Lia List Bool.
Import ListNotations.
Open Scope Z_scope.

(* ------------------------------------------------------------------------------------------------------------ *)
(* Element type descriptors *)

Record desc := mkDesc {
  size : Z;              (* sizeof(T) *)
  align : Z;             (* alignof(T) *)
  tc : bool;             (* std::is_trivially_copyable<T> *)
  decl : option bool;    (* None: no member type `trivially_relocatable`;
                            Some true: it is std::true_type; Some false: it is any other type (std::false_type ...) *)
  triv_dtor : bool;      (* std::is_trivially_destructible<T> *)
  nt_mc : bool;          (* std::is_nothrow_move_constructible<T> *)
  nt_ma : bool;          (* std::is_nothrow_move_assignable<T> *)
  nt_sw : bool           (* amc::is_nothrow_swappable<T> *)
}.

(* type_traits.hpp, following the structure of the templates *)
Definition has_trivially_relocatable (dc : option bool) : bool :=
  match dc with Some _ => true | None => false end.
Definition is_same_true_type (dc : option bool) : bool :=
  match dc with Some b => b | None => false end.
(* is_trivially_relocatable_impl<T, bool>: primary = is_trivially_copyable, <T, true> = is_same<decl, true_type> *)
Definition is_tr_impl (dc : option bool) (tcopy : bool) (has : bool) : bool :=
  if has then is_same_true_type dc else tcopy.
(* the primary template of is_trivially_relocatable, on (declaration, trivially copyable) *)
Definition primary (dc : option bool) (tcopy : bool) : bool :=
  is_tr_impl dc tcopy (has_trivially_relocatable dc).
Definition is_tr (d : desc) : bool := primary (decl d) (tc d).

(* The types the contract talks about.  The containers carry the typedef the headers give them. *)
Inductive ty :=
| Cls (d : desc)                    (* a class / scalar described by d *)
| Pair (t u : ty)                   (* std::pair<T,U>: the partial specialisation *)
| Vec (t : ty)                      (* amc::vector<T, Alloc, S>              StdVectorBase::trivially_relocatable *)
| SVec (t : ty) (n : Z)             (* amc::SmallVector<T, n, Alloc, S>      SmallVectorBase::trivially_relocatable *)
| FCV (t : ty) (n : Z)              (* amc::FixedCapacityVector<T, n>        StaticVectorBase::trivially_relocatable *)
| FlatSet (cmp vec : ty)            (* amc::FlatSet<T, Compare, Alloc, VecType> *)
| SmallSet (vec set : ty).          (* amc::SmallSet<T, N, Compare, Alloc, SetType>, vec = its FixedCapacityVector *)

(* `using trivially_relocatable = ...` of each container, then the primary template reads it
   (none of the containers is trivially copyable: user provided copy constructors) *)
Fixpoint is_tr_ty (t : ty) : bool :=
  match t with
  | Cls d => is_tr d
  | Pair a b => is_tr_ty a && is_tr_ty b
  | Vec _ => primary (Some true) false
  | SVec e n => if n =? 0 then primary (Some true) false            (* SmallVector<T,0> is amc::vector<T> *)
                else primary (Some (is_tr_ty e)) false
  | FCV e _ => primary (Some (is_tr_ty e)) false
  | FlatSet c v => primary (Some (is_tr_ty c && is_tr_ty v)) false
  | SmallSet v s => primary (Some (is_tr_ty v && is_tr_ty s)) false
  end.

Definition vec_tr : bool := is_tr_ty (Vec (Cls (mkDesc 1 1 true None true true true true))).
Definition sv_tr (d : desc) (n : Z) : bool := is_tr_ty (SVec (Cls d) n).
Definition fcv_tr (d : desc) (n : Z) : bool := is_tr_ty (FCV (Cls d) n).
Definition flatset_tr (cmp vec : ty) : bool := is_tr_ty (FlatSet cmp vec).
Definition smallset_tr (vec set : ty) : bool := is_tr_ty (SmallSet vec set).

(* ------------------------------------------------------------------------------------------------------------ *)
(* SmallestSizeType<N>: width in bits *)

Definition smallest_size_type (N : Z) : Z :=
  if N <=? 255 then 8 else if N <=? 65535 then 16 else if N <=? 4294967295 then 32 else 64.
Definition widths : list Z := [8; 16; 32; 64].
Definition max_of_width (w : Z) : Z := 2 ^ w - 1.

(* ------------------------------------------------------------------------------------------------------------ *)
(* Layout *)

Definition up (x a : Z) : Z := ((x + a - 1) / a) * a.
Definition ptr : Z := 8.   (* sizeof(void * ) = alignof(void * ) on the verified platform (LP64) *)

(* a class under construction: data size so far and alignment so far *)
Record lay := mkLay { dsize : Z; lalign : Z }.
Definition lay0 : lay := mkLay 0 1.
(* next non-static data member of size sz and alignment al *)
Definition field (l : lay) (sz al : Z) : lay := mkLay (up (dsize l) al + sz) (Z.max (lalign l) al).
Definition sizeof_lay (l : lay) : Z := up (dsize l) (lalign l).

(* StdVectorBase<T,Alloc,S> : private Alloc (empty base) { S _capa; S _size; T* _storage; } *)
Definition lay_vec (w : Z) : lay := field (field (field lay0 w w) w w) ptr ptr.
Definition sizeof_vec (w : Z) : Z := sizeof_lay (lay_vec w).

(* ElemWithPtrStorage<T>: alignas(max(alignof T, alignof T* )) uint8_t _el[max(sizeof T, sizeof T* )] *)
Definition ewps_align (a : Z) : Z := Z.max a ptr.
Definition ewps_size (s a : Z) : Z := up (Z.max s ptr) (ewps_align a).
Definition k_slots (s : Z) : Z := Z.max (ptr / s) 1.                              (* kNbSlots *)
(* SmallVectorBase<T,Alloc,S> : private Alloc { S _capa, _size; ElemWithPtrStorage<T> _storage; } *)
Definition lay_svbase (s a w : Z) : lay := field (field (field lay0 w w) w w) (ewps_size s a) (ewps_align a).
(* NoInlineStorage<T, DynamicGrowingPolicy, N> *)
Definition no_inline_sv (s N : Z) : bool := (N <=? k_slots s) || (N =? 0) || (N =? 1).
(* VectorWithInplaceStorage adds ElemStorage<T> _elems[N - kNbSlots] unless NoInlineStorage *)
Definition lay_sv (s a w N : Z) : lay :=
  if no_inline_sv s N then lay_svbase s a w else field (lay_svbase s a w) ((N - k_slots s) * s) a.
(* SmallVector<T,0> is amc::vector (WithInlineElements = (N != 0) selects StdVectorBase) *)
Definition sizeof_sv (s a w N : Z) : Z := if N =? 0 then sizeof_vec w else sizeof_lay (lay_sv s a w N).

(* StaticVectorBase<T,S> { const S _capa; S _size; ElemStorage<T> _firstEl; }, then _elems[N - 1] when N > 1 *)
Definition lay_fcvbase (s a w : Z) : lay := field (field (field lay0 w w) w w) s a.
Definition no_inline_fcv (N : Z) : bool := (N =? 0) || (N =? 1).
Definition lay_fcv (s a w N : Z) : lay :=
  if no_inline_fcv N then lay_fcvbase s a w else field (lay_fcvbase s a w) ((N - 1) * s) a.
Definition sizeof_fcv (s a w N : Z) : Z := sizeof_lay (lay_fcv s a w N).
(* FixedCapacityVector<T,N> with its default size_type *)
Definition fcv_size_type_bytes (N : Z) : Z := smallest_size_type N / 8.
Definition sizeof_fcv_default (s a N : Z) : Z := sizeof_fcv s a (fcv_size_type_bytes N) N.

(* ------------------------------------------------------------------------------------------------------------ *)
(* Trivial destructibility of FixedCapacityVector: DefineDestructor<T, WithInlineElements = true> *)
Definition define_destructor (d : desc) (with_inline : bool) : bool :=
  if with_inline then negb (triv_dtor d) else true.
(* every other member is trivially destructible, so the class is iff no destructor is defined (N >= 1) *)
Definition fcv_triv_dtor (d : desc) : bool := negb (define_destructor d true).

(* ------------------------------------------------------------------------------------------------------------ *)
(* noexcept specifications *)
Definition is_swap_noexcept (d : desc) : bool := nt_mc d && nt_sw d.
Definition is_shift_nothrow (d : desc) : bool := is_tr d || (nt_mc d && nt_ma d).
Definition is_move_construct_nothrow (d : desc) : bool := is_tr d || nt_mc d.
Definition move_ctor_noexcept (N : Z) (d : desc) : bool := (N =? 0) || is_move_construct_nothrow d.
Definition move_assign_noexcept (N : Z) (d : desc) : bool := (N =? 0) || is_shift_nothrow d.
Definition swap_noexcept (N : Z) (d : desc) : bool := (N =? 0) || is_swap_noexcept d.

(* ------------------------------------------------------------------------------------------------------------ *)
(* Rows of the compiler probe (harness/cpp/c17probe_gen.py) and their evaluation in the model *)

Definition b2z (b : bool) : Z := if b then 1 else 0.
Definition skip (n : nat) : list Z := repeat (-1) n.

(* helper types of the probe *)
Definition d_int : desc := mkDesc 4 4 true None true true true true.
Definition d_NT : desc := mkDesc 4 4 false None true true true true.        (* probe::NT *)
Definition d_TD : desc := mkDesc 4 4 false (Some true) true true true true. (* probe::TD *)
Definition d_less : desc := mkDesc 1 1 true None true true true true.       (* std::less<T> *)
Definition d_cmpN : desc := mkDesc 4 4 false None true true true true.      (* probe::CmpN<T> *)
Definition d_cmpD : desc := mkDesc 4 4 false (Some true) true true true true. (* probe::CmpD<T> *)
Definition d_stdset : desc := mkDesc 48 8 false None false true true true.  (* std::set: no declaration, not t.c. *)

Record row := mkRow {
  rid : Z;
  rd : desc;            (* descriptor of T: fields observed from the compiler, decl from the generator *)
  rN : Z;
  rw : Z;               (* sizeof(size_type) given to vector / SmallVector *)
  rsets : bool;         (* the N-dependent set instantiations are probed for this row *)
  rsmallset : bool;     (* SmallSet exists (C++17 and later) *)
  robs : list Z         (* the compiler's constants, in the order of [predict] *)
}.

Definition sv_legal (N w : Z) : bool := N <? 2 ^ (8 * w) - 1.
Definition fcv_legal (N : Z) : bool := 1 <=? N.
Definition ss_legal (N : Z) : bool := (1 <=? N) && (N <=? 64).

Definition noexcepts (N : Z) (d : desc) : list Z :=
  [b2z (move_ctor_noexcept N d); b2z (move_assign_noexcept N d); b2z (swap_noexcept N d); b2z (swap_noexcept N d)].

Definition predict (r : row) : list Z :=
  let d := rd r in let N := rN r in let w := rw r in
  let s := size d in let a := align d in
  let T := Cls d in
  let V := Vec T in let SV := SVec T N in let F := FCV T N in
  (* T and pairs *)
  [b2z (is_tr d);
   b2z (is_tr_ty (Pair T T)); b2z (is_tr_ty (Pair T (Cls d_int))); b2z (is_tr_ty (Pair T (Cls d_NT)));
   b2z (is_tr_ty (Pair (Cls d_TD) T)); b2z (is_tr_ty (Pair (Pair T (Cls d_int)) T));
   b2z (is_tr_ty (Pair (Cls d_NT) (Cls d_NT)))]
  (* amc::vector<T, alloc, S> *)
  ++ [sizeof_vec w; b2z (is_tr_ty V)] ++ noexcepts 0 d
  (* amc::SmallVector<T, N, alloc, S> *)
  ++ (if sv_legal N w then [sizeof_sv s a w N; b2z (is_tr_ty SV)] ++ noexcepts N d else skip 6)
  (* amc::FixedCapacityVector<T, N> *)
  ++ (if fcv_legal N then [sizeof_fcv_default s a N; fcv_size_type_bytes N; b2z (is_tr_ty F); b2z (fcv_triv_dtor d)]
                          ++ noexcepts N d else skip 8)
  (* FlatSet over amc::vector *)
  ++ [b2z (flatset_tr (Cls d_less) V); b2z (flatset_tr (Cls d_cmpN) V); b2z (flatset_tr (Cls d_cmpD) V)]
  (* FlatSet over SmallVector / FixedCapacityVector *)
  ++ (if sv_legal N w && rsets r then [b2z (flatset_tr (Cls d_less) SV); b2z (flatset_tr (Cls d_cmpN) SV)] else skip 2)
  ++ (if fcv_legal N && rsets r then [b2z (flatset_tr (Cls d_less) F); b2z (flatset_tr (Cls d_cmpN) F)] else skip 2)
  (* SmallSet<T, N>: std::set backing, FlatSet backing with three comparators *)
  ++ (if ss_legal N && rsets r && rsmallset r then
        [b2z (smallset_tr F (Cls d_stdset));
         b2z (smallset_tr F (FlatSet (Cls d_less) V));
         b2z (smallset_tr F (FlatSet (Cls d_cmpN) V));
         b2z (smallset_tr F (FlatSet (Cls d_cmpD) V))]
      else skip 4).

Fixpoint list_eqb (l1 l2 : list Z) : bool :=
  match l1, l2 with
  | [], [] => true
  | x :: l1', y :: l2' => (x =? y) && list_eqb l1' l2'
  | _, _ => false
  end.

Definition check_row (r : row) : bool := list_eqb (predict r) (robs r).

(* the rows on which model and compiler disagree, with what the model says *)
Definition mismatches (rows : list row) : list (Z * list Z) :=
  map (fun r => (rid r, predict r)) (filter (fun r => negb (check_row r)) rows).
