(* Proofs about the set models (SetModel.v): sortedness invariants, lookups against their linear specifications,
   bulk insertion = repeated single insertion (first of equivalent elements wins), SmallSet abstraction. *)
From Coq Require Import ZArith List Bool Arith Lia Sorted Permutation.
From Amc Require Import Hint SetModel.
Import ListNotations.

Section SW.
Variable cmp : Z -> Z -> bool.
Hypothesis irrefl : forall x, cmp x x = false.
Hypothesis trans : forall x y z, cmp x y = true -> cmp y z = true -> cmp x z = true.
Hypothesis negtrans : forall x y z, cmp x y = false -> cmp y z = false -> cmp x z = false.
Local Notation sorted := (sorted cmp).
Local Notation eqv := (eqv cmp).
Local Notation "l @ i" := (nth i l 0%Z) (at level 20).

Lemma eqv_refl x : eqv x x = true. Proof. unfold SetModel.eqv. rewrite irrefl. reflexivity. Qed.
Lemma eqv_sym x y : eqv x y = eqv y x. Proof. unfold SetModel.eqv. apply andb_comm. Qed.
Lemma eqv_true x y : eqv x y = true <-> cmp x y = false /\ cmp y x = false.
Proof. unfold SetModel.eqv. rewrite andb_true_iff, !negb_true_iff. tauto. Qed.
Lemma eqv_trans x y z : eqv x y = true -> eqv y z = true -> eqv x z = true.
Proof. rewrite !eqv_true. intros [A B] [C D]. split; eapply negtrans; eauto. Qed.
Lemma lt_eqv_l x y z : eqv x y = true -> cmp x z = cmp y z.
Proof. rewrite eqv_true. intros [A B]. destruct (cmp x z) eqn:E1, (cmp y z) eqn:E2; try reflexivity.
  - pose proof (negtrans _ _ _ A E2). congruence.
  - pose proof (negtrans _ _ _ B E1). congruence. Qed.
Lemma lt_eqv_r x y z : eqv x y = true -> cmp z x = cmp z y.
Proof. rewrite eqv_true. intros [A B]. destruct (cmp z x) eqn:E1, (cmp z y) eqn:E2; try reflexivity.
  - pose proof (negtrans _ _ _ E2 B). congruence.
  - pose proof (negtrans _ _ _ E1 A). congruence. Qed.

(* ---- sorted lists --------------------------------------------------------------------------------------------- *)
Lemma sorted_app a b : sorted (a ++ b) <-> sorted a /\ sorted b /\ (forall x y, In x a -> In y b -> cmp x y = true).
Proof. induction a as [|h a IH]; cbn [app].
  - split; [intros H; repeat split; [constructor|assumption|intros x y []]|tauto].
  - split.
    + intros H. inversion H as [|? ? Hs Hf]; subst. apply IH in Hs. destruct Hs as (A & B & C). rewrite Forall_forall in Hf.
      repeat split; [constructor; [assumption|apply Forall_forall; intros; apply Hf; apply in_or_app; auto]|assumption|].
      intros x y [<-|Hx] Hy; [apply Hf; apply in_or_app; auto|apply C; assumption].
    + intros (A & B & C). inversion A as [|? ? Hs Hf]; subst. rewrite Forall_forall in Hf. constructor.
      * apply IH. repeat split; try assumption. intros; apply C; [right|]; assumption.
      * apply Forall_forall. intros y Hy. apply in_app_or in Hy. destruct Hy; [apply Hf; assumption|apply C; [left; reflexivity|assumption]]. Qed.

Lemma In_firstn (l : list Z) k y : In y (firstn k l) -> In y l.
Proof. intros H. rewrite <- (firstn_skipn k l). apply in_or_app. auto. Qed.
Lemma In_skipn (l : list Z) k y : In y (skipn k l) -> In y l.
Proof. intros H. rewrite <- (firstn_skipn k l). apply in_or_app. auto. Qed.

Lemma sorted_cut l i j : sorted l -> i <= j -> sorted (firstn i l ++ skipn j l).
Proof. intros Hs Hij. apply sorted_app. repeat split; [apply sorted_firstn; assumption|apply sorted_skipn; assumption|].
  intros x y Hx Hy. destruct (In_firstn_nth l i x Hx) as (a & A1 & A2 & <-). destruct (In_skipn_nth l j y Hy) as (b & B1 & B2 & <-).
  apply (sorted_nth cmp l); try assumption; lia. Qed.
Lemma sorted_remove_at l i : sorted l -> sorted (remove_at i l).
Proof. intros. apply sorted_cut; [assumption|lia]. Qed.

(* strictly sorted lists are determined by their elements *)
Lemma sorted_In_head x l y : sorted (x :: l) -> In y (x :: l) -> y = x \/ cmp x y = true.
Proof. intros H [<-|Hy]; [left; reflexivity|right]. inversion H as [|? ? _ Hf]; subst. rewrite Forall_forall in Hf. apply Hf. assumption. Qed.
Lemma sorted_ext l1 : forall l2, sorted l1 -> sorted l2 -> (forall x, In x l1 <-> In x l2) -> l1 = l2.
Proof. induction l1 as [|x l1 IH]; intros [|y l2] H1 H2 HI.
  - reflexivity.
  - exfalso. apply (proj2 (HI y)). left. reflexivity.
  - exfalso. apply (proj1 (HI x)). left. reflexivity.
  - assert (x = y).
    { destruct (sorted_In_head y l2 x H2 (proj1 (HI x) (or_introl eq_refl))) as [E|E]; [assumption|].
      destruct (sorted_In_head x l1 y H1 (proj2 (HI y) (or_introl eq_refl))) as [E'|E']; [symmetry; assumption|].
      pose proof (trans _ _ _ E E'). rewrite irrefl in H. discriminate. }
    subst y. f_equal. inversion H1 as [|? ? S1 F1]; inversion H2 as [|? ? S2 F2]; subst. rewrite Forall_forall in F1, F2.
    apply IH; try assumption. intros z. split; intros Hz.
    + destruct (proj1 (HI z) (or_intror Hz)) as [<-|]; [|assumption]. pose proof (F1 _ Hz). rewrite irrefl in H. discriminate.
    + destruct (proj2 (HI z) (or_intror Hz)) as [<-|]; [|assumption]. pose proof (F2 _ Hz). rewrite irrefl in H. discriminate. Qed.

(* ---- lower bound / find ------------------------------------------------------------------------------------------ *)
Lemma lb_le l v : lb cmp l v <= length l.
Proof. induction l; cbn; [lia|]. destruct (cmp a v); lia. Qed.
Lemma filter_none (f : Z -> bool) l : (forall y, In y l -> f y = false) -> filter f l = [].
Proof. induction l as [|a l IH]; intros H; cbn; [reflexivity|]. rewrite (H a (or_introl eq_refl)). apply IH. intros; apply H; right; assumption. Qed.
Lemma lb_count l v : sorted l -> lb cmp l v = length (filter (fun x => cmp x v) l).
Proof. induction 1 as [|x l Hs IH Hf]; cbn [lb filter]; [reflexivity|]. destruct (cmp x v) eqn:E; [cbn; f_equal; assumption|].
  rewrite Forall_forall in Hf. rewrite filter_none; [reflexivity|].
  intros y Hy. destruct (cmp y v) eqn:E2; [|reflexivity]. pose proof (trans _ _ _ (Hf y Hy) E2). congruence. Qed.

Definition has_eqv (l : list Z) (v : Z) : bool := existsb (fun x => eqv x v) l.

Lemma fs_find_spec l v : sorted l ->
  (fs_find cmp l v < length l -> eqv (l @ fs_find cmp l v) v = true /\ has_eqv l v = true) /\
  (fs_find cmp l v = length l -> has_eqv l v = false) /\ fs_find cmp l v <= length l.
Proof. intros Hs. destruct (lb_spec cmp l v Hs) as (L1 & L2 & L3). unfold fs_find.
  destruct (Nat.eqb_spec (lb cmp l v) (length l)) as [E|E]; cbn [orb].
  - split; [lia|]. split; [|lia]. intros _. unfold has_eqv. apply not_true_is_false. intros H. apply existsb_exists in H.
    destruct H as (x & Hx & He). apply (In_nth _ _ 0%Z) in Hx. destruct Hx as (j & Hj & <-).
    apply eqv_true in He. pose proof (L2 j ltac:(lia)). destruct He. congruence.
  - destruct (cmp v (l @ lb cmp l v)) eqn:C.
    + split; [lia|]. split; [|lia]. intros _. unfold has_eqv. apply not_true_is_false. intros H. apply existsb_exists in H.
      destruct H as (x & Hx & He). apply (In_nth _ _ 0%Z) in Hx. destruct Hx as (j & Hj & <-). apply eqv_true in He. destruct He as [E1 E2].
      destruct (lt_eq_lt_dec j (lb cmp l v)) as [[Hlt|Heq]|Hgt].
      * pose proof (L2 j Hlt). congruence.
      * subst j. congruence.
      * pose proof (sorted_nth cmp l Hs (lb cmp l v) j Hgt Hj) as S. pose proof (trans _ _ _ C S). congruence.
    + split; [|split; [intros; lia|lia]]. intros _. assert (Q : eqv (l @ lb cmp l v) v = true) by (apply eqv_true; split; [apply L3; lia|assumption]).
      split; [assumption|]. unfold has_eqv. apply existsb_exists. exists (l @ lb cmp l v). split; [apply nth_In; lia|assumption]. Qed.

(* ---- single insertion (FlatSet::insert_val, the backing set's insert) ---------------------------------------------- *)
Definition ins (acc : list Z) (x : Z) : list Z := fst (insert_val cmp acc x).

Lemma In_insert_at i v (l : list Z) y : In y (insert_at i v l) <-> y = v \/ In y l.
Proof. unfold insert_at. rewrite in_app_iff. cbn [In]. split.
  - intros [H|[H|H]]; [right; eapply In_firstn; eassumption|left; symmetry; assumption|right; eapply In_skipn; eassumption].
  - intros [->|H]; [right; left; reflexivity|]. rewrite <- (firstn_skipn i l) in H. apply in_app_or in H. tauto. Qed.

Lemma insert_cond l v : sorted l ->
  ((lb cmp l v =? length l) || cmp v (l @ lb cmp l v)) = negb (has_eqv l v).
Proof. intros Hs. destruct (fs_find_spec l v Hs) as (F1 & F2 & F3). unfold fs_find in *.
  destruct ((lb cmp l v =? length l) || cmp v (l @ lb cmp l v)) eqn:C.
  - rewrite (F2 eq_refl). reflexivity.
  - pose proof (lb_le l v). apply orb_false_iff in C. destruct C as [C _]. apply Nat.eqb_neq in C.
    destruct (F1 ltac:(lia)) as [_ ->]. reflexivity. Qed.

Lemma ins_In acc x y : sorted acc -> (In y (ins acc x) <-> In y acc \/ (y = x /\ has_eqv acc x = false)).
Proof. intros Hs. unfold ins, insert_val. rewrite (insert_cond acc x Hs). destruct (has_eqv acc x); cbn [negb fst].
  - intuition discriminate.
  - rewrite In_insert_at. intuition. Qed.
Lemma ins_sorted acc x : sorted acc -> sorted (ins acc x).
Proof. intros Hs. apply (insert_val_ok cmp irrefl trans acc x Hs). Qed.
Lemma ins_size acc x : sorted acc -> length (ins acc x) = if has_eqv acc x then length acc else S (length acc).
Proof. intros Hs. unfold ins, insert_val. rewrite (insert_cond acc x Hs). destruct (has_eqv acc x); cbn [negb fst]; [reflexivity|].
  unfold insert_at. rewrite app_length. cbn [length]. rewrite firstn_length, skipn_length. pose proof (lb_le acc x). lia. Qed.

Lemma has_eqv_true l v : has_eqv l v = true <-> exists z, In z l /\ eqv z v = true.
Proof. unfold has_eqv. apply existsb_exists. Qed.
Lemma has_eqv_ins acc x y : sorted acc -> has_eqv (ins acc x) y = has_eqv acc y || eqv x y.
Proof. intros Hs. apply eq_true_iff_eq. rewrite orb_true_iff, !has_eqv_true. split.
  - intros (z & Hz & E). apply (ins_In acc x z Hs) in Hz. destruct Hz as [Hz|[-> _]]; [left; eauto|right; assumption].
  - intros [(z & Hz & E)|E].
    + exists z. split; [apply ins_In; [assumption|left; assumption]|assumption].
    + destruct (has_eqv acc x) eqn:H.
      * apply has_eqv_true in H. destruct H as (z & Hz & E'). exists z. split; [apply ins_In; auto|eapply eqv_trans; eauto].
      * exists x. split; [apply ins_In; auto|assumption]. Qed.

(* y is the first element of its equivalence class in xs *)
Definition first_of (xs : list Z) (y : Z) : Prop := hd_error (filter (fun z => eqv z y) xs) = Some y.
Lemma first_of_cons x t y : first_of (x :: t) y <-> (eqv x y = true /\ x = y) \/ (eqv x y = false /\ first_of t y).
Proof. unfold first_of. cbn [filter]. destruct (eqv x y); cbn [hd_error]; split.
  - intros [= ->]. left. auto.
  - intros [[_ ->]|[H _]]; [reflexivity|discriminate].
  - intros H. right. auto.
  - intros [[H _]|[_ H]]; [discriminate|assumption]. Qed.

Definition fold_ins (xs acc : list Z) : list Z := fold_left ins xs acc.
Lemma fold_ins_sorted xs : forall acc, sorted acc -> sorted (fold_ins xs acc).
Proof. induction xs as [|x t IH]; intros acc H; cbn; [assumption|]. apply IH. apply ins_sorted. assumption. Qed.
Lemma fold_ins_In xs y : forall acc, sorted acc ->
  (In y (fold_ins xs acc) <-> In y acc \/ (has_eqv acc y = false /\ first_of xs y)).
Proof. induction xs as [|x t IH]; intros acc Hs; cbn [fold_ins fold_left].
  - unfold first_of. cbn. intuition discriminate.
  - change (fold_left ins t (ins acc x)) with (fold_ins t (ins acc x)).
    rewrite (IH (ins acc x) (ins_sorted acc x Hs)). rewrite (ins_In acc x y Hs), (has_eqv_ins acc x y Hs), first_of_cons.
    rewrite orb_false_iff. split.
    + intros [[H|[-> H]]|[[H1 H2] H3]].
      * left; assumption.
      * right. split; [|left; split; [apply eqv_refl|reflexivity]].
        destruct (has_eqv acc x) eqn:E; [discriminate|reflexivity].
      * right. split; [assumption|right; split; assumption].
    + intros [H|[H1 [[H2 ->]|[H2 H3]]]].
      * left; left; assumption.
      * left; right. split; [reflexivity|assumption].
      * right. split; [split; assumption|assumption].
Qed.

(* ---- the bulk path: stable sort, stable merge, unique ------------------------------------------------------------- *)
(* weakly sorted: no element is followed (anywhere) by a strictly smaller one *)
Definition wsorted (l : list Z) : Prop := StronglySorted (fun a b => cmp b a = false) l.

Lemma sinsert_In x l y : In y (sinsert cmp x l) <-> y = x \/ In y l.
Proof. induction l as [|a l IH]; cbn [sinsert]; [cbn; intuition|]. destruct (cmp a x); cbn [In]; [rewrite IH|]; intuition. Qed.
Lemma sinsert_wsorted x l : wsorted l -> wsorted (sinsert cmp x l).
Proof. induction 1 as [|a l Hs IH Hf]; cbn [sinsert]; [constructor; [constructor|constructor]|].
  rewrite Forall_forall in Hf. destruct (cmp a x) eqn:E.
  - constructor; [assumption|]. apply Forall_forall. intros y Hy. apply sinsert_In in Hy. destruct Hy as [->|Hy]; [|apply Hf; assumption].
    destruct (cmp x a) eqn:E2; [|reflexivity]. pose proof (trans _ _ _ E E2). rewrite irrefl in H. discriminate.
  - constructor; [constructor; [assumption|apply Forall_forall; assumption]|]. apply Forall_forall. intros y [<-|Hy]; [assumption|].
    apply (negtrans y a x); [apply Hf; assumption|assumption]. Qed.
Lemma ssort_wsorted l : wsorted (ssort cmp l).
Proof. induction l; cbn; [constructor|apply sinsert_wsorted; assumption]. Qed.
(* stability of the insertion: equivalent elements keep their relative order (x first) *)
Lemma sinsert_filter x l y : wsorted l ->
  filter (fun z => eqv z y) (sinsert cmp x l) = filter (fun z => eqv z y) (x :: l).
Proof. induction 1 as [|a l Hs IH Hf]; cbn [sinsert]; [reflexivity|]. destruct (cmp a x) eqn:E; [|reflexivity].
  cbn [filter] in *. rewrite IH. destruct (eqv a y) eqn:Ea, (eqv x y) eqn:Ex; try reflexivity.
  (* a < x but both equivalent to y: impossible *)
  exfalso. rewrite eqv_sym in Ex. pose proof (eqv_trans _ _ _ Ea Ex) as H. apply eqv_true in H. destruct H. congruence. Qed.
Lemma ssort_filter l y : filter (fun z => eqv z y) (ssort cmp l) = filter (fun z => eqv z y) l.
Proof. induction l as [|x l IH]; cbn [ssort fold_right]; [reflexivity|]. change (fold_right (sinsert cmp) [] l) with (ssort cmp l).
  rewrite sinsert_filter by apply ssort_wsorted. cbn [filter]. rewrite IH. reflexivity. Qed.

Lemma smerge_nil_r a : smerge cmp a [] = a. Proof. destruct a; reflexivity. Qed.
Lemma smerge_In a : forall b y, In y (smerge cmp a b) <-> In y a \/ In y b.
Proof. induction a as [|x a IHa]; intros b y; [cbn; destruct b; cbn; intuition|].
  induction b as [|z b IHb]; [cbn; intuition|]. cbn [smerge]. destruct (cmp z x).
  - cbn [In]. change ((fix inner (b0 : list Z) : list Z := match b0 with [] => x :: a | y0 :: b' => if cmp y0 x then y0 :: inner b' else x :: smerge cmp a b0 end) b) with (smerge cmp (x :: a) b).
    rewrite IHb. cbn [In]. intuition.
  - cbn [In]. rewrite IHa. cbn [In]. intuition. Qed.
Lemma smerge_filter a : forall b y, wsorted a -> wsorted b ->
  filter (fun z => eqv z y) (smerge cmp a b) = filter (fun z => eqv z y) a ++ filter (fun z => eqv z y) b.
Proof. induction a as [|x a IHa]; intros b y Ha Hb; [destruct b; reflexivity|].
  induction b as [|z b IHb]; [rewrite smerge_nil_r, app_nil_r; reflexivity|]. cbn [smerge]. destruct (cmp z x) eqn:E.
  - change ((fix inner (b0 : list Z) : list Z := match b0 with [] => x :: a | y0 :: b' => if cmp y0 x then y0 :: inner b' else x :: smerge cmp a b0 end) b) with (smerge cmp (x :: a) b).
    inversion Hb as [|? ? Hb' Hfb]; subst. cbn [filter]. rewrite (IHb Hb'). cbn [filter].
    destruct (eqv z y) eqn:Ez; [|reflexivity].
    (* z < x and z ~ y: then nothing in x :: a is equivalent to y *)
    assert (Hno : filter (fun z0 => eqv z0 y) (x :: a) = []).
    { apply filter_none. intros u Hu. destruct (eqv u y) eqn:Eu; [|reflexivity]. exfalso.
      rewrite eqv_sym in Ez. pose proof (eqv_trans _ _ _ Eu Ez) as Q. apply eqv_true in Q. destruct Q as [Q1 Q2].
      destruct Hu as [<-|Hu]; [congruence|]. inversion Ha as [|? ? _ Hfa]; subst. rewrite Forall_forall in Hfa.
      pose proof (Hfa u Hu) as W.
      (* z < x, not (u < x), hence z < u: contradicts Q2 *)
      destruct (cmp z u) eqn:Ezu; [congruence|]. pose proof (negtrans _ _ _ Ezu W). congruence. }
    cbn [filter] in Hno. rewrite Hno. reflexivity.
  - inversion Ha as [|? ? Ha' Hfa]; subst. cbn [filter]. rewrite (IHa (z :: b) y Ha' Hb). cbn [filter].
    destruct (eqv x y); reflexivity. Qed.
Lemma smerge_wsorted a : forall b, wsorted a -> wsorted b -> wsorted (smerge cmp a b).
Proof. induction a as [|x a IHa]; intros b Ha Hb; [destruct b; assumption|].
  induction b as [|z b IHb]; [rewrite smerge_nil_r; assumption|]. cbn [smerge]. destruct (cmp z x) eqn:E.
  - change ((fix inner (b0 : list Z) : list Z := match b0 with [] => x :: a | y0 :: b' => if cmp y0 x then y0 :: inner b' else x :: smerge cmp a b0 end) b) with (smerge cmp (x :: a) b).
    inversion Hb as [|? ? Hb' Hfb]; subst. constructor; [apply IHb; assumption|]. apply Forall_forall. intros u Hu. apply smerge_In in Hu.
    rewrite Forall_forall in Hfb. destruct Hu as [[<-|Hu]|Hu]; [| |apply Hfb; assumption].
    + destruct (cmp x z) eqn:E2; [|reflexivity]. pose proof (trans _ _ _ E E2). rewrite irrefl in H. discriminate.
    + inversion Ha as [|? ? _ Hfa]; subst. rewrite Forall_forall in Hfa. pose proof (Hfa u Hu) as W.
      destruct (cmp u z) eqn:E2; [|reflexivity]. pose proof (trans _ _ _ E2 E). congruence.
  - inversion Ha as [|? ? Ha' Hfa]; subst. constructor; [apply IHa; assumption|]. apply Forall_forall. intros u Hu. apply smerge_In in Hu.
    rewrite Forall_forall in Hfa. destruct Hu as [Hu|[<-|Hu]]; [apply Hfa; assumption|assumption|].
    inversion Hb as [|? ? _ Hfb]; subst. rewrite Forall_forall in Hfb. apply (negtrans u z x); [apply Hfb; assumption|assumption]. Qed.

(* ---- std::unique over a weakly sorted sequence keeps exactly the first element of every class ---------------------- *)
Lemma first_of_In xs y : first_of xs y -> In y xs.
Proof. unfold first_of. intros H. assert (In y (filter (fun z => eqv z y) xs)) by (destruct (filter (fun z => eqv z y) xs); inversion H; left; reflexivity).
  apply filter_In in H0. tauto. Qed.
Lemma uniq_hd s : hd_error (uniq cmp s) = hd_error s.
Proof. destruct s; reflexivity. Qed.
Lemma wsorted_hd_le x t y : wsorted (x :: t) -> In y t -> cmp y x = false.
Proof. intros H Hy. inversion H as [|? ? _ Hf]; subst. rewrite Forall_forall in Hf. apply Hf. assumption. Qed.

Lemma uniq_spec s : wsorted s -> sorted (uniq cmp s) /\ (forall y, In y (uniq cmp s) <-> first_of s y).
Proof. induction 1 as [|x t Ht IH Hf]; [split; [constructor|intros y; unfold first_of; cbn; intuition discriminate]|].
  destruct IH as [IHs IHi]. rewrite Forall_forall in Hf. cbn [uniq]. pose proof (uniq_hd t) as Hhd.
  destruct (uniq cmp t) as [|y0 t'] eqn:Eu.
  - (* t is empty *) destruct t as [|a t]; [|cbn in Hhd; discriminate]. split; [constructor; constructor|].
    intros y. rewrite first_of_cons. cbn [In]. split.
    + intros [<-|[]]. left. split; [apply eqv_refl|reflexivity].
    + intros [[_ ->]|[_ H]]; [left; reflexivity|]. unfold first_of in H. cbn in H. discriminate.
  - assert (Hy0 : In y0 t) by (destruct t as [|a t]; cbn in Hhd; inversion Hhd; left; reflexivity).
    assert (Hy0h : forall u, In u t -> cmp u y0 = false).
    { intros u Hu. destruct t as [|a t]; [destruct Hu|]. cbn in Hhd. inversion Hhd; subst a. destruct Hu as [<-|Hu]; [apply irrefl|].
      apply (wsorted_hd_le y0 t u Ht Hu). }
    inversion IHs as [|? ? IHs' IHf]; subst. rewrite Forall_forall in IHf.
    destruct (eqv x y0) eqn:Ex.
    + split.
      * constructor; [assumption|]. apply Forall_forall. intros u Hu. rewrite (lt_eqv_l _ _ _ Ex). apply IHf. assumption.
      * intros y. rewrite first_of_cons. cbn [In]. split.
        -- intros [<-|Hy]; [left; split; [apply eqv_refl|reflexivity]|right].
           split; [|apply IHi; right; assumption]. pose proof (IHf y Hy) as Q. rewrite <- (lt_eqv_l _ _ _ Ex) in Q.
           apply not_true_is_false. intros E. apply eqv_true in E. destruct E. congruence.
        -- intros [[_ ->]|[E F]]; [left; reflexivity|right]. apply IHi in F. destruct F as [<-|F]; [congruence|assumption].
    + assert (Hxy0 : cmp x y0 = true).
      { pose proof (Hf y0 Hy0) as Q. destruct (cmp x y0) eqn:E; [reflexivity|]. exfalso.
        assert (eqv x y0 = true) by (apply eqv_true; split; assumption). congruence. }
      split.
      * constructor; [assumption|]. apply Forall_forall. intros u [<-|Hu]; [assumption|]. apply (trans x y0 u); [assumption|apply IHf; assumption].
      * intros y. rewrite first_of_cons. cbn [In]. split.
        -- intros [<-|Hy]; [left; split; [apply eqv_refl|reflexivity]|right]. pose proof (proj1 (IHi y) Hy) as F. split; [|assumption].
           (* y is in t, x <= y0 <= y: x ~ y would make x ~ y0 *)
           apply not_true_is_false. intros E. apply eqv_true in E. destruct E as [E1 E2].
           pose proof (Hy0h y (first_of_In t y F)) as Q. pose proof (negtrans _ _ _ E1 Q). congruence.
        -- intros [[_ ->]|[E F]]; [left; reflexivity|right]. apply IHi. assumption.
Qed.

Lemma sorted_wsorted l : sorted l -> wsorted l.
Proof. induction 1 as [|x l Hs IH Hf]; [constructor|]. constructor; [assumption|]. rewrite Forall_forall in *. intros y Hy.
  destruct (cmp y x) eqn:E; [|reflexivity]. pose proof (trans _ _ _ (Hf y Hy) E). rewrite irrefl in H. discriminate. Qed.

Lemma filter_eqv_sorted l y : sorted l ->
  (has_eqv l y = false /\ filter (fun z => eqv z y) l = []) \/
  (exists z, has_eqv l y = true /\ filter (fun z => eqv z y) l = [z] /\ In z l /\ eqv z y = true).
Proof. induction 1 as [|x l Hs IH Hf]; [left; split; reflexivity|]. rewrite Forall_forall in Hf. cbn [filter has_eqv existsb].
  destruct (eqv x y) eqn:Ex.
  - right. exists x. split; [reflexivity|]. split; [|split; [left; reflexivity|assumption]]. f_equal. apply filter_none.
    intros u Hu. apply not_true_is_false. intros Eu. rewrite eqv_sym in Eu. pose proof (eqv_trans _ _ _ Ex Eu) as Q.
    apply eqv_true in Q. destruct Q. pose proof (Hf u Hu). congruence.
  - destruct IH as [[A B]|(z & A & B & C & D)].
    + left. unfold has_eqv in A. rewrite A. split; [reflexivity|assumption].
    + right. exists z. unfold has_eqv in A. rewrite A. split; [reflexivity|]. split; [assumption|split; [right; assumption|assumption]]. Qed.

Lemma bulk_In l vs y : sorted l -> (In y (fs_bulk cmp l vs) <-> In y l \/ (has_eqv l y = false /\ first_of vs y)).
Proof. intros Hs. unfold fs_bulk.
  pose proof (smerge_wsorted l (ssort cmp vs) (sorted_wsorted l Hs) (ssort_wsorted vs)) as Hw.
  rewrite (proj2 (uniq_spec _ Hw) y). unfold first_of.
  rewrite (smerge_filter l (ssort cmp vs) y (sorted_wsorted l Hs) (ssort_wsorted vs)), ssort_filter.
  destruct (filter_eqv_sorted l y Hs) as [[A B]|(z & A & B & C & D)]; rewrite A, B; cbn [app hd_error].
  - split; [intros H; right; split; [reflexivity|assumption]|].
    intros [H|[_ H]]; [|assumption]. exfalso. assert (has_eqv l y = true) by (apply has_eqv_true; exists y; split; [assumption|apply eqv_refl]). congruence.
  - split; [intros [= ->]; left; assumption|]. intros [H|[H _]]; [|discriminate]. f_equal.
    (* two equivalent elements of a strictly sorted list are equal *)
    assert (In y (filter (fun z0 => eqv z0 y) l)) by (apply filter_In; split; [assumption|apply eqv_refl]).
    rewrite B in H0. destruct H0 as [<-|[]]. reflexivity. Qed.

Lemma bulk_sorted l vs : sorted l -> sorted (fs_bulk cmp l vs).
Proof. intros Hs. unfold fs_bulk. apply uniq_spec. apply smerge_wsorted; [apply sorted_wsorted; assumption|apply ssort_wsorted]. Qed.

(* C03, bulk paths: range insertion / construction from a range or a vector = inserting the elements one by one *)
Theorem bulk_is_fold l vs : sorted l -> fs_bulk cmp l vs = fold_ins vs l.
Proof. intros Hs. apply sorted_ext; [apply bulk_sorted; assumption|apply fold_ins_sorted; assumption|].
  intros y. rewrite (bulk_In l vs y Hs), (fold_ins_In vs y l Hs). reflexivity. Qed.

(* ---- merge ----------------------------------------------------------------------------------------------------- *)
Lemma sorted_cons_inv x l : sorted (x :: l) -> sorted l /\ (forall y, In y l -> cmp x y = true).
Proof. intros H. inversion H as [|? ? Hs Hf]; subst. rewrite Forall_forall in Hf. split; assumption. Qed.
Lemma sorted_cons x l : sorted l -> (forall y, In y l -> cmp x y = true) -> sorted (x :: l).
Proof. intros Hs Hf. constructor; [assumption|apply Forall_forall; assumption]. Qed.

Lemma fs_merge_spec : forall fuel a b, length a + length b < fuel -> sorted a -> sorted b ->
  sorted (fst (fs_merge cmp fuel a b)) /\ sorted (snd (fs_merge cmp fuel a b)) /\
  (forall y, In y (fst (fs_merge cmp fuel a b)) -> In y a \/ In y b) /\
  (forall y, In y a -> In y (fst (fs_merge cmp fuel a b))) /\
  (forall y, In y (snd (fs_merge cmp fuel a b)) -> In y b).
Proof. induction fuel as [|f IH]; intros a b Hf Ha Hb; [lia|]. cbn [fs_merge].
  destruct a as [|x a'], b as [|y b']; cbn [fst snd].
  - split; [constructor|split; [constructor|split; [intros ? []|split; [intros ? []|intros ? []]]]].
  - split; [assumption|split; [constructor|split; [intros; right; assumption|split; [intros ? []|intros ? []]]]].
  - split; [assumption|split; [constructor|split; [intros; left; assumption|split; [intros; assumption|intros ? []]]]].
  - destruct (sorted_cons_inv x a' Ha) as [Ha' Hxa]. destruct (sorted_cons_inv y b' Hb) as [Hb' Hyb]. cbn [length] in Hf.
    destruct (cmp x y) eqn:Exy.
    + specialize (IH a' (y :: b') ltac:(cbn [length]; lia) Ha' Hb). destruct (fs_merge cmp f a' (y :: b')) as [r o]. cbn [fst snd] in *.
      destruct IH as (I1 & I2 & I3 & I4 & I5). split; [|split; [assumption|split; [|split; [|assumption]]]].
      * apply sorted_cons; [assumption|]. intros z Hz. destruct (I3 z Hz) as [H|[<-|H]]; [apply Hxa; assumption|assumption|].
        apply (trans x y z); [assumption|apply Hyb; assumption].
      * intros z [<-|Hz]; [left; left; reflexivity|]. destruct (I3 z Hz); [left; right; assumption|right; assumption].
      * intros z [<-|Hz]; [left; reflexivity|right; apply I4; assumption].
    + destruct (cmp y x) eqn:Eyx.
      * specialize (IH (x :: a') b' ltac:(cbn [length]; lia) Ha Hb'). destruct (fs_merge cmp f (x :: a') b') as [r o]. cbn [fst snd] in *.
        destruct IH as (I1 & I2 & I3 & I4 & I5). split; [|split; [assumption|split; [|split]]].
        -- apply sorted_cons; [assumption|]. intros z Hz. destruct (I3 z Hz) as [[<-|H]|H]; [assumption| |apply Hyb; assumption].
           apply (trans y x z); [assumption|apply Hxa; assumption].
        -- intros z [<-|Hz]; [right; left; reflexivity|]. destruct (I3 z Hz); [left; assumption|right; right; assumption].
        -- intros z Hz. right. apply I4. assumption.
        -- intros z Hz. right. apply I5. assumption.
      * specialize (IH a' b' ltac:(lia) Ha' Hb'). destruct (fs_merge cmp f a' b') as [r o]. cbn [fst snd] in *.
        destruct IH as (I1 & I2 & I3 & I4 & I5).
        assert (Exy' : eqv x y = true) by (apply eqv_true; split; assumption).
        split; [|split; [|split; [|split]]].
        -- apply sorted_cons; [assumption|]. intros z Hz. destruct (I3 z Hz) as [H|H]; [apply Hxa; assumption|].
           rewrite (lt_eqv_l _ _ _ Exy'). apply Hyb. assumption.
        -- apply sorted_cons; [assumption|]. intros z Hz. apply Hyb. apply I5. assumption.
        -- intros z [<-|Hz]; [left; left; reflexivity|]. destruct (I3 z Hz); [left; right; assumption|right; right; assumption].
        -- intros z [<-|Hz]; [left; reflexivity|right; apply I4; assumption].
        -- intros z [<-|Hz]; [left; reflexivity|right; apply I5; assumption].
Qed.

(* ---- history invariant of the FlatSet pool: every set stays strictly sorted (hence duplicate free) ----------------- *)
Definition FInv (p : spool) : Prop := forall k s, sget p k = Some s -> sorted (sset_ s).

Lemma sget_lset_cases (l : list (option sset)) a x k s : nth k (lset l a x) None = Some s -> x = Some s \/ nth k l None = Some s.
Proof. revert a k. induction l as [|y l IH]; intros a k H.
  - cbn [lset] in H. destruct a, k; cbn in H; discriminate.
  - destruct a as [|a], k as [|k]; cbn [lset nth] in *; auto. apply (IH a k). exact H. Qed.
Lemma FInv_sput p a x : FInv p -> (forall s, x = Some s -> sorted (sset_ s)) -> FInv (sput p a x).
Proof. intros Hp Hx k s H. unfold sget, sput in H. cbn [sets] in H. destruct (sget_lset_cases _ _ _ _ _ H) as [E|E]; [apply Hx; assumption|apply (Hp k); exact E]. Qed.
Lemma FInv_sput_some p a s : FInv p -> sorted (sset_ s) -> FInv (sput p a (Some s)).
Proof. intros Hp Hs. apply FInv_sput; [assumption|]. intros s' [= <-]. assumption. Qed.
Lemma FInv_nput p a n : FInv p -> FInv (nput p a n).
Proof. intros Hp k s H. apply (Hp k). exact H. Qed.
Lemma sorted_nil : sorted []. Proof. constructor. Qed.

Lemma hint_sorted l h v : sorted l -> (h <=? length l) = true -> sorted (fst (insert_hint cmp l h v)).
Proof. intros Hs Hh. apply Nat.leb_le in Hh. apply (hint_result_ok cmp irrefl trans negtrans l h v Hs Hh). Qed.
Lemma cut_sorted l i j : sorted l -> ((i <=? j) && (j <=? length l)) = true -> sorted (fs_erase_range l i j).
Proof. intros Hs H. apply andb_true_iff in H. destruct H as [H _]. apply Nat.leb_le in H. apply sorted_cut; assumption. Qed.
Lemma flat_erase_loop_sorted k : forall fuel s i it er, sorted (sset_ s) ->
  sorted (sset_ (fst (fst (erase_loop KFlat fuel s i it er k)))).
Proof. induction fuel as [|f IH]; intros s i it er Hs; cbn [erase_loop]; [assumption|].
  destruct (i <? size1 KFlat s); [|assumption]. destruct (Z.rem (nth i (elems KFlat s) 0%Z) k =? 0)%Z.
  - apply IH. unfold erase_at1, is_flat, mk_flat. cbn [sset_]. apply sorted_remove_at. assumption.
  - apply IH. assumption. Qed.

Theorem flat_step_inv p o : FInv p -> FInv (fst (sstep cmp KFlat p o)).
Proof.
  intros Hp. unfold sstep.
  destruct o; cbv zeta; unfold is_flat, from_range, insert1, insert_hinted, find1, size1, elems, erase_at1, erase_range1, clear1,
      insert_range1, merge1, is_flat, mk_flat, empty_set; cbn [fst];
    repeat match goal with
    | |- context [Nat.eqb ?a ?b] => destruct (Nat.eqb a b) eqn:?; try exact Hp
    end;
    try match goal with
    | |- context [sget p ?a] => destruct (sget p a) as [s|] eqn:Ega; try exact Hp
    end;
    try match goal with
    | |- context [sget p ?b] => destruct (sget p b) as [sb|] eqn:Egb; try exact Hp
    end;
    try (pose proof (Hp _ _ Ega) as Hs);
    try (pose proof (Hp _ _ Egb) as Hsb);
    try match goal with |- context [nget p ?b] => destruct (nget p b) as [nv|] eqn:Egn end;
    try match goal with |- context [fs_eqr cmp ?l ?v] => destruct (fs_eqr cmp l v) end;
    try match goal with |- context [erase_loop KFlat ?f ?s0 ?i ?a ?b ?k] =>
          pose proof (flat_erase_loop_sorted k f s0 i a b ltac:(assumption)) as Hel; destruct (erase_loop KFlat f s0 i a b k) as [[sl itl] erl] eqn:Eel end;
    try match goal with |- context [fs_merge cmp ?f ?a ?b] =>
          pose proof (fs_merge_spec f a b ltac:(lia) ltac:(assumption) ltac:(assumption)) as (M1 & M2 & _); destruct (fs_merge cmp f a b) as [mr ml] end;
    repeat match goal with
    | |- context [if ?c then _ else _] => destruct c eqn:?
    end;
    cbn [fst snd sset_ svec] in *;
    repeat first [ exact Hp | assumption | apply FInv_nput | apply FInv_sput_some | exact sorted_nil | apply bulk_sorted | apply ins_sorted
                 | apply sorted_remove_at | apply hint_sorted | apply cut_sorted | (apply FInv_sput; [|intros ? [=]]) ].
Qed.


(* ---- SmallSet ---------------------------------------------------------------------------------------------------- *)
Fixpoint noeq (l : list Z) : Prop := match l with [] => True | x :: t => has_eqv t x = false /\ noeq t end.
Definition SInv (N : nat) (s : sset) : Prop :=
  sorted (sset_ s) /\ (sset_ s <> [] -> svec s = []) /\ noeq (svec s) /\ length (svec s) <= N.
(* the abstract std::set a SmallSet stands for *)
Definition abs (s : sset) : list Z := if ss_small s then set_of cmp (svec s) else sset_ s.

Lemma set_of_fold l : set_of cmp l = fold_ins l []. Proof. reflexivity. Qed.
Lemma abs_sorted N s : SInv N s -> sorted (abs s).
Proof. intros (A & _). unfold abs. destruct (ss_small s); [rewrite set_of_fold; apply fold_ins_sorted; constructor|assumption]. Qed.

Lemma has_eqv_app a b v : has_eqv (a ++ b) v = has_eqv a v || has_eqv b v.
Proof. unfold has_eqv. apply existsb_app. Qed.
Lemma noeq_first_of l y : noeq l -> In y l -> first_of l y.
Proof. induction l as [|x t IH]; intros Hn Hy; [destruct Hy|]. destruct Hn as [Hx Hn]. rewrite first_of_cons. destruct Hy as [->|Hy].
  - left. split; [apply eqv_refl|reflexivity].
  - right. split; [|apply IH; assumption]. apply not_true_is_false. intros E. assert (has_eqv t x = true); [|congruence].
    apply has_eqv_true. exists y. split; [assumption|rewrite eqv_sym; assumption]. Qed.
Lemma set_of_In l y : noeq l -> (In y (set_of cmp l) <-> In y l).
Proof. intros Hn. rewrite set_of_fold, (fold_ins_In l y [] sorted_nil). cbn [In has_eqv existsb]. split.
  - intros [[]|[_ H]]. apply first_of_In. assumption.
  - intros H. right. split; [reflexivity|apply noeq_first_of; assumption]. Qed.
Lemma has_eqv_set_of l v : noeq l -> has_eqv (set_of cmp l) v = has_eqv l v.
Proof. intros Hn. apply eq_true_iff_eq. rewrite !has_eqv_true. split; intros (z & Hz & E); exists z; (split; [apply (set_of_In l z Hn); assumption|assumption]). Qed.

Lemma find_small_spec l v : (find_small cmp l v < length l -> eqv v (l @ find_small cmp l v) = true /\ has_eqv l v = true) /\
  (find_small cmp l v = length l -> has_eqv l v = false) /\ find_small cmp l v <= length l.
Proof. induction l as [|x t IH]; cbn [find_small length has_eqv existsb]; [split; [lia|split; [reflexivity|lia]]|].
  destruct IH as (I1 & I2 & I3). destruct (eqv v x) eqn:E.
  - split; [intros _; split; [assumption|rewrite eqv_sym, E; reflexivity]|split; [discriminate|lia]].
  - rewrite (eqv_sym x v), E. cbn [orb nth]. fold (has_eqv t v). split; [intros H; apply I1; lia|split; [intros H; apply I2; lia|lia]]. Qed.

Lemma ins_noop acc x : sorted acc -> has_eqv acc x = true -> ins acc x = acc.
Proof. intros Hs H. unfold ins, insert_val. rewrite (insert_cond acc x Hs), H. reflexivity. Qed.
Lemma set_of_app l v : set_of cmp (l ++ [v]) = ins (set_of cmp l) v.
Proof. unfold set_of. rewrite fold_left_app. reflexivity. Qed.
Lemma noeq_app_one l v : noeq l -> has_eqv l v = false -> noeq (l ++ [v]).
Proof. induction l as [|x t IH]; intros Hn Hv; cbn [app noeq]; [split; [reflexivity|exact I]|]. destruct Hn as [Hx Hn].
  cbn [has_eqv existsb] in Hv. apply orb_false_iff in Hv. destruct Hv as [Hv1 Hv2]. split; [|apply IH; assumption].
  rewrite has_eqv_app, Hx. cbn [has_eqv existsb]. rewrite eqv_sym, Hv1. reflexivity. Qed.
Lemma ins_nonempty acc x : sorted acc -> ins acc x <> [].
Proof. intros Hs H. assert (In x (ins acc x) \/ has_eqv acc x = true).
  { destruct (has_eqv acc x) eqn:E; [right; reflexivity|left; apply ins_In; auto]. }
  destruct H0 as [H0|H0]; [rewrite H in H0; destruct H0|]. rewrite (ins_noop acc x Hs H0) in H. subst acc. discriminate. Qed.

Lemma set_insert_eq l v : sorted l -> set_insert cmp l v = (ins l v, snd (insert_val cmp l v), negb (has_eqv l v)).
Proof. intros Hs. unfold set_insert. fold (ins l v). rewrite (ins_size l v Hs). destruct (has_eqv l v); cbn [negb].
  - rewrite Nat.eqb_refl. reflexivity.
  - assert (S (length l) =? length l = false) as -> by (apply Nat.eqb_neq; lia). reflexivity. Qed.

(* C04: insertion through any state (inline, at the N boundary, large) is the std::set insertion on the abstraction *)
Theorem ss_insert_spec N s v : SInv N s ->
  let '(s', i, b) := ss_insert cmp N s v in
  SInv N s' /\ abs s' = ins (abs s) v /\ b = negb (has_eqv (abs s) v) /\ i < length (ss_elems s') /\ eqv (ss_elems s' @ i) v = true.
Proof. intros (A & B & C & D). unfold ss_insert, abs. destruct (ss_small s) eqn:Es.
  - assert (Eset : sset_ s = []) by (unfold ss_small in Es; destruct (sset_ s); [reflexivity|discriminate]).
    destruct (find_small_spec (svec s) v) as (F1 & F2 & F3).
    destruct (Nat.eqb_spec (find_small cmp (svec s) v) (length (svec s))) as [E|E].
    + specialize (F2 E). destruct (Nat.eqb_spec (length (svec s)) N) as [EN|EN].
      * (* grow *) assert (Hso : sorted (set_of cmp (svec s))) by (rewrite set_of_fold; apply fold_ins_sorted; constructor).
        rewrite (set_insert_eq _ v Hso). pose proof (ins_nonempty _ v Hso) as Hne.
        assert (Esm : ss_small {| svec := []; sset_ := ins (set_of cmp (svec s)) v |} = false)
          by (unfold ss_small; cbn [sset_]; destruct (ins (set_of cmp (svec s)) v); [congruence|reflexivity]).
        rewrite Esm. unfold ss_elems. rewrite Esm. cbn [sset_ svec].
        split; [unfold SInv; cbn [sset_ svec]; split; [apply ins_sorted; assumption|split; [reflexivity|split; [exact I|cbn; lia]]]|].
        split; [reflexivity|]. split; [rewrite (has_eqv_set_of _ v C); reflexivity|].
        destruct (insert_val_ok cmp irrefl trans _ v Hso) as (_ & Q1 & Q2). fold (ins (set_of cmp (svec s)) v) in Q1, Q2.
        split; [|apply eqv_true; split; assumption].
        unfold insert_val. rewrite (insert_cond _ v Hso), (has_eqv_set_of _ v C), F2. cbn [negb snd fst].
        unfold ins, insert_val. rewrite (insert_cond _ v Hso), (has_eqv_set_of _ v C), F2. cbn [negb snd fst].
        unfold insert_at. rewrite app_length, firstn_length. cbn [length]. pose proof (lb_le (set_of cmp (svec s)) v). lia.
      * assert (Esm : ss_small {| svec := svec s ++ [v]; sset_ := [] |} = true) by reflexivity.
        rewrite Esm. unfold ss_elems. rewrite Esm. cbn [sset_ svec].
        split; [unfold SInv; cbn [sset_ svec]; split; [exact sorted_nil|split; [intros X; exfalso; apply X; reflexivity|split; [apply noeq_app_one; assumption|rewrite app_length; cbn; lia]]]|].
        split; [apply set_of_app|]. split; [rewrite (has_eqv_set_of _ v C), F2; reflexivity|].
        rewrite app_length. cbn [length]. split; [lia|]. rewrite E, app_nth2, Nat.sub_diag by lia. apply eqv_refl.
    + destruct (F1 ltac:(lia)) as [G1 G2]. rewrite Es. unfold ss_elems. rewrite Es.
      split; [repeat split; assumption|]. assert (Hso : sorted (set_of cmp (svec s))) by (rewrite set_of_fold; apply fold_ins_sorted; constructor).
      split; [symmetry; apply ins_noop; [assumption|rewrite (has_eqv_set_of _ v C); assumption]|].
      split; [rewrite (has_eqv_set_of _ v C), G2; reflexivity|]. split; [lia|rewrite eqv_sym; assumption].
  - rewrite (set_insert_eq _ v A). pose proof (ins_nonempty _ v A) as Hne.
    assert (Esm : ss_small {| svec := svec s; sset_ := ins (sset_ s) v |} = false)
      by (unfold ss_small; cbn [sset_]; destruct (ins (sset_ s) v); [congruence|reflexivity]).
    rewrite Esm. unfold ss_elems. rewrite Esm. cbn [sset_ svec].
    assert (Hv : svec s = []) by (apply B; unfold ss_small in Es; destruct (sset_ s); [discriminate|discriminate]).
    split; [unfold SInv; cbn [sset_ svec]; split; [apply ins_sorted; assumption|split; [intros _; assumption|split; [assumption|assumption]]]|].
    split; [reflexivity|]. split; [reflexivity|].
    destruct (insert_val_ok cmp irrefl trans _ v A) as (_ & Q1 & Q2). fold (ins (sset_ s) v) in Q1, Q2.
    split; [|apply eqv_true; split; assumption].
    unfold ins, insert_val. rewrite (insert_cond _ v A). destruct (has_eqv (sset_ s) v) eqn:Eh; cbn [negb fst snd].
    + pose proof (insert_cond (sset_ s) v A) as IC. rewrite Eh in IC. cbn [negb] in IC. apply orb_false_iff in IC. destruct IC as [IC _].
      apply Nat.eqb_neq in IC. pose proof (lb_le (sset_ s) v). lia.
    + unfold insert_at. rewrite app_length, firstn_length. cbn [length]. pose proof (lb_le (sset_ s) v). lia.
Qed.

Lemma SInv_empty N : SInv N empty_set.
Proof. unfold SInv, empty_set; cbn. split; [exact sorted_nil|split; [reflexivity|split; [exact I|lia]]]. Qed.

Theorem ss_insert_range_spec N vs : forall s, SInv N s ->
  SInv N (ss_insert_range cmp N s vs) /\ abs (ss_insert_range cmp N s vs) = fold_ins vs (abs s).
Proof. induction vs as [|v t IH]; intros s Hs; cbn [ss_insert_range fold_ins fold_left]; [split; [assumption|reflexivity]|].
  pose proof (ss_insert_spec N s v Hs) as P. destruct (ss_insert cmp N s v) as [[s' i] b]. destruct P as (P1 & P2 & _). cbn [fst].
  destruct (IH s' P1) as [I1 I2]. split; [assumption|]. rewrite I2, P2. reflexivity. Qed.

Theorem ss_find_spec N s v : SInv N s ->
  (ss_find cmp s v < ss_size s <-> has_eqv (abs s) v = true) /\ ss_find cmp s v <= ss_size s.
Proof. intros (A & B & C & D). unfold ss_find, ss_size, ss_elems, abs. destruct (ss_small s).
  - destruct (find_small_spec (svec s) v) as (F1 & F2 & F3). rewrite (has_eqv_set_of _ v C). split; [|assumption]. split.
    + intros H. apply F1. assumption.
    + intros H. destruct (Nat.eq_dec (find_small cmp (svec s) v) (length (svec s))) as [E|E]; [rewrite (F2 E) in H; discriminate|lia].
  - destruct (fs_find_spec (sset_ s) v A) as (F1 & F2 & F3). split; [|assumption]. split.
    + intros H. apply F1. assumption.
    + intros H. destruct (Nat.eq_dec (fs_find cmp (sset_ s) v) (length (sset_ s))) as [E|E]; [rewrite (F2 E) in H; discriminate|lia]. Qed.

Lemma noeq_app a b : noeq (a ++ b) <-> noeq a /\ noeq b /\ (forall x, In x a -> has_eqv b x = false).
Proof. induction a as [|y a IH]; [cbn; intuition|]. change ((y :: a) ++ b) with (y :: (a ++ b)).
  change (noeq (y :: a ++ b)) with (has_eqv (a ++ b) y = false /\ noeq (a ++ b)). change (noeq (y :: a)) with (has_eqv a y = false /\ noeq a).
  rewrite has_eqv_app, orb_false_iff, IH. cbn [In]. split.
  - intros ((A1 & A2) & B & C & D). repeat split; try assumption. intros x [<-|Hx]; [assumption|apply D; assumption].
  - intros ((A1 & B) & C & D). repeat split; try assumption; [apply D; left; reflexivity|intros; apply D; right; assumption]. Qed.
Lemma skipn_add (l : list Z) : forall a b, skipn (a + b) l = skipn b (skipn a l).
Proof. induction l as [|x l IH]; intros [|a] b; cbn [skipn Nat.add]; try reflexivity; [destruct b; reflexivity|apply IH]. Qed.
Lemma noeq_cut l i j : noeq l -> i <= j -> noeq (firstn i l ++ skipn j l).
Proof. intros Hn Hij. rewrite <- (firstn_skipn i l) in Hn. apply noeq_app in Hn. destruct Hn as (A & B & C).
  assert (Hsk : skipn j l = skipn (j - i) (skipn i l)) by (rewrite <- skipn_add; f_equal; lia).
  rewrite Hsk. rewrite <- (firstn_skipn (j - i) (skipn i l)) in B, C. apply noeq_app in B. destruct B as (_ & B & _).
  apply noeq_app. split; [assumption|split; [assumption|]]. intros x Hx. specialize (C x Hx). rewrite has_eqv_app in C. apply orb_false_iff in C. tauto. Qed.

Lemma SInv_erase_at N s i : SInv N s -> SInv N (ss_erase_at s i).
Proof. intros (A & B & C & D). unfold ss_erase_at, SInv. destruct (ss_small s) eqn:Es; cbn [sset_ svec].
  - split; [exact sorted_nil|split; [intros X; exfalso; apply X; reflexivity|split; [apply noeq_cut; [assumption|lia]|]]].
    unfold remove_at. rewrite app_length, firstn_length, skipn_length. lia.
  - assert (Hv : svec s = []) by (apply B; unfold ss_small in Es; destruct (sset_ s); discriminate). rewrite Hv.
    split; [apply sorted_remove_at; assumption|split; [reflexivity|split; [exact I|cbn; lia]]]. Qed.
Lemma SInv_erase_range N s i j : SInv N s -> i <= j -> SInv N (ss_erase_range s i j).
Proof. intros (A & B & C & D) Hij. unfold ss_erase_range, SInv. destruct (ss_small s) eqn:Es; cbn [sset_ svec].
  - split; [exact sorted_nil|split; [intros X; exfalso; apply X; reflexivity|split; [apply noeq_cut; assumption|]]].
    unfold fs_erase_range. rewrite app_length, firstn_length, skipn_length. lia.
  - assert (Hv : svec s = []) by (apply B; unfold ss_small in Es; destruct (sset_ s); discriminate). rewrite Hv.
    split; [apply sorted_cut; assumption|split; [reflexivity|split; [exact I|cbn; lia]]]. Qed.
Lemma SInv_clear N s : SInv N s -> SInv N (ss_clear s).
Proof. intros (A & B & C & D). unfold ss_clear. destruct (ss_small s) eqn:Es; [apply SInv_empty|].
  assert (Hv : svec s = []) by (apply B; unfold ss_small in Es; destruct (sset_ s); discriminate). rewrite Hv. apply SInv_empty. Qed.
Lemma SInv_grow N s : SInv N s -> SInv N (ss_grow cmp s).
Proof. intros Hs. pose proof Hs as (A & B & C & D). unfold ss_grow. destruct (ss_small s); [|assumption].
  unfold SInv; cbn [sset_ svec]. split; [rewrite set_of_fold; apply fold_ins_sorted; exact sorted_nil|split; [reflexivity|split; [exact I|cbn [length]; lia]]]. Qed.

Lemma has_eqv_subset a b v : (forall z, In z a -> In z b) -> has_eqv b v = false -> has_eqv a v = false.
Proof. intros Hsub Hb. apply not_true_is_false. intros H. apply has_eqv_true in H. destruct H as (z & Hz & E).
  assert (has_eqv b v = true) by (apply has_eqv_true; exists z; split; [apply Hsub; assumption|assumption]). congruence. Qed.
Lemma ss_merge_small_inv N : forall ov t, SInv N t -> noeq ov ->
  SInv N (fst (ss_merge_small cmp N t ov)) /\ noeq (snd (ss_merge_small cmp N t ov)) /\
  length (snd (ss_merge_small cmp N t ov)) <= length ov /\ (forall z, In z (snd (ss_merge_small cmp N t ov)) -> In z ov).
Proof. induction ov as [|y ov IH]; intros t Ht Ho; cbn [ss_merge_small]; [cbn [fst snd]; split; [assumption|split; [exact I|split; [lia|tauto]]]|].
  destruct Ho as [Hy Ho]. pose proof (ss_insert_spec N t y Ht) as P. destruct (ss_insert cmp N t y) as [[t1 i] b]. destruct P as (P1 & _).
  destruct b.
  - destruct (IH t1 P1 Ho) as (I1 & I2 & I3 & I4). cbn [length]. split; [assumption|split; [assumption|split; [lia|intros; right; apply I4; assumption]]].
  - destruct (IH t Ht Ho) as (I1 & I2 & I3 & I4). destruct (ss_merge_small cmp N t ov) as [t2 rest] eqn:E. cbn [fst snd length] in *.
    split; [assumption|split; [|split; [lia|]]].
    + split; [|assumption]. apply (has_eqv_subset rest ov y I4 Hy).
    + intros z [<-|Hz]; [left; reflexivity|right; apply I4; assumption].
Qed.


Lemma fs_merge_other_spec : forall b a, sorted a -> sorted b ->
  sorted (fst (fs_merge_other cmp a b)) /\ sorted (snd (fs_merge_other cmp a b)) /\
  (forall z, In z (snd (fs_merge_other cmp a b)) -> In z b) /\ fst (fs_merge_other cmp a b) = fold_ins b a.
Proof. induction b as [|y b IH]; intros a Ha Hb; cbn [fs_merge_other fold_ins fold_left]; [cbn [fst snd]; split; [assumption|split; [exact sorted_nil|split; [tauto|reflexivity]]]|].
  destruct (sorted_cons_inv y b Hb) as [Hb' Hyb]. rewrite (insert_cond a y Ha).
  assert (Hins : ins a y = if has_eqv a y then a else insert_at (lb cmp a y) y a)
    by (unfold ins, insert_val; rewrite (insert_cond a y Ha); destruct (has_eqv a y); reflexivity).
  destruct (has_eqv a y) eqn:Eh; cbn [negb].
  - destruct (IH a Ha Hb') as (I1 & I2 & I3 & I4). destruct (fs_merge_other cmp a b) as [r o]. cbn [fst snd] in *.
    split; [assumption|split; [|split]].
    + apply sorted_cons; [assumption|]. intros z Hz. apply Hyb. apply I3. assumption.
    + intros z [<-|Hz]; [left; reflexivity|right; apply I3; assumption].
    + rewrite Hins. assumption.
  - assert (Hs' : sorted (insert_at (lb cmp a y) y a)) by (rewrite <- Hins; apply ins_sorted; assumption).
    destruct (IH _ Hs' Hb') as (I1 & I2 & I3 & I4). split; [assumption|split; [assumption|split]].
    + intros z Hz. right. apply I3. assumption.
    + rewrite Hins. assumption.
Qed.

Lemma SInv_merge N t o : SInv N t -> SInv N o ->
  SInv N (fst (ss_merge cmp N t o)) /\ SInv N (snd (ss_merge cmp N t o)).
Proof. intros Ht Ho. pose proof Ho as (A & B & C & D). unfold ss_merge. destruct (ss_small o) eqn:Eo.
  - destruct (ss_merge_small_inv N (svec o) t Ht C) as (I1 & I2 & I3 & I4).
    destruct (ss_merge_small cmp N t (svec o)) as [t' rest]. cbn [fst snd] in *. split; [assumption|].
    unfold SInv; cbn [sset_ svec]. split; [exact sorted_nil|split; [intros X; exfalso; apply X; reflexivity|split; [assumption|lia]]].
  - pose proof (SInv_grow N t Ht) as (A1 & B1 & C1 & D1).
    destruct (fs_merge_other_spec (sset_ o) (sset_ (ss_grow cmp t)) A1 A) as (M1 & M2 & M3 & M4).
    destruct (fs_merge_other cmp (sset_ (ss_grow cmp t)) (sset_ o)) as [r left]. cbn [fst snd] in *.
    assert (Hvo : svec o = []) by (apply B; unfold ss_small in Eo; destruct (sset_ o); discriminate).
    split; unfold SInv; cbn [sset_ svec].
    + split; [assumption|split; [|split; [assumption|assumption]]]. intros Hr.
      (* this has grown (or was large): its inline vector is empty *)
      unfold ss_grow in *. destruct (ss_small t) eqn:Et; [reflexivity|]. apply (proj1 (proj2 Ht)). unfold ss_small in Et. destruct (sset_ t); discriminate.
    + rewrite Hvo. split; [assumption|split; [reflexivity|split; [exact I|cbn [length]; lia]]].
Qed.

(* history invariant of a SmallSet pool *)
Definition SPInv (N : nat) (p : spool) : Prop := forall k s, sget p k = Some s -> SInv N s.
Lemma SPInv_sput N p a x : SPInv N p -> (forall s, x = Some s -> SInv N s) -> SPInv N (sput p a x).
Proof. intros Hp Hx k s H. unfold sget, sput in H. cbn [sets] in H. destruct (sget_lset_cases _ _ _ _ _ H) as [E|E]; [apply Hx; assumption|apply (Hp k); exact E]. Qed.
Lemma SPInv_sput_some N p a s : SPInv N p -> SInv N s -> SPInv N (sput p a (Some s)).
Proof. intros Hp Hs. apply SPInv_sput; [assumption|]. intros s' [= <-]. assumption. Qed.
Lemma SPInv_nput N p a n : SPInv N p -> SPInv N (nput p a n).
Proof. intros Hp k s H. apply (Hp k). exact H. Qed.

Lemma SInv_insert N s v : SInv N s -> SInv N (fst (fst (ss_insert cmp N s v))).
Proof. intros Hs. pose proof (ss_insert_spec N s v Hs) as P. destruct (ss_insert cmp N s v) as [[s' i] b]. tauto. Qed.
Lemma SInv_insert_range N s vs : SInv N s -> SInv N (ss_insert_range cmp N s vs).
Proof. intros Hs. apply ss_insert_range_spec. assumption. Qed.
Lemma small_erase_loop_inv N k : forall fuel s i it er, SInv N s ->
  SInv N (fst (fst (erase_loop (KSmall N) fuel s i it er k))).
Proof. induction fuel as [|f IH]; intros s i it er Hs; cbn [erase_loop]; [assumption|].
  destruct (i <? size1 (KSmall N) s); [|assumption]. destruct (Z.rem (nth i (elems (KSmall N) s) 0%Z) k =? 0)%Z.
  - apply IH. unfold erase_at1, is_flat. apply SInv_erase_at. assumption.
  - apply IH. assumption. Qed.

Theorem small_step_inv N p o : SPInv N p -> SPInv N (fst (sstep cmp (KSmall N) p o)).
Proof.
  intros Hp. unfold sstep.
  destruct o; cbv zeta; unfold is_flat, from_range, insert1, insert_hinted, find1, size1, elems, erase_at1, erase_range1, clear1,
      insert_range1, merge1, is_flat, capN; cbn [fst];
    repeat match goal with
    | |- context [Nat.eqb ?a ?b] => destruct (Nat.eqb a b) eqn:?; try exact Hp
    end;
    try match goal with
    | |- context [sget p ?a] => destruct (sget p a) as [s|] eqn:Ega; try exact Hp
    end;
    try match goal with
    | |- context [sget p ?b] => destruct (sget p b) as [sb|] eqn:Egb; try exact Hp
    end;
    try (pose proof (Hp _ _ Ega) as Hs);
    try (pose proof (Hp _ _ Egb) as Hsb);
    try match goal with |- context [nget p ?b] => destruct (nget p b) as [nv|] eqn:Egn end;
    try match goal with |- context [erase_loop (KSmall N) ?f ?s0 ?i ?a ?b ?k] =>
          pose proof (small_erase_loop_inv N k f s0 i a b ltac:(assumption)) as Hel; destruct (erase_loop (KSmall N) f s0 i a b k) as [[sl itl] erl] eqn:Eel end;
    try match goal with |- context [ss_merge cmp N ?a ?b] =>
          pose proof (SInv_merge N a b ltac:(assumption) ltac:(assumption)) as (M1 & M2); destruct (ss_merge cmp N a b) as [mr ml] end;
    repeat match goal with |- context [ss_insert cmp N ?s0 ?v] =>
          pose proof (SInv_insert N s0 v ltac:(assumption)) as Hin; destruct (ss_insert cmp N s0 v) as [[si ii] bi] end;
    repeat match goal with
    | |- context [if ?c then _ else _] => destruct c eqn:?
    end;
    cbn [fst snd] in *;
    repeat first [ exact Hp | assumption | apply SPInv_nput | apply SPInv_sput_some | apply SInv_empty | apply SInv_insert_range | apply SInv_clear
                 | apply SInv_erase_at | (apply SInv_erase_range; [assumption|]) | (apply SPInv_sput; [|intros ? [=]]) ];
    try match goal with H : (?a <=? ?b) && _ = true |- ?a <= ?b => apply andb_true_iff in H; destruct H as [H _]; apply Nat.leb_le in H; exact H end.
Qed.

(* ---- C11: iteration and the iterator contract, in and across both states ------------------------------------------ *)
Lemma has_eqv_false_notin l x : has_eqv l x = false -> ~ In x l.
Proof. intros H Hin. assert (has_eqv l x = true) by (apply has_eqv_true; exists x; split; [assumption|apply eqv_refl]). congruence. Qed.
Lemma noeq_NoDup l : noeq l -> NoDup l.
Proof. induction l as [|x t IH]; intros H; [constructor|]. destruct H as [Hx Ht]. constructor; [apply has_eqv_false_notin; assumption|apply IH; assumption]. Qed.
Lemma sorted_NoDup l : sorted l -> NoDup l.
Proof. induction 1 as [|x l Hs IH Hf]; [constructor|]. constructor; [|assumption]. rewrite Forall_forall in Hf. intros Hin.
  pose proof (Hf x Hin). rewrite irrefl in H. discriminate. Qed.

(* a walk from begin() to end() visits size() elements, each exactly once, and they are the elements of the set *)
Theorem walk_visits_each_once N s : SInv N s ->
  length (ss_elems s) = ss_size s /\ NoDup (ss_elems s) /\ (forall y, In y (ss_elems s) <-> In y (abs s)).
Proof. intros (A & B & C & D). unfold ss_size, ss_elems, abs. destruct (ss_small s).
  - split; [reflexivity|split; [apply noeq_NoDup; assumption|]]. intros y. symmetry. apply set_of_In. assumption.
  - split; [reflexivity|split; [apply sorted_NoDup; assumption|tauto]]. Qed.

(* erase(position): the returned iterator (same index) is end() exactly when nothing follows, else designates the
   element that followed - also when the erasure empties the backing set and the set falls back to its inline state *)
Lemma elems_erase_at N s i : SInv N s -> ss_elems (ss_erase_at s i) = remove_at i (ss_elems s).
Proof. intros (A & B & C & D). unfold ss_erase_at, ss_elems. destruct (ss_small s) eqn:Es.
  - unfold ss_small. cbn [sset_ svec]. reflexivity.
  - assert (Hv : svec s = []) by (apply B; unfold ss_small in Es; destruct (sset_ s); discriminate).
    unfold ss_small. cbn [sset_ svec]. destruct (remove_at i (sset_ s)); [assumption|reflexivity]. Qed.
Lemma remove_at_length (l : list Z) i : i < length l -> length (remove_at i l) = length l - 1.
Proof. intros H. unfold remove_at. rewrite app_length, firstn_length, skipn_length. lia. Qed.
Lemma skipn_nth0 (l : list Z) : forall k, skipn k l @ 0 = l @ k.
Proof. induction l as [|x l IH]; intros [|k]; cbn [skipn nth]; try reflexivity. apply IH. Qed.
Lemma remove_at_nth (l : list Z) i : i < length l -> remove_at i l @ i = l @ S i.
Proof. intros H. unfold remove_at. rewrite app_nth2 by (rewrite firstn_length; lia). rewrite firstn_length.
  replace (i - Nat.min i (length l)) with 0 by lia. apply skipn_nth0. Qed.
Theorem erase_returns_valid_position N s i : SInv N s -> i < ss_size s ->
  ss_size (ss_erase_at s i) = ss_size s - 1 /\
  (i < ss_size (ss_erase_at s i) -> ss_elems (ss_erase_at s i) @ i = ss_elems s @ S i) /\
  (i = ss_size (ss_erase_at s i) <-> S i = ss_size s).
Proof. intros Hs Hi. unfold ss_size in *. rewrite (elems_erase_at N s i Hs). rewrite remove_at_length by assumption.
  split; [reflexivity|split; [intros _; apply remove_at_nth; assumption|lia]]. Qed.

(* the erase-while-iterating loop on the element sequence *)
Fixpoint lloop (fuel : nat) (l : list Z) (i it er : nat) (k : Z) : list Z * nat * nat :=
  match fuel with
  | O => (l, it, er)
  | S f => if i <? length l then
             if (Z.rem (l @ i) k =? 0)%Z then lloop f (remove_at i l) i (S it) (S er) k else lloop f l (S i) (S it) er k
           else (l, it, er)
  end.
Definition keep (k : Z) (x : Z) : bool := negb (Z.rem x k =? 0)%Z.
Lemma remove_at_split (l : list Z) i : i < length l -> remove_at i l = firstn i l ++ skipn (S i) l.
Proof. reflexivity. Qed.
Lemma lloop_spec k : forall fuel l i it er, i <= length l -> length l - i < fuel ->
  lloop fuel l i it er k = (firstn i l ++ filter (keep k) (skipn i l), it + (length l - i), er + length (filter (fun x => negb (keep k x)) (skipn i l))).
Proof. induction fuel as [|f IH]; intros l i it er Hi Hf; [lia|]. cbn [lloop].
  destruct (Nat.ltb_spec i (length l)) as [Hlt|Hge].
  - assert (Hsk : skipn i l = (l @ i) :: skipn (S i) l).
    { clear -Hlt. revert i Hlt. induction l as [|x l IHl]; intros [|i] H; cbn in *; try lia; try reflexivity. apply IHl. lia. }
    rewrite Hsk. cbn [filter]. destruct (Z.rem (l @ i) k =? 0)%Z eqn:E.
    + assert (Ek : keep k (l @ i) = false) by (unfold keep; rewrite E; reflexivity). rewrite Ek. cbn [negb].
      rewrite IH by (rewrite ?remove_at_length by assumption; lia). rewrite remove_at_length by assumption.
      assert (F1 : firstn i (remove_at i l) = firstn i l).
      { unfold remove_at. rewrite firstn_app, firstn_firstn, firstn_length. replace (Nat.min i i) with i by lia.
        replace (i - Nat.min i (length l)) with 0 by lia. cbn [firstn]. apply app_nil_r. }
      assert (F2 : skipn i (remove_at i l) = skipn (S i) l).
      { unfold remove_at. rewrite skipn_app, firstn_length. replace (i - Nat.min i (length l)) with 0 by lia. cbn [skipn].
        rewrite skipn_all2 by (rewrite firstn_length; lia). reflexivity. }
      rewrite F1, F2. cbn [length]. f_equal; [f_equal; lia|lia].
    + assert (Ek : keep k (l @ i) = true) by (unfold keep; rewrite E; reflexivity). rewrite Ek. cbn [negb].
      rewrite IH by lia. assert (F : firstn (S i) l = firstn i l ++ [l @ i]).
      { clear -Hlt. revert i Hlt. induction l as [|x l IHl]; intros [|i] H; cbn in *; try lia; try reflexivity. f_equal. apply IHl. lia. }
      rewrite F, <- app_assoc. cbn [app]. f_equal. f_equal. lia.
  - assert (i = length l) by lia. subst i. rewrite skipn_all, firstn_all. cbn [filter length]. rewrite app_nil_r.
    f_equal; [f_equal; lia|lia]. Qed.

Lemma erase_loop_lloop N k : forall fuel s i it er, SInv N s ->
  let '(s', a, b) := erase_loop (KSmall N) fuel s i it er k in
  (ss_elems s', a, b) = lloop fuel (ss_elems s) i it er k /\ SInv N s'.
Proof. induction fuel as [|f IH]; intros s i it er Hs; cbn [erase_loop lloop]; [split; [reflexivity|assumption]|].
  unfold size1, elems, is_flat. destruct (i <? length (ss_elems s)); [|split; [reflexivity|assumption]].
  destruct (Z.rem (ss_elems s @ i) k =? 0)%Z.
  - unfold erase_at1, is_flat. rewrite <- (elems_erase_at N s i Hs). apply IH. apply SInv_erase_at. assumption.
  - apply IH. assumption. Qed.

(* the standard erase loop terminates having visited every element once: what remains is what the predicate keeps *)
Theorem erase_loop_terminates N s k : SInv N s ->
  let '(s', iters, erased) := erase_loop (KSmall N) (2 * ss_size s + 2) s 0 0 0 k in
  ss_elems s' = filter (keep k) (ss_elems s) /\ iters = ss_size s /\ erased + length (ss_elems s') = ss_size s /\ SInv N s'.
Proof. intros Hs. pose proof (erase_loop_lloop N k (2 * ss_size s + 2) s 0 0 0 Hs) as P.
  destruct (erase_loop (KSmall N) (2 * ss_size s + 2) s 0 0 0 k) as [[s' a] b]. destruct P as [P Hs'].
  unfold ss_size in *. rewrite lloop_spec in P by lia. cbn [firstn skipn app] in P. inversion P as [[E1 E2 E3]].
  split; [reflexivity|split; [lia|split; [|assumption]]]. rewrite E1.
  clear. induction (ss_elems s) as [|x l IHl]; cbn [filter length]; [reflexivity|]. destruct (keep k x); cbn [negb length]; lia. Qed.

(* ---- C05 for SmallSet: a SmallSet leaves its inline state only when it really holds more than N elements ------------
   [Honest N s] = the set is inline, or it holds more than N elements.  insert, insert(range), merge (from an inline source:
   the loop of smallset.hpp tests "element absent" BEFORE "inline container full") preserve it from any inline set: when the
   resulting size is within N the result is still inline - and an inline SmallSet allocates nothing (its backing std::set /
   FlatSet is empty; that an empty backing set owns no memory is the driver's allocator oracle). *)
Definition Honest (N : nat) (s : sset) : Prop := ss_small s = true \/ N < ss_size s.

Lemma set_of_length : forall l, noeq l -> length (set_of cmp l) = length l.
Proof. intros l. induction l as [|v l IH] using rev_ind; intros Hn; [reflexivity|].
  apply noeq_app in Hn. destruct Hn as (Hl & _ & Hv).
  rewrite set_of_app. rewrite app_length. cbn [length].
  assert (Hso : sorted (set_of cmp l)) by (rewrite set_of_fold; apply fold_ins_sorted; constructor).
  rewrite (ins_size _ v Hso). rewrite (has_eqv_set_of _ v Hl).
  assert (has_eqv l v = false) as ->.
  { apply not_true_is_false. intros X. apply has_eqv_true in X. destruct X as (z & Hz & Ez).
    specialize (Hv z Hz). unfold has_eqv in Hv. cbn [existsb] in Hv. apply orb_false_iff in Hv. destruct Hv as [Hv _].
    rewrite eqv_sym in Hv. congruence. }
  rewrite IH by assumption. lia. Qed.

Lemma size_abs N s : SInv N s -> ss_size s = length (abs s).
Proof. intros (A & B & C & D). unfold ss_size, ss_elems, abs. destruct (ss_small s); [symmetry; apply set_of_length; assumption|reflexivity]. Qed.

Lemma honest_insert N s v : SInv N s -> Honest N s -> Honest N (fst (fst (ss_insert cmp N s v))).
Proof. intros Hs Hh. pose proof (ss_insert_spec N s v Hs) as P.
  pose proof (size_abs N s Hs) as Sz.
  destruct (ss_insert cmp N s v) as [[s' i] b] eqn:E. destruct P as (P1 & P2 & _). cbn [fst].
  pose proof (size_abs N s' P1) as Sz'.
  assert (Hso : sorted (abs s)) by (apply (abs_sorted N); assumption).
  pose proof (ins_size (abs s) v Hso) as L. rewrite <- P2 in L.
  unfold Honest. destruct (ss_small s') eqn:Es'; [left; reflexivity|right].
  destruct Hh as [Hsm|Hbig].
  - (* was inline and left the inline state: it was exactly full and the element was absent *)
    unfold ss_insert in E. rewrite Hsm in E.
    destruct (find_small cmp (svec s) v =? length (svec s)) eqn:Ef.
    + destruct (length (svec s) =? N) eqn:En.
      * apply Nat.eqb_eq in En. apply Nat.eqb_eq in Ef.
        destruct (find_small_spec (svec s) v) as (_ & F2 & _). specialize (F2 Ef).
        destruct Hs as (_ & _ & C & _). assert (Ea : abs s = set_of cmp (svec s)) by (unfold abs; rewrite Hsm; reflexivity).
        rewrite Ea in L. rewrite (has_eqv_set_of _ v C), F2 in L. rewrite (set_of_length _ C) in L. lia.
      * inversion E; subst s'. discriminate Es'.
    + inversion E; subst s'. congruence.
  - destruct (has_eqv (abs s) v); lia.
Qed.

Lemma honest_insert_range N vs : forall s, SInv N s -> Honest N s -> Honest N (ss_insert_range cmp N s vs).
Proof. induction vs as [|v vs IH]; intros s Hs Hh; cbn [ss_insert_range]; [assumption|].
  apply IH; [apply SInv_insert; assumption|apply honest_insert; assumption]. Qed.

Lemma honest_merge_small N : forall ov t, SInv N t -> Honest N t -> Honest N (fst (ss_merge_small cmp N t ov)).
Proof. induction ov as [|y ov IH]; intros t Ht Hh; cbn [ss_merge_small]; [assumption|].
  pose proof (honest_insert N t y Ht Hh) as H1. pose proof (SInv_insert N t y Ht) as H2.
  destruct (ss_insert cmp N t y) as [[t1 i] b]. cbn [fst] in H1, H2. destruct b.
  - apply IH; assumption.
  - specialize (IH t Ht Hh). destruct (ss_merge_small cmp N t ov) as [t2 rest]. exact IH.
Qed.

(* the inline promise: from an inline set, when the result holds at most N elements it is still inline *)
Theorem smallset_inline_promise N s : SInv N s -> ss_small s = true ->
  (forall v, ss_size (fst (fst (ss_insert cmp N s v))) <= N -> ss_small (fst (fst (ss_insert cmp N s v))) = true) /\
  (forall vs, ss_size (ss_insert_range cmp N s vs) <= N -> ss_small (ss_insert_range cmp N s vs) = true) /\
  (forall o, ss_small o = true -> ss_size (fst (ss_merge cmp N s o)) <= N -> ss_small (fst (ss_merge cmp N s o)) = true).
Proof. intros Hs Hsm. assert (Hh : Honest N s) by (left; assumption). split; [|split].
  - intros v Hle. destruct (honest_insert N s v Hs Hh) as [X|X]; [assumption|lia].
  - intros vs Hle. destruct (honest_insert_range N vs s Hs Hh) as [X|X]; [assumption|lia].
  - intros o Ho Hle. unfold ss_merge in *. rewrite Ho in *.
    pose proof (honest_merge_small N (svec o) s Hs Hh) as X. destruct (ss_merge_small cmp N s (svec o)) as [t' rest]. cbn [fst] in *.
    destruct X as [X|X]; [assumption|lia].
Qed.

(* erasing from an inline set keeps it inline *)
Lemma erase_keeps_inline s i j : ss_small s = true -> ss_small (ss_erase_at s i) = true /\ ss_small (ss_erase_range s i j) = true /\ ss_small (ss_clear s) = true.
Proof. intros H. unfold ss_erase_at, ss_erase_range, ss_clear. rewrite H. repeat split. Qed.
End SW.

(* ================================================================================================================ *)
(* strict weak orders, and the statements of the property files with a uniform signature *)
Definition swo (cmp : Z -> Z -> bool) : Prop :=
  (forall x, cmp x x = false) /\ (forall x y z, cmp x y = true -> cmp y z = true -> cmp x z = true) /\
  (forall x y z, cmp x y = false -> cmp y z = false -> cmp x z = false).

Lemma swo_key (f : Z -> Z) : swo (fun a b => (f a <? f b)%Z).
Proof. repeat split; intros; try apply Z.ltb_irrefl.
  - apply Z.ltb_lt in H, H0. apply Z.ltb_lt. lia.
  - apply Z.ltb_ge in H, H0. apply Z.ltb_ge. lia. Qed.
Lemma swo_cmp_of k : swo (cmp_of k).
Proof. destruct k; unfold cmp_of.
  - apply (swo_key (fun x => x)).
  - exact (swo_key Z.opp) || (pose proof (swo_key Z.opp) as [A [B C]]; repeat split; intros; [apply Z.ltb_irrefl| |];
      [apply Z.ltb_lt in H, H0; apply Z.ltb_lt; lia|apply Z.ltb_ge in H, H0; apply Z.ltb_ge; lia]).
  - apply (swo_key (fun x => (x / 3)%Z)).
  - apply (swo_key (fun x => (x mod m)%Z)). Qed.

Section Statements.
Variable cmp : Z -> Z -> bool.
Hypothesis H : swo cmp.
Let irrefl := proj1 H.
Let trans := proj1 (proj2 H).
Let negtrans := proj2 (proj2 H).
Ltac use L := first [apply (L cmp irrefl trans negtrans) | apply (L cmp irrefl trans) | apply (L cmp trans negtrans) | apply (L cmp irrefl negtrans)
  | apply (L cmp trans) | apply (L cmp irrefl) | apply (L cmp negtrans) | apply (L cmp)].

Lemma S_flat_history ops : forall p, FInv cmp p -> FInv cmp (fold_left (fun q o => fst (sstep cmp KFlat q o)) ops p).
Proof. induction ops as [|o t IH]; intros p Hp; cbn [fold_left]; [assumption|]. apply IH. use flat_step_inv. assumption. Qed.
Lemma S_small_history N ops : forall p, SPInv cmp N p -> SPInv cmp N (fold_left (fun q o => fst (sstep cmp (KSmall N) q o)) ops p).
Proof. induction ops as [|o t IH]; intros p Hp; cbn [fold_left]; [assumption|]. apply IH. use small_step_inv. assumption. Qed.
Lemma S_bulk l vs : sorted cmp l -> fs_bulk cmp l vs = fold_ins cmp vs l.
Proof. use bulk_is_fold. Qed.
Lemma S_find l v : sorted cmp l ->
  (fs_find cmp l v < length l -> eqv cmp (nth (fs_find cmp l v) l 0%Z) v = true /\ has_eqv cmp l v = true) /\
  (fs_find cmp l v = length l -> has_eqv cmp l v = false) /\ fs_find cmp l v <= length l.
Proof. use fs_find_spec. Qed.
Lemma S_lb l v : sorted cmp l -> lb cmp l v = length (filter (fun x => cmp x v) l).
Proof. use lb_count. Qed.
Lemma S_ins acc x y : sorted cmp acc -> sorted cmp (ins cmp acc x) /\ (In y (ins cmp acc x) <-> In y acc \/ (y = x /\ has_eqv cmp acc x = false)).
Proof. intros Hs. split; [use ins_sorted; assumption|use ins_In; assumption]. Qed.
Lemma S_merge a b : sorted cmp a -> sorted cmp b ->
  sorted cmp (fst (fs_merge cmp (length a + length b + 1) a b)) /\ sorted cmp (snd (fs_merge cmp (length a + length b + 1) a b)) /\
  (forall y, In y (fst (fs_merge cmp (length a + length b + 1) a b)) -> In y a \/ In y b) /\
  (forall y, In y a -> In y (fst (fs_merge cmp (length a + length b + 1) a b))) /\
  (forall y, In y (snd (fs_merge cmp (length a + length b + 1) a b)) -> In y b).
Proof. intros Ha Hb. use fs_merge_spec; [lia|assumption|assumption]. Qed.
Lemma S_merge_other a b : sorted cmp a -> sorted cmp b ->
  sorted cmp (fst (fs_merge_other cmp a b)) /\ sorted cmp (snd (fs_merge_other cmp a b)) /\
  (forall z, In z (snd (fs_merge_other cmp a b)) -> In z b) /\ fst (fs_merge_other cmp a b) = fold_ins cmp b a.
Proof. use fs_merge_other_spec. Qed.
Lemma S_ss_insert N s v : SInv cmp N s ->
  let '(s', i, b) := ss_insert cmp N s v in
  SInv cmp N s' /\ abs cmp s' = ins cmp (abs cmp s) v /\ b = negb (has_eqv cmp (abs cmp s) v) /\ i < length (ss_elems s') /\ eqv cmp (nth i (ss_elems s') 0%Z) v = true.
Proof. use ss_insert_spec. Qed.
Lemma S_ss_insert_range N vs s : SInv cmp N s ->
  SInv cmp N (ss_insert_range cmp N s vs) /\ abs cmp (ss_insert_range cmp N s vs) = fold_ins cmp vs (abs cmp s).
Proof. use ss_insert_range_spec. Qed.
Lemma S_ss_find N s v : SInv cmp N s -> (ss_find cmp s v < ss_size s <-> has_eqv cmp (abs cmp s) v = true) /\ ss_find cmp s v <= ss_size s.
Proof. use ss_find_spec. Qed.
Lemma S_walk N s : SInv cmp N s -> length (ss_elems s) = ss_size s /\ NoDup (ss_elems s) /\ (forall y, In y (ss_elems s) <-> In y (abs cmp s)).
Proof. use walk_visits_each_once. Qed.
Lemma S_erase_pos N s i : SInv cmp N s -> i < ss_size s ->
  ss_size (ss_erase_at s i) = ss_size s - 1 /\
  (i < ss_size (ss_erase_at s i) -> nth i (ss_elems (ss_erase_at s i)) 0%Z = nth (S i) (ss_elems s) 0%Z) /\
  (i = ss_size (ss_erase_at s i) <-> S i = ss_size s).
Proof. use erase_returns_valid_position. Qed.
Lemma S_erase_loop N s k : SInv cmp N s ->
  let '(s', iters, erased) := erase_loop (KSmall N) (2 * ss_size s + 2) s 0 0 0 k in
  ss_elems s' = filter (keep k) (ss_elems s) /\ iters = ss_size s /\ erased + length (ss_elems s') = ss_size s /\ SInv cmp N s'.
Proof. use erase_loop_terminates. Qed.
Lemma S_inline_promise N s : SInv cmp N s -> ss_small s = true ->
  (forall v, ss_size (fst (fst (ss_insert cmp N s v))) <= N -> ss_small (fst (fst (ss_insert cmp N s v))) = true) /\
  (forall vs, ss_size (ss_insert_range cmp N s vs) <= N -> ss_small (ss_insert_range cmp N s vs) = true) /\
  (forall o, ss_small o = true -> ss_size (fst (ss_merge cmp N s o)) <= N -> ss_small (fst (ss_merge cmp N s o)) = true).
Proof. use smallset_inline_promise. Qed.
End Statements.

Lemma set_relocate_step cmp kind p a b s : sget p a = Some s -> sget p b = None -> a <> b ->
  sstep cmp kind p (SRelocate a b) = (sput (sput p b (Some s)) a None, SROk).
Proof. intros Ha Hb Hab. unfold sstep. apply Nat.eqb_neq in Hab. rewrite Hab, Ha, Hb. reflexivity. Qed.
