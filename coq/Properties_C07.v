(* C07 - capacity contract and address stability (std::vector invalidation rules).
   (a) [C07_size_capacity_max]: in every reachable state size() <= capacity() <= max_size() (limit of the flavour) <= the
       size_type maximum;
   (b)+(d) [C07_fits_no_reallocation]: any single-container operation through the growing policy (push/emplace/insert in all
       forms, erase, pop, clear, resize, assign, append, ranges, copy assignment) never decreases capacity(), and when the
       resulting size fits the capacity before the call it leaves capacity AND storage (where begin() points: same block)
       unchanged and performs NO allocator request - data() is stable; that elements before the point of insertion / erasure
       are not touched is the slot-level statement of Slots.v (shift_right / erase_n only touch slots from the position on);
   (c) [C07_reserve]: after reserve(n), capacity() >= n, contents unchanged, capacity not decreased;
   (e) [C07_move_hands_over_buffer], [C07_swap_exchanges_buffers]: moving from a heap-backed vector gives the target the
       source's words (size, capacity and with them the block: same addresses), allocates nothing and leaves the source
       without heap block; swap of two dynamic vectors exchanges the words.  The model has no element events for these
       steps at all, which the driver confirms on the implementation with element-operation counters (= 0). *)
From Coq Require Import ZArith List Bool.
From Amc Require Import GenPrelude Words VecModel VecProofs.
Import ListNotations.
Local Open Scope Z_scope.

Theorem C07_size_capacity_max :
  forall c, cfg_ok c -> forall ops k v, get (run c init_pool ops) k = Some v ->
    b_size c (w v) = len (els v) /\ (b_size c (w v) = 0 <-> els v = []) /\
    len (els v) <= b_capacity c (w v) /\ b_capacity c (w v) <= b_limit c /\ b_limit c <= cM c.
Proof. exact reachable_observables. Qed.

Theorem C07_fits_no_reallocation :
  forall c, cfg_ok c -> forall p o a p' r ev x x',
    PInv c p -> step c p o = (p', r, ev) -> target o = Some a ->
    (single_pass o = true -> forall e, r <> RThrew e) ->
    get p a = Some x -> get p' a = Some x' ->
    b_capacity c (w x) <= b_capacity c (w x') /\
    (len (els x') <= b_capacity c (w x) ->
     b_capacity c (w x') = b_capacity c (w x) /\ b_store c (w x') = b_store c (w x) /\ ev = []).
Proof. exact step_fits. Qed.

Theorem C07_reserve :
  forall c, cfg_ok c -> forall p a n p' ev x',
    PInv c p -> step c p (Reserve a n) = (p', ROk, ev) -> get p' a = Some x' ->
    (0 <= n <= cM c -> n <= b_capacity c (w x')) /\
    (forall x, get p a = Some x -> b_capacity c (w x) <= b_capacity c (w x') /\ els x' = els x).
Proof. exact reserve_post. Qed.

Theorem C07_move_hands_over_buffer :
  forall c, cfg_ok c -> forall t o, b_store c o = SHeap ->
    let '(t', o', ev) := b_move_assign c t o in t' = o /\ b_store c o' <> SHeap /\ no_alloc ev.
Proof. exact steal_move_assign. Qed.

Theorem C07_swap_exchanges_buffers :
  forall c t o, fl c <> FFCV -> b_swap c t o = (o, t).
Proof. exact steal_swap. Qed.

(* The buffer hand-over of the model is the code's: [b_move_assign] / [b_move_construct] / [b_swap] are proved equal (Gen/BaseTV_<S>.v)
   to the definitions regenerated on every run by translator/base2coq.py from clang's AST of move_assign / move_construct /
   swap_impl of SmallVectorBase, StdVectorBase and StaticVectorBase - words of both operands and the allocator calls, in order
   (size types uint8_t and uint32_t). *)
From Amc.Gen Require BaseTV_u8 BaseTV_u32.
Theorem C07_move_assign_is_the_regenerated_one_u8 :
  forall c, cM c = 255 -> 0 < cN c < 255 -> forall st ot, fl c = FSV -> Words.WInv 255 (cN c) st -> Words.WInv 255 (cN c) ot ->
    BaseTV_u8.two c (Base_u8.sv_move_assign st ot (cN c)) = Some (b_move_assign c st ot).
Proof. exact BaseTV_u8.sv_move_assign_tv. Qed.
Theorem C07_move_assign_is_the_regenerated_one_u32 :
  forall c, cM c = 4294967295 -> 0 < cN c < 4294967295 -> forall st ot, fl c = FSV -> Words.WInv 4294967295 (cN c) st -> Words.WInv 4294967295 (cN c) ot ->
    BaseTV_u32.two c (Base_u32.sv_move_assign st ot (cN c)) = Some (b_move_assign c st ot).
Proof. exact BaseTV_u32.sv_move_assign_tv. Qed.
Theorem C07_vector_move_assign_is_the_regenerated_one :
  forall c st ot, fl c = FVec -> BaseTV_u32.InRange st -> BaseTV_u32.InRange ot ->
    BaseTV_u32.two c (Base_u32.std_move_assign st ot 0) = Some (b_move_assign c st ot).
Proof. exact BaseTV_u32.std_move_assign_tv. Qed.
Theorem C07_swap_is_the_regenerated_one :
  forall c st ot, fl c = FSV -> BaseTV_u32.InRange st -> BaseTV_u32.InRange ot ->
    BaseTV_u32.two c (Base_u32.sv_swap_impl st ot) = Some (fst (b_swap c st ot), snd (b_swap c st ot), []).
Proof. exact BaseTV_u32.sv_swap_impl_tv. Qed.
Theorem C07_reserve_is_the_regenerated_one_u8 :
  forall c, cM c = 255 -> 255 < 2 ^ 62 -> mk_wrap c = wrap_u8 -> forall st n, fl c = FSV -> Words.WInv 255 (cN c) st -> 0 <= n <= 255 ->
    BaseTV_u8.one c (Base_u8.sv_reserve st n) = (if b_capacity c st <? n then b_grow c st n true else Some (st, [])).
Proof. exact BaseTV_u8.sv_reserve_tv. Qed.
