(* C05 - inline-storage promise: no dynamic allocation within N.
   Over the vector model (VecModel.v: where begin() points and the allocator events are computed from the two size words):
   - [C05_smallvector_inline_promise]: a SmallVector that is inline stays inline (elements inside the object), reports
     capacity() = N and makes NO allocator request through any single-container operation (push/emplace/insert in all forms,
     erase, resize, assign, append, copy-assignment from another vector, ranges incl. single-pass ones) whose resulting
     size is within N - for every N, size_type maximum, element category and allocator kind;
   - [C05_inline_pairs]: move assignment / move construction / swap between two inline SmallVectors keep both inline without
     allocator request (this is the lemma the historic move-assignment defect broke);
   - [C05_fixedcapacity_never_allocates]: a FixedCapacityVector has no allocator event in any of its base operations and its
     elements are always inside the object.
   History-level inline-ness is then an induction over [C05_smallvector_inline_promise] (each step preserves "inline" as long
   as sizes stay within N); the taint conditions of the property (size or reserve beyond N, adopted heap buffer) are exactly
   the hypotheses under which the lemma does not apply.
   - [C05_smallset_inline_promise] (SetModel.v): an inline SmallSet whose insert / insert(range) / merge from another inline
     set ends with at most N elements is still inline, for every strict weak order and every N ([Honest]: a SmallSet leaves
     the inline state only when it really holds more than N elements); erasures keep an inline set inline.  An inline
     SmallSet stores its elements in a FixedCapacityVector (previous theorem); that its empty backing std::set / FlatSet
     allocates nothing is a libstdc++ / C05-for-vectors fact observed by the set driver's allocator oracle. *)
From Coq Require Import ZArith List Bool.
From Amc Require Import GenPrelude Words VecModel VecProofs SetModel SetProofs.
Import ListNotations.
Local Open Scope Z_scope.

Theorem C05_smallvector_inline_promise :
  forall c, cfg_ok c -> forall p o a p' r ev x x',
    fl c = FSV -> PInv c p -> step c p o = (p', r, ev) -> target o = Some a ->
    (single_pass o = true -> forall e, r <> RThrew e) ->
    get p a = Some x -> get p' a = Some x' -> b_store c (w x) = SInl -> len (els x') <= cN c ->
    b_store c (w x') = SInl /\ b_capacity c (w x') = cN c /\ ev = [].
Proof. exact sv_inline_promise. Qed.

Theorem C05_inline_pairs :
  forall c, cfg_ok c -> forall t o, fl c = FSV -> BInv c t -> BInv c o -> b_store c t = SInl -> b_store c o = SInl ->
    let '(t', o', ev) := b_move_assign c t o in b_store c t' = SInl /\ b_store c o' = SInl /\ ev = [].
Proof. exact sv_move_assign_inline. Qed.

Theorem C05_fixedcapacity_never_allocates :
  forall c, fl c = FFCV ->
    (forall x n, match adjust c x n with inl (_, ev) => ev = [] | inr _ => True end) /\
    (forall x, match adjust_one c x with inl (_, ev) => ev = [] | inr _ => True end) /\
    (forall x, b_free c x = []) /\ (forall x, snd (b_shrink c x) = []) /\ (forall t o, snd (b_move_assign c t o) = []) /\
    (forall x, b_store c x = SInl).
Proof. exact fcv_base_no_events. Qed.

Theorem C05_smallset_inline_promise :
  forall cmp, swo cmp -> forall N s, SInv cmp N s -> ss_small s = true ->
    (forall v, (ss_size (fst (fst (ss_insert cmp N s v))) <= N)%nat -> ss_small (fst (fst (ss_insert cmp N s v))) = true) /\
    (forall vs, (ss_size (ss_insert_range cmp N s vs) <= N)%nat -> ss_small (ss_insert_range cmp N s vs) = true) /\
    (forall o, ss_small o = true -> (ss_size (fst (ss_merge cmp N s o)) <= N)%nat -> ss_small (fst (ss_merge cmp N s o)) = true).
Proof. exact S_inline_promise. Qed.

(* non-vacuity: {1,2,3}.merge({4,1}) with N = 4 stays inline (the seeded change C05-merge-early-grow makes it large) *)
Example C05_example_set :
  let s := {| svec := [1; 2; 3]; sset_ := [] |} in let o := {| svec := [4; 1]; sset_ := [] |} in
  ss_small (fst (ss_merge Z.ltb 4%nat s o)) = true /\ ss_elems (fst (ss_merge Z.ltb 4%nat s o)) = [1; 2; 3; 4] /\ ss_elems (snd (ss_merge Z.ltb 4%nat s o)) = [1].
Proof. vm_compute. repeat split. Qed.

(* non-vacuity: the three-step history of the historic defect (full inline <- partly filled inline, then push) stays inline *)
Example C05_example :
  let c := {| fl := FSV; cN := 4; cM := 255; csigned := false; ccat := NTR; calloc := ALed |} in
  let '(p, r, ev) := step c (run c init_pool [CtorRange 0 RFwd [1;2;3;4]; CtorRange 1 RFwd [7;8]; MoveAssign 0 1]) (PushBack 0 (AExt 5)) in
  (option_map (describe c) (get p 0), ev) = (Some (3, 4, SInl, 3, 4, [7;8;5]), []).
Proof. vm_compute. reflexivity. Qed.
