(* C17 - static contract.
   The theorems are about the executable model of Static.v (type descriptors, the is_trivially_relocatable templates,
   SmallestSizeType, the Itanium layout of the three vector bases as arithmetic, the containers' typedefs, the noexcept
   specifications).  The model is tied to /repo's current headers by the check: every row the compiler probe prints
   (sizeof, traits, noexcept operator, for a matrix of element types x N x size_type x -std) is re-evaluated in the model
   by vm_compute ([Static.check_row]) and must agree; the statements below are additionally evaluated directly on the
   compiler's numbers.  LP64: sizeof(void * ) = 8 ([Static.ptr]). *)
From Coq Require Import ZArith List Bool.
Import ListNotations.
From Amc Require Import Static StaticProofs.
Open Scope Z_scope.

(* is_trivially_relocatable<T>: the declaration decides when there is one (only std::true_type says yes, anything else
   opts out), otherwise trivially copyable; std::pair<T,U> is the conjunction, whatever std::pair itself is *)
Theorem C17_trait :
  (forall d, is_tr d = match decl d with Some b => b | None => tc d end) /\
  (forall d, is_tr d = true <-> (decl d = Some true \/ (decl d = None /\ tc d = true))) /\
  (forall d, is_tr_ty (Cls d) = is_tr d) /\
  (forall t u, is_tr_ty (Pair t u) = is_tr_ty t && is_tr_ty u).
Proof. exact trait_all. Qed.

(* FixedCapacityVector<T,N>::size_type is the least of uint8/16/32/64 whose maximum holds N *)
Theorem C17_smallest_size_type : forall N, 0 <= N < 2 ^ 64 ->
  In (smallest_size_type N) widths /\
  N <= max_of_width (smallest_size_type N) /\
  (forall w, In w widths -> N <= max_of_width w -> smallest_size_type N <= w).
Proof. exact smallest_least. Qed.

(* SmallVector<T,N> has exactly the size of amc::vector<T> when N elements fit in the bytes of a pointer *)
Theorem C17_layout_small : forall s a w N, wf s a w -> 0 <= N -> N * s <= ptr ->
  sizeof_sv s a w N = sizeof_vec w.
Proof. exact layout_small. Qed.

(* otherwise it adds no more than the N element slots plus 6 bytes of padding (6 is reached) *)
Theorem C17_layout_large : forall s a w N, wf s a w -> 0 <= N -> ptr < N * s ->
  sizeof_sv s a w N <= sizeof_vec w + N * s + 6.
Proof. exact layout_large. Qed.

(* ... in particular less than max(alignof T, sizeof(void * )) of padding, and the N slots are really there *)
Theorem C17_layout : forall s a w N, wf s a w -> 0 <= N ->
  (N * s <= ptr -> sizeof_sv s a w N = sizeof_vec w) /\
  (ptr < N * s -> sizeof_sv s a w N <= sizeof_vec w + N * s + 6 /\ 6 < Z.max a ptr) /\
  (1 <= N -> 2 * w + N * s <= sizeof_sv s a w N).
Proof. exact layout_all. Qed.

(* FixedCapacityVector<T,N>: two counters of the smallest size type, the N slots, less than two alignments of padding *)
Theorem C17_layout_fcv : forall s a N, wf s a 1 -> 1 <= N < 2 ^ 64 ->
  let w := fcv_size_type_bytes N in
  2 * w + N * s <= sizeof_fcv_default s a N <= 2 * w + N * s + 2 * Z.max a w.
Proof. exact layout_fcv. Qed.

(* FixedCapacityVector<T,N> is trivially destructible exactly when T is *)
Theorem C17_fcv_triv_dtor : forall d, fcv_triv_dtor d = triv_dtor d.
Proof. exact fcv_triv_dtor_iff. Qed.

(* each container's trivially_relocatable typedef is the conjunction of its parts' *)
Theorem C17_container_tr_conjunction :
  (forall t, is_tr_ty (Vec t) = true) /\
  (forall t n, n <> 0 -> is_tr_ty (SVec t n) = is_tr_ty t) /\
  (forall t, is_tr_ty (SVec t 0) = true) /\
  (forall t n, is_tr_ty (FCV t n) = is_tr_ty t) /\
  (forall c v, is_tr_ty (FlatSet c v) = is_tr_ty c && is_tr_ty v) /\
  (forall v s, is_tr_ty (SmallSet v s) = is_tr_ty v && is_tr_ty s).
Proof. exact container_tr. Qed.

(* move construction / move assignment / swap of a vector with N inline elements are noexcept exactly when ... *)
Theorem C17_noexcept : forall N d,
  (move_ctor_noexcept N d = true <-> (N = 0 \/ is_tr d = true \/ nt_mc d = true)) /\
  (move_assign_noexcept N d = true <-> (N = 0 \/ is_tr d = true \/ (nt_mc d = true /\ nt_ma d = true))) /\
  (swap_noexcept N d = true <-> (N = 0 \/ (nt_mc d = true /\ nt_sw d = true))).
Proof. exact noexcept_rules. Qed.

Theorem C17_noexcept_consequences : forall N d,
  (move_ctor_noexcept 0 d = true /\ move_assign_noexcept 0 d = true /\ swap_noexcept 0 d = true) /\
  (is_tr d = true -> move_ctor_noexcept N d = true /\ move_assign_noexcept N d = true) /\
  (nt_mc d = true -> nt_ma d = true -> nt_sw d = true ->
     move_ctor_noexcept N d = true /\ move_assign_noexcept N d = true /\ swap_noexcept N d = true) /\
  (N <> 0 -> is_tr d = false -> nt_mc d = false ->
     move_ctor_noexcept N d = false /\ move_assign_noexcept N d = false /\ swap_noexcept N d = false).
Proof. exact noexcept_consequences. Qed.

(* non-vacuity: the premises are satisfiable and the bounds are reached on concrete instances *)
Example C17_example :
  wf 1 1 4 /\ wf 9 1 1 /\
  sizeof_vec 4 = 16 /\ sizeof_sv 1 1 4 8 = 16 /\ sizeof_sv 1 1 4 9 = 24 /\
  sizeof_sv 9 1 1 2 = sizeof_vec 1 + 2 * 9 + 6 /\
  sizeof_fcv_default 1 1 16 = 18 /\ fcv_size_type_bytes 255 = 1 /\ fcv_size_type_bytes 256 = 2 /\
  is_tr d_char = true /\ is_tr d_str = true /\ is_tr d_NT = false /\
  is_tr_ty (Pair (Cls d_char) (Cls d_NT)) = false /\
  is_tr_ty (FlatSet (Cls d_cmpN) (Vec (Cls d_char))) = false /\
  fcv_triv_dtor d_str = false /\ fcv_triv_dtor d_char = true /\
  move_ctor_noexcept 4 (mkDesc 4 4 false None true false false false) = false.
Proof. exact static_examples. Qed.
