From Coq Require Import Arith Lia PeanoNat.
(* SafeNextCapacity, not exact, unclamped: max (ceil (3c/2)) need ; push_back at size = cap asks need = c+1 *)
Definition g (c : nat) : nat := Nat.max ((3 * c + 1) / 2) (c + 1).
Lemma g_lower c : c + 1 <= g c /\ 3 * c <= 2 * g c.
Proof. unfold g. pose proof (Nat.div_mod_eq (3 * c + 1) 2). pose proof (Nat.mod_upper_bound (3 * c + 1) 2). lia. Qed.
Lemma g_mono a b : a <= b -> g a <= g b.
Proof. intros H. unfold g. assert ((3 * a + 1) / 2 <= (3 * b + 1) / 2) by (apply Nat.div_le_mono; lia). lia. Qed.
Lemma two_steps c : 2 * c + 1 <= g (g c).
Proof. pose proof (g_lower c). pose proof (g_lower (g c)). lia. Qed.
Fixpoint iter (k c : nat) : nat := match k with 0 => c | S k' => g (iter k' c) end.
Lemma iter_mono_c k a b : a <= b -> iter k a <= iter k b.
Proof. induction k; cbn; intros; [assumption|]. apply g_mono; auto. Qed.
Lemma iter_incr k c : c <= iter k c.
Proof. induction k; cbn; [lia|]. pose proof (g_lower (iter k c)). lia. Qed.
Lemma iter_mono_k j k c : j <= k -> iter j c <= iter k c.
Proof. induction 1; [lia|]. cbn. pose proof (g_lower (iter m c)). lia. Qed.
Lemma iter_double j c : 2 ^ j * (c + 1) <= iter (2 * j) c + 1.
Proof. induction j as [|j IH]; [cbn; lia|].
  replace (2 * S j) with (S (S (2 * j))) by lia. cbn [iter]. pose proof (two_steps (iter (2 * j) c)).
  rewrite Nat.pow_succ_r'. lia. Qed.
(* n push_backs from (size, cap) counting grows *)
Fixpoint pushes (n size cap grows : nat) : nat * nat * nat :=
  match n with 0 => (size, cap, grows) | S n' =>
    if size =? cap then pushes n' (S size) (g cap) (S grows) else pushes n' (S size) cap grows end.
Definition PInv c0 size cap grows := cap = iter grows c0 /\ size <= cap /\ (grows = 0 \/ iter (grows - 1) c0 < size).
Lemma pushes_inv c0 : forall n size cap grows, PInv c0 size cap grows ->
  let '(s', c', g') := pushes n size cap grows in PInv c0 s' c' g' /\ s' = size + n.
Proof. induction n as [|n IH]; intros size cap grows H; cbn [pushes]; [split; [assumption|lia]|].
  destruct H as (Hc & Hs & Hg). destruct (Nat.eqb_spec size cap) as [E|E].
  - specialize (IH (S size) (g cap) (S grows)). destruct (pushes n (S size) (g cap) (S grows)) as [[s' c'] g'].
    destruct IH as [I1 I2]; [|split; [assumption|lia]]. unfold PInv. cbn [iter]. rewrite <- Hc. pose proof (g_lower cap).
    split; [reflexivity|]. split; [lia|]. right. replace (S grows - 1) with grows by lia. lia.
  - specialize (IH (S size) cap grows). destruct (pushes n (S size) cap grows) as [[s' c'] g'].
    destruct IH as [I1 I2]; [|split; [assumption|lia]]. unfold PInv. repeat split; try assumption; try lia.
Qed.
Theorem reallocs_bound n : 0 < n -> let '(_, _, grows) := pushes n 0 0 0 in grows <= 2 * Nat.log2_up n + 4.
Proof. intros Hn. pose proof (pushes_inv 0 n 0 0 0) as H. destruct (pushes n 0 0 0) as [[s c] gr].
  destruct H as [(Hc & Hs & Hg) Hsz]; [unfold PInv; cbn; lia|]. destruct Hg as [->|Hg]; [lia|].
  (* iter (gr-1) 0 < n ; if gr-1 >= 2*j with 2^j >= n+1 we get a contradiction *)
  set (j := Nat.log2_up (n + 1)). assert (Hj : n + 1 <= 2 ^ j) by (apply Nat.log2_up_spec; lia).
  destruct (le_lt_dec (2 * j) (gr - 1)) as [Hge|Hlt].
  - pose proof (iter_mono_k (2 * j) (gr - 1) 0 Hge). pose proof (iter_double j 0). lia.
  - assert (j <= Nat.log2_up n + 1). { unfold j. destruct (Nat.eq_dec n 1) as [->|]; [cbn; lia|].
      transitivity (Nat.log2_up (2 * n)); [apply Nat.log2_up_le_mono; lia|]. rewrite Nat.log2_up_double by lia. lia. }
    lia.
Qed.



(* the growth function is the library's SafeNextCapacity (hand model Words.safe_next, proved equal to the regenerated one) *)
From Coq Require Import ZArith.
From Amc Require Words.
Lemma g_is_safe_next (M c : Z) : (0 <= c)%Z -> (Z.of_nat (g (Z.to_nat c)) <= M)%Z ->
  Words.safe_next M (fun x => x) c (c + 1)%Z false = Some (Z.of_nat (g (Z.to_nat c))).
Proof.
  intros Hc HM. unfold Words.safe_next, g in *.
  assert (E : Z.of_nat (Nat.max ((3 * Z.to_nat c + 1) / 2) (Z.to_nat c + 1)) = Z.max ((3 * c + 1) / 2) (c + 1)).
  { rewrite Nat2Z.inj_max. f_equal; [|lia]. rewrite Nat2Z.inj_div. f_equal. lia. }
  rewrite E in *.
  rewrite Z.min_l by lia.
  destruct (Z.ltb_spec (Z.max ((3 * c + 1) / 2) (c + 1)) (c + 1)); [lia|reflexivity].
Qed.
