(* Slot-level model of the ELEMENT-WISE path of swap2 between two vectors of different configurations
   (DynamicVector::adjustEachOtherCapacity followed by swap2_impl when canExchangeDynStorage is false; the StaticVector overloads
   are the case where neither side can grow):

     adjustCapacity (o.size ());          capacity () < o.size ()  ->  the n1 elements are relocated into a new block d1 (capd1 >= n2)
     o.adjustCapacity (this->size ());    o.capacity () < size ()  ->  the n2 elements are relocated into a new block d2 (capd2 >= n1)
     swap_deep (begin (), size (), o.begin (), o.size ());            on the blocks the two vectors own NOW
     setSize (oSize); o.setSize (mySize);

   Composition of Transfer.relocate_any (growth) and Transfer.swap_deep over ONE memory with four pairwise disjoint ranges: the two
   current blocks [b1, b1 + cap1), [b2, b2 + cap2) and the two blocks the allocators would hand out [d1, d1 + capd1), [d2, d2 + capd2)
   (raw), plus the temporary t of std::swap outside all of them.  The capacities cap1 / cap2 / capd1 / capd2 are arbitrary: this is the
   cross-configuration case (different inline capacities, different growth results) that Swap2.v only follows on the size words.

   Theorems (every length, capacity, base address, both element flavours with noexcept moves; no axiom):
     [at_most_one_grows]          n1 <= cap1, n2 <= cap2: cap1 < n2 and cap2 < n1 cannot both hold (so swap2 allocates at most once)
     [swap2_elems_spec]           never a lifetime error, nothing throws; afterwards the block vector 1 owns holds the old contents of
                                  vector 2 (as a list of slots, values and order) and is a well-formed vector of n2 elements, and vice
                                  versa; a block that was left behind is entirely raw (it can be handed back to the allocator: no
                                  object leaked in it); the temporary is raw; no slot outside the ranges that were used changed
     [swap2_elems_conserves]      the number of objects alive over the four ranges is n1 + n2 before and after *)
From Coq Require Import ZArith Lia Bool List Arith.
From Amc Require Import Throw EmplaceGrow Transfer.
From Amc Require ThrowMove.
Import ListNotations.

Definition swap2_elems (tr : bool) (m : mem) (t b1 n1 cap1 d1 b2 n2 cap2 d2 : nat) : mem + err :=
  m1 <- (if cap1 <? n2 then relocate_any tr m b1 n1 d1 else inl m) ;;
  m2 <- (if cap2 <? n1 then relocate_any tr m1 b2 n2 d2 else inl m1) ;;
  swap_deep tr m2 t (if cap1 <? n2 then d1 else b1) n1 (if cap2 <? n1 then d2 else b2) n2.

Lemma at_most_one_grows n1 cap1 n2 cap2 : n1 <= cap1 -> n2 <= cap2 -> ~ (cap1 < n2 /\ cap2 < n1).
Proof. lia. Qed.

Lemma Rng_ext m m' b size cap : (forall k, k < cap -> m' (b + k) = m (b + k)) -> Rng m b size cap -> Rng m' b size cap.
Proof.
  intros E (H1 & H2 & H3). split; [exact H1|]. split.
  - intros i Hi. rewrite E by lia. apply H2, Hi.
  - intros i Hi. rewrite E by lia. apply H3, Hi.
Qed.

(* the four ranges and the temporary *)
Record Layout (m : mem) (t b1 n1 cap1 d1 capd1 b2 n2 cap2 d2 capd2 : nat) : Prop := {
  L_r1 : Rng m b1 n1 cap1; L_r2 : Rng m b2 n2 cap2; L_d1 : Rng m d1 0 capd1; L_d2 : Rng m d2 0 capd2;
  L_12 : Disj b1 cap1 b2 cap2; L_1d1 : Disj b1 cap1 d1 capd1; L_1d2 : Disj b1 cap1 d2 capd2;
  L_2d1 : Disj b2 cap2 d1 capd1; L_2d2 : Disj b2 cap2 d2 capd2; L_dd : Disj d1 capd1 d2 capd2;
  L_t : m t = Raw; L_t1 : ~ inR b1 cap1 t; L_t2 : ~ inR b2 cap2 t; L_td1 : ~ inR d1 capd1 t; L_td2 : ~ inR d2 capd2 t;
  L_g1 : cap1 < n2 -> n2 <= capd1;      (* what adjustCapacity asked of the allocator *)
  L_g2 : cap2 < n1 -> n1 <= capd2 }.

Theorem swap2_elems_spec tr m th t b1 n1 cap1 d1 capd1 b2 n2 cap2 d2 capd2 :
  Layout m t b1 n1 cap1 d1 capd1 b2 n2 cap2 d2 capd2 ->
  let g1 := cap1 <? n2 in let g2 := cap2 <? n1 in
  let B1 := if g1 then d1 else b1 in let C1 := if g1 then capd1 else cap1 in
  let B2 := if g2 then d2 else b2 in let C2 := if g2 then capd2 else cap2 in
  match lift (swap2_elems tr m t b1 n1 cap1 d1 b2 n2 cap2 d2) th with
  | Done m' th' => th' = th /\ content m' B1 n2 = content m b2 n2 /\ content m' B2 n1 = content m b1 n1 /\
                   Rng m' B1 n2 C1 /\ Rng m' B2 n1 C2 /\
                   (g1 = true -> Rng m' b1 0 cap1) /\ (g2 = true -> Rng m' b2 0 cap2) /\
                   (g1 = false -> Rng m' d1 0 capd1) /\ (g2 = false -> Rng m' d2 0 capd2) /\ m' t = Raw /\
                   (forall j, ~ inR b1 cap1 j -> ~ inR b2 cap2 j -> ~ inR d1 capd1 j -> ~ inR d2 capd2 j -> m' j = m j)
  | Threw _ => False
  | Err _ => False end.
Proof.
  intros [R1 R2 RD1 RD2 D12 D1d1 D1d2 D2d1 D2d2 Ddd Ht Ht1 Ht2 Htd1 Htd2 G1 G2]. cbv zeta. unfold swap2_elems.
  pose proof R1 as (A1 & _ & _). pose proof R2 as (A2 & _ & _).
  unfold Disj in D12, D1d1, D1d2, D2d1, D2d2, Ddd. unfold inR in Ht1, Ht2, Htd1, Htd2.
  destruct (Nat.ltb_spec cap1 n2) as [Hg1|Hg1]; destruct (Nat.ltb_spec cap2 n1) as [Hg2|Hg2]; [exfalso; lia| | |].
  - (* vector 1 grows into d1 *)
    specialize (G1 Hg1).
    pose proof (relocate_to_new_buffer_spec tr m th b1 n1 cap1 d1 capd1 R1 RD1 ltac:(unfold Disj; lia) ltac:(lia)) as S.
    rewrite relocate_to_new_buffer_any in S. destruct (relocate_any tr m b1 n1 d1) as [m1|e] eqn:E1; cbn [lift ThrowMove.lift] in S; [|exact S].
    destruct S as (_ & (K1 & K2 & K3 & K4)). cbn [bindE].
    assert (R2' : Rng m1 b2 n2 cap2). { apply (Rng_ext m); [|exact R2]. intros k Hk. apply K4; unfold inR; lia. }
    pose proof (swap_deep_spec tr m1 th t d1 n1 capd1 b2 n2 cap2 K2 R2' ltac:(unfold Disj; lia) G1 ltac:(lia)) as S.
    rewrite K4 in S by (unfold inR; lia). specialize (S Ht ltac:(unfold inR; lia) ltac:(unfold inR; lia)).
    destruct (swap_deep tr m1 t d1 n1 b2 n2) as [m2|e] eqn:E2; cbn [lift ThrowMove.lift] in S |- *; [|exact S].
    destruct S as (_ & P1 & P2 & P3 & P4 & P5 & P6).
    split; [reflexivity|]. split; [|split; [|split; [exact P3|split; [exact P4|split; [|split; [|split; [|split; [|split]]]]]]]].
    + rewrite P1. apply content_ext. intros k Hk. apply K4; unfold inR; lia.
    + rewrite P2. exact K1.
    + intros _. apply (Rng_ext m1); [|exact K3]. intros k Hk. apply P6; unfold inR; lia.
    + intros H; discriminate H.
    + intros H; discriminate H.
    + intros _. apply (Rng_ext m); [|exact RD2]. intros k Hk. rewrite P6 by (unfold inR; lia). apply K4; unfold inR; lia.
    + exact P5.
    + intros j J1 J2 J3 J4. unfold inR in J1, J2, J3, J4. rewrite P6 by (unfold inR; lia). apply K4; unfold inR; lia.
  - (* vector 2 grows into d2 *)
    specialize (G2 Hg2). cbn [bindE].
    pose proof (relocate_to_new_buffer_spec tr m th b2 n2 cap2 d2 capd2 R2 RD2 ltac:(unfold Disj; lia) ltac:(lia)) as S.
    rewrite relocate_to_new_buffer_any in S. destruct (relocate_any tr m b2 n2 d2) as [m1|e] eqn:E1; cbn [lift ThrowMove.lift] in S; [|exact S].
    destruct S as (_ & (K1 & K2 & K3 & K4)). cbn [bindE].
    assert (R1' : Rng m1 b1 n1 cap1). { apply (Rng_ext m); [|exact R1]. intros k Hk. apply K4; unfold inR; lia. }
    pose proof (swap_deep_spec tr m1 th t b1 n1 cap1 d2 n2 capd2 R1' K2 ltac:(unfold Disj; lia) ltac:(lia) G2) as S.
    rewrite K4 in S by (unfold inR; lia). specialize (S Ht ltac:(unfold inR; lia) ltac:(unfold inR; lia)).
    destruct (swap_deep tr m1 t b1 n1 d2 n2) as [m2|e] eqn:E2; cbn [lift ThrowMove.lift] in S |- *; [|exact S].
    destruct S as (_ & P1 & P2 & P3 & P4 & P5 & P6).
    split; [reflexivity|]. split; [|split; [|split; [exact P3|split; [exact P4|split; [|split; [|split; [|split; [|split]]]]]]]].
    + rewrite P1. exact K1.
    + rewrite P2. apply content_ext. intros k Hk. apply K4; unfold inR; lia.
    + intros H; discriminate H.
    + intros _. apply (Rng_ext m1); [|exact K3]. intros k Hk. apply P6; unfold inR; lia.
    + intros _. apply (Rng_ext m); [|exact RD1]. intros k Hk. rewrite P6 by (unfold inR; lia). apply K4; unfold inR; lia.
    + intros H; discriminate H.
    + exact P5.
    + intros j J1 J2 J3 J4. unfold inR in J1, J2, J3, J4. rewrite P6 by (unfold inR; lia). apply K4; unfold inR; lia.
  - (* both capacities suffice: the swap_deep of two inline storages *)
    cbn [bindE].
    pose proof (swap_deep_spec tr m th t b1 n1 cap1 b2 n2 cap2 R1 R2 ltac:(unfold Disj; lia) Hg1 Hg2 Ht ltac:(unfold inR; lia) ltac:(unfold inR; lia)) as S.
    destruct (swap_deep tr m t b1 n1 b2 n2) as [m2|e] eqn:E2; cbn [lift ThrowMove.lift] in S |- *; [|exact S].
    destruct S as (_ & P1 & P2 & P3 & P4 & P5 & P6).
    split; [reflexivity|]. split; [exact P1|]. split; [exact P2|]. split; [exact P3|]. split; [exact P4|].
    split; [intros H; discriminate H|]. split; [intros H; discriminate H|].
    split; [intros _; apply (Rng_ext m); [|exact RD1]; intros k Hk; apply P6; unfold inR; lia|].
    split; [intros _; apply (Rng_ext m); [|exact RD2]; intros k Hk; apply P6; unfold inR; lia|].
    split; [exact P5|]. intros j J1 J2 _ _. apply P6; assumption.
Qed.

(* conservation over the four ranges: n1 + n2 objects alive before and after, none in the temporary *)
Theorem swap2_elems_conserves tr m t b1 n1 cap1 d1 capd1 b2 n2 cap2 d2 capd2 m' :
  Layout m t b1 n1 cap1 d1 capd1 b2 n2 cap2 d2 capd2 -> swap2_elems tr m t b1 n1 cap1 d1 b2 n2 cap2 d2 = inl m' ->
  count_live m' b1 cap1 + count_live m' b2 cap2 + count_live m' d1 capd1 + count_live m' d2 capd2 = n1 + n2 /\
  count_live m b1 cap1 + count_live m b2 cap2 + count_live m d1 capd1 + count_live m d2 capd2 = n1 + n2 /\
  count_live m' t 1 = 0.
Proof.
  intros L E. pose proof (swap2_elems_spec tr m None t b1 n1 cap1 d1 capd1 b2 n2 cap2 d2 capd2 L) as S. cbv zeta in S.
  rewrite E in S. cbn [lift ThrowMove.lift] in S. destruct S as (_ & _ & _ & S1 & S2 & S3 & S4 & S5 & S6 & S7 & _).
  destruct L as [R1 R2 RD1 RD2 _ _ _ _ _ _ _ _ _ _ _ _ _].
  rewrite (Rng_count _ _ _ _ R1), (Rng_count _ _ _ _ R2), (Rng_count _ _ _ _ RD1), (Rng_count _ _ _ _ RD2).
  split; [|split; [lia|cbn [count_live]; rewrite S7; reflexivity]].
  destruct (cap1 <? n2) eqn:G1; destruct (cap2 <? n1) eqn:G2.
  - rewrite (Rng_count _ _ _ _ (S3 eq_refl)), (Rng_count _ _ _ _ (S4 eq_refl)), (Rng_count _ _ _ _ S1), (Rng_count _ _ _ _ S2). lia.
  - rewrite (Rng_count _ _ _ _ (S3 eq_refl)), (Rng_count _ _ _ _ (S6 eq_refl)), (Rng_count _ _ _ _ S1), (Rng_count _ _ _ _ S2). lia.
  - rewrite (Rng_count _ _ _ _ (S5 eq_refl)), (Rng_count _ _ _ _ (S4 eq_refl)), (Rng_count _ _ _ _ S1), (Rng_count _ _ _ _ S2). lia.
  - rewrite (Rng_count _ _ _ _ (S5 eq_refl)), (Rng_count _ _ _ _ (S6 eq_refl)), (Rng_count _ _ _ _ S1), (Rng_count _ _ _ _ S2). lia.
Qed.

(* ---- non-vacuity -------------------------------------------------------------------------------------------------------------------------
   memory of 30 slots: vector 1 = [10, 11] in a block of 2 at 0 (a SmallVector<_, 2> inline, full); t = 3; vector 2 = [20, 21, 22, 23] in a
   block of 5 at 5; raw block of 6 at 12 (what vector 1's allocator hands out for adjustCapacity (4)); raw block of 4 at 20 (unused) *)
Definition init4 : mem :=
  fun i => if i <? 2 then Live (Z.of_nat (10 + i)) else if i =? 3 then Raw
           else if (5 <=? i) && (i <? 9) then Live (Z.of_nat (20 + (i - 5))) else if i =? 9 then Raw
           else if (12 <=? i) && (i <? 18) then Raw else if (20 <=? i) && (i <? 24) then Raw else Out.
Lemma init4_layout : Layout init4 3 0 2 2 12 6 5 4 5 20 4.
Proof.
  assert (F : forall P : nat -> Prop, forall n, (forall i, i < n -> P i) -> forall i, i < n -> P i) by auto.
  constructor; unfold Rng, Disj, inR; try lia; try reflexivity.
  - split; [lia|]. split; intros i Hi; [|lia]. do 2 (destruct i as [|i]; [reflexivity|]). lia.
  - split; [lia|]. split; intros i Hi.
    + do 4 (destruct i as [|i]; [reflexivity|]). lia.
    + assert (i = 4) by lia. subst i. reflexivity.
  - split; [lia|]. split; intros i Hi; [lia|]. do 6 (destruct i as [|i]; [reflexivity|]). lia.
  - split; [lia|]. split; intros i Hi; [lia|]. do 4 (destruct i as [|i]; [reflexivity|]). lia.
Qed.
Example swap2_elems_ex :
  show (lift (swap2_elems false init4 3 0 2 2 12 5 4 5 20) (Some 0)) 24
    = Some (false, [Raw; Raw; Out; Raw; Out; Live 10; Live 11; Raw; Raw; Raw; Out; Out;
                    Live 20; Live 21; Live 22; Live 23; Raw; Raw; Out; Out; Raw; Raw; Raw; Raw]%Z) /\
  show (lift (swap2_elems true init4 3 0 2 2 12 5 4 5 20) None) 24
    = Some (false, [Raw; Raw; Out; Raw; Out; Live 10; Live 11; Raw; Raw; Raw; Out; Out;
                    Live 20; Live 21; Live 22; Live 23; Raw; Raw; Out; Out; Raw; Raw; Raw; Raw]%Z).
Proof. split; vm_compute; reflexivity. Qed.

Print Assumptions swap2_elems_spec.
Print Assumptions swap2_elems_conserves.
