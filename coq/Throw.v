From Coq Require Import ZArith Lia Bool List Arith.
Require Import ZifyBool.
Import ListNotations.
Inductive slot := Out | Raw | Live (v : Z) | Moved.
Definition mem := nat -> slot.
Definition upd (m : mem) (i : nat) (s : slot) : mem := fun j => if Nat.eqb i j then s else m j.
Inductive err := ConstructOverLive | AssignDead | DestroyDead | OutOfBlock.
(* outcome of a step that may throw: Done | Threw (memory as left behind) | Err (lifetime error) *)
Inductive out := Done (m : mem) (th : option nat) | Threw (m : mem) | Err (e : err).
(* throw oracle: [Some 0] = the next throwing-capable event throws; [Some (S k)] = k more succeed first; [None] = none throws *)
Definition tick (th : option nat) : bool * option nat :=
  match th with None => (false, None) | Some 0 => (true, None) | Some (S k) => (false, Some k) end.
Definition copy_construct (m : mem) (th : option nat) (dst : nat) (v : Z) : out :=
  match m dst with
  | Raw => let (t, th') := tick th in if t then Threw m else Done (upd m dst (Live v)) th'
  | Out => Err OutOfBlock | _ => Err ConstructOverLive end.
Definition copy_assign (m : mem) (th : option nat) (dst : nat) (v : Z) : out :=
  match m dst with
  | Raw => Err AssignDead | Out => Err OutOfBlock
  | _ => let (t, th') := tick th in if t then Threw m else Done (upd m dst (Live v)) th' end.
Definition destroy (m : mem) (i : nat) : mem + err :=
  match m i with Live _ | Moved => inl (upd m i Raw) | Raw => inr DestroyDead | Out => inr OutOfBlock end.
Fixpoint destroy_n (m : mem) (first n : nat) : mem + err :=
  match n with 0 => inl m | S k => match destroy m first with inl m1 => destroy_n m1 (S first) k | inr e => inr e end end.
(* std::uninitialized_fill_n: constructs forward; on throw destroys what it built and rethrows *)
Fixpoint uninit_fill_loop (m : mem) (th : option nat) (first cur n : nat) (v : Z) : out :=
  match n with
  | 0 => Done m th
  | S k => match copy_construct m th cur v with
           | Done m1 th1 => uninit_fill_loop m1 th1 first (S cur) k v
           | Threw m1 => match destroy_n m1 first (cur - first) with inl m2 => Threw m2 | inr e => Err e end
           | Err e => Err e end
  end.
Definition uninit_fill_n m th dst n v := uninit_fill_loop m th dst dst n v.
Fixpoint fill_n (m : mem) (th : option nat) (dst n : nat) (v : Z) : out :=
  match n with 0 => Done m th
  | S k => match copy_assign m th dst v with Done m1 th1 => fill_n m1 th1 (S dst) k v | o => o end end.

Definition is_live (s : slot) := match s with Live _ => true | _ => false end.
Definition Inv (m : mem) (size cap : nat) : Prop :=
  size <= cap /\ (forall i, i < size -> is_live (m i) = true) /\ (forall i, size <= i -> i < cap -> m i = Raw) /\ (forall i, cap <= i -> m i = Out).
Ltac updsimp := unfold upd; repeat match goal with |- context [Nat.eqb ?a ?b] => destruct (Nat.eqb_spec a b) end; try lia; try reflexivity; try congruence.

Lemma destroy_n_spec : forall n m first, (forall k, k < n -> is_live (m (first + k)) = true) ->
  exists m', destroy_n m first n = inl m' /\ (forall j, first <= j < first + n -> m' j = Raw) /\ (forall j, ~ (first <= j < first + n) -> m' j = m j).
Proof. induction n as [|n IH]; intros m first H; cbn [destroy_n].
  - exists m. repeat split; intros; try lia; reflexivity.
  - pose proof (H 0 ltac:(lia)) as H0. rewrite Nat.add_0_r in H0. unfold destroy. destruct (m first) eqn:E; try discriminate.
    destruct (IH (upd m first Raw) (S first)) as [m' (E' & P1 & P2)].
    + intros k Hk. pose proof (H (S k) ltac:(lia)) as Hw. replace (first + S k) with (S first + k) in Hw by lia. updsimp.
    + exists m'. split; [exact E'|]. split.
      * intros j Hj. destruct (Nat.eq_dec j first) as [->|]; [rewrite P2 by lia; updsimp|apply P1; lia].
      * intros j Hj. rewrite P2 by lia. updsimp. Qed.

(* the self-cleaning algorithm: either all n constructed, or NOTHING changed (its own strong guarantee) *)
Lemma uninit_fill_loop_spec : forall n m th first cur v,
  first <= cur -> (forall j, first <= j < cur -> is_live (m j) = true) -> (forall k, k < n -> m (cur + k) = Raw) ->
  (exists m' th', uninit_fill_loop m th first cur n v = Done m' th' /\
      (forall j, cur <= j < cur + n -> m' j = Live v) /\ (forall j, ~ (cur <= j < cur + n) -> m' j = m j)) \/
  (exists m', uninit_fill_loop m th first cur n v = Threw m' /\
      (forall j, first <= j < cur + n -> m' j = Raw) /\ (forall j, ~ (first <= j < cur + n) -> m' j = m j)).
Proof.
  induction n as [|n IH]; intros m th first cur v Hfc Hl Hr; cbn [uninit_fill_loop].
  - left. exists m, th. repeat split; intros; try lia; reflexivity.
  - pose proof (Hr 0 ltac:(lia)) as H0. rewrite Nat.add_0_r in H0. unfold copy_construct. rewrite H0.
    destruct (tick th) as [[|] th'].
    + (* throws here: destroy [first, cur) *) right.
      destruct (destroy_n_spec (cur - first) m first) as [m2 (E & P1 & P2)]; [intros k Hk; apply Hl; lia|].
      rewrite E. exists m2. split; [reflexivity|]. split.
      * intros j Hj. destruct (le_lt_dec cur j); [rewrite P2 by lia; replace j with (cur + (j - cur)) by lia; apply Hr; lia|apply P1; lia].
      * intros j Hj. apply P2. lia.
    + destruct (IH (upd m cur (Live v)) th' first (S cur) v) as [(m' & th2 & E & P1 & P2)|(m' & E & P1 & P2)]; [lia| | | |].
      * intros j Hj. destruct (Nat.eq_dec j cur) as [->|]; [updsimp|]. pose proof (Hl j ltac:(lia)). updsimp.
      * intros k Hk. pose proof (Hr (S k) ltac:(lia)) as Hw. replace (cur + S k) with (S cur + k) in Hw by lia. updsimp.
      * left. exists m', th2. split; [exact E|]. split.
        -- intros j Hj. destruct (Nat.eq_dec j cur) as [->|]; [rewrite P2 by lia; updsimp|apply P1; lia].
        -- intros j Hj. rewrite P2 by lia. updsimp.
      * right. exists m'. split; [exact E|]. split.
        -- intros j Hj. apply P1. lia.
        -- intros j Hj. rewrite P2 by lia. updsimp.
Qed.

(* VectorImpl::resize(count, v), growing within capacity: uninitialized_fill_n at end(), then setSize *)
Definition resize_grow (m : mem) (th : option nat) (size count : nat) (v : Z) : out * nat :=
  match uninit_fill_n m th size (count - size) v with Done m' th' => (Done m' th', count) | o => (o, size) end.
Theorem resize_grow_strong m th size cap count v :
  Inv m size cap -> size <= count <= cap ->
  match resize_grow m th size count v with
  | (Done m' _, s') => s' = count /\ Inv m' count cap /\ (forall j, j < size -> m' j = m j) /\ (forall j, size <= j < count -> m' j = Live v)
  | (Threw m', s') => s' = size /\ Inv m' size cap /\ (forall j, m' j = m j)          (* strong: nothing changed *)
  | (Err _, _) => False end.
Proof.
  intros (Hsc & Hl & Hr & Ho) Hc. unfold resize_grow, uninit_fill_n.
  destruct (uninit_fill_loop_spec (count - size) m th size size v) as [(m' & th' & E & P1 & P2)|(m' & E & P1 & P2)];
    [lia|intros; lia|intros k Hk; apply Hr; lia| |]; rewrite E.
  - split; [reflexivity|]. split; [|split].
    + repeat split; [lia| | |].
      * intros i Hi. destruct (le_lt_dec size i); [rewrite P1 by lia; reflexivity|rewrite P2 by lia; apply Hl; lia].
      * intros i H1 H2. rewrite P2 by lia. apply Hr; lia.
      * intros i Hi. rewrite P2 by lia. apply Ho; lia.
    + intros j Hj. apply P2. lia.
    + intros j Hj. apply P1. lia.
  - split; [reflexivity|]. assert (Hsame : forall j, m' j = m j).
    { intros j. destruct (le_lt_dec size j) as [H1|H1]; [destruct (le_lt_dec (size + (count - size)) j)|]; [apply P2; lia| |apply P2; lia].
      rewrite P1 by lia. symmetry. apply Hr; lia. }
    split; [|exact Hsame]. repeat split; [lia| | |]; intros; rewrite Hsame; auto.
Qed.

(* HISTORIC (before the repair 'assign(n, v) does not leak the new tail when an element assignment throws'):
   fill (non trivially copyable) built the uninitialized tail FIRST, then assigned the live prefix *)
Definition fill_cur (m : mem) (th : option nat) (first n count : nat) (v : Z) : out :=
  match uninit_fill_n m th (first + n) (count - n) v with Done m1 th1 => fill_n m1 th1 first n v | o => o end.
(* F12 refuted: size 2, assign(4, v): both tail constructions succeed, the first assignment throws;
   the container still says size 2 but slots 2 and 3 hold live objects nobody will destroy *)
Definition m0 : mem := fun i => if i <? 2 then Live 7 else if i <? 6 then Raw else Out.
Lemma fill_cur_leaks : exists m', fill_cur m0 (Some 2) 0 2 4 9%Z = Threw m' /\ m' 2 = Live 9%Z /\ m' 3 = Live 9%Z.
Proof. eexists. split; [vm_compute; reflexivity|]. split; reflexivity. Qed.
Lemma fill_cur_refuted : exists m th size cap count v m', Inv m size cap /\ size < count <= cap /\
  fill_cur m th 0 size count v = Threw m' /\ ~ Inv m' size cap.
Proof. exists m0, (Some 2), 2, 6, 4, 9%Z. destruct fill_cur_leaks as (m' & E & H2 & H3). exists m'.
  split.
  { unfold Inv, m0. repeat split; [lia| | |].
    - intros i Hi. destruct (Nat.ltb_spec i 2); [reflexivity|lia].
    - intros i Ha Hb. destruct (Nat.ltb_spec i 2); [lia|]. destruct (Nat.ltb_spec i 6); [reflexivity|lia].
    - intros i Hi. destruct (Nat.ltb_spec i 2); [lia|]. destruct (Nat.ltb_spec i 6); [lia|reflexivity]. }
  split; [lia|]. split; [exact E|]. intros (_ & _ & Hraw & _). specialize (Hraw 2 ltac:(lia) ltac:(lia)). congruence. Qed.




(* ---- the repaired order: assign the live prefix first, then build the tail --------------------------------------- *)
Definition fill_fix (m : mem) (th : option nat) (first n count : nat) (v : Z) : out :=
  match fill_n m th first n v with Done m1 th1 => uninit_fill_n m1 th1 (first + n) (count - n) v | o => o end.

Lemma fill_n_th_spec : forall n m th dst v, (forall k, k < n -> is_live (m (dst + k)) = true) ->
  match fill_n m th dst n v with
  | Done m' _ => (forall j, dst <= j < dst + n -> m' j = Live v) /\ (forall j, ~ (dst <= j < dst + n) -> m' j = m j)
  | Threw m' => (forall j, dst <= j < dst + n -> is_live (m' j) = true) /\ (forall j, ~ (dst <= j < dst + n) -> m' j = m j)
  | Err _ => False
  end.
Proof. induction n as [|n IH]; intros m th dst v H; cbn [fill_n].
  - split; intros; try lia; reflexivity.
  - pose proof (H 0 ltac:(lia)) as H0. rewrite Nat.add_0_r in H0. unfold copy_assign. destruct (m dst) eqn:Ed; try discriminate.
    destruct (tick th) as [[|] th'].
    + split; [|reflexivity]. intros j Hj. replace j with (dst + (j - dst)) by lia. apply H. lia.
    + specialize (IH (upd m dst (Live v)) th' (S dst) v).
      assert (Hn : forall k, k < n -> is_live (upd m dst (Live v) (S dst + k)) = true).
      { intros k Hk. pose proof (H (S k) ltac:(lia)) as Hw. replace (dst + S k) with (S dst + k) in Hw by lia. updsimp. }
      specialize (IH Hn). destruct (fill_n (upd m dst (Live v)) th' (S dst) n v) as [m' th2|m'|e]; [| |assumption].
      * destruct IH as [P1 P2]. split.
        -- intros j Hj. destruct (Nat.eq_dec j dst) as [->|]; [rewrite P2 by lia; updsimp|apply P1; lia].
        -- intros j Hj. rewrite P2 by lia. updsimp.
      * destruct IH as [P1 P2]. split.
        -- intros j Hj. destruct (Nat.eq_dec j dst) as [->|]; [rewrite P2 by lia; updsimp|apply P1; lia].
        -- intros j Hj. rewrite P2 by lia. updsimp.
Qed.

(* assign(n, v) growing within capacity: basic guarantee at every throw point (prefix assignments, tail constructions):
   the vector keeps its size with live elements, nothing alive beyond it; success: n copies of v *)
Theorem assign_grow_basic m th size cap count v :
  Inv m size cap -> size < count <= cap ->
  match fill_fix m th 0 size count v with
  | Done m' _ => Inv m' count cap /\ (forall j, j < count -> m' j = Live v)
  | Threw m' => Inv m' size cap
  | Err _ => False
  end.
Proof.
  intros (Hsc & Hl & Hr & Ho) Hc. unfold fill_fix.
  pose proof (fill_n_th_spec size m th 0 v ltac:(intros k Hk; apply Hl; lia)) as F.
  destruct (fill_n m th 0 size v) as [m1 th1|m1|e]; [| |assumption].
  - destruct F as [F1 F2]. unfold uninit_fill_n.
    destruct (uninit_fill_loop_spec (count - size) m1 th1 (0 + size) (0 + size) v) as [(m' & th' & E & P1 & P2)|(m' & E & P1 & P2)];
      [lia|intros; lia|intros k Hk; rewrite F2 by lia; apply Hr; lia| |]; rewrite E.
    + split.
      * repeat split; [lia| | |].
        -- intros i Hi. destruct (le_lt_dec size i); [rewrite P1 by lia; reflexivity|rewrite P2 by lia; rewrite F1 by lia; reflexivity].
        -- intros i A B. rewrite P2 by lia. rewrite F2 by lia. apply Hr; lia.
        -- intros i Hi. rewrite P2 by lia. rewrite F2 by lia. apply Ho; lia.
      * intros j Hj. destruct (le_lt_dec size j); [apply P1; lia|rewrite P2 by lia; apply F1; lia].
    + repeat split; [lia| | |].
      * intros i Hi. rewrite P2 by lia. rewrite F1 by lia. reflexivity.
      * intros i A B. destruct (le_lt_dec (0 + size + (count - size)) i); [rewrite P2 by lia; rewrite F2 by lia; apply Hr; lia|apply P1; lia].
      * intros i Hi. rewrite P2 by lia. rewrite F2 by lia. apply Ho; lia.
  - destruct F as [F1 F2]. repeat split; [lia| | |].
    + intros i Hi. apply F1. lia.
    + intros i A B. rewrite F2 by lia. apply Hr; lia.
    + intros i Hi. rewrite F2 by lia. apply Ho; lia.
Qed.

(* ---- finding F11: insert(pos, count, v) in the middle, copy throws while filling the gap ----------------------------
   [insert_cnt_th] below is the model of the code BEFORE the repair "fix: insert of several elements before end() leaves the
   vector unchanged when an element copy throws" (shift_right, then fill_after_shift building the raw part FIRST, no handler);
   [insert_count_middle_refuted] is its machine-checked witness.  The model of the repaired code is [insert_cnt_fix], further
   down, with [insert_cnt_fix_strong].  With pos = size both are std::uninitialized_fill_n alone. *)
(* moves are noexcept: plain memory transformers with lifetime errors *)
Definition move_construct (m : mem) (dst src : nat) : mem + err :=
  match m dst, m src with
  | Raw, Live v => inl (upd (upd m dst (Live v)) src Moved)
  | Out, _ | _, Out => inr OutOfBlock
  | Raw, _ => inr AssignDead | _, _ => inr ConstructOverLive end.
Definition move_assign (m : mem) (dst src : nat) : mem + err :=
  match m dst, m src with
  | Out, _ | _, Out => inr OutOfBlock
  | Raw, _ => inr AssignDead
  | _, Live v => inl (upd (upd m dst (Live v)) src Moved)
  | _, _ => inr AssignDead end.
Fixpoint uninit_move_n (m : mem) (src n dst : nat) : mem + err :=
  match n with 0 => inl m | S k => match move_construct m dst src with inl m1 => uninit_move_n m1 (S src) k (S dst) | inr e => inr e end end.
Fixpoint move_backward (m : mem) (first n dlast : nat) : mem + err :=
  match n with 0 => inl m | S k => match move_assign m (dlast - 1) (first + k) with inl m1 => move_backward m1 first k (dlast - 1) | inr e => inr e end end.
Definition shift_right_cnt (m : mem) (first n count : nat) : mem + err :=
  if count <? n then
    match uninit_move_n m (first + n - count) count (first + n) with inl m1 => move_backward m1 first (n - count) (first + n) | inr e => inr e end
  else uninit_move_n m first n (first + count).
(* fill_after_shift for a moved-from gap: assignments onto moved-from slots are allowed (alive), onto raw ones not *)
Definition copy_assign_alive (m : mem) (th : option nat) (dst : nat) (v : Z) : out :=
  match m dst with
  | Raw => Err AssignDead | Out => Err OutOfBlock
  | _ => let (t, th') := tick th in if t then Threw m else Done (upd m dst (Live v)) th' end.
Fixpoint fill_n_alive (m : mem) (th : option nat) (dst n : nat) (v : Z) : out :=
  match n with 0 => Done m th
  | S k => match copy_assign_alive m th dst v with Done m1 th1 => fill_n_alive m1 th1 (S dst) k v | o => o end end.
(* insert(pos, 0, v) does nothing (the guard `if (count > 0)` of the code: without it shift_right(0) would move-assign every
   element of [pos, size) onto itself - found by the slot-level correspondence, lib/slotcorr.py) *)
Definition insert_cnt_th (m : mem) (th : option nat) (size pos count : nat) (v : Z) : out :=
  if count =? 0 then Done m th else
  let n := size - pos in
  match shift_right_cnt m pos n count with
  | inr e => Err e
  | inl m1 => if n <? count
              then match uninit_fill_n m1 th (pos + n) (count - n) v with Done m2 th2 => fill_n_alive m2 th2 pos n v | o => o end
              else fill_n_alive m1 th pos count v
  end.
Definition m5 : mem := fun i => if i <? 5 then Live (Z.of_nat i) else if i <? 9 then Raw else Out.
(* size 5, insert(begin()+2, 3, v), the first copy throws: the vector still says size 5, but slot 2 is moved-from (visible)
   and slots 5..7 hold live objects beyond size() that nobody will destroy *)
Lemma insert_count_middle_refuted : exists m', Inv m5 5 9 /\ insert_cnt_th m5 (Some 0) 5 2 3 7%Z = Threw m' /\
  m' 2 = Moved /\ m' 5 = Live 2%Z /\ ~ Inv m' 5 9.
Proof. eexists. split; [|split; [vm_compute; reflexivity|split; [reflexivity|split; [reflexivity|]]]].
  - unfold Inv, m5. repeat split; [lia| | |].
    + intros i Hi. destruct (Nat.ltb_spec i 5); [reflexivity|lia].
    + intros i A B. destruct (Nat.ltb_spec i 5); [lia|]. destruct (Nat.ltb_spec i 9); [reflexivity|lia].
    + intros i Hi. destruct (Nat.ltb_spec i 5); [lia|]. destruct (Nat.ltb_spec i 9); [lia|reflexivity].
  - intros (_ & Hl & _). specialize (Hl 2 ltac:(lia)). cbn in Hl. discriminate. Qed.
(* at the end of the vector (pos = size) the same operation is std::uninitialized_fill_n alone: strong guarantee *)
Theorem insert_count_at_end_strong m th size cap count v :
  Inv m size cap -> size + count <= cap ->
  match insert_cnt_th m th size size count v with
  | Done m' _ => Inv m' (size + count) cap
  | Threw m' => Inv m' size cap /\ (forall j, m' j = m j)
  | Err _ => False
  end.
Proof.
  intros HI Hc. pose proof HI as (Hsc & Hl & Hr & Ho). unfold insert_cnt_th.
  destruct (Nat.eqb_spec count 0) as [->|Hcnt]; [rewrite Nat.add_0_r; assumption|].
  rewrite Nat.sub_diag. unfold shift_right_cnt.
  destruct (Nat.ltb_spec count 0); [lia|]. cbn [uninit_move_n]. destruct (Nat.ltb_spec 0 count) as [Hpos|Hz].
  - rewrite Nat.add_0_r, Nat.sub_0_r. pose proof (resize_grow_strong m th size cap (size + count) v HI ltac:(lia)) as R. unfold resize_grow in R.
    replace (size + count - size) with count in R by lia.
    destruct (uninit_fill_n m th size count v) as [m2 th2|m2|e]; cbn [fill_n_alive]; [tauto|tauto|assumption].
  - assert (count = 0) by lia. subst count. cbn [fill_n_alive]. rewrite Nat.add_0_r. assumption.
Qed.

(* ---- the repaired insert(pos, count, v) ----------------------------------------------------------------------------------
   vectorcommon.hpp after "fix: insert of several elements before end() leaves the vector unchanged when an element copy throws":

     if (count > 0) {
       ...adjustCapacity...
       if (nElemsToShift == 0) { std::uninitialized_fill_n(pos, count, newV); }
       else {
         shift_right(pos, nElemsToShift, count);
         try { fill_after_shift(pos, nElemsToShift, count, newV); }
         catch (...) { unshift_right(pos, nElemsToShift, count); throw; }
       }
       setSize(size() + count);
     }

   fill_after_shift (not trivially relocatable), new order:
     if (n < count) { std::fill_n(first, n, v); std::uninitialized_fill_n(first + n, count - n, v); } else { std::fill_n(first, count, v); }
   unshift_right (not trivially relocatable):
     std::move(first + count, first + count + n, first); amc::destroy_n(first + std::max(n, count), std::min(n, count));

   Copies (assignment, construction) are the throwing-capable events; moves and destructions are noexcept. *)
Definition is_alive (s : slot) : bool := match s with Live _ | Moved => true | _ => false end.
Lemma is_alive_of_live s : is_live s = true -> is_alive s = true.
Proof. destruct s; cbn [is_live is_alive]; congruence. Qed.
Lemma is_live_inv s : is_live s = true -> exists v, s = Live v.
Proof. destruct s as [| |v|]; cbn [is_live]; try discriminate. intros _. exists v. reflexivity. Qed.
Lemma move_construct_ok m dst src v : m dst = Raw -> m src = Live v -> move_construct m dst src = inl (upd (upd m dst (Live v)) src Moved).
Proof. intros Hd Hs. unfold move_construct. rewrite Hd, Hs. reflexivity. Qed.
Lemma move_assign_ok m dst src v : is_alive (m dst) = true -> m src = Live v -> move_assign m dst src = inl (upd (upd m dst (Live v)) src Moved).
Proof. intros Hd Hs. unfold move_assign. rewrite Hs. destruct (m dst); try discriminate; reflexivity. Qed.
Lemma copy_assign_alive_ok m th dst v : is_alive (m dst) = true ->
  copy_assign_alive m th dst v = let (t, th') := tick th in if t then Threw m else Done (upd m dst (Live v)) th'.
Proof. intros Hd. unfold copy_assign_alive. destruct (m dst); try discriminate; reflexivity. Qed.

(* std::move(src, src + n, dst) with dst < src: lowest element first *)
Fixpoint unshift_move (m : mem) (src n dst : nat) : mem + err :=
  match n with 0 => inl m | S k => match move_assign m dst src with inl m1 => unshift_move m1 (S src) k (S dst) | inr e => inr e end end.
Definition unshift_right (m : mem) (first n count : nat) : mem + err :=
  match unshift_move m (first + count) n first with
  | inl m1 => destroy_n m1 (first + Nat.max n count) (Nat.min n count)
  | inr e => inr e end.
Definition fill_after_shift_fix (m : mem) (th : option nat) (first n count : nat) (v : Z) : out :=
  if n <? count then
    match fill_n_alive m th first n v with Done m1 th1 => uninit_fill_n m1 th1 (first + n) (count - n) v | o => o end
  else fill_n_alive m th first count v.
Definition insert_cnt_fix (m : mem) (th : option nat) (size pos count : nat) (v : Z) : out :=
  if count =? 0 then Done m th else
  let n := size - pos in
  if n =? 0 then uninit_fill_n m th pos count v else
  match shift_right_cnt m pos n count with
  | inr e => Err e
  | inl m1 => match fill_after_shift_fix m1 th pos n count v with
              | Threw m2 => match unshift_right m2 pos n count with inl m3 => Threw m3 | inr e => Err e end
              | o => o end
  end.

(* -- the noexcept pieces ------------------------------------------------------------------------------------------------ *)
Lemma uninit_move_n_ok : forall n m src dst,
  src + n <= dst -> (forall k, k < n -> is_live (m (src + k)) = true) -> (forall k, k < n -> m (dst + k) = Raw) ->
  exists m', uninit_move_n m src n dst = inl m' /\
    (forall j, dst <= j < dst + n -> m' j = m (j - dst + src)) /\
    (forall j, src <= j < src + n -> m' j = Moved) /\
    (forall j, ~ (dst <= j < dst + n) -> ~ (src <= j < src + n) -> m' j = m j).
Proof.
  induction n as [|n IH]; intros m src dst Hd Hs Hr; cbn [uninit_move_n].
  - exists m; repeat split; intros; try lia; reflexivity.
  - pose proof (Hs 0 ltac:(lia)) as Hv. rewrite Nat.add_0_r in Hv. pose proof (Hr 0 ltac:(lia)) as Hr0. rewrite Nat.add_0_r in Hr0.
    destruct (is_live_inv _ Hv) as [v Es]. rewrite (move_construct_ok m dst src v Hr0 Es).
    destruct (IH (upd (upd m dst (Live v)) src Moved) (S src) (S dst)) as [m' (E & P1 & P2 & P3)]; [lia| | |].
    + intros k Hk. pose proof (Hs (S k) ltac:(lia)) as Hw. replace (src + S k) with (S src + k) in Hw by lia. updsimp.
    + intros k Hk. pose proof (Hr (S k) ltac:(lia)) as Hw. replace (dst + S k) with (S dst + k) in Hw by lia. updsimp.
    + exists m'; split; [exact E|]. split; [|split].
      * intros j Hj. destruct (Nat.eq_dec j dst) as [->|Hne].
        -- rewrite P3 by lia. replace (dst - dst + src) with src by lia. updsimp.
        -- rewrite P1 by lia. replace (j - S dst + S src) with (j - dst + src) by lia. updsimp.
      * intros j Hj. destruct (Nat.eq_dec j src) as [->|Hne]; [rewrite P3 by lia; updsimp|apply P2; lia].
      * intros j H1 H2. rewrite P3 by lia. updsimp.
Qed.

(* std::move_backward: moves [first, first+n) up by d > 0 slots, highest element first *)
Lemma move_backward_ok : forall n m first d,
  0 < d -> (forall k, k < n -> is_live (m (first + k)) = true) -> (forall k, k < n -> is_alive (m (first + d + k)) = true) ->
  exists m', move_backward m first n (first + d + n) = inl m' /\
    (forall j, first + d <= j < first + d + n -> m' j = m (j - d)) /\
    (forall j, first <= j < first + n -> j < first + d -> m' j = Moved) /\
    (forall j, ~ (first + d <= j < first + d + n) -> ~ (first <= j < first + n) -> m' j = m j).
Proof.
  induction n as [|n IH]; intros m first d Hd Hs Ha; cbn [move_backward].
  - exists m; repeat split; intros; try lia; reflexivity.
  - replace (first + d + S n - 1) with (first + d + n) by lia.
    destruct (is_live_inv _ (Hs n ltac:(lia))) as [v Es].
    rewrite (move_assign_ok m (first + d + n) (first + n) v (Ha n ltac:(lia)) Es).
    destruct (IH (upd (upd m (first + d + n) (Live v)) (first + n) Moved) first d Hd) as [m' (E & P1 & P2 & P3)].
    + intros k Hk. pose proof (Hs k ltac:(lia)) as Hw. updsimp.
    + intros k Hk. pose proof (Ha k ltac:(lia)) as Hw. unfold upd.
      destruct (Nat.eqb_spec (first + n) (first + d + k)); [reflexivity|].
      destruct (Nat.eqb_spec (first + d + n) (first + d + k)); [lia|assumption].
    + exists m'. split; [exact E|]. split; [|split].
      * intros j Hj. destruct (Nat.eq_dec j (first + d + n)) as [->|Hne].
        -- rewrite P3 by lia. replace (first + d + n - d) with (first + n) by lia. updsimp.
        -- rewrite P1 by lia. updsimp.
      * intros j Hj Hlt. destruct (Nat.eq_dec j (first + n)) as [->|Hne]; [rewrite P3 by lia; updsimp|apply P2; lia].
      * intros j H1 H2. rewrite P3 by lia. updsimp.
Qed.

(* shift_right(first, n, count), not trivially relocatable: the n elements end count slots higher, the first min(n, count)
   slots are left moved-from, the slots of [first + n, first + count) stay raw *)
Lemma shift_right_cnt_ok m first n count :
  0 < n -> 0 < count ->
  (forall k, k < n -> is_live (m (first + k)) = true) -> (forall k, k < count -> m (first + n + k) = Raw) ->
  exists m', shift_right_cnt m first n count = inl m' /\
    (forall j, first + count <= j < first + count + n -> m' j = m (j - count)) /\
    (forall j, first <= j < first + count -> j < first + n -> m' j = Moved) /\
    (forall j, ~ (first <= j < first + count + n) -> m' j = m j) /\
    (forall j, first + n <= j < first + count -> m' j = m j).
Proof.
  intros Hn Hc Hs Hr. unfold shift_right_cnt. destruct (Nat.ltb_spec count n) as [Hlt|Hge].
  - destruct (uninit_move_n_ok count m (first + n - count) (first + n)) as [m1 (E1 & A1 & A2 & A3)]; [lia| | |].
    + intros k Hk. replace (first + n - count + k) with (first + (n - count + k)) by lia. apply Hs. lia.
    + intros k Hk. apply Hr. lia.
    + rewrite E1.
      destruct (move_backward_ok (n - count) m1 first count Hc) as [m2 (E2 & B1 & B2 & B3)].
      * intros k Hk. rewrite A3 by lia. apply Hs. lia.
      * intros k Hk. destruct (le_lt_dec (first + n - count) (first + count + k)) as [Hin|Hout].
        -- rewrite A2 by lia. reflexivity.
        -- rewrite A3 by lia. apply is_alive_of_live. replace (first + count + k) with (first + (count + k)) by lia. apply Hs. lia.
      * replace (first + count + (n - count)) with (first + n) in E2 by lia.
        exists m2. split; [exact E2|]. repeat split.
        -- intros j Hj. destruct (le_lt_dec (first + n) j) as [Hhi|Hlo].
           ++ rewrite B3 by lia. rewrite A1 by lia. f_equal. lia.
           ++ rewrite B1 by lia. apply A3; lia.
        -- intros j Hj Hjn. destruct (le_lt_dec (first + n - count) j) as [Hhi|Hlo].
           ++ rewrite B3 by lia. apply A2. lia.
           ++ apply B2; lia.
        -- intros j Hj. rewrite B3 by lia. apply A3; lia.
        -- intros j Hj. lia.
  - destruct (uninit_move_n_ok n m first (first + count)) as [m1 (E1 & A1 & A2 & A3)]; [lia|assumption| |].
    + intros k Hk. replace (first + count + k) with (first + n + (count - n + k)) by lia. apply Hr. lia.
    + exists m1. split; [exact E1|]. repeat split.
      * intros j Hj. rewrite A1 by lia. f_equal. lia.
      * intros j Hj Hjn. apply A2. lia.
      * intros j Hj. apply A3; lia.
      * intros j Hj. apply A3; lia.
Qed.

(* std::move downwards by d > 0 slots: every source is read before it is overwritten *)
Lemma unshift_move_ok : forall n m dst d,
  0 < d -> (forall k, k < n -> is_live (m (dst + d + k)) = true) -> (forall k, k < n -> is_alive (m (dst + k)) = true) ->
  exists m', unshift_move m (dst + d) n dst = inl m' /\
    (forall j, dst <= j < dst + n -> m' j = m (j + d)) /\
    (forall j, dst + d <= j < dst + d + n -> dst + n <= j -> m' j = Moved) /\
    (forall j, ~ (dst <= j < dst + n) -> ~ (dst + d <= j < dst + d + n) -> m' j = m j).
Proof.
  induction n as [|n IH]; intros m dst d Hd Hs Ha; cbn [unshift_move].
  - exists m; repeat split; intros; try lia; reflexivity.
  - pose proof (Hs 0 ltac:(lia)) as Hv. rewrite Nat.add_0_r in Hv. pose proof (Ha 0 ltac:(lia)) as Ha0. rewrite Nat.add_0_r in Ha0.
    destruct (is_live_inv _ Hv) as [v Es]. rewrite (move_assign_ok m dst (dst + d) v Ha0 Es).
    replace (S (dst + d)) with (S dst + d) by lia.
    destruct (IH (upd (upd m dst (Live v)) (dst + d) Moved) (S dst) d Hd) as [m' (E & P1 & P2 & P3)].
    + intros k Hk. pose proof (Hs (S k) ltac:(lia)) as Hw. replace (dst + d + S k) with (S dst + d + k) in Hw by lia. updsimp.
    + intros k Hk. pose proof (Ha (S k) ltac:(lia)) as Hw. replace (dst + S k) with (S dst + k) in Hw by lia. unfold upd.
      destruct (Nat.eqb_spec (dst + d) (S dst + k)); [reflexivity|].
      destruct (Nat.eqb_spec dst (S dst + k)); [lia|assumption].
    + exists m'. split; [exact E|]. split; [|split].
      * intros j Hj. destruct (Nat.eq_dec j dst) as [->|Hne].
        -- rewrite P3 by lia. updsimp.
        -- rewrite P1 by lia. updsimp.
      * intros j Hj Hge. destruct (Nat.eq_dec j (dst + d)) as [->|Hne]; [rewrite P3 by lia; updsimp|apply P2; lia].
      * intros j H1 H2. rewrite P3 by lia. updsimp.
Qed.

(* amc::destroy_n on objects that may be moved-from *)
Lemma destroy_n_alive_spec : forall n m first, (forall k, k < n -> is_alive (m (first + k)) = true) ->
  exists m', destroy_n m first n = inl m' /\ (forall j, first <= j < first + n -> m' j = Raw) /\ (forall j, ~ (first <= j < first + n) -> m' j = m j).
Proof. induction n as [|n IH]; intros m first H; cbn [destroy_n].
  - exists m. repeat split; intros; try lia; reflexivity.
  - pose proof (H 0 ltac:(lia)) as H0. rewrite Nat.add_0_r in H0.
    assert (Ed : destroy m first = inl (upd m first Raw)) by (unfold destroy; destruct (m first); try discriminate; reflexivity).
    rewrite Ed. destruct (IH (upd m first Raw) (S first)) as [m' (E' & P1 & P2)].
    + intros k Hk. pose proof (H (S k) ltac:(lia)) as Hw. replace (first + S k) with (S first + k) in Hw by lia. updsimp.
    + exists m'. split; [exact E'|]. split.
      * intros j Hj. destruct (Nat.eq_dec j first) as [->|]; [rewrite P2 by lia; updsimp|apply P1; lia].
      * intros j Hj. rewrite P2 by lia. updsimp. Qed.

(* unshift_right undoes shift_right_cnt: needs the first min(n, count) slots alive (assigned or still moved-from) and the n
   shifted elements; it does not look at [first + n, first + count) (raw when n < count) *)
Lemma unshift_right_ok m first n count :
  0 < n -> 0 < count ->
  (forall j, first <= j < first + Nat.min n count -> is_alive (m j) = true) ->
  (forall j, first + count <= j < first + count + n -> is_live (m j) = true) ->
  exists m', unshift_right m first n count = inl m' /\
    (forall j, first <= j < first + n -> m' j = m (j + count)) /\
    (forall j, first + Nat.max n count <= j < first + count + n -> m' j = Raw) /\
    (forall j, ~ (first <= j < first + n) -> ~ (first + Nat.max n count <= j < first + count + n) -> m' j = m j).
Proof.
  intros Hn Hc Ha Hs. unfold unshift_right.
  destruct (unshift_move_ok n m first count Hc) as [m1 (E1 & P1 & P2 & P3)].
  - intros k Hk. apply Hs. lia.
  - intros k Hk. destruct (le_lt_dec (Nat.min n count) k) as [Hhi|Hlo]; [apply is_alive_of_live; apply Hs; lia|apply Ha; lia].
  - rewrite E1. destruct (destroy_n_alive_spec (Nat.min n count) m1 (first + Nat.max n count)) as [m2 (E2 & D1 & D2)].
    + intros k Hk. rewrite P2 by lia. reflexivity.
    + exists m2. split; [exact E2|]. split; [|split].
      * intros j Hj. rewrite D2 by lia. apply P1. lia.
      * intros j Hj. apply D1. lia.
      * intros j H1 H2. rewrite D2 by lia. apply P3; lia.
Qed.

(* -- the throwing pieces ------------------------------------------------------------------------------------------------ *)
Lemma fill_n_alive_spec : forall n m th dst v, (forall k, k < n -> is_alive (m (dst + k)) = true) ->
  match fill_n_alive m th dst n v with
  | Done m' _ => (forall j, dst <= j < dst + n -> m' j = Live v) /\ (forall j, ~ (dst <= j < dst + n) -> m' j = m j)
  | Threw m' => (forall j, dst <= j < dst + n -> is_alive (m' j) = true) /\ (forall j, ~ (dst <= j < dst + n) -> m' j = m j)
  | Err _ => False
  end.
Proof. induction n as [|n IH]; intros m th dst v H; cbn [fill_n_alive].
  - split; intros; try lia; reflexivity.
  - pose proof (H 0 ltac:(lia)) as H0. rewrite Nat.add_0_r in H0. rewrite (copy_assign_alive_ok m th dst v H0).
    destruct (tick th) as [[|] th'].
    + split; [|reflexivity]. intros j Hj. replace j with (dst + (j - dst)) by lia. apply H. lia.
    + specialize (IH (upd m dst (Live v)) th' (S dst) v).
      assert (Hn : forall k, k < n -> is_alive (upd m dst (Live v) (S dst + k)) = true).
      { intros k Hk. pose proof (H (S k) ltac:(lia)) as Hw. replace (dst + S k) with (S dst + k) in Hw by lia. updsimp. }
      specialize (IH Hn). destruct (fill_n_alive (upd m dst (Live v)) th' (S dst) n v) as [m' th2|m'|e]; [| |assumption].
      * destruct IH as [P1 P2]. split.
        -- intros j Hj. destruct (Nat.eq_dec j dst) as [->|]; [rewrite P2 by lia; updsimp|apply P1; lia].
        -- intros j Hj. rewrite P2 by lia. updsimp.
      * destruct IH as [P1 P2]. split.
        -- intros j Hj. destruct (Nat.eq_dec j dst) as [->|]; [rewrite P2 by lia; updsimp|apply P1; lia].
        -- intros j Hj. rewrite P2 by lia. updsimp.
Qed.

(* fill_after_shift in its new order: whichever copy throws (an assignment of the alive part, a construction of the raw part),
   the alive part is still alive and EVERYTHING else is as before - the raw part is raw again: what unshift_right needs *)
Lemma fill_after_shift_fix_spec m th first n count v :
  (forall j, first <= j < first + Nat.min n count -> is_alive (m j) = true) ->
  (forall j, first + n <= j < first + count -> m j = Raw) ->
  match fill_after_shift_fix m th first n count v with
  | Done m' _ => (forall j, first <= j < first + count -> m' j = Live v) /\ (forall j, ~ (first <= j < first + count) -> m' j = m j)
  | Threw m' => (forall j, first <= j < first + Nat.min n count -> is_alive (m' j) = true) /\
                (forall j, ~ (first <= j < first + Nat.min n count) -> m' j = m j)
  | Err _ => False
  end.
Proof.
  intros Ha Hr. unfold fill_after_shift_fix. destruct (Nat.ltb_spec n count) as [Hlt|Hge].
  - pose proof (fill_n_alive_spec n m th first v ltac:(intros k Hk; apply Ha; lia)) as F.
    destruct (fill_n_alive m th first n v) as [m1 th1|m1|e]; [| |assumption].
    + destruct F as [F1 F2]. unfold uninit_fill_n.
      destruct (uninit_fill_loop_spec (count - n) m1 th1 (first + n) (first + n) v) as [(m2 & th2 & E & P1 & P2)|(m2 & E & P1 & P2)];
        [lia|intros; lia|intros k Hk; rewrite F2 by lia; apply Hr; lia| |]; rewrite E.
      * split.
        -- intros j Hj. destruct (le_lt_dec (first + n) j); [apply P1; lia|rewrite P2 by lia; apply F1; lia].
        -- intros j Hj. rewrite P2 by lia. apply F2. lia.
      * split.
        -- intros j Hj. rewrite P2 by lia. rewrite F1 by lia. reflexivity.
        -- intros j Hj. destruct (le_lt_dec (first + n) j) as [Hhi|Hlo]; [destruct (le_lt_dec (first + count) j) as [Hhi2|Hlo2]|].
           ++ rewrite P2 by lia. apply F2. lia.
           ++ rewrite P1 by lia. symmetry. apply Hr. lia.
           ++ rewrite P2 by lia. apply F2. lia.
    + destruct F as [F1 F2]. split.
      * intros j Hj. apply F1. lia.
      * intros j Hj. apply F2. lia.
  - pose proof (fill_n_alive_spec count m th first v ltac:(intros k Hk; apply Ha; lia)) as F.
    destruct (fill_n_alive m th first count v) as [m1 th1|m1|e]; [| |assumption].
    + exact F.
    + destruct F as [F1 F2]. split.
      * intros j Hj. apply F1. lia.
      * intros j Hj. apply F2. lia.
Qed.

(* -- the theorem ---------------------------------------------------------------------------------------------------------
   insert(pos, count, v) anywhere in the vector, within capacity (after adjustCapacity), whichever copy throws:
   never a lifetime error; an exception leaves EVERY slot exactly as it was (strong guarantee: same elements, nothing alive
   beyond size, nothing moved-from); completion gives prefix, count copies of v, the old tail count slots higher. *)
Theorem insert_cnt_fix_strong m th size cap pos count v :
  Inv m size cap -> pos <= size -> size + count <= cap ->
  match insert_cnt_fix m th size pos count v with
  | Done m' _ => (forall j, j < pos -> m' j = m j) /\ (forall j, pos <= j < pos + count -> m' j = Live v) /\
                 (forall j, pos + count <= j < size + count -> m' j = m (j - count)) /\ Inv m' (size + count) cap
  | Threw m' => forall j, m' j = m j
  | Err _ => False
  end.
Proof.
  intros HI Hp Hcap. pose proof HI as (Hsc & Hl & Hr & Ho). unfold insert_cnt_fix.
  assert (Hfin : forall m', (forall j, pos <= j < pos + count -> m' j = Live v) ->
            (forall j, pos + count <= j < size + count -> m' j = m (j - count)) ->
            (forall j, ~ (pos <= j < size + count) -> m' j = m j) ->
            (forall j, j < pos -> m' j = m j) /\ (forall j, pos <= j < pos + count -> m' j = Live v) /\
            (forall j, pos + count <= j < size + count -> m' j = m (j - count)) /\ Inv m' (size + count) cap).
  { intros m' F1 F2 F3. split; [intros j Hj; apply F3; lia|]. split; [exact F1|]. split; [exact F2|].
    repeat split; [lia| | |].
    - intros i Hi. destruct (le_lt_dec pos i) as [Hge|Hlt]; [destruct (le_lt_dec (pos + count) i)|].
      + rewrite F2 by lia. apply Hl. lia.
      + rewrite F1 by lia. reflexivity.
      + rewrite F3 by lia. apply Hl. lia.
    - intros i Hi Hic. rewrite F3 by lia. apply Hr; lia.
    - intros i Hi. rewrite F3 by lia. apply Ho; lia. }
  destruct (Nat.eqb_spec count 0) as [->|Hc0].
  - split; [reflexivity|]. split; [intros; lia|]. split; [intros j Hj; rewrite Nat.sub_0_r; reflexivity|]. rewrite Nat.add_0_r. exact HI.
  - destruct (Nat.eqb_spec (size - pos) 0) as [Hz|Hnz].
    + (* at the end: std::uninitialized_fill_n alone *)
      assert (pos = size) by lia. subst pos. unfold uninit_fill_n.
      destruct (uninit_fill_loop_spec count m th size size v) as [(m' & th' & E & P1 & P2)|(m' & E & P1 & P2)];
        [lia|intros; lia|intros k Hk; apply Hr; lia| |]; rewrite E.
      * apply Hfin; [exact P1|intros; lia|intros j Hj; apply P2; lia].
      * intros j. destruct (le_lt_dec size j) as [H1|H1]; [destruct (le_lt_dec (size + count) j) as [H2|H2]|]; [apply P2; lia| |apply P2; lia].
        rewrite P1 by lia. symmetry. apply Hr; lia.
    + (* in the middle: shift, fill, and unshift when the fill throws *)
      destruct (shift_right_cnt_ok m pos (size - pos) count ltac:(lia) ltac:(lia)) as [m1 (E1 & S1 & S2 & S3 & S4)].
      * intros k Hk. apply Hl. lia.
      * intros k Hk. apply Hr; lia.
      * rewrite E1.
        pose proof (fill_after_shift_fix_spec m1 th pos (size - pos) count v) as F.
        assert (FA : forall j, pos <= j < pos + Nat.min (size - pos) count -> is_alive (m1 j) = true)
          by (intros j Hj; rewrite S2 by lia; reflexivity).
        assert (FR : forall j, pos + (size - pos) <= j < pos + count -> m1 j = Raw)
          by (intros j Hj; rewrite S4 by lia; apply Hr; lia).
        specialize (F FA FR). destruct (fill_after_shift_fix m1 th pos (size - pos) count v) as [m2 th2|m2|e]; [| |assumption].
        -- destruct F as [F1 F2]. apply Hfin; [exact F1| |].
           ++ intros j Hj. rewrite F2 by lia. apply S1. lia.
           ++ intros j Hj. rewrite F2 by lia. apply S3. lia.
        -- destruct F as [F1 F2].
           destruct (unshift_right_ok m2 pos (size - pos) count ltac:(lia) ltac:(lia) F1) as [m3 (E3 & U1 & U2 & U3)].
           ++ intros j Hj. rewrite F2 by lia. rewrite S1 by lia. apply Hl. lia.
           ++ rewrite E3. intros j.
              destruct (le_lt_dec pos j) as [A|A]; [destruct (le_lt_dec size j) as [B|B]|].
              ** destruct (le_lt_dec (pos + Nat.max (size - pos) count) j) as [C|C]; [destruct (le_lt_dec (size + count) j) as [D|D]|].
                 --- rewrite U3 by lia. rewrite F2 by lia. apply S3. lia.
                 --- rewrite U2 by lia. symmetry. apply Hr; lia.
                 --- rewrite U3 by lia. rewrite F2 by lia. apply S4. lia.
              ** rewrite U1 by lia. rewrite F2 by lia. rewrite S1 by lia. f_equal. lia.
              ** rewrite U3 by lia. rewrite F2 by lia. apply S3. lia.
Qed.

(* consequence: the vector is the same vector after an exception *)
Corollary insert_cnt_fix_threw_inv m th size cap pos count v m' :
  Inv m size cap -> pos <= size -> size + count <= cap -> insert_cnt_fix m th size pos count v = Threw m' -> Inv m' size cap.
Proof.
  intros HI Hp Hcap E. pose proof (insert_cnt_fix_strong m th size cap pos count v HI Hp Hcap) as T. rewrite E in T.
  destruct HI as (Hsc & Hl & Hr & Ho). repeat split; [lia| | |]; intros; rewrite T; auto.
Qed.

Lemma m5_inv : Inv m5 5 9.
Proof. unfold Inv, m5. repeat split; [lia| | |].
  - intros i Hi. destruct (Nat.ltb_spec i 5); [reflexivity|lia].
  - intros i A B. destruct (Nat.ltb_spec i 5); [lia|]. destruct (Nat.ltb_spec i 9); [reflexivity|lia].
  - intros i Hi. destruct (Nat.ltb_spec i 5); [lia|]. destruct (Nat.ltb_spec i 9); [lia|reflexivity]. Qed.

(* the hypotheses are satisfiable on a non-trivial memory and both outcomes occur.  Same call as [insert_count_middle_refuted]
   (size 5, capacity 9, insert(begin() + 2, 3, v), the first copy throws): slot 2 holds its element again and slot 5 is raw;
   with pos = 4 (n = 1 < count = 3) both failure points of fill_after_shift are reached: the assignment ([Some 0]) and the
   second construction ([Some 2]) *)
Example insert_cnt_fix_both_outcomes :
  Inv m5 5 9 /\ 2 <= 5 /\ 5 + 3 <= 9 /\
  (exists m', insert_cnt_fix m5 (Some 0) 5 2 3 7%Z = Threw m' /\ m' 2 = Live 2%Z /\ m' 4 = Live 4%Z /\ m' 5 = Raw /\ m' 7 = Raw) /\
  (exists m', insert_cnt_fix m5 (Some 0) 5 4 3 7%Z = Threw m' /\ m' 4 = Live 4%Z /\ m' 5 = Raw /\ m' 7 = Raw) /\
  (exists m', insert_cnt_fix m5 (Some 2) 5 4 3 7%Z = Threw m' /\ m' 4 = Live 4%Z /\ m' 5 = Raw /\ m' 7 = Raw) /\
  (exists m' th', insert_cnt_fix m5 (Some 3) 5 2 3 7%Z = Done m' th' /\ th' = Some 0 /\
     m' 1 = Live 1%Z /\ m' 2 = Live 7%Z /\ m' 4 = Live 7%Z /\ m' 5 = Live 2%Z /\ m' 7 = Live 4%Z /\ m' 8 = Raw) /\
  (exists m' th', insert_cnt_fix m5 None 5 2 3 7%Z = Done m' th').
Proof.
  split; [exact m5_inv|]. split; [lia|]. split; [lia|].
  split; [eexists; split; [vm_compute; reflexivity|repeat split; reflexivity]|].
  split; [eexists; split; [vm_compute; reflexivity|repeat split; reflexivity]|].
  split; [eexists; split; [vm_compute; reflexivity|repeat split; reflexivity]|].
  split; [eexists; eexists; split; [vm_compute; reflexivity|repeat split; reflexivity]|].
  eexists; eexists; vm_compute; reflexivity.
Qed.
