From Coq Require Import ZArith Lia Bool List Arith.
Require Import ZifyBool.
Import ListNotations.
Inductive slot := Out | Raw | Live (v : Z) | Moved.
Definition mem := nat -> slot.
Definition upd (m : mem) (i : nat) (s : slot) : mem := fun j => if Nat.eqb i j then s else m j.
Inductive err := ConstructOverLive | AssignDead | DestroyDead | OutOfBlock.
(* outcome of a step that may throw: Done | Threw (memory as left behind) | Err (lifetime error) *)
Inductive out := Done (m : mem) (th : option nat) | Threw (m : mem) | Err (e : err).
(* throw oracle: [Some 0] = the next throwing-capable event throws; [Some (S k)] = k more succeed first; [None] = none throws *)
Definition tick (th : option nat) : bool * option nat :=
  match th with None => (false, None) | Some 0 => (true, None) | Some (S k) => (false, Some k) end.
Definition copy_construct (m : mem) (th : option nat) (dst : nat) (v : Z) : out :=
  match m dst with
  | Raw => let (t, th') := tick th in if t then Threw m else Done (upd m dst (Live v)) th'
  | Out => Err OutOfBlock | _ => Err ConstructOverLive end.
Definition copy_assign (m : mem) (th : option nat) (dst : nat) (v : Z) : out :=
  match m dst with
  | Raw => Err AssignDead | Out => Err OutOfBlock
  | _ => let (t, th') := tick th in if t then Threw m else Done (upd m dst (Live v)) th' end.
Definition destroy (m : mem) (i : nat) : mem + err :=
  match m i with Live _ | Moved => inl (upd m i Raw) | Raw => inr DestroyDead | Out => inr OutOfBlock end.
Fixpoint destroy_n (m : mem) (first n : nat) : mem + err :=
  match n with 0 => inl m | S k => match destroy m first with inl m1 => destroy_n m1 (S first) k | inr e => inr e end end.
(* std::uninitialized_fill_n: constructs forward; on throw destroys what it built and rethrows *)
Fixpoint uninit_fill_loop (m : mem) (th : option nat) (first cur n : nat) (v : Z) : out :=
  match n with
  | 0 => Done m th
  | S k => match copy_construct m th cur v with
           | Done m1 th1 => uninit_fill_loop m1 th1 first (S cur) k v
           | Threw m1 => match destroy_n m1 first (cur - first) with inl m2 => Threw m2 | inr e => Err e end
           | Err e => Err e end
  end.
Definition uninit_fill_n m th dst n v := uninit_fill_loop m th dst dst n v.
Fixpoint fill_n (m : mem) (th : option nat) (dst n : nat) (v : Z) : out :=
  match n with 0 => Done m th
  | S k => match copy_assign m th dst v with Done m1 th1 => fill_n m1 th1 (S dst) k v | o => o end end.

Definition is_live (s : slot) := match s with Live _ => true | _ => false end.
Definition Inv (m : mem) (size cap : nat) : Prop :=
  size <= cap /\ (forall i, i < size -> is_live (m i) = true) /\ (forall i, size <= i -> i < cap -> m i = Raw) /\ (forall i, cap <= i -> m i = Out).
Ltac updsimp := unfold upd; repeat match goal with |- context [Nat.eqb ?a ?b] => destruct (Nat.eqb_spec a b) end; try lia; try reflexivity; try congruence.

Lemma destroy_n_spec : forall n m first, (forall k, k < n -> is_live (m (first + k)) = true) ->
  exists m', destroy_n m first n = inl m' /\ (forall j, first <= j < first + n -> m' j = Raw) /\ (forall j, ~ (first <= j < first + n) -> m' j = m j).
Proof. induction n as [|n IH]; intros m first H; cbn [destroy_n].
  - exists m. repeat split; intros; try lia; reflexivity.
  - pose proof (H 0 ltac:(lia)) as H0. rewrite Nat.add_0_r in H0. unfold destroy. destruct (m first) eqn:E; try discriminate.
    destruct (IH (upd m first Raw) (S first)) as [m' (E' & P1 & P2)].
    + intros k Hk. pose proof (H (S k) ltac:(lia)) as Hw. replace (first + S k) with (S first + k) in Hw by lia. updsimp.
    + exists m'. split; [exact E'|]. split.
      * intros j Hj. destruct (Nat.eq_dec j first) as [->|]; [rewrite P2 by lia; updsimp|apply P1; lia].
      * intros j Hj. rewrite P2 by lia. updsimp. Qed.

(* the self-cleaning algorithm: either all n constructed, or NOTHING changed (its own strong guarantee) *)
Lemma uninit_fill_loop_spec : forall n m th first cur v,
  first <= cur -> (forall j, first <= j < cur -> is_live (m j) = true) -> (forall k, k < n -> m (cur + k) = Raw) ->
  (exists m' th', uninit_fill_loop m th first cur n v = Done m' th' /\
      (forall j, cur <= j < cur + n -> m' j = Live v) /\ (forall j, ~ (cur <= j < cur + n) -> m' j = m j)) \/
  (exists m', uninit_fill_loop m th first cur n v = Threw m' /\
      (forall j, first <= j < cur + n -> m' j = Raw) /\ (forall j, ~ (first <= j < cur + n) -> m' j = m j)).
Proof.
  induction n as [|n IH]; intros m th first cur v Hfc Hl Hr; cbn [uninit_fill_loop].
  - left. exists m, th. repeat split; intros; try lia; reflexivity.
  - pose proof (Hr 0 ltac:(lia)) as H0. rewrite Nat.add_0_r in H0. unfold copy_construct. rewrite H0.
    destruct (tick th) as [[|] th'].
    + (* throws here: destroy [first, cur) *) right.
      destruct (destroy_n_spec (cur - first) m first) as [m2 (E & P1 & P2)]; [intros k Hk; apply Hl; lia|].
      rewrite E. exists m2. split; [reflexivity|]. split.
      * intros j Hj. destruct (le_lt_dec cur j); [rewrite P2 by lia; replace j with (cur + (j - cur)) by lia; apply Hr; lia|apply P1; lia].
      * intros j Hj. apply P2. lia.
    + destruct (IH (upd m cur (Live v)) th' first (S cur) v) as [(m' & th2 & E & P1 & P2)|(m' & E & P1 & P2)]; [lia| | | |].
      * intros j Hj. destruct (Nat.eq_dec j cur) as [->|]; [updsimp|]. pose proof (Hl j ltac:(lia)). updsimp.
      * intros k Hk. pose proof (Hr (S k) ltac:(lia)) as Hw. replace (cur + S k) with (S cur + k) in Hw by lia. updsimp.
      * left. exists m', th2. split; [exact E|]. split.
        -- intros j Hj. destruct (Nat.eq_dec j cur) as [->|]; [rewrite P2 by lia; updsimp|apply P1; lia].
        -- intros j Hj. rewrite P2 by lia. updsimp.
      * right. exists m'. split; [exact E|]. split.
        -- intros j Hj. apply P1. lia.
        -- intros j Hj. rewrite P2 by lia. updsimp.
Qed.

(* VectorImpl::resize(count, v), growing within capacity: uninitialized_fill_n at end(), then setSize *)
Definition resize_grow (m : mem) (th : option nat) (size count : nat) (v : Z) : out * nat :=
  match uninit_fill_n m th size (count - size) v with Done m' th' => (Done m' th', count) | o => (o, size) end.
Theorem resize_grow_strong m th size cap count v :
  Inv m size cap -> size <= count <= cap ->
  match resize_grow m th size count v with
  | (Done m' _, s') => s' = count /\ Inv m' count cap /\ (forall j, j < size -> m' j = m j) /\ (forall j, size <= j < count -> m' j = Live v)
  | (Threw m', s') => s' = size /\ Inv m' size cap /\ (forall j, m' j = m j)          (* strong: nothing changed *)
  | (Err _, _) => False end.
Proof.
  intros (Hsc & Hl & Hr & Ho) Hc. unfold resize_grow, uninit_fill_n.
  destruct (uninit_fill_loop_spec (count - size) m th size size v) as [(m' & th' & E & P1 & P2)|(m' & E & P1 & P2)];
    [lia|intros; lia|intros k Hk; apply Hr; lia| |]; rewrite E.
  - split; [reflexivity|]. split; [|split].
    + repeat split; [lia| | |].
      * intros i Hi. destruct (le_lt_dec size i); [rewrite P1 by lia; reflexivity|rewrite P2 by lia; apply Hl; lia].
      * intros i H1 H2. rewrite P2 by lia. apply Hr; lia.
      * intros i Hi. rewrite P2 by lia. apply Ho; lia.
    + intros j Hj. apply P2. lia.
    + intros j Hj. apply P1. lia.
  - split; [reflexivity|]. assert (Hsame : forall j, m' j = m j).
    { intros j. destruct (le_lt_dec size j) as [H1|H1]; [destruct (le_lt_dec (size + (count - size)) j)|]; [apply P2; lia| |apply P2; lia].
      rewrite P1 by lia. symmetry. apply Hr; lia. }
    split; [|exact Hsame]. repeat split; [lia| | |]; intros; rewrite Hsame; auto.
Qed.

(* HISTORIC (before the repair 'assign(n, v) does not leak the new tail when an element assignment throws'):
   fill (non trivially copyable) built the uninitialized tail FIRST, then assigned the live prefix *)
Definition fill_cur (m : mem) (th : option nat) (first n count : nat) (v : Z) : out :=
  match uninit_fill_n m th (first + n) (count - n) v with Done m1 th1 => fill_n m1 th1 first n v | o => o end.
(* F12 refuted: size 2, assign(4, v): both tail constructions succeed, the first assignment throws;
   the container still says size 2 but slots 2 and 3 hold live objects nobody will destroy *)
Definition m0 : mem := fun i => if i <? 2 then Live 7 else if i <? 6 then Raw else Out.
Lemma fill_cur_leaks : exists m', fill_cur m0 (Some 2) 0 2 4 9%Z = Threw m' /\ m' 2 = Live 9%Z /\ m' 3 = Live 9%Z.
Proof. eexists. split; [vm_compute; reflexivity|]. split; reflexivity. Qed.
Lemma fill_cur_refuted : exists m th size cap count v m', Inv m size cap /\ size < count <= cap /\
  fill_cur m th 0 size count v = Threw m' /\ ~ Inv m' size cap.
Proof. exists m0, (Some 2), 2, 6, 4, 9%Z. destruct fill_cur_leaks as (m' & E & H2 & H3). exists m'.
  split.
  { unfold Inv, m0. repeat split; [lia| | |].
    - intros i Hi. destruct (Nat.ltb_spec i 2); [reflexivity|lia].
    - intros i Ha Hb. destruct (Nat.ltb_spec i 2); [lia|]. destruct (Nat.ltb_spec i 6); [reflexivity|lia].
    - intros i Hi. destruct (Nat.ltb_spec i 2); [lia|]. destruct (Nat.ltb_spec i 6); [lia|reflexivity]. }
  split; [lia|]. split; [exact E|]. intros (_ & _ & Hraw & _). specialize (Hraw 2 ltac:(lia) ltac:(lia)). congruence. Qed.




(* ---- the repaired order: assign the live prefix first, then build the tail --------------------------------------- *)
Definition fill_fix (m : mem) (th : option nat) (first n count : nat) (v : Z) : out :=
  match fill_n m th first n v with Done m1 th1 => uninit_fill_n m1 th1 (first + n) (count - n) v | o => o end.

Lemma fill_n_th_spec : forall n m th dst v, (forall k, k < n -> is_live (m (dst + k)) = true) ->
  match fill_n m th dst n v with
  | Done m' _ => (forall j, dst <= j < dst + n -> m' j = Live v) /\ (forall j, ~ (dst <= j < dst + n) -> m' j = m j)
  | Threw m' => (forall j, dst <= j < dst + n -> is_live (m' j) = true) /\ (forall j, ~ (dst <= j < dst + n) -> m' j = m j)
  | Err _ => False
  end.
Proof. induction n as [|n IH]; intros m th dst v H; cbn [fill_n].
  - split; intros; try lia; reflexivity.
  - pose proof (H 0 ltac:(lia)) as H0. rewrite Nat.add_0_r in H0. unfold copy_assign. destruct (m dst) eqn:Ed; try discriminate.
    destruct (tick th) as [[|] th'].
    + split; [|reflexivity]. intros j Hj. replace j with (dst + (j - dst)) by lia. apply H. lia.
    + specialize (IH (upd m dst (Live v)) th' (S dst) v).
      assert (Hn : forall k, k < n -> is_live (upd m dst (Live v) (S dst + k)) = true).
      { intros k Hk. pose proof (H (S k) ltac:(lia)) as Hw. replace (dst + S k) with (S dst + k) in Hw by lia. updsimp. }
      specialize (IH Hn). destruct (fill_n (upd m dst (Live v)) th' (S dst) n v) as [m' th2|m'|e]; [| |assumption].
      * destruct IH as [P1 P2]. split.
        -- intros j Hj. destruct (Nat.eq_dec j dst) as [->|]; [rewrite P2 by lia; updsimp|apply P1; lia].
        -- intros j Hj. rewrite P2 by lia. updsimp.
      * destruct IH as [P1 P2]. split.
        -- intros j Hj. destruct (Nat.eq_dec j dst) as [->|]; [rewrite P2 by lia; updsimp|apply P1; lia].
        -- intros j Hj. rewrite P2 by lia. updsimp.
Qed.

(* assign(n, v) growing within capacity: basic guarantee at every throw point (prefix assignments, tail constructions):
   the vector keeps its size with live elements, nothing alive beyond it; success: n copies of v *)
Theorem assign_grow_basic m th size cap count v :
  Inv m size cap -> size < count <= cap ->
  match fill_fix m th 0 size count v with
  | Done m' _ => Inv m' count cap /\ (forall j, j < count -> m' j = Live v)
  | Threw m' => Inv m' size cap
  | Err _ => False
  end.
Proof.
  intros (Hsc & Hl & Hr & Ho) Hc. unfold fill_fix.
  pose proof (fill_n_th_spec size m th 0 v ltac:(intros k Hk; apply Hl; lia)) as F.
  destruct (fill_n m th 0 size v) as [m1 th1|m1|e]; [| |assumption].
  - destruct F as [F1 F2]. unfold uninit_fill_n.
    destruct (uninit_fill_loop_spec (count - size) m1 th1 (0 + size) (0 + size) v) as [(m' & th' & E & P1 & P2)|(m' & E & P1 & P2)];
      [lia|intros; lia|intros k Hk; rewrite F2 by lia; apply Hr; lia| |]; rewrite E.
    + split.
      * repeat split; [lia| | |].
        -- intros i Hi. destruct (le_lt_dec size i); [rewrite P1 by lia; reflexivity|rewrite P2 by lia; rewrite F1 by lia; reflexivity].
        -- intros i A B. rewrite P2 by lia. rewrite F2 by lia. apply Hr; lia.
        -- intros i Hi. rewrite P2 by lia. rewrite F2 by lia. apply Ho; lia.
      * intros j Hj. destruct (le_lt_dec size j); [apply P1; lia|rewrite P2 by lia; apply F1; lia].
    + repeat split; [lia| | |].
      * intros i Hi. rewrite P2 by lia. rewrite F1 by lia. reflexivity.
      * intros i A B. destruct (le_lt_dec (0 + size + (count - size)) i); [rewrite P2 by lia; rewrite F2 by lia; apply Hr; lia|apply P1; lia].
      * intros i Hi. rewrite P2 by lia. rewrite F2 by lia. apply Ho; lia.
  - destruct F as [F1 F2]. repeat split; [lia| | |].
    + intros i Hi. apply F1. lia.
    + intros i A B. rewrite F2 by lia. apply Hr; lia.
    + intros i Hi. rewrite F2 by lia. apply Ho; lia.
Qed.

(* ---- known finding: insert(pos, count, v) in the middle, copy throws while filling the gap ------------------------- *)
(* moves are noexcept: plain memory transformers with lifetime errors *)
Definition move_construct (m : mem) (dst src : nat) : mem + err :=
  match m dst, m src with
  | Raw, Live v => inl (upd (upd m dst (Live v)) src Moved)
  | Out, _ | _, Out => inr OutOfBlock
  | Raw, _ => inr AssignDead | _, _ => inr ConstructOverLive end.
Definition move_assign (m : mem) (dst src : nat) : mem + err :=
  match m dst, m src with
  | Out, _ | _, Out => inr OutOfBlock
  | Raw, _ => inr AssignDead
  | _, Live v => inl (upd (upd m dst (Live v)) src Moved)
  | _, _ => inr AssignDead end.
Fixpoint uninit_move_n (m : mem) (src n dst : nat) : mem + err :=
  match n with 0 => inl m | S k => match move_construct m dst src with inl m1 => uninit_move_n m1 (S src) k (S dst) | inr e => inr e end end.
Fixpoint move_backward (m : mem) (first n dlast : nat) : mem + err :=
  match n with 0 => inl m | S k => match move_assign m (dlast - 1) (first + k) with inl m1 => move_backward m1 first k (dlast - 1) | inr e => inr e end end.
Definition shift_right_cnt (m : mem) (first n count : nat) : mem + err :=
  if count <? n then
    match uninit_move_n m (first + n - count) count (first + n) with inl m1 => move_backward m1 first (n - count) (first + n) | inr e => inr e end
  else uninit_move_n m first n (first + count).
(* fill_after_shift for a moved-from gap: assignments onto moved-from slots are allowed (alive), onto raw ones not *)
Definition copy_assign_alive (m : mem) (th : option nat) (dst : nat) (v : Z) : out :=
  match m dst with
  | Raw => Err AssignDead | Out => Err OutOfBlock
  | _ => let (t, th') := tick th in if t then Threw m else Done (upd m dst (Live v)) th' end.
Fixpoint fill_n_alive (m : mem) (th : option nat) (dst n : nat) (v : Z) : out :=
  match n with 0 => Done m th
  | S k => match copy_assign_alive m th dst v with Done m1 th1 => fill_n_alive m1 th1 (S dst) k v | o => o end end.
(* insert(pos, 0, v) does nothing (the guard `if (count > 0)` of the code: without it shift_right(0) would move-assign every
   element of [pos, size) onto itself - found by the slot-level correspondence, lib/slotcorr.py) *)
Definition insert_cnt_th (m : mem) (th : option nat) (size pos count : nat) (v : Z) : out :=
  if count =? 0 then Done m th else
  let n := size - pos in
  match shift_right_cnt m pos n count with
  | inr e => Err e
  | inl m1 => if n <? count
              then match uninit_fill_n m1 th (pos + n) (count - n) v with Done m2 th2 => fill_n_alive m2 th2 pos n v | o => o end
              else fill_n_alive m1 th pos count v
  end.
Definition m5 : mem := fun i => if i <? 5 then Live (Z.of_nat i) else if i <? 9 then Raw else Out.
(* size 5, insert(begin()+2, 3, v), the first copy throws: the vector still says size 5, but slot 2 is moved-from (visible)
   and slots 5..7 hold live objects beyond size() that nobody will destroy *)
Lemma insert_count_middle_refuted : exists m', Inv m5 5 9 /\ insert_cnt_th m5 (Some 0) 5 2 3 7%Z = Threw m' /\
  m' 2 = Moved /\ m' 5 = Live 2%Z /\ ~ Inv m' 5 9.
Proof. eexists. split; [|split; [vm_compute; reflexivity|split; [reflexivity|split; [reflexivity|]]]].
  - unfold Inv, m5. repeat split; [lia| | |].
    + intros i Hi. destruct (Nat.ltb_spec i 5); [reflexivity|lia].
    + intros i A B. destruct (Nat.ltb_spec i 5); [lia|]. destruct (Nat.ltb_spec i 9); [reflexivity|lia].
    + intros i Hi. destruct (Nat.ltb_spec i 5); [lia|]. destruct (Nat.ltb_spec i 9); [lia|reflexivity].
  - intros (_ & Hl & _). specialize (Hl 2 ltac:(lia)). cbn in Hl. discriminate. Qed.
(* at the end of the vector (pos = size) the same operation is std::uninitialized_fill_n alone: strong guarantee *)
Theorem insert_count_at_end_strong m th size cap count v :
  Inv m size cap -> size + count <= cap ->
  match insert_cnt_th m th size size count v with
  | Done m' _ => Inv m' (size + count) cap
  | Threw m' => Inv m' size cap /\ (forall j, m' j = m j)
  | Err _ => False
  end.
Proof.
  intros HI Hc. pose proof HI as (Hsc & Hl & Hr & Ho). unfold insert_cnt_th.
  destruct (Nat.eqb_spec count 0) as [->|Hcnt]; [rewrite Nat.add_0_r; assumption|].
  rewrite Nat.sub_diag. unfold shift_right_cnt.
  destruct (Nat.ltb_spec count 0); [lia|]. cbn [uninit_move_n]. destruct (Nat.ltb_spec 0 count) as [Hpos|Hz].
  - rewrite Nat.add_0_r, Nat.sub_0_r. pose proof (resize_grow_strong m th size cap (size + count) v HI ltac:(lia)) as R. unfold resize_grow in R.
    replace (size + count - size) with count in R by lia.
    destruct (uninit_fill_n m th size count v) as [m2 th2|m2|e]; cbn [fill_n_alive]; [tauto|tauto|assumption].
  - assert (count = 0) by lia. subst count. cbn [fill_n_alive]. rewrite Nat.add_0_r. assumption.
Qed.
