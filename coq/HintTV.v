(* Translation validation of the regenerated insert_hint decision tree (Gen/HintGen.v) against the hand model (Hint.v),
   and transfer of the C12 theorem to the regenerated program. *)
From Coq Require Import ZArith Arith Lia List Bool.
From Amc Require Import Hint HintPrims.
From Amc Require SetModel.
From Amc.Gen Require Import HintGen.
Import ListNotations.
Local Open Scope Z_scope.

Definition lift (p : list Z * nat) : list Z * Z := (fst p, Z.of_nat (snd p)).
Lemma eqb_nat a b : (Z.of_nat a =? Z.of_nat b) = Nat.eqb a b.
Proof. destruct (Nat.eqb_spec a b) as [->|H]; [apply Z.eqb_refl|]. apply Z.eqb_neq. lia. Qed.
Lemma deref_nat l k : deref l (Z.of_nat k) = nth k l 0. Proof. unfold deref. rewrite Nat2Z.id. reflexivity. Qed.
Lemma vec_insert_nat l k v : vec_insert l (Z.of_nat k) v = lift (insert_at k v l, k).
Proof. unfold vec_insert, lift. rewrite Nat2Z.id. reflexivity. Qed.
Lemma lower_bound_nat cmp l k v : lower_bound cmp l (Z.of_nat 0) (Z.of_nat k) v = Z.of_nat (lb cmp (firstn k l) v).
Proof. unfold lower_bound. cbn [Z.of_nat]. rewrite Z.sub_0_r, Nat2Z.id. cbn [Z.to_nat skipn]. lia. Qed.
Lemma if_lift (b : bool) (x y : list Z * nat) : (if b then lift x else lift y) = lift (if b then x else y).
Proof. destruct b; reflexivity. Qed.
Theorem insert_hint_tv cmp l h v : (h <= length l)%nat ->
  insert_hint_gen cmp l (Z.of_nat h) v = lift (insert_hint cmp l h v).
Proof.
  intros Hh. unfold insert_hint_gen, insert_hint. cbv zeta.
  change 0 with (Z.of_nat 0). rewrite !eqb_nat, !deref_nat.
  destruct h as [|h'].
  - (* hint = begin(): prevIt is never dereferenced nor returned *)
    cbn [Nat.eqb orb negb andb].
    replace (Z.of_nat 0 + 1) with (Z.of_nat 1) by lia. rewrite !eqb_nat, !deref_nat, !vec_insert_nat.
    change (l, Z.of_nat 0) with (lift (l, 0%nat)). change (l, Z.of_nat 1) with (lift (l, 1%nat)).
    unfold set_insert. destruct (insert_val cmp l v) as [l' i]. change (l', Z.of_nat i) with (lift (l', i)).
    cbn [Nat.add Nat.sub]. rewrite !if_lift. reflexivity.
  - assert (Hne : Nat.eqb 0 (length l) = false) by (apply Nat.eqb_neq; lia). rewrite Hne.
    replace (Z.of_nat (S h') + -1) with (Z.of_nat h') by lia.
    replace (Z.of_nat (S h') + 1) with (Z.of_nat (S h' + 1)) by lia.
    replace (S h' - 1)%nat with h' by lia.
    rewrite !lower_bound_nat, !eqb_nat, !deref_nat, !vec_insert_nat.
    change (l, Z.of_nat (S h')) with (lift (l, S h')). change (l, Z.of_nat h') with (lift (l, h')).
    change (l, Z.of_nat (S h' + 1)) with (lift (l, (S h' + 1)%nat)).
    change (l, Z.of_nat (lb cmp (firstn h' l) v)) with (lift (l, lb cmp (firstn h' l) v)).
    unfold set_insert. destruct (insert_val cmp l v) as [l' i]. change (l', Z.of_nat i) with (lift (l', i)).
    rewrite !if_lift. reflexivity.
Qed.
(* the C12 theorem transfers to the regenerated program *)
Corollary C12_on_generated cmp l h v :
  (forall x, cmp x x = false) -> (forall x y z, cmp x y = true -> cmp y z = true -> cmp x z = true) ->
  (forall x y z, cmp x y = false -> cmp y z = false -> cmp x z = false) ->
  sorted cmp l -> (h <= length l)%nat ->
  insert_hint_gen cmp l (Z.of_nat h) v = lift (insert_val cmp l v).
Proof. intros H1 H2 H3 Hs Hh. rewrite insert_hint_tv by assumption. f_equal. apply hint_is_hint; assumption. Qed.

(* ---- the other regenerated FlatSet members: insert_val (the primitive [set_insert] of insert_hint), find, erase(key) ------ *)
Lemma lower_bound_full cmp l v : lower_bound cmp l 0 (vlen l) v = Z.of_nat (lb cmp l v).
Proof. unfold vlen. change 0 with (Z.of_nat 0). rewrite lower_bound_nat, firstn_all. reflexivity. Qed.
Lemma eqb_vlen a l : (Z.of_nat a =? vlen l) = Nat.eqb a (length l). Proof. apply eqb_nat. Qed.

Theorem insert_val_tv cmp l v :
  insert_val_gen cmp l v = (fst (insert_val cmp l v), Z.of_nat (snd (insert_val cmp l v)),
                            Nat.eqb (lb cmp l v) (length l) || cmp v (nth (lb cmp l v) l 0)).
Proof. unfold insert_val_gen, insert_val. cbv zeta. rewrite lower_bound_full, eqb_vlen, deref_nat.
  destruct (Nat.eqb (lb cmp l v) (length l) || cmp v (nth (lb cmp l v) l 0)); [rewrite vec_insert_nat|]; reflexivity. Qed.
(* so the primitive used by the regenerated insert_hint is the regenerated insert_val *)
Corollary set_insert_is_generated cmp l v : set_insert cmp l v = (fst (fst (insert_val_gen cmp l v)), snd (fst (insert_val_gen cmp l v))).
Proof. rewrite insert_val_tv. unfold set_insert. destruct (insert_val cmp l v); reflexivity. Qed.

Theorem find_tv cmp l v : find_gen cmp l v = Z.of_nat (SetModel.fs_find cmp l v).
Proof. unfold find_gen, SetModel.fs_find. cbv zeta. rewrite lower_bound_full, ?eqb_vlen, ?deref_nat.
  (* by cases on the two tests, so that the shape of the conditional in the code (a || b, or two nested ifs) does not matter *)
  destruct (Nat.eqb (lb cmp l v) (length l)); destruct (cmp v (nth (lb cmp l v) l 0)); reflexivity. Qed.

Theorem erase_key_tv cmp l v :
  erase_key_gen cmp l v = (fst (SetModel.fs_erase_key cmp l v), Z.of_nat (snd (SetModel.fs_erase_key cmp l v))).
Proof. unfold erase_key_gen, SetModel.fs_erase_key. cbv zeta. rewrite find_tv, eqb_vlen.
  destruct (Nat.eqb (SetModel.fs_find cmp l v) (length l)); [reflexivity|]. unfold vec_erase, SetModel.remove_at. rewrite Nat2Z.id. reflexivity. Qed.

(* ---- bulk insertion: insert(first, last) = append + stable_sort of the new part + inplace_merge + eraseDuplicates ---------- *)
Lemma erase_unique_uniq cmp l : erase_unique (fun v1 v2 => negb (cmp v1 v2) && negb (cmp v2 v1)) l = SetModel.uniq cmp l.
Proof. induction l as [|x t IH]; [reflexivity|]. cbn [erase_unique SetModel.uniq]. rewrite IH. reflexivity. Qed.
Theorem erase_duplicates_tv cmp l : erase_duplicates_gen cmp l = SetModel.uniq cmp l.
Proof. unfold erase_duplicates_gen. cbv zeta. apply erase_unique_uniq. Qed.

Lemma sinsert_length cmp x l : length (SetModel.sinsert cmp x l) = S (length l).
Proof. induction l as [|y t IH]; [reflexivity|]. cbn [SetModel.sinsert]. destruct (cmp y x); cbn [length]; [rewrite IH|]; reflexivity. Qed.
Lemma ssort_length cmp l : length (SetModel.ssort cmp l) = length l.
Proof. unfold SetModel.ssort. induction l as [|x t IH]; [reflexivity|]. cbn [fold_right length]. rewrite sinsert_length, IH. reflexivity. Qed.

Lemma fa (l x : list Z) : firstn (length l) (l ++ x) = l.
Proof. rewrite firstn_app, Nat.sub_diag, firstn_all. cbn [firstn]. apply app_nil_r. Qed.
Lemma sa (l x : list Z) : skipn (length l) (l ++ x) = x.
Proof. rewrite skipn_app, skipn_all, Nat.sub_diag. reflexivity. Qed.
Lemma sort_tail cmp l vs : stable_sort_range cmp (l ++ vs) (Z.of_nat (length l)) (vlen (l ++ vs)) = l ++ SetModel.ssort cmp vs.
Proof. unfold stable_sort_range, sub, vlen. rewrite !Nat2Z.id, app_length.
  replace (Z.to_nat (Z.of_nat (length l + length vs) - Z.of_nat (length l))) with (length vs) by lia.
  rewrite fa, sa, firstn_all. rewrite skipn_all2 by (rewrite app_length; lia). rewrite app_nil_r. reflexivity. Qed.
Lemma merge_halves cmp l s : inplace_merge_range cmp (l ++ s) 0 (Z.of_nat (length l)) (vlen (l ++ s)) = SetModel.smerge cmp l s.
Proof. unfold inplace_merge_range, sub, vlen. rewrite !Nat2Z.id, app_length. cbn [Z.to_nat firstn skipn app].
  replace (Z.to_nat (Z.of_nat (length l) - 0)) with (length l) by lia.
  replace (Z.to_nat (Z.of_nat (length l + length s) - Z.of_nat (length l))) with (length s) by lia.
  rewrite fa, sa, firstn_all. rewrite skipn_all2 by (rewrite app_length; lia). rewrite app_nil_r. reflexivity. Qed.

(* no exception (thr = None): the regenerated insert(first, last) is the bulk insertion of the set model *)
Theorem insert_range_tv cmp l vs : insert_range_gen cmp l vs None = inl (SetModel.fs_bulk cmp l vs).
Proof. unfold insert_range_gen, SetModel.fs_bulk, vec_append. cbv zeta. rewrite erase_duplicates_tv. f_equal. f_equal.
  rewrite sort_tail. apply merge_halves. Qed.

(* ---- exceptions: whatever the vector is left with (any l'), the handler makes it the ordered sequence of a set again ---- *)
Lemma sub_all l : sub l 0 (vlen l) = l.
Proof. unfold sub, vlen. rewrite Z.sub_0_r, Nat2Z.id. cbn [Z.to_nat skipn]. apply firstn_all. Qed.
Lemma adj_find_cons2 p a b t : adj_find p (a :: b :: t) = if p a b then O else S (adj_find p (b :: t)).
Proof. reflexivity. Qed.
Lemma adj_find_none p l : adj_find p l = length l -> Sorted.Sorted (fun a b => p a b = false) l.
Proof.
  induction l as [|a [|b t] IH]; intros H.
  - constructor.
  - constructor; constructor.
  - rewrite adj_find_cons2 in H. destruct (p a b) eqn:E; [cbn [length] in H; lia|].
    constructor; [apply IH; cbn [length] in *; lia|constructor; exact E].
Qed.
Definition is_set_sequence (cmp : Z -> Z -> bool) (l : list Z) : Prop := Sorted.Sorted (fun a b => cmp a b = true) l.
Theorem restore_invariants_is_set cmp l : is_set_sequence cmp (restore_invariants_gen cmp l).
Proof.
  unfold restore_invariants_gen, is_set_sequence. cbv zeta. unfold adjacent_find_z. rewrite sub_all. cbn [Z.add].
  unfold vlen. rewrite eqb_nat.
  destruct (Nat.eqb_spec (adj_find (fun lhs rhs => negb (cmp lhs rhs)) l) (length l)) as [E|E]; cbn [negb].
  - pose proof (adj_find_none _ _ E) as S. clear E. induction S as [|a t S IH Hd]; constructor; [exact IH|].
    destruct Hd as [|b t' Hb]; constructor. destruct (cmp a b); [reflexivity|discriminate].
  - constructor.
Qed.
Theorem restore_invariants_keeps_or_clears cmp l : restore_invariants_gen cmp l = l \/ restore_invariants_gen cmp l = [].
Proof. unfold restore_invariants_gen. cbv zeta. destruct (negb _); [right|left]; reflexivity. Qed.
(* with a transitive comparator the adjacent order is the order between any two positions (Hint.sorted) *)
Theorem restore_invariants_sorted cmp l : (forall x y z, cmp x y = true -> cmp y z = true -> cmp x z = true) ->
  Hint.sorted cmp (restore_invariants_gen cmp l).
Proof. intros T. apply Sorted.Sorted_StronglySorted; [intros x y z; apply T|apply restore_invariants_is_set]. Qed.
(* a sequence which already is one is kept *)
Lemma adj_find_sorted cmp l : Sorted.Sorted (fun a b => cmp a b = true) l -> adj_find (fun a b => negb (cmp a b)) l = length l.
Proof. induction 1 as [|a t S IH Hd]; [reflexivity|]. destruct Hd as [|b t' Hb]; [reflexivity|].
  rewrite adj_find_cons2, Hb. cbn [negb]. rewrite IH. reflexivity. Qed.
Theorem restore_invariants_keeps_sets cmp l : is_set_sequence cmp l -> restore_invariants_gen cmp l = l.
Proof. intros S. unfold restore_invariants_gen. cbv zeta. unfold adjacent_find_z. rewrite sub_all. cbn [Z.add]. unfold vlen.
  rewrite eqb_nat, (adj_find_sorted _ _ S), Nat.eqb_refl. reflexivity. Qed.
(* insert(first, last) and copy assignment that exit by an exception *)
Theorem insert_range_thrown cmp l vs l' : insert_range_gen cmp l vs (Some l') = inr (restore_invariants_gen cmp l').
Proof. reflexivity. Qed.
Theorem copy_assign_tv cmp l ol self : copy_assign_gen cmp l ol self None = inl (if self then l else ol).
Proof. unfold copy_assign_gen. destruct self; reflexivity. Qed.
Theorem copy_assign_thrown cmp l ol l' : copy_assign_gen cmp l ol false (Some l') = inr (restore_invariants_gen cmp l').
Proof. reflexivity. Qed.
