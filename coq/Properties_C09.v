(* C09 - exception safety: basic guarantee everywhere, strong where documented.
   PARTIAL.  Slot-level model with a throw oracle (Throw.v): [th : option nat] is the index of the throwing event among the
   throwing-capable ones (element copy construction / copy assignment; moves are noexcept as the property assumes), threaded
   through the primitives; the self-cleaning std algorithms are modelled with their catch/destroy loops.  Outcomes:
   Done | Threw (memory as left behind) | Err (lifetime error).  For EVERY size, capacity, count, value and throw index:
   - [C09_resize_grow_strong]: resize(n, v) / append(n, v) / insertion of n copies at the end, within capacity: either all
     n elements are built, or the memory is EXACTLY as before (strong guarantee), never a lifetime error;
   - [C09_insert_count_at_end_strong]: insert(end(), n, v) is that same algorithm;
   - [C09_assign_grow_basic]: assign(n, v) growing within capacity (assign the live prefix, then build the tail - the repaired
     order): after a throw at any point the vector keeps its size with live elements and nothing is alive beyond it;
     [Throw.fill_cur_refuted] records that the historic order leaked the tail;
   - [C09_uninitialized_fill_cleanup]: std::uninitialized_fill_n destroys what it built;
   - known finding [C09_insert_count_middle_refuted]: insert(pos, n, v) with pos < size() and a copy that throws while the gap
     is being filled leaves moved-from elements visible and live elements beyond size() (witness: size 5, pos 2, n 3, first
     copy throws) - recorded in known_findings.json, not repaired (needs a new roll-back helper).
   Everything else (allocation failures, every other operation and flavour, sets) is decided on the implementation by
   fault enumeration: for every scenario (operation x position x count x spare capacity or not x inline/heap x category x
   flavour) the k-th throwing-capable event throws, for every k until the operation completes; after each injected throw
   the element ledger, the allocator ledger, contents (strong operations: unchanged) and usability are checked. *)
From Coq Require Import ZArith List Bool.
From Amc Require Import Throw.
Import ListNotations.

Theorem C09_resize_grow_strong :
  forall m th size cap count v, Inv m size cap -> size <= count <= cap ->
    match resize_grow m th size count v with
    | (Done m' _, s') => s' = count /\ Inv m' count cap /\ (forall j, j < size -> m' j = m j) /\ (forall j, size <= j < count -> m' j = Live v)
    | (Threw m', s') => s' = size /\ Inv m' size cap /\ (forall j, m' j = m j)
    | (Err _, _) => False
    end.
Proof. exact resize_grow_strong. Qed.

Theorem C09_insert_count_at_end_strong :
  forall m th size cap count v, Inv m size cap -> size + count <= cap ->
    match insert_cnt_th m th size size count v with
    | Done m' _ => Inv m' (size + count) cap
    | Threw m' => Inv m' size cap /\ (forall j, m' j = m j)
    | Err _ => False
    end.
Proof. exact insert_count_at_end_strong. Qed.

Theorem C09_assign_grow_basic :
  forall m th size cap count v, Inv m size cap -> size < count <= cap ->
    match fill_fix m th 0 size count v with
    | Done m' _ => Inv m' count cap /\ (forall j, j < count -> m' j = Live v)
    | Threw m' => Inv m' size cap
    | Err _ => False
    end.
Proof. exact assign_grow_basic. Qed.

Theorem C09_uninitialized_fill_cleanup :
  forall n m th first cur v,
    first <= cur -> (forall j, first <= j < cur -> is_live (m j) = true) -> (forall k, k < n -> m (cur + k) = Raw) ->
    (exists m' th', uninit_fill_loop m th first cur n v = Done m' th' /\
        (forall j, cur <= j < cur + n -> m' j = Live v) /\ (forall j, ~ (cur <= j < cur + n) -> m' j = m j)) \/
    (exists m', uninit_fill_loop m th first cur n v = Threw m' /\
        (forall j, first <= j < cur + n -> m' j = Raw) /\ (forall j, ~ (first <= j < cur + n) -> m' j = m j)).
Proof. exact uninit_fill_loop_spec. Qed.

(* the full statement (basic guarantee for insert of several elements in the middle) is FALSE of the faithful model: *)
Theorem C09_insert_count_middle_refuted :
  exists m', Inv m5 5 9 /\ insert_cnt_th m5 (Some 0) 5 2 3 7%Z = Threw m' /\ m' 2 = Moved /\ m' 5 = Live 2%Z /\ ~ Inv m' 5 9.
Proof. exact insert_count_middle_refuted. Qed.
