(* C09 - exception safety: basic guarantee everywhere, strong where documented.
   PARTIAL.  Slot-level model with a throw oracle (Throw.v): [th : option nat] is the index of the throwing event among the
   throwing-capable ones (element copy construction / copy assignment; moves are noexcept as the property assumes), threaded
   through the primitives; the self-cleaning std algorithms are modelled with their catch/destroy loops.  Outcomes:
   Done | Threw (memory as left behind) | Err (lifetime error).  For EVERY size, capacity, count, value and throw index:
   - [C09_resize_grow_strong]: resize(n, v) / append(n, v) / insertion of n copies at the end, within capacity: either all
     n elements are built, or the memory is EXACTLY as before (strong guarantee), never a lifetime error;
   - [C09_insert_count_at_end_strong]: insert(end(), n, v) is that same algorithm;
   - [C09_assign_grow_basic]: assign(n, v) growing within capacity (assign the live prefix, then build the tail - the repaired
     order): after a throw at any point the vector keeps its size with live elements and nothing is alive beyond it;
     [Throw.fill_cur_refuted] records that the historic order leaked the tail;
   - [C09_uninitialized_fill_cleanup]: std::uninitialized_fill_n destroys what it built;
   - [C09_insert_count_middle_refuted]: the code BEFORE the repair of finding F11 ([Throw.insert_cnt_th]: shift_right, then
     fill_after_shift, no handler): insert(pos, n, v) with pos < size() and a copy that throws while the gap is being filled
     left moved-from elements visible and live elements beyond size() (witness: size 5, pos 2, n 3, first copy throws);
   - [C09_insert_count_anywhere_strong]: the REPAIRED insert(pos, n, v) ([Throw.insert_cnt_fix]: shift_right, fill_after_shift
     assigning before it constructs, catch: unshift_right) for every position pos <= size(): whichever copy throws, every
     slot is exactly as before (strong guarantee); on completion prefix, n copies of v, the old tail n slots higher.
   - [C09_emplace_*] (EmplaceGrow.v: the temporary of emplace and the argument are slots of the memory, the new block a second
     index range; the allocation is a throwing event): single-element insert / emplace within capacity and the growth path of
     emplace / emplace_back (push_back(T&&), insert(pos, T&&)): a throw leaves every slot as before - the argument included,
     which the code before the give-back fix left moved-from ([C09_emplace_grow_without_give_back_refuted]) - and the temporary
     destroyed; on completion the new block holds prefix, new element, suffix and the old block nothing alive;
   - [C09_throwing_moves_*] (ThrowMove.v): the same helpers for an element type whose move constructor / move assignment
     throw (every catch block of shift_right, relocate_after_shift, emplace_n, insert_n is live): after a throw at ANY
     move, copy or construction, never a lifetime error, nothing alive beyond size(), the temporary destroyed, every
     element below size() alive - the basic guarantee in std::vector's sense; that no VISIBLE element is moved-from is
     false ([..._moved_from_visible_refuted]: known finding F25), and without the catch block of shift_right an element
     stayed alive beyond size() ([..._leak_before_fix_refuted]);
   - [C09_throwing_moves_swap_basic] / [..._swap_conserves] (SwapThrow.v): vec::swap_deep - the swap of two inline storages and the
     element-wise path of swap2 - for the element type whose moves throw: std::swap's temporary is destroyed by the unwinding, the
     relocation of the longer tail rolls back; after a throw at ANY of the moves both ranges are vectors of their ORIGINAL sizes
     (what the size words, written only after swap_deep returned, still claim), every element alive, every other slot raw, the
     temporary raw, n1 + n2 objects alive; on completion the sizes are exchanged; with no throw pending the model is
     Transfer.swap_deep ([C09_throwing_moves_swap_is_swap_deep]); a moved-from element can be visible
     ([C09_throwing_moves_swap_moved_from_visible_refuted], the same known finding F25);
   - [C09_throwing_moves_move_assign_basic] / [..._move_assign_conserves] (MoveThrow.v): vec::move_n - the element part of a move
     assignment between two inline storages - for the element type whose moves throw: after a throw at ANY move the source is still
     a vector of n alive elements and the destination one of d_n alive elements (the sizes the size words, written only afterwards,
     still claim), every other slot raw, n + d_n objects alive; on completion exactly the result of Transfer.move_n_spec;
   - [C09_tr_*] (SlotsTR.v): the trivially relocatable overloads (bitwise relocation, source slot raw afterwards): insert(pos, n,
     v) and insert(pos, first, last) with their handler are strong at every position for every range content, single-element
     insertion within capacity likewise; before the repair the gap stayed raw below size() ([C09_tr_insert_count_before_fix_refuted]);
   - [C09_growth_by_copy_strong] (Transfer.v): the relocation into a new block used for element types whose move may throw
     (RelocateByCopy: copy all, then destroy the sources; a throwing copy destroys the copies): strong - the old block is exactly
     as before and the new block holds nothing;
   - [C09_single_pass_range_insert_strong] (AliasThrow.v): insert(pos, first, last) with single-pass input iterators within
     capacity (elements appended one by one with the roll-back of append_range, then rotated into place): a throwing copy
     leaves every slot as before, completion gives prefix, range, suffix;
   - [C09_smallvector_*] (Overlay.v): the inline slots of a SmallVector share their first bytes with the pointer to its heap
     block; shrink_to_fit back to the inline storage and the swap of a heap vector with an inline one relocate elements INTO those
     slots while the object is still in its heap state.  With the repairs (handler / scope guard putting the pointer back) a throw
     leaves a well-formed object with the same heap block; without them the object is left in its heap state with a clobbered
     pointer ([..._before_fix_refuted]: every later access is through a wild pointer) - for every size, N, number of slots the
     pointer spans and throw index;
   - sets [C09_flatset_*]: FlatSet::operator=(const FlatSet&), insert(first, last) and restoreInvariants() are REGENERATED
     from flatset.hpp (Gen/HintGen.v: the try block becomes a match on [thr : option (list Z)], [Some l'] = "an operation
     of the vector threw and left the vector as l'", for ANY l' - the vector only promises the basic guarantee).  Whatever
     l' is, what the set exposes after the exception is the ordered sequence of a set (adjacent elements strictly
     increasing; with a transitive comparator: any two positions), it is l' itself when l' still was one, and empty otherwise.
   Everything else (allocation failures, every other operation and flavour, sets) is decided on the implementation by
   fault enumeration: for every scenario (operation x position x count x spare capacity or not x inline/heap x category x
   flavour) the k-th throwing-capable event throws, for every k until the operation completes; after each injected throw
   the element ledger, the allocator ledger, contents (strong operations: unchanged) and usability are checked. *)
From Coq Require Import ZArith List Bool Sorted.
From Amc Require Import Throw.
From Amc Require EmplaceGrow ThrowMove SlotsTR Transfer AliasThrow Overlay SwapThrow MoveThrow.
From Amc Require Hint HintTV.
From Amc.Gen Require HintGen SsetGen.
From Amc Require SsetTV.
Import ListNotations.

Theorem C09_resize_grow_strong :
  forall m th size cap count v, Inv m size cap -> size <= count <= cap ->
    match resize_grow m th size count v with
    | (Done m' _, s') => s' = count /\ Inv m' count cap /\ (forall j, j < size -> m' j = m j) /\ (forall j, size <= j < count -> m' j = Live v)
    | (Threw m', s') => s' = size /\ Inv m' size cap /\ (forall j, m' j = m j)
    | (Err _, _) => False
    end.
Proof. exact resize_grow_strong. Qed.

Theorem C09_insert_count_at_end_strong :
  forall m th size cap count v, Inv m size cap -> size + count <= cap ->
    match insert_cnt_th m th size size count v with
    | Done m' _ => Inv m' (size + count) cap
    | Threw m' => Inv m' size cap /\ (forall j, m' j = m j)
    | Err _ => False
    end.
Proof. exact insert_count_at_end_strong. Qed.

Theorem C09_assign_grow_basic :
  forall m th size cap count v, Inv m size cap -> size < count <= cap ->
    match fill_fix m th 0 size count v with
    | Done m' _ => Inv m' count cap /\ (forall j, j < count -> m' j = Live v)
    | Threw m' => Inv m' size cap
    | Err _ => False
    end.
Proof. exact assign_grow_basic. Qed.

Theorem C09_uninitialized_fill_cleanup :
  forall n m th first cur v,
    first <= cur -> (forall j, first <= j < cur -> is_live (m j) = true) -> (forall k, k < n -> m (cur + k) = Raw) ->
    (exists m' th', uninit_fill_loop m th first cur n v = Done m' th' /\
        (forall j, cur <= j < cur + n -> m' j = Live v) /\ (forall j, ~ (cur <= j < cur + n) -> m' j = m j)) \/
    (exists m', uninit_fill_loop m th first cur n v = Threw m' /\
        (forall j, first <= j < cur + n -> m' j = Raw) /\ (forall j, ~ (first <= j < cur + n) -> m' j = m j)).
Proof. exact uninit_fill_loop_spec. Qed.

(* the full statement (basic guarantee for insert of several elements in the middle) is FALSE of the faithful model of the
   code before the repair of F11 (insert_cnt_th): *)
Theorem C09_insert_count_middle_refuted :
  exists m', Inv m5 5 9 /\ insert_cnt_th m5 (Some 0) 5 2 3 7%Z = Threw m' /\ m' 2 = Moved /\ m' 5 = Live 2%Z /\ ~ Inv m' 5 9.
Proof. exact insert_count_middle_refuted. Qed.

(* the repaired code (insert_cnt_fix: the fill is undone by unshift_right): strong guarantee at every position *)
Theorem C09_insert_count_anywhere_strong :
  forall m th size cap pos count v, Inv m size cap -> pos <= size -> size + count <= cap ->
    match insert_cnt_fix m th size pos count v with
    | Done m' _ => (forall j, j < pos -> m' j = m j) /\ (forall j, pos <= j < pos + count -> m' j = Live v) /\
                   (forall j, pos + count <= j < size + count -> m' j = m (j - count)) /\ Inv m' (size + count) cap
    | Threw m' => forall j, m' j = m j
    | Err _ => False
    end.
Proof. exact insert_cnt_fix_strong. Qed.

(* ---- sets: after copy assignment or insert(first, last) exits by an exception, a FlatSet still is a set ---- *)
Theorem C09_flatset_restore_invariants_is_the_regenerated_one :
  forall cmp l, Sorted (fun a b => cmp a b = true) (HintGen.restore_invariants_gen cmp l) /\
    (HintGen.restore_invariants_gen cmp l = l \/ HintGen.restore_invariants_gen cmp l = []) /\
    (Sorted (fun a b => cmp a b = true) l -> HintGen.restore_invariants_gen cmp l = l).
Proof. intros cmp l. split; [exact (HintTV.restore_invariants_is_set cmp l)|split;
  [exact (HintTV.restore_invariants_keeps_or_clears cmp l)|exact (HintTV.restore_invariants_keeps_sets cmp l)]]. Qed.

Theorem C09_flatset_failed_insert_range_leaves_a_set :
  forall cmp l vs l', exists r, HintGen.insert_range_gen cmp l vs (Some l') = inr r /\ Sorted (fun a b => cmp a b = true) r /\ (r = l' \/ r = []).
Proof. intros cmp l vs l'. eexists. split; [exact (HintTV.insert_range_thrown cmp l vs l')|split;
  [exact (HintTV.restore_invariants_is_set cmp l')|exact (HintTV.restore_invariants_keeps_or_clears cmp l')]]. Qed.

Theorem C09_flatset_failed_copy_assign_leaves_a_set :
  forall cmp l ol l', exists r, HintGen.copy_assign_gen cmp l ol false (Some l') = inr r /\ Sorted (fun a b => cmp a b = true) r /\ (r = l' \/ r = []).
Proof. intros cmp l ol l'. eexists. split; [exact (HintTV.copy_assign_thrown cmp l ol l')|split;
  [exact (HintTV.restore_invariants_is_set cmp l')|exact (HintTV.restore_invariants_keeps_or_clears cmp l')]]. Qed.

Theorem C09_flatset_copy_assign_without_exception :
  forall cmp l ol self, HintGen.copy_assign_gen cmp l ol self None = inl (if self then l else ol).
Proof. exact HintTV.copy_assign_tv. Qed.

Theorem C09_flatset_failed_operation_sorted_for_any_two_positions :
  forall cmp l', (forall x y z, cmp x y = true -> cmp y z = true -> cmp x z = true) -> Hint.sorted cmp (HintGen.restore_invariants_gen cmp l').
Proof. exact HintTV.restore_invariants_sorted. Qed.

(* the hypotheses are met and both branches occur: the half-overwritten vector of the replay is given up, an ordered one kept *)
Example C09_flatset_example :
  HintGen.copy_assign_gen Z.ltb [2; 4; 6; 8; 10; 12]%Z [0; 8; 10]%Z false (Some [0; 8; 6; 8; 10; 12]%Z) = inr [] /\
  HintGen.copy_assign_gen Z.ltb [2; 4; 6]%Z [0; 8; 10]%Z false (Some [0; 4; 6]%Z) = inr [0; 4; 6]%Z.
Proof. split; vm_compute; reflexivity. Qed.

(* SmallSet::operator=(const SmallSet&), regenerated from smallset.hpp: whatever the inline vector and the backing set were left
   with by the exception (any two lists), the set is left empty - a set - and the exception leaves *)
Theorem C09_smallset_failed_copy_assign_leaves_the_empty_set :
  forall vec set ovec oset left, SsetGen.copy_assign_gen vec set ovec oset false (Some left) = inr ([], []).
Proof. exact SsetTV.copy_assign_thrown. Qed.
Theorem C09_smallset_copy_assign_without_exception :
  forall vec set ovec oset self, SsetGen.copy_assign_gen vec set ovec oset self None = inl (if self then (vec, set) else (ovec, oset)).
Proof. exact SsetTV.copy_assign_tv. Qed.

(* ---- single-element insertion: within capacity (emplace_n / insert_n) and through growth (emplace, emplace_back) ---- *)
Import EmplaceGrow.
Theorem C09_emplace_within_capacity :
  forall m th size cap pos e a k va, EmplaceNPre m size cap pos e a va ->
  match emplace_n m th pos (size - pos) e a k with
  | Threw m' => k = Lvalue /\ th = Some 0 /\ (forall j, m' j = m j)
  | Done m' _ => (forall j, j < pos -> m' j = m j) /\ m' pos = Live va /\ (forall j, pos <= j < size -> m' (S j) = m j) /\
                 m' e = Raw /\ m' a = arg_after k va /\ Inv (blockview m' 0 cap) (size + 1) cap /\
                 (forall j, size < j -> j <> e -> j <> a -> m' j = m j)
  | Err _ => False end.
Proof. exact emplace_n_spec. Qed.

Theorem C09_insert_value_within_capacity_strong :
  forall m th size cap pos v, Inv m size cap -> size < cap -> pos <= size ->
  match insert_n m th pos (size - pos) v with
  | Threw m' => th = Some 0 /\ (forall j, m' j = m j)
  | Done m' _ => (forall j, j < pos -> m' j = m j) /\ m' pos = Live v /\ (forall j, pos <= j < size -> m' (S j) = m j) /\
                 Inv m' (size + 1) cap
  | Err _ => False end.
Proof. exact insert_n_strong. Qed.

Theorem C09_emplace_grow_rvalue_argument :
  forall m th size pos e a nb va, GrowPre m size pos e a nb va ->
  match emplace_grow true m th size pos e a Rvalue nb with
  | Threw m' => th = Some 0 /\ (forall j, j < size -> m' j = m j) /\ m' a = Live va /\ m' e = Raw /\
                (forall j, nb <= j < nb + next_cap size -> is_live (m' j) = false)
  | Done m' _ => (forall j, j < pos -> m' (nb + j) = m j) /\ m' (nb + pos) = Live va /\
                 (forall j, pos <= j < size -> m' (nb + S j) = m j) /\
                 Inv (blockview m' nb (next_cap size)) (size + 1) (next_cap size) /\
                 (forall j, j < size -> is_live (m' j) = false) /\ m' a = Moved /\ m' e = Raw
  | Err _ => False end.
Proof. exact emplace_grow_rvalue. Qed.

Theorem C09_emplace_grow_lvalue_argument :
  forall m th size pos e a nb va, GrowPre m size pos e a nb va ->
  match emplace_grow true m th size pos e a Lvalue nb with
  | Threw m' => (th = Some 0 \/ th = Some 1) /\ (forall j, j < size -> m' j = m j) /\ m' a = Live va /\ m' e = Raw /\
                (forall j, nb <= j < nb + next_cap size -> is_live (m' j) = false)
  | Done m' _ => (forall j, j < pos -> m' (nb + j) = m j) /\ m' (nb + pos) = Live va /\
                 (forall j, pos <= j < size -> m' (nb + S j) = m j) /\
                 Inv (blockview m' nb (next_cap size)) (size + 1) (next_cap size) /\
                 (forall j, j < size -> is_live (m' j) = false) /\ m' a = Live va /\ m' e = Raw
  | Err _ => False end.
Proof. exact emplace_grow_lvalue. Qed.

(* the code before the give-back repair: the allocation throws, the block is as before, the argument has been consumed *)
Theorem C09_emplace_grow_without_give_back_refuted :
  exists m th size pos e a nb va m',
  GrowPre m size pos e a nb va /\ emplace_grow false m th size pos e a Rvalue nb = Threw m' /\
  (forall j, (j < size)%nat -> m' j = m j) /\ m' e = Raw /\ m a = Live va /\ m' a = Moved.
Proof. exact emplace_grow_nogb_refuted. Qed.

Example C09_emplace_hypotheses_met :
  EmplaceNPre (init_lay 3 5 99) 3 5 1 6 7 99 /\ GrowPre (init_lay 3 3 99) 3 1 4 5 7 99.
Proof. split; [exact emplace_n_pre_ex|exact grow_pre_ex]. Qed.

(* ---- element types whose moves throw (known finding F25: what does hold, and what does not) ---- *)
Theorem C09_throwing_moves_insert_basic :
  forall m th size cap pos v, Inv m size cap -> size < cap -> pos <= size ->
  match ThrowMove.insert_n true m th pos (size - pos) v with
  | Threw m' => ThrowMove.Basic m' size cap /\ (forall j, j < pos -> m' j = m j) /\ (forall j, size <= j -> m' j = m j)
  | Done m' _ => EmplaceGrow.insert_n m None pos (size - pos) v = Done m' None
  | Err _ => False end.
Proof. exact ThrowMove.insert_n_basic. Qed.

Theorem C09_throwing_moves_emplace_basic :
  forall m th size cap pos e a k va, EmplaceNPre m size cap pos e a va ->
  match ThrowMove.emplace_n true m th pos (size - pos) e a k with
  | Threw m' => ThrowMove.Basic (blockview m' 0 cap) size cap /\ (forall j, j < pos -> m' j = m j) /\ m' e = Raw /\
                (m' a = Live va \/ (k = Rvalue /\ m' a = Moved)) /\ (forall j, size <= j -> j <> a -> m' j = m j)
  | Done m' _ => EmplaceGrow.emplace_n m None pos (size - pos) e a k = Done m' None
  | Err _ => False end.
Proof. exact ThrowMove.emplace_n_basic. Qed.

Theorem C09_throwing_moves_erase_basic :
  forall m th size cap pos n, Inv m size cap -> 0 < n -> pos + n <= size ->
  match ThrowMove.erase_n m th pos n (size - pos - n) with
  | Threw m' => ThrowMove.Basic m' size cap /\ (forall j, j < pos -> m' j = m j) /\ (forall j, size <= j -> m' j = m j)
  | Done m' _ => ThrowMove.erase_n_nx m pos n (size - pos - n) = inl m' /\ Inv m' (size - n) cap /\
                 (forall j, j < pos -> m' j = m j) /\ (forall j, pos <= j < size - n -> m' j = m (j + n))
  | Err _ => False end.
Proof. exact ThrowMove.erase_n_basic. Qed.

Theorem C09_throwing_moves_insert_moved_from_visible_refuted :
  exists m', Inv (ThrowMove.init 3 5) 3 5 /\ ThrowMove.insert_n true (ThrowMove.init 3 5) (Some 1%nat) 0 (3 - 0) 99 = Threw m' /\
  ThrowMove.Basic m' 3 5 /\ m' 2%nat = Moved /\ ~ Inv m' 3 5.
Proof. exact ThrowMove.insert_n_strong_refuted. Qed.

Theorem C09_throwing_moves_erase_moved_from_visible_refuted :
  exists m', Inv (ThrowMove.init 4 4) 4 4 /\ ThrowMove.erase_n (ThrowMove.init 4 4) (Some 1%nat) 0 1 (4 - 0 - 1) = Threw m' /\
  ThrowMove.Basic m' 4 4 /\ m' 1%nat = Moved /\ ~ Inv m' 4 4.
Proof. exact ThrowMove.erase_n_strong_refuted. Qed.

Theorem C09_throwing_moves_leak_before_fix_refuted :
  exists m', Inv (ThrowMove.init 3 5) 3 5 /\ ThrowMove.shift_right1 false (ThrowMove.init 3 5) (Some 1%nat) 0 (3 - 0) = Threw m' /\
  m' 3%nat = Live 12 /\ ~ ThrowMove.Basic m' 3 5.
Proof. exact ThrowMove.shift_right1_nofix_refuted. Qed.

(* swap of two inline storages / element-wise swap2 with throwing moves (SwapThrow.v) *)
Theorem C09_throwing_moves_swap_basic :
  forall m th t b1 n1 cap1 b2 n2 cap2,
  Transfer.Rng m b1 n1 cap1 -> Transfer.Rng m b2 n2 cap2 -> Transfer.Disj b1 cap1 b2 cap2 -> n2 <= cap1 -> n1 <= cap2 ->
  m t = Raw -> ~ Transfer.inR b1 cap1 t -> ~ Transfer.inR b2 cap2 t ->
  match SwapThrow.swap_deep_mt m th t b1 n1 b2 n2 with
  | Done m' _ => SwapThrow.ARng m' b1 n2 cap1 /\ SwapThrow.ARng m' b2 n1 cap2 /\ m' t = Raw /\
                 (forall j, ~ Transfer.inR b1 cap1 j -> ~ Transfer.inR b2 cap2 j -> j <> t -> m' j = m j)
  | Threw m' => SwapThrow.ARng m' b1 n1 cap1 /\ SwapThrow.ARng m' b2 n2 cap2 /\ m' t = Raw /\
                (forall j, ~ Transfer.inR b1 cap1 j -> ~ Transfer.inR b2 cap2 j -> j <> t -> m' j = m j)
  | Err _ => False end.
Proof. exact SwapThrow.swap_deep_mt_basic. Qed.

Theorem C09_throwing_moves_swap_conserves :
  forall m th t b1 n1 cap1 b2 n2 cap2,
  Transfer.Rng m b1 n1 cap1 -> Transfer.Rng m b2 n2 cap2 -> Transfer.Disj b1 cap1 b2 cap2 -> n2 <= cap1 -> n1 <= cap2 ->
  m t = Raw -> ~ Transfer.inR b1 cap1 t -> ~ Transfer.inR b2 cap2 t ->
  match SwapThrow.swap_deep_mt m th t b1 n1 b2 n2 with
  | Done m' _ | Threw m' => Transfer.count_live m' b1 cap1 + Transfer.count_live m' b2 cap2 = n1 + n2 /\ Transfer.count_live m' t 1 = 0
  | Err _ => False end.
Proof. exact SwapThrow.swap_deep_mt_conserves. Qed.

Theorem C09_throwing_moves_swap_is_swap_deep :
  forall m t b1 n1 b2 n2, SwapThrow.swap_deep_mt m None t b1 n1 b2 n2 = Transfer.lift (Transfer.swap_deep false m t b1 n1 b2 n2) None.
Proof. exact SwapThrow.swap_deep_mt_none. Qed.

Theorem C09_throwing_moves_swap_moved_from_visible_refuted :
  exists m', SwapThrow.swap_deep_mt (Transfer.init2 3 4 1 3) (Some 1%nat) 5 0 3 7 1 = Threw m' /\ m' 0%nat = Moved /\
             Transfer.init2 3 4 1 3 0%nat = Live 10.
Proof. exact SwapThrow.swap_deep_mt_strong_refuted. Qed.

(* move assignment between two inline storages with throwing moves (MoveThrow.v) *)
Theorem C09_throwing_moves_move_assign_basic :
  forall m th bs n caps bd dn capd,
  Transfer.Rng m bs n caps -> Transfer.Rng m bd dn capd -> Transfer.Disj bs caps bd capd -> n <= capd ->
  match MoveThrow.move_n_mt m th bs n bd dn with
  | Done m' _ => Transfer.content m' bd n = Transfer.content m bs n /\ Transfer.Rng m' bd n capd /\ Transfer.Rng m' bs 0 caps /\
                 (forall j, ~ Transfer.inR bs caps j -> ~ Transfer.inR bd capd j -> m' j = m j)
  | Threw m' => SwapThrow.ARng m' bs n caps /\ SwapThrow.ARng m' bd dn capd /\
                (forall j, ~ Transfer.inR bs caps j -> ~ Transfer.inR bd capd j -> m' j = m j)
  | Err _ => False end.
Proof. exact MoveThrow.move_n_mt_basic. Qed.

Theorem C09_throwing_moves_move_assign_conserves :
  forall m th bs n caps bd dn capd,
  Transfer.Rng m bs n caps -> Transfer.Rng m bd dn capd -> Transfer.Disj bs caps bd capd -> n <= capd ->
  match MoveThrow.move_n_mt m th bs n bd dn with
  | Done m' _ => Transfer.count_live m' bs caps + Transfer.count_live m' bd capd = n
  | Threw m' => Transfer.count_live m' bs caps + Transfer.count_live m' bd capd = n + dn
  | Err _ => False end.
Proof. exact MoveThrow.move_n_mt_conserves. Qed.

Theorem C09_throwing_moves_move_assign_is_move_n :
  forall m first n d_first d_n, MoveThrow.move_n_mt m None first n d_first d_n = Transfer.lift (Transfer.move_n false m first n d_first d_n) None.
Proof. exact MoveThrow.move_n_mt_none. Qed.

(* ---- trivially relocatable element types ---- *)
Theorem C09_tr_insert_count_anywhere_strong :
  forall m th size cap pos count v, Inv m size cap -> pos <= size -> size + count <= cap ->
  match SlotsTR.insert_cnt_tr m th size pos count v with
  | Done m' _ => (forall j, j < pos -> m' j = m j) /\ (forall j, pos <= j < pos + count -> m' j = Live v) /\
                 (forall j, pos + count <= j < size + count -> m' j = m (j - count)) /\ Inv m' (size + count) cap
  | Threw m' => forall j, m' j = m j
  | Err _ => False
  end.
Proof. exact SlotsTR.insert_cnt_tr_strong. Qed.

Theorem C09_tr_insert_range_anywhere_strong :
  forall m th size cap pos l, Inv m size cap -> pos <= size -> size + length l <= cap ->
  match SlotsTR.insert_range_tr m th size pos l with
  | Done m' _ => (forall j, j < pos -> m' j = m j) /\ (forall k, k < length l -> m' (pos + k) = Live (nth k l 0%Z)) /\
                 (forall j, pos + length l <= j < size + length l -> m' j = m (j - length l)) /\ Inv m' (size + length l) cap
  | Threw m' => forall j, m' j = m j
  | Err _ => False
  end.
Proof. exact SlotsTR.insert_range_tr_strong. Qed.

Theorem C09_tr_insert_value_within_capacity_strong :
  forall m th size cap pos v, Inv m size cap -> size < cap -> pos <= size ->
  match SlotsTR.insert_n m th pos (size - pos) v with
  | Threw m' => th = Some 0 /\ (forall j, m' j = m j)
  | Done m' _ => (forall j, j < pos -> m' j = m j) /\ m' pos = Live v /\ (forall j, pos <= j < size -> m' (S j) = m j) /\
                 Inv m' (size + 1) cap
  | Err _ => False end.
Proof. exact SlotsTR.insert_n_strong. Qed.

Theorem C09_tr_emplace_within_capacity :
  forall m th size cap pos e a k va, EmplaceNPre m size cap pos e a va ->
  match SlotsTR.emplace_n m th pos (size - pos) e a k with
  | Threw m' => k = Lvalue /\ th = Some 0 /\ (forall j, m' j = m j)
  | Done m' _ => (forall j, j < pos -> m' j = m j) /\ m' pos = Live va /\ (forall j, pos <= j < size -> m' (S j) = m j) /\
                 m' e = Raw /\ m' a = arg_after k va /\ Inv (blockview m' 0 cap) (size + 1) cap /\
                 (forall j, size < j -> j <> e -> j <> a -> m' j = m j)
  | Err _ => False end.
Proof. exact SlotsTR.emplace_n_spec. Qed.

Theorem C09_tr_insert_count_before_fix_refuted :
  exists m', Inv (ThrowMove.init 5 9) 5 9 /\ SlotsTR.insert_cnt_tr_nofix (ThrowMove.init 5 9) (Some 1) 5 2 3 7%Z = Threw m' /\
  map m' (seq 0 10) = [Live 10; Live 11; Raw; Raw; Raw; Live 12; Live 13; Live 14; Raw; Out]%Z /\ ~ Inv m' 5 9.
Proof. exact SlotsTR.insert_cnt_tr_nofix_refuted. Qed.

(* ---- growth of a vector whose element moves may throw: relocation by copy ---- *)
Theorem C09_growth_by_copy_strong :
  forall m th bs n caps bd capd,
  Transfer.Rng m bs n caps -> Transfer.Rng m bd 0 capd -> Transfer.Disj bs caps bd capd -> n <= capd ->
  match Transfer.relocate_by_copy m th bs n bd with
  | Done m' _ => Transfer.Relocated m m' bs n caps bd capd
  | Threw m' => forall j, m' j = m j
  | Err _ => False end.
Proof. exact Transfer.relocate_by_copy_strong. Qed.

(* ---- single-pass input range inserted within capacity ---- *)
Theorem C09_single_pass_range_insert_strong :
  forall m th size cap pos l, Inv m size cap -> pos <= size -> size + length l <= cap ->
  match AliasThrow.insert_range_in m th size pos l with
  | Done m' _ => Inv m' (size + length l) cap /\ AliasThrow.vals m' 0 (size + length l) = SlotsTR.spec_insert_range (AliasThrow.vals m 0 size) pos l
  | Threw m' => forall j, m' j = m j
  | Err _ => False end.
Proof. exact AliasThrow.insert_range_in_spec. Qed.

(* ---- SmallVector: the inline slots overlay the pointer to the heap block ---- *)
Theorem C09_smallvector_shrink_to_inline :
  forall N span mt m th o p,
  Overlay.WF N m o -> Overlay.small o = false -> Overlay.ptr o = Some p -> Overlay.size o <= N ->
  match Overlay.reset_to_small true N span mt m th o with
  | Overlay.RErr _ => False
  | Overlay.RThrew m' o' => mt = true /\ o' = o /\ (forall j, m' j = m j) /\ Overlay.WF N m' o'
  | Overlay.RDone m' o' _ => Overlay.small o' = true /\ Overlay.size o' = Overlay.size o /\ Overlay.bi o' = Overlay.bi o /\ Overlay.WF N m' o' /\
                     Transfer.content m' (Overlay.bi o) (Overlay.size o) = Transfer.content m p (Overlay.size o) /\
                     (forall k, k < Overlay.cap o -> m' (p + k) = Out) /\
                     (forall j, ~ Transfer.inR (Overlay.bi o) N j -> ~ Transfer.inR p (Overlay.cap o) j -> m' j = m j)
  end.
Proof. exact Overlay.reset_to_small_spec. Qed.

Theorem C09_smallvector_shrink_before_fix_refuted :
  forall N span m j o p,
  Overlay.WF N m o -> Overlay.small o = false -> Overlay.ptr o = Some p -> Overlay.size o <= N -> 1 <= span -> 1 <= j < Overlay.size o ->
  exists m' o', Overlay.reset_to_small false N span true m (Some j) o = Overlay.RThrew m' o' /\ Overlay.small o' = false /\ Overlay.ptr o' = None /\
                Overlay.data o' = inr Overlay.WildPointer.
Proof. exact Overlay.reset_to_small_refuted_general. Qed.

Theorem C09_smallvector_swap_heap_with_inline :
  forall N span mt m th a b p,
  Overlay.WF N m a -> Overlay.WF N m b -> Overlay.small a = false -> Overlay.small b = true -> Overlay.ptr a = Some p ->
  Transfer.Disj (Overlay.bi a) N (Overlay.bi b) N -> Transfer.Disj (Overlay.bi b) N p (Overlay.cap a) ->
  match Overlay.swap_dyn_small true N span mt m th a b with
  | Overlay.RErr _ => False
  | Overlay.RThrew m' (a', b') => mt = true /\ a' = a /\ b' = b /\ Overlay.WF N m' a' /\
                          (forall k, k < Overlay.cap a -> m' (p + k) = m (p + k)) /\
                          (forall k, k < Overlay.size b -> EmplaceGrow.alive (m' (Overlay.bi b + k)) = true) /\
                          (forall k, Overlay.size b <= k < N -> m' (Overlay.bi b + k) = Raw) /\
                          (forall j, ~ (Overlay.bi b <= j < Overlay.bi b + Overlay.size b) -> m' j = m j)
  | Overlay.RDone m' (a', b') _ => Overlay.small a' = true /\ Overlay.size a' = Overlay.size b /\ Overlay.bi a' = Overlay.bi a /\ Overlay.WF N m' a' /\
                           Transfer.content m' (Overlay.bi a) (Overlay.size b) = Transfer.content m (Overlay.bi b) (Overlay.size b) /\
                           Overlay.small b' = false /\ Overlay.size b' = Overlay.size a /\ Overlay.cap b' = Overlay.cap a /\ Overlay.ptr b' = Some p /\
                           Overlay.bi b' = Overlay.bi b /\ Overlay.WF N m' b' /\
                           (forall k, k < Overlay.cap a -> m' (p + k) = m (p + k)) /\
                           (forall j, ~ Transfer.inR (Overlay.bi a) N j -> ~ Transfer.inR (Overlay.bi b) N j -> m' j = m j)
  end.
Proof. exact Overlay.swap_dyn_small_spec. Qed.

Theorem C09_smallvector_swap_before_fix_refuted :
  forall N span m j a b p,
  Overlay.WF N m a -> Overlay.WF N m b -> Overlay.small a = false -> Overlay.small b = true -> Overlay.ptr a = Some p ->
  Transfer.Disj (Overlay.bi a) N (Overlay.bi b) N -> Transfer.Disj (Overlay.bi b) N p (Overlay.cap a) -> 1 <= span -> 1 <= j < Overlay.size b ->
  exists m' a' b', Overlay.swap_dyn_small false N span true m (Some j) a b = Overlay.RThrew m' (a', b') /\ Overlay.small a' = false /\
                   Overlay.ptr a' = None /\ Overlay.data a' = inr Overlay.WildPointer.
Proof. exact Overlay.swap_dyn_small_refuted_general. Qed.
