(* C06 at the level of whole histories of the vector model: the allocator events of EVERY operation, applied to the multiset
   of blocks the containers of the pool own before it, give the multiset of blocks they own after it - no block is returned
   that is not outstanding with exactly that size, none is lost.  Hence after any history the outstanding blocks are the
   blocks owned by the live containers, and nothing is outstanding once every container is gone. *)
From Coq Require Import ZArith List Bool Lia Permutation.
Require Import ZifyBool.
From Amc Require Import GenPrelude Words VecModel VecProofs.
Import ListNotations.
Local Open Scope Z_scope.

(* ---- multisets of block sizes ---------------------------------------------------------------------------------------- *)
Lemma take_one_perm n : forall l r, take_one n l = Some r -> Permutation l (n :: r).
Proof. induction l as [|y t IH]; intros r H; cbn [take_one] in H; [discriminate|].
  destruct (Z.eqb_spec n y) as [->|Hne].
  - inversion H; subst. apply Permutation_refl.
  - destruct (take_one n t) as [r'|] eqn:E; cbn [option_map] in H; [|discriminate]. inversion H; subst.
    eapply perm_trans; [apply perm_skip; apply IH; reflexivity|apply perm_swap]. Qed.
Lemma take_one_in n : forall l, In n l -> exists r, take_one n l = Some r.
Proof. induction l as [|y t IH]; intros H; [destruct H|]. cbn [take_one]. destruct (Z.eqb_spec n y) as [->|Hne]; [eexists; reflexivity|].
  destruct H as [H|H]; [congruence|]. destruct (IH H) as [r ->]. eexists; reflexivity. Qed.
Lemma take_one_perm2 n l l' r : Permutation l l' -> take_one n l = Some r -> exists r', take_one n l' = Some r' /\ Permutation r r'.
Proof. intros HP H. pose proof (take_one_perm n l r H) as P1.
  assert (Hin : In n l') by (eapply Permutation_in; [exact HP|]; eapply Permutation_in; [apply Permutation_sym; exact P1|left; reflexivity]).
  destruct (take_one_in n l' Hin) as [r' Hr']. exists r'. split; [assumption|].
  pose proof (take_one_perm n l' r' Hr') as P2. apply (Permutation_cons_inv (a := n)).
  eapply perm_trans; [apply Permutation_sym; exact P1|]. eapply perm_trans; [exact HP|exact P2]. Qed.
Lemma apply_ev_perm l l' e r : Permutation l l' -> apply_ev l e = Some r -> exists r', apply_ev l' e = Some r' /\ Permutation r r'.
Proof. intros HP H. destruct e as [n|n|old new live]; cbn [apply_ev] in *.
  - inversion H; subst. eexists; split; [reflexivity|apply perm_skip; assumption].
  - destruct (n =? 0); [inversion H; subst; eexists; split; [reflexivity|assumption]|]. apply (take_one_perm2 n l l' r HP H).
  - destruct (old =? 0); [inversion H; subst; eexists; split; [reflexivity|apply perm_skip; assumption]|].
    destruct (take_one old l) as [r0|] eqn:E; cbn [option_map] in H; [|discriminate]. inversion H; subst.
    destruct (take_one_perm2 old l l' r0 HP E) as (r' & -> & P). eexists; split; [reflexivity|apply perm_skip; assumption]. Qed.
Lemma apply_evs_perm evs : forall l l' r, Permutation l l' -> apply_evs l evs = Some r -> exists r', apply_evs l' evs = Some r' /\ Permutation r r'.
Proof. induction evs as [|e t IH]; intros l l' r HP H; cbn [apply_evs] in *.
  - inversion H; subst. eexists; split; [reflexivity|assumption].
  - destruct (apply_ev l e) as [l1|] eqn:E; [|discriminate]. destruct (apply_ev_perm l l' e l1 HP E) as (l1' & -> & P1). apply (IH l1 l1' r P1 H). Qed.
Lemma apply_evs_app e1 : forall l e2, apply_evs l (e1 ++ e2) = match apply_evs l e1 with Some l1 => apply_evs l1 e2 | None => None end.
Proof. induction e1 as [|e t IH]; intros l e2; cbn [app apply_evs]; [reflexivity|]. destruct (apply_ev l e); [apply IH|reflexivity]. Qed.
Lemma take_one_frame n rest : forall l r, take_one n l = Some r -> take_one n (l ++ rest) = Some (r ++ rest).
Proof. induction l as [|y t IH]; intros r H; cbn [take_one app] in *; [discriminate|]. destruct (n =? y); [inversion H; reflexivity|].
  destruct (take_one n t) as [r'|]; cbn [option_map] in *; [|discriminate]. inversion H; subst. rewrite (IH r' eq_refl). reflexivity. Qed.
Lemma apply_evs_frame rest evs : forall l r, apply_evs l evs = Some r -> apply_evs (l ++ rest) evs = Some (r ++ rest).
Proof. induction evs as [|e t IH]; intros l r H; cbn [apply_evs] in *; [inversion H; reflexivity|].
  destruct (apply_ev l e) as [l1|] eqn:E; [|discriminate].
  assert (apply_ev (l ++ rest) e = Some (l1 ++ rest)) as ->.
  { destruct e as [n|n|old new live]; cbn [apply_ev] in *.
    - inversion E; reflexivity.
    - destruct (n =? 0); [inversion E; reflexivity|apply take_one_frame; assumption].
    - destruct (old =? 0); [inversion E; reflexivity|]. destruct (take_one old l) as [r0|] eqn:E0; cbn [option_map] in E; [|discriminate].
      inversion E; subst. rewrite (take_one_frame old rest l r0 E0). reflexivity. }
  apply IH. assumption. Qed.
(* the ledger statement used below: [evs] turns the outstanding blocks [l] into (a permutation of) [l'] *)
Definition Led (l : list Z) (evs : list aevent) (l' : list Z) : Prop := exists r, apply_evs l evs = Some r /\ Permutation r l'.
Lemma Led_nil l l' : Permutation l l' -> Led l [] l'. Proof. intros H. exists l. split; [reflexivity|assumption]. Qed.
Lemma Led_perm l1 l2 evs l1' l2' : Permutation l1 l2 -> Permutation l1' l2' -> Led l1 evs l1' -> Led l2 evs l2'.
Proof. intros P P' (r & H & Q). destruct (apply_evs_perm evs l1 l2 r P H) as (r' & H' & Q'). exists r'. split; [assumption|].
  eapply perm_trans; [apply Permutation_sym; exact Q'|]. eapply perm_trans; [exact Q|exact P']. Qed.
Lemma Led_app l e1 l1 e2 l2 : Led l e1 l1 -> Led l1 e2 l2 -> Led l (e1 ++ e2) l2.
Proof. intros (r & H & Q) (r2 & H2 & Q2). destruct (apply_evs_perm e2 l1 r r2 (Permutation_sym Q) H2) as (r' & H' & Q').
  exists r'. split; [rewrite apply_evs_app, H; assumption|]. eapply perm_trans; [apply Permutation_sym; exact Q'|exact Q2]. Qed.
Lemma Led_frame rest l evs l' : Led l evs l' -> Led (l ++ rest) evs (l' ++ rest).
Proof. intros (r & H & Q). exists (r ++ rest). split; [apply apply_evs_frame; assumption|apply Permutation_app_tail; assumption]. Qed.

Section L.
Variable c : vcfg.
Hypothesis Hc : cfg_ok c.
Local Notation M := (cM c).
Local Notation N := (cN c).
Local Notation BInv := (VecProofs.BInv c).

(* the block a container owns: [capacity()] elements while begin() points to the heap (a null buffer of capacity 0 is no block) *)
Definition own (x : words) : list Z :=
  match b_store c x with SHeap => if b_capacity c x =? 0 then [] else [b_capacity c x] | _ => [] end.

Lemma heap_capacity x : b_store c x = SHeap -> b_capacity c x = capa_ x.
Proof. unfold b_store, b_capacity. destruct (fl c); try discriminate.
  - reflexivity.
  - unfold Words.capacity. destruct (isSmall x); [discriminate|reflexivity]. Qed.
Lemma own_eq x y : b_store c x = b_store c y -> b_capacity c x = b_capacity c y -> own x = own y.
Proof. intros A B. unfold own. rewrite A, B. reflexivity. Qed.
Lemma own_heap x : b_store c x = SHeap -> own x = if capa_ x =? 0 then [] else [capa_ x].
Proof. intros H. unfold own. rewrite H, (heap_capacity x H). reflexivity. Qed.
Lemma own_noheap x : b_store c x <> SHeap -> own x = [].
Proof. intros H. unfold own. destruct (b_store c x); congruence. Qed.

Lemma realloc_led old new live : Led (if old =? 0 then [] else [old]) (realloc_events c old new live) (if new =? 0 then [] else [new]) \/ new = 0.
Proof. destruct (Z.eqb_spec new 0) as [->|Hn]; [right; reflexivity|left]. unfold realloc_events.
  destruct (is_tr c && has_realloc c); destruct (Z.eqb_spec old 0) as [->|Ho].
  - exists [new]. split; [reflexivity|apply Permutation_refl].
  - exists [new]. split; [|apply Permutation_refl]. cbn [apply_evs apply_ev]. destruct (Z.eqb_spec old 0); [lia|]. cbn [take_one]. rewrite Z.eqb_refl. reflexivity.
  - exists [new]. split; [reflexivity|apply Permutation_refl].
  - exists [new]. split; [|apply Permutation_refl]. cbn [apply_evs apply_ev]. destruct (Z.eqb_spec old 0); [lia|]. cbn [take_one].
    destruct (Z.eqb_spec old new) as [->|Hne]; [reflexivity|]. rewrite Z.eqb_refl. reflexivity. Qed.

Lemma free_led x : Led (own x) (b_free c x) [].
Proof. unfold b_free, b_heap. destruct (b_store c x) eqn:E; try (rewrite own_noheap by congruence; cbv iota; apply Led_nil; apply Permutation_refl).
  rewrite (own_heap x E). exists []. split; [|apply Permutation_refl]. cbv iota. cbn [apply_evs apply_ev].
  destruct (Z.eqb_spec (capa_ x) 0); [reflexivity|]. cbn [take_one]. rewrite Z.eqb_refl. reflexivity. Qed.

Lemma grow_led x need exact x' ev : BInv x -> b_capacity c x < need -> (exact = true -> need <= M) -> fl c <> FFCV ->
  b_grow c x need exact = Some (x', ev) -> Led (own x) ev (own x').
Proof. intros H Hn He Hf Hg. pose proof (b_grow_ok c Hc x need exact H Hn He Hf) as G. rewrite Hg in G. destruct G as (A & B & C & D & _).
  pose proof (b_size_cap c Hc x H) as Hsc. pose proof (b_size_cap c Hc x' A) as Hsc'.
  assert (Hpos : 0 < capa_ x') by (rewrite <- (heap_capacity x' D); lia).
  rewrite (own_heap x' D). unfold b_grow in Hg. destruct (fl c) eqn:E; try congruence.
  - destruct (safe_next M (mk_wrap c) (capa_ x) need exact) as [nc|]; [|discriminate]. inversion Hg; subst x' ev. cbn [capa_] in *.
    assert (Eo : own x = if capa_ x =? 0 then [] else [capa_ x]).
    { unfold own, b_store, b_capacity, p_capacity. rewrite E. destruct (capa_ x =? 0) eqn:E0; reflexivity. }
    rewrite Eo. destruct (realloc_led (capa_ x) nc (size_ x)) as [R|R]; [exact R|lia].
  - destruct (isSmall x) eqn:Es.
    + destruct (safe_next M (mk_wrap c) (if size_ x =? M then capa_ x else size_ x) need exact) as [nc|]; [|discriminate]. inversion Hg; subst x' ev.
      cbn [capa_] in *. rewrite own_noheap by (unfold b_store; rewrite E, Es; discriminate).
      exists [nc]. split; [reflexivity|]. destruct (Z.eqb_spec nc 0); [lia|apply Permutation_refl].
    + destruct (safe_next M (mk_wrap c) (capa_ x) need exact) as [nc|]; [|discriminate]. inversion Hg; subst x' ev. cbn [capa_] in *.
      rewrite own_heap by (unfold b_store; rewrite E, Es; reflexivity).
      destruct (realloc_led (capa_ x) nc (size_ x)) as [R|R]; [exact R|lia].
Qed.

Lemma adjust_led x need x' ev : BInv x -> 0 <= need -> adjust c x need = inl (x', ev) -> Led (own x) ev (own x').
Proof. intros H Hn Ha. unfold adjust in Ha. destruct (fl c) eqn:E.
  - destruct (Z.ltb_spec (b_capacity c x) need) as [Hlt|Hge].
    + destruct (b_grow c x need false) as [[x1 ev1]|] eqn:G; [|discriminate]. inversion Ha; subst.
      apply (grow_led x need false); try assumption; congruence.
    + inversion Ha; subst. apply Led_nil, Permutation_refl.
  - destruct (Z.ltb_spec (b_capacity c x) need) as [Hlt|Hge].
    + destruct (b_grow c x need false) as [[x1 ev1]|] eqn:G; [|discriminate]. inversion Ha; subst.
      apply (grow_led x need false); try assumption; congruence.
    + inversion Ha; subst. apply Led_nil, Permutation_refl.
  - destruct (exc_check need (b_capacity c x)); [|discriminate]. inversion Ha; subst. apply Led_nil, Permutation_refl.
Qed.

Lemma adjust_one_led x x' ev : BInv x -> adjust_one c x = inl (x', ev) -> Led (own x) ev (own x').
Proof. intros H Ha. pose proof (b_size_cap c Hc x H) as Hsc. unfold adjust_one in Ha. destruct (fl c) eqn:E.
  - destruct (Z.eqb_spec (b_size c x) (b_capacity c x)) as [Heq|Hne].
    + destruct (b_grow c x (b_size c x + 1) false) as [[x1 ev1]|] eqn:G; [|discriminate]. inversion Ha; subst.
      apply (grow_led x (b_size c x + 1) false); try assumption; try congruence; lia.
    + inversion Ha; subst. apply Led_nil, Permutation_refl.
  - destruct (Z.eqb_spec (b_size c x) (b_capacity c x)) as [Heq|Hne].
    + destruct (b_grow c x (b_size c x + 1) false) as [[x1 ev1]|] eqn:G; [|discriminate]. inversion Ha; subst.
      apply (grow_led x (b_size c x + 1) false); try assumption; try congruence; lia.
    + inversion Ha; subst. apply Led_nil, Permutation_refl.
  - destruct (exc_check (b_size c x + 1) (b_capacity c x)); [|discriminate]. inversion Ha; subst. apply Led_nil, Permutation_refl.
Qed.

Lemma setSize_own x n : BInv x -> 0 <= n <= b_capacity c x -> own (b_setSize c x n) = own x.
Proof. intros H Hn. destruct (b_setSize_ok c Hc x n H Hn) as (_ & _ & A & B). apply own_eq; assumption. Qed.
Lemma incr_own x : BInv x -> b_size c x < b_capacity c x -> own (b_incrSize c x) = own x.
Proof. intros H Hn. destruct (b_incr_ok c Hc x H Hn) as (_ & _ & A & B). apply own_eq; assumption. Qed.
Lemma decr_own x : BInv x -> 0 < b_size c x -> own (b_decrSize c x) = own x.
Proof. intros H Hn. destruct (b_decr_ok c Hc x H Hn) as (_ & _ & A & B). apply own_eq; assumption. Qed.

Definition blk (n : Z) : list Z := if n =? 0 then [] else [n].
Lemma own_words x : own x = match fl c with FFCV => [] | FVec => blk (capa_ x) | FSV => if isSmall x then [] else blk (capa_ x) end.
Proof. unfold own, b_store, b_capacity, p_capacity, Words.capacity, blk. destruct (fl c); [|destruct (isSmall x); reflexivity|reflexivity].
  destruct (capa_ x =? 0); reflexivity. Qed.
Lemma dealloc_led n : Led (blk n) [EDealloc n] [].
Proof. unfold blk. exists []. split; [|apply Permutation_refl]. cbn [apply_evs apply_ev]. destruct (Z.eqb_spec n 0); [reflexivity|]. cbn [take_one]. rewrite Z.eqb_refl. reflexivity. Qed.
Lemma realloc_led' old new live : new <> 0 -> Led (blk old) (realloc_events c old new live) (blk new).
Proof. intros Hn. destruct (realloc_led old new live) as [R|R]; [exact R|congruence]. Qed.
Lemma blk_pos n : n <> 0 -> blk n = [n]. Proof. intros H. unfold blk. destruct (Z.eqb_spec n 0); [congruence|reflexivity]. Qed.

Lemma shrink_led x : BInv x -> Led (own x) (snd (b_shrink c x)) (own (fst (b_shrink c x))).
Proof. intros H. pose proof Hc as [HM0 HN0]. rewrite !own_words. unfold b_shrink, VecProofs.BInv in *. destruct (fl c) eqn:E.
  - destruct (Z.eqb_spec (size_ x) (capa_ x)) as [Heq|Hne]; cbn [negb fst snd]; [apply Led_nil, Permutation_refl|].
    destruct (Z.eqb_spec (size_ x) 0) as [H0|H0]; cbn [fst snd capa_ size_].
    + apply dealloc_led.
    + apply realloc_led'. assumption.
  - destruct (isSmall x) eqn:Es; cbn [negb fst snd]; [rewrite Es; apply Led_nil, Permutation_refl|].
    destruct (heap_view M N x H Es) as (V1 & V2 & V3). unfold WInv in H.
    destruct (Z.leb_spec (size_ x) N) as [Hle|Hgt]; cbn [fst snd].
    + assert (isSmall {| capa_ := size_ x; size_ := if size_ x =? N then M else N |} = true) as ->
        by (unfold isSmall; cbn [capa_ size_]; destruct (Z.eqb_spec (size_ x) N); lia).
      apply dealloc_led.
    + destruct (Z.eqb_spec (size_ x) (capa_ x)) as [Heq|Hne]; cbn [negb fst snd]; [rewrite Es; apply Led_nil, Permutation_refl|].
      assert (isSmall {| capa_ := size_ x; size_ := size_ x |} = false) as -> by (unfold isSmall; cbn [capa_ size_]; lia).
      cbn [capa_]. apply realloc_led'. lia.
  - cbn [fst snd]. apply Led_nil, Permutation_refl.
Qed.

(* move construction: the block changes owner *)
Lemma move_construct_own o : BInv o ->
  own (fst (b_move_construct c o)) = own o /\ own (snd (b_move_construct c o)) = [].
Proof. intros H. pose proof Hc as [HM0 HN0]. rewrite !own_words. unfold b_move_construct. destruct (fl c) eqn:E; cbn [fst snd capa_ size_].
  - split; reflexivity.
  - split; [reflexivity|]. assert (isSmall {| capa_ := 0; size_ := N |} = true) as -> by (unfold isSmall; cbn [capa_ size_]; lia). reflexivity.
  - split; reflexivity.
Qed.

Lemma move_assign_led t o : BInv t -> BInv o ->
  let '(t', o', ev) := b_move_assign c t o in Led (own t ++ own o) ev (own t' ++ own o').
Proof. intros Ht Ho. pose proof Hc as [HM0 HN0]. unfold b_move_assign. destruct (fl c) eqn:E.
  - rewrite !own_words, E. cbn [capa_ blk]. change (blk 0) with (@nil Z). rewrite app_nil_r.
    destruct (Z.eqb_spec (capa_ t) 0) as [E0|E0].
    + rewrite E0. cbn [blk app]. apply Led_nil, Permutation_refl.
    + apply (Led_frame (blk (capa_ o)) (blk (capa_ t)) [EDealloc (capa_ t)] []). apply dealloc_led.
  - unfold VecProofs.BInv in Ht, Ho. rewrite E in Ht, Ho.
    assert (Hinit : isSmall {| capa_ := 0; size_ := N |} = true) by (unfold isSmall; cbn [capa_ size_]; lia).
    destruct (isSmall o) eqn:Eo.
    + (* o inline: its elements are moved one by one; this keeps (or frees, when too small) its own buffer *)
      destruct (inline_view M N HN0 o Ho Eo) as (V1 & V2 & V3). pose proof (size_le_capacity M N o Ho) as So. unfold Words.size in V1, So. rewrite Eo in V1, So.
      assert (Ho0 : own (Words.setSize M o 0) = []).
      { pose proof (b_setSize_ok c Hc o 0) as S. unfold VecProofs.BInv, b_setSize, b_capacity, b_store in S. rewrite E in S.
        destruct (S Ho ltac:(lia)) as (_ & _ & _ & S4). rewrite Eo in S4. rewrite own_words, E. destruct (isSmall (Words.setSize M o 0)); [reflexivity|discriminate]. }
      assert (Hoo : own o = []) by (rewrite own_words, E, Eo; reflexivity).
      destruct (negb (isSmall t) && (capa_ t <? capa_ o)) eqn:Ec; cbv beta iota zeta; rewrite Ho0, Hoo, !app_nil_r.
      * apply andb_true_iff in Ec. destruct Ec as [Et Hlt]. apply negb_true_iff in Et.
        assert (Hini : VecProofs.BInv c {| capa_ := 0; size_ := N |}) by (rewrite <- (sv_init_eq c E); apply (init_BInv c Hc)).
        assert (Hcap : b_capacity c {| capa_ := 0; size_ := N |} = N).
        { unfold b_capacity. rewrite E. unfold Words.capacity. rewrite Hinit. cbn [size_ andb]. destruct (Z.eqb_spec N M); [lia|reflexivity]. }
        pose proof (b_setSize_ok c Hc {| capa_ := 0; size_ := N |} (capa_ o) Hini ltac:(rewrite Hcap; lia)) as (_ & _ & S3 & S4).
        unfold b_setSize in S3, S4. rewrite E in S3, S4.
        assert (own (Words.setSize M {| capa_ := 0; size_ := N |} (capa_ o)) = []) as ->.
        { apply own_noheap. rewrite S4. unfold b_store. rewrite E, Hinit. discriminate. }
        rewrite own_words, E, Et. apply dealloc_led.
      * assert (Hfit : capa_ o <= b_capacity c t).
        { unfold b_capacity. rewrite E. destruct (isSmall t) eqn:Et; cbn [negb andb] in Ec.
          - destruct (inline_view M N HN0 t Ht Et) as (_ & W2 & _). lia.
          - destruct (heap_view M N t Ht Et) as (_ & W2 & _). lia. }
        pose proof (b_setSize_ok c Hc t (capa_ o)) as S. unfold VecProofs.BInv, b_setSize in S. rewrite E in S.
        destruct (S Ht ltac:(lia)) as (_ & _ & S3 & S4).
        rewrite (own_eq _ t S4 S3). apply Led_nil, Permutation_refl.
    + (* o on the heap: this releases its buffer (if any) and takes o's *)
      assert (own {| capa_ := 0; size_ := N |} = []) as -> by (rewrite own_words, E, Hinit; reflexivity). rewrite app_nil_r.
      rewrite (own_words t), E. destruct (isSmall t) eqn:Et; [cbn [app]; apply Led_nil, Permutation_refl|].
      apply (Led_frame (own o) (blk (capa_ t)) [EDealloc (capa_ t)] []). apply dealloc_led.
  - rewrite !own_words, E. cbn [app]. apply Led_nil, Permutation_refl.
Qed.

Lemma swap_own t o : Permutation (own (fst (b_swap c t o)) ++ own (snd (b_swap c t o))) (own t ++ own o).
Proof. unfold b_swap. destruct (fl c) eqn:E; cbn [fst snd]; try apply Permutation_app_comm.
  rewrite !own_words, E. apply Permutation_refl. Qed.

Lemma Led_two t o ev1 ev2 t1 o1 : Led (own t) ev1 (own t1) -> Led (own o) ev2 (own o1) -> Led (own t ++ own o) (ev1 ++ ev2) (own t1 ++ own o1).
Proof. intros A B. eapply Led_app; [apply Led_frame; exact A|].
  apply (Led_perm (own o ++ own t1) _ ev2 (own o1 ++ own t1)); [apply Permutation_app_comm|apply Permutation_app_comm|]. apply Led_frame. exact B. Qed.

Lemma swap2_led t o t' o' ev : BInv t -> BInv o -> b_swap2 c t o = inl (t', o', ev) -> Led (own t ++ own o) ev (own t' ++ own o').
Proof. intros Ht Ho H. unfold b_swap2 in H.
  pose proof (b_size_cap c Hc t Ht) as Hst. pose proof (b_size_cap c Hc o Ho) as Hso.
  assert (Hfin : forall t1 o1 ev1, BInv t1 -> BInv o1 -> b_size c t1 = b_size c t -> b_size c o1 = b_size c o ->
            (can_swap_dyn c t1 o1 = false -> b_size c o <= b_capacity c t1 /\ b_size c t <= b_capacity c o1) ->
            Led (own t ++ own o) ev1 (own t1 ++ own o1) ->
            (if can_swap_dyn c t1 o1 then inl (o1, t1, ev1) else inl (b_setSize c t1 (b_size c o1), b_setSize c o1 (b_size c t1), ev1)) = (inl (t', o', ev) : (words * words * list aevent) + exn) ->
            Led (own t ++ own o) ev (own t' ++ own o')).
  { intros t1 o1 ev1 A1 A2 S1 S2 C L E. destruct (can_swap_dyn c t1 o1) eqn:Ec; inversion E; subst.
    - eapply Led_perm; [apply Permutation_refl|apply Permutation_app_comm|exact L].
    - destruct (C eq_refl) as [C1 C2]. rewrite (setSize_own t1 (b_size c o1) A1 ltac:(lia)), (setSize_own o1 (b_size c t1) A2 ltac:(lia)). exact L. }
  destruct (can_swap_dyn c t o) eqn:Ec.
  - apply (Hfin t o []); try assumption; try reflexivity; [intros X; congruence|apply Led_nil, Permutation_refl].
  - pose proof (adjust_ok c Hc t (b_size c o) Ht ltac:(lia)) as HA. pose proof (adjust_led t (b_size c o)) as LA.
    destruct (adjust c t (b_size c o)) as [[t1 ev1]|e]; [|discriminate].
    destruct HA as (A & B & C & _). specialize (LA t1 ev1 Ht ltac:(lia) eq_refl).
    pose proof (adjust_ok c Hc o (b_size c t1) Ho ltac:(lia)) as HB. pose proof (adjust_led o (b_size c t1)) as LB.
    destruct (adjust c o (b_size c t1)) as [[o1 ev2]|e]; [|discriminate].
    destruct HB as (A' & B' & C' & _). specialize (LB o1 ev2 Ho ltac:(lia) eq_refl).
    apply (Hfin t1 o1 (ev1 ++ ev2)); try assumption; try lia. apply Led_two; assumption.
Qed.

(* ---- the single-container combinators ------------------------------------------------------------------------------ *)
Local Notation VInv := (VecProofs.VInv c).
Definition RLed (v : vec) (r : R) : Prop :=
  match r with inl (v', ev) => Led (own (w v)) ev (own (w v')) | inr (_, v', ev) => Led (own (w v)) ev (own (w v')) end.

Lemma grow_set_led v cond n els' : VInv v -> 0 <= n -> (cond = false -> n <= b_capacity c (w v)) -> RLed v (grow_set c v cond n els').
Proof. intros [HB HS] Hn Hcond. unfold grow_set, RLed. destruct cond.
  - pose proof (adjust_ok c Hc (w v) n HB Hn) as HA. pose proof (adjust_led (w v) n) as LA.
    destruct (adjust c (w v) n) as [[w1 ev]|e]; [|apply Led_nil, Permutation_refl].
    destruct HA as (A & B & C & _). cbn [w]. rewrite (setSize_own w1 n A ltac:(lia)). apply LA; [assumption|assumption|reflexivity].
  - cbn [w]. rewrite (setSize_own (w v) n HB ltac:(specialize (Hcond eq_refl); lia)). apply Led_nil, Permutation_refl.
Qed.
Lemma grow_incr_led v els' : VInv v -> RLed v (grow_incr c v els').
Proof. intros [HB HS]. unfold grow_incr, RLed. pose proof (b_size_cap c Hc (w v) HB) as Hsc.
  pose proof (adjust_ok c Hc (w v) (b_size c (w v) + 1) HB ltac:(lia)) as HA. pose proof (adjust_led (w v) (b_size c (w v) + 1)) as LA.
  destruct (adjust c (w v) (b_size c (w v) + 1)) as [[w1 ev]|e]; [|apply Led_nil, Permutation_refl].
  destruct HA as (A & B & C & _). cbn [w]. rewrite (incr_own w1 A ltac:(lia)). apply LA; [assumption|lia|reflexivity]. Qed.
Lemma one_incr_led v els' : VInv v -> RLed v (one_incr c v els').
Proof. intros [HB HS]. unfold one_incr, RLed. pose proof (b_size_cap c Hc (w v) HB) as Hsc.
  pose proof (adjust_one_ok c Hc (w v) HB) as HA. pose proof (adjust_one_led (w v)) as LA.
  destruct (adjust_one c (w v)) as [[w1 ev]|e]; [|apply Led_nil, Permutation_refl].
  destruct HA as (A & B & C & _). cbn [w]. rewrite (incr_own w1 A ltac:(lia)). apply LA; [assumption|reflexivity]. Qed.

Lemma append_input_led rb : forall vs v0 v ev, VInv v0 -> VInv v -> b_capacity c (w v0) <= b_capacity c (w v) ->
  len (els v0) <= len (els v) ->
  match append_input c rb v0 v ev vs with
  | inl (v', ev') => exists ev2, ev' = ev ++ ev2 /\ Led (own (w v)) ev2 (own (w v'))
  | inr (_, v', ev') => exists ev2, ev' = ev ++ ev2 /\ Led (own (w v)) ev2 (own (w v'))
  end.
Proof. induction vs as [|x t IH]; intros v0 v ev H0 Hv Hcap Hlen; cbn [append_input].
  - exists []. split; [rewrite app_nil_r; reflexivity|apply Led_nil, Permutation_refl].
  - pose proof (one_incr_ok c Hc v (els v ++ [x]) Hv ltac:(rewrite len_app; reflexivity)) as P. unfold ROk_post in P.
    pose proof (one_incr_led v (els v ++ [x]) Hv) as L. unfold RLed in L.
    destruct (one_incr c v (els v ++ [x])) as [[v1 ev1]|[[e v1] ev1]].
    + destruct P as (P1 & P2 & P3 & P4 & _).
      specialize (IH v0 v1 (ev ++ ev1) H0 P1 ltac:(lia) ltac:(rewrite P2, len_app; unfold len at 3; cbn [length]; lia)).
      destruct (append_input c rb v0 v1 (ev ++ ev1) t) as [[v' ev']|[[e v'] ev']]; destruct IH as (ev2 & -> & L2);
        (exists (ev1 ++ ev2); split; [rewrite app_assoc; reflexivity|eapply Led_app; eassumption]).
    + exists []. split; [rewrite app_nil_r; reflexivity|]. destruct rb; [|apply Led_nil, Permutation_refl]. cbn [w].
      destruct H0 as [H0B H0S]. destruct Hv as [HvB HvS]. pose proof (b_size_cap c Hc (w v0) H0B).
      rewrite (setSize_own (w v) (b_size c (w v0)) HvB ltac:(lia)). apply Led_nil, Permutation_refl.
Qed.
Lemma append_range_led v k vs : VInv v -> RLed v (append_range c v k vs).
Proof. intros Hv. pose proof Hv as [HB HS]. pose proof (b_size_cap c Hc (w v) HB). pose proof (len_nonneg vs). unfold append_range. destruct k.
  - apply grow_set_led; [assumption|lia|discriminate].
  - pose proof (append_input_led true vs v v [] Hv Hv ltac:(lia) ltac:(lia)) as P. unfold RLed.
    destruct (append_input c true v v [] vs) as [[v' ev']|[[e v'] ev']]; destruct P as (ev2 & -> & L); exact L. Qed.
Lemma assign_range_led v k vs : VInv v -> RLed v (assign_range c v k vs).
Proof. intros Hv. pose proof Hv as [HB HS]. pose proof (b_size_cap c Hc (w v) HB). pose proof (len_nonneg vs). unfold assign_range. destruct k.
  - apply grow_set_led; [assumption|lia|]. intros X. lia.
  - destruct (b_setSize_ok c Hc (w v) 0 HB ltac:(lia)) as (A & B & C & D).
    assert (Hv0 : VInv {| w := b_setSize c (w v) 0; els := [] |}) by (split; cbn [w els]; [exact A|rewrite B; reflexivity]).
    set (v0 := {| w := b_setSize c (w v) 0; els := [] |}) in *.
    pose proof (append_input_led false vs v0 v0 [] Hv0 Hv0 ltac:(lia) ltac:(lia)) as P. unfold RLed.
    assert (Eo : own (w v0) = own (w v)) by (apply own_eq; assumption).
    destruct (append_input c false v0 v0 [] vs) as [[v' ev']|[[e v'] ev']]; destruct P as (ev2 & -> & L); rewrite <- Eo; exact L. Qed.

(* ---- pools --------------------------------------------------------------------------------------------------------- *)
Definition oown (x : option vec) : list Z := match x with Some v => own (w v) | None => [] end.
Definition pool_own (p : pool) : list Z := flat_map oown p.

Lemma set_length : forall (p : pool) a x, length (set p a x) = length p.
Proof. induction p as [|y p IH]; intros a x; [reflexivity|]. destruct a; cbn [set length]; [reflexivity|rewrite IH; reflexivity]. Qed.
Lemma get_set_same : forall (p : pool) a x, (a < length p)%nat -> get (set p a x) a = x.
Proof. unfold get. induction p as [|y p IH]; intros a x H; cbn [length] in H; [lia|]. destruct a; cbn [set nth]; [reflexivity|apply IH; lia]. Qed.
Lemma get_set_other : forall (p : pool) a b x, a <> b -> get (set p a x) b = get p b.
Proof. unfold get. induction p as [|y p IH]; intros a b x H; [reflexivity|]. destruct a, b; cbn [set nth]; try reflexivity; [congruence|apply IH; congruence]. Qed.
Lemma set_set_same : forall (p : pool) a x y, set (set p a x) a y = set p a y.
Proof. induction p as [|z p IH]; intros a x y; [reflexivity|]. destruct a; cbn [set]; [reflexivity|rewrite IH; reflexivity]. Qed.
Lemma pool_split : forall (p : pool) a x, (a < length p)%nat -> Permutation (pool_own (set p a x)) (oown x ++ pool_own (set p a None)).
Proof. unfold pool_own. induction p as [|y p IH]; intros a x H; cbn [length] in H; [lia|]. destruct a; cbn [set flat_map oown].
  - apply Permutation_refl.
  - eapply perm_trans; [apply Permutation_app_head; apply IH; lia|]. rewrite !app_assoc. apply Permutation_app_tail, Permutation_app_comm. Qed.
Lemma set_get_id : forall (p : pool) a, set p a (get p a) = p.
Proof. unfold get. induction p as [|y p IH]; intros a; [reflexivity|]. destruct a; cbn [set nth]; [reflexivity|rewrite IH; reflexivity]. Qed.
Lemma pool_split_get p a : (a < length p)%nat -> Permutation (pool_own p) (oown (get p a) ++ pool_own (set p a None)).
Proof. intros H. rewrite <- (set_get_id p a) at 1. apply pool_split; assumption. Qed.

(* an operation on one slot *)
Lemma pool_led1 p a x' ev : (a < length p)%nat -> Led (oown (get p a)) ev (oown x') -> Led (pool_own p) ev (pool_own (set p a x')).
Proof. intros H L. eapply Led_perm; [apply Permutation_sym, (pool_split_get p a H)|apply Permutation_sym, (pool_split p a x' H)|].
  apply Led_frame. exact L. Qed.
(* an operation on two different slots *)
Lemma pool_led2 p a b xa' xb' ev : (a < length p)%nat -> (b < length p)%nat -> a <> b ->
  Led (oown (get p a) ++ oown (get p b)) ev (oown xa' ++ oown xb') -> Led (pool_own p) ev (pool_own (set (set p a xa') b xb')).
Proof. intros Ha Hb Hab L.
  assert (P1 : Permutation (pool_own p) ((oown (get p a) ++ oown (get p b)) ++ pool_own (set (set p a None) b None))).
  { eapply perm_trans; [apply (pool_split_get p a Ha)|]. rewrite <- app_assoc. apply Permutation_app_head.
    rewrite <- (get_set_other p a b None Hab). apply pool_split_get. rewrite set_length. assumption. }
  assert (P2 : Permutation (pool_own (set (set p a xa') b xb')) ((oown xa' ++ oown xb') ++ pool_own (set (set p a None) b None))).
  { eapply perm_trans; [apply pool_split; rewrite set_length; assumption|].
    assert (Hsw : forall y, set (set p a y) b None = set (set p b None) a y).
    { clear -Hab. revert a b Hab. induction p as [|z p IH]; intros a b Hab y; [reflexivity|]. destruct a, b; cbn [set]; try reflexivity; [congruence|rewrite IH by congruence; reflexivity]. }
    rewrite (Hsw xa'), (Hsw None). eapply perm_trans; [apply Permutation_app_head; apply pool_split; rewrite set_length; assumption|].
    rewrite !app_assoc. apply Permutation_app_tail, Permutation_app_comm. }
  eapply Led_perm; [apply Permutation_sym, P1|apply Permutation_sym, P2|]. apply Led_frame. exact L. Qed.

Local Notation PInv := (VecProofs.PInv c).
Definition evs_of (x : pool * res * list aevent) : list aevent := snd x.

Lemma finish_led p a v r ok : (a < length p)%nat -> get p a = Some v -> RLed v r ->
  Led (pool_own p) (evs_of (finish p a r ok)) (pool_own (pool_of (finish p a r ok))).
Proof. intros Ha Hg L. unfold finish, evs_of, pool_of, RLed in *. destruct r as [[v' ev]|[[e v'] ev]]; cbn [fst snd];
  apply pool_led1; try assumption; rewrite Hg; exact L. Qed.
Lemma finish_ctor_led p a r : (a < length p)%nat -> RLed (fresh c) r ->
  Led (pool_own p) (evs_of (finish_ctor c p a (dtor_events c p a) r)) (pool_own (pool_of (finish_ctor c p a (dtor_events c p a) r))).
Proof. intros Ha L. pose proof (init_BInv c Hc) as (_ & _ & I3).
  assert (Hf : own (w (fresh c)) = []) by (apply own_noheap; exact I3).
  assert (Hd : Led (oown (get p a)) (dtor_events c p a) []).
  { unfold dtor_events. destruct (get p a) as [v|]; [apply free_led|apply Led_nil, Permutation_refl]. }
  unfold finish_ctor, evs_of, pool_of, RLed in *. rewrite Hf in L. destruct r as [[v' ev]|[[e v'] ev]]; cbn [fst snd]; apply pool_led1; try assumption.
  - eapply Led_app; [exact Hd|exact L].
  - eapply Led_app; [exact Hd|]. eapply Led_app; [exact L|apply free_led].
Qed.

(* every container index an operation names lies inside the pool (the drivers use three slots) *)
Definition op_idx (o : op) : list nat :=
  match o with
  | CtorDefault a | CtorN a _ | CtorNV a _ _ | CtorRange a _ _ | Adopt a _ _ | Dtor a | PushBack a _ | PushBackRv a _ | EmplaceBack a _
  | Insert a _ _ | InsertRv a _ _ | Emplace a _ _ | InsertN a _ _ _ | InsertRange a _ _ _ | Erase a _ | EraseRange a _ _ | PopBack a
  | PopBackVal a | Clear a | Resize a _ | ResizeV a _ _ | AssignN a _ _ | AssignRange a _ _ | Reserve a _ | Shrink a | AppendN a _
  | AppendNV a _ _ | AppendRange a _ _ | At a _ => [a]
  | CtorCopy a b | CtorMove a b | CopyAssign a b | MoveAssign a b | Swap a b | Swap2 a b | Cmp a b | Relocate a b => [a; b]
  end.
Definition in_range (p : pool) (o : op) : Prop := Forall (fun a => (a < length p)%nat) (op_idx o).

(* Adopt hands the pool a buffer that the source amc::vector allocated: it must be accounted as an allocation made outside
   (and the slot must be empty, as in the drivers' scripts) *)
Definition op_ok (p : pool) (o : op) : Prop :=
  in_range p o /\ match o with Adopt a _ _ => get p a = None | _ => True end.
Definition ext_events (o : op) : list aevent :=
  match o with
  | Adopt a vs cap => match fl c with
                      | FSV => let srccap := if cap <=? len vs then len vs else cap in
                               if (srccap <=? M) && negb (srccap =? 0) then [EAlloc srccap] else []
                      | _ => [] end
  | _ => []
  end.

Lemma dtor_led p a : Led (oown (get p a)) (dtor_events c p a) [].
Proof. unfold dtor_events. destruct (get p a) as [v|]; [apply free_led|apply Led_nil, Permutation_refl]. Qed.
Lemma fresh_own : own (w (fresh c)) = [].
Proof. pose proof (init_BInv c Hc) as (_ & _ & I3). apply own_noheap. exact I3. Qed.
Lemma nochange_led p a v v' : (a < length p)%nat -> get p a = Some v -> own (w v') = own (w v) ->
  Led (pool_own p) [] (pool_own (set p a (Some v'))).
Proof. intros Ha Hg E. apply pool_led1; [assumption|]. rewrite Hg. cbn [oown]. rewrite E. apply Led_nil, Permutation_refl. Qed.

Theorem step_led p o : PInv p -> op_ok p o ->
  Led (pool_own p) (ext_events o ++ evs_of (step c p o)) (pool_own (pool_of (step c p o))).
Proof.
  intros Hp [Hr Hadopt]. unfold in_range in Hr.
  assert (Hnop : forall r, Led (pool_own p) ([] ++ evs_of (p, r, @nil aevent)) (pool_own (pool_of (p, r, @nil aevent))))
    by (intros r; apply Led_nil, Permutation_refl).
  assert (Hskip := Hnop RSkip).
  assert (Hfresh := fresh_ok c Hc).
  destruct o; cbn [ext_events op_idx] in *; unfold step, on; cbv zeta;
    repeat match goal with
    | H : Forall _ (_ :: _) |- _ => inversion H; subst; clear H
    | H : Forall _ [] |- _ => clear H
    end;
    repeat match goal with
    | |- context [Nat.eqb ?a ?b] => destruct (Nat.eqb_spec a b); cbn [orb]; try exact Hskip
    end;
    try match goal with
    | |- context [get p ?a] => destruct (get p a) as [v|] eqn:Ega; try exact Hskip
    end;
    try match goal with
    | |- context [get p ?b] => destruct (get p b) as [vb|] eqn:Egb; try exact Hskip
    end;
    try (pose proof (Hp _ _ Ega) as Hv; pose proof (len_nonneg (els v)); pose proof Hv as [HvB HvS]; pose proof (b_size_cap c Hc _ HvB));
    try (pose proof (Hp _ _ Egb) as Hvb; pose proof (len_nonneg (els vb)); pose proof Hvb as [HvbB HvbS]; pose proof (b_size_cap c Hc _ HvbB));
    cbn [app].
  - (* CtorDefault *) unfold evs_of, pool_of; cbn [fst snd]. apply pool_led1; [assumption|]. cbn [oown]. rewrite fresh_own. apply dtor_led.
  - (* CtorN *) destruct ((0 <=? n) && (n <=? M)) eqn:G; [|exact Hskip].
    apply finish_ctor_led; [assumption|]. apply grow_set_led; [assumption|lia|discriminate].
  - (* CtorNV *) destruct ((0 <=? n) && (n <=? M)) eqn:G; [|exact Hskip].
    apply finish_ctor_led; [assumption|]. apply grow_set_led; [assumption|lia|discriminate].
  - (* CtorRange *) apply finish_ctor_led; [assumption|]. apply append_range_led. assumption.
  - (* CtorCopy *) apply finish_ctor_led; [assumption|]. apply append_range_led. assumption.
  - (* CtorMove *) pose proof (move_construct_own (w v) HvB) as [M1 M2]. destruct (b_move_construct c (w v)) as [wt wo]. cbn [fst snd] in M1, M2.
    unfold evs_of, pool_of; cbn [fst snd]. apply pool_led2; try assumption. rewrite Ega. cbn [oown w]. rewrite M1, M2, app_nil_r.
    eapply Led_perm; [apply Permutation_refl| |apply (Led_frame (own (w v)) _ _ _ (dtor_led p a))]. apply Permutation_refl.
  - (* Adopt *) destruct (fl c) eqn:E; try exact Hskip.
    set (srccap := if cap <=? len vs then len vs else cap).
    destruct (srccap <=? M) eqn:G; cbn [andb]; [|exact Hskip]. unfold evs_of, pool_of; cbn [fst snd]. rewrite app_nil_r.
    apply pool_led1; [assumption|]. rewrite Hadopt. cbn [oown w].
    destruct (Z.eqb_spec srccap 0) as [Hz|Hnz]; cbn [negb].
    + pose proof fresh_own as F. unfold fresh in F. cbn [w] in F. rewrite F. apply Led_nil, Permutation_refl.
    + pose proof (len_nonneg vs). assert (Hown : own {| capa_ := srccap; size_ := len vs |} = [srccap]).
      { rewrite own_words, E. unfold isSmall; cbn [capa_ size_]. unfold srccap in *. destruct (cap <=? len vs) eqn:?.
        - assert (len vs <? len vs = false) as -> by lia. apply blk_pos; lia.
        - assert (cap <? len vs = false) as -> by lia. apply blk_pos; lia. }
      rewrite Hown. exists [srccap]. split; [reflexivity|apply Permutation_refl].
  - (* Dtor *) unfold evs_of, pool_of; cbn [fst snd]. apply pool_led1; [assumption|]. rewrite Ega. apply free_led.
  - (* PushBack *) destruct (arg_ok (els v) g); [|exact Hskip]. apply (finish_led p a v); try assumption. apply grow_incr_led; assumption.
  - (* PushBackRv *) destruct (arg_ok (els v) g); [|exact Hskip]. apply (finish_led p a v); try assumption. apply one_incr_led; assumption.
  - (* EmplaceBack *) destruct (arg_ok (els v) g); [|exact Hskip]. apply (finish_led p a v); try assumption. apply one_incr_led; assumption.
  - (* Insert *) destruct ((0 <=? p0) && (p0 <=? len (els v)) && arg_ok (els v) g) eqn:G; [|exact Hskip].
    apply (finish_led p a v); try assumption. apply grow_incr_led; assumption.
  - (* InsertRv *) destruct ((0 <=? p0) && (p0 <=? len (els v)) && arg_ok (els v) g) eqn:G; [|exact Hskip].
    apply (finish_led p a v); try assumption. apply one_incr_led; assumption.
  - (* Emplace *) destruct ((0 <=? p0) && (p0 <=? len (els v)) && arg_ok (els v) g) eqn:G; [|exact Hskip].
    apply (finish_led p a v); try assumption. apply one_incr_led; assumption.
  - (* InsertN *) destruct ((0 <=? p0) && (p0 <=? len (els v)) && (0 <=? n) && (n <=? M) && arg_ok (els v) g) eqn:G; [|exact Hskip].
    apply (finish_led p a v); try assumption. destruct (0 <? n) eqn:Gn.
    + apply grow_set_led; [assumption|lia|discriminate].
    + unfold RLed. apply Led_nil, Permutation_refl.
  - (* InsertRange *) destruct ((0 <=? p0) && (p0 <=? len (els v))) eqn:G; [|exact Hskip]. destruct k.
    + apply (finish_led p a v); try assumption. destruct (0 <? len vs) eqn:Gn.
      * pose proof (len_nonneg vs). apply grow_set_led; [assumption|lia|discriminate].
      * unfold RLed. apply Led_nil, Permutation_refl.
    + pose proof (append_input_led true vs v v [] Hv Hv ltac:(lia) ltac:(lia)) as P.
      destruct (append_input c true v v [] vs) as [[v' ev']|[[e v'] ev']]; destruct P as (ev2 & -> & L);
        unfold evs_of, pool_of; cbn [fst snd app]; (apply pool_led1; [assumption|]); rewrite Ega; exact L.
  - (* Erase *) destruct ((0 <=? p0) && (p0 <? len (els v))) eqn:G; [|exact Hskip]. unfold evs_of, pool_of; cbn [fst snd].
    apply (nochange_led p a v); try assumption. cbn [w]. apply decr_own; [assumption|lia].
  - (* EraseRange *) destruct ((0 <=? p0) && (p0 <=? q) && (q <=? len (els v))) eqn:G; [|exact Hskip]. unfold evs_of, pool_of; cbn [fst snd].
    apply (nochange_led p a v); try assumption. destruct (q - p0 =? 0) eqn:Gz; [reflexivity|]. cbn [w]. apply setSize_own; [assumption|lia].
  - (* PopBack *) destruct (0 <? len (els v)) eqn:G; [|exact Hskip]. unfold evs_of, pool_of; cbn [fst snd].
    apply (nochange_led p a v); try assumption. cbn [w]. apply decr_own; [assumption|lia].
  - (* PopBackVal *) destruct (0 <? len (els v)) eqn:G; [|exact Hskip]. unfold evs_of, pool_of; cbn [fst snd].
    apply (nochange_led p a v); try assumption. cbn [w]. apply decr_own; [assumption|lia].
  - (* Clear *) unfold evs_of, pool_of; cbn [fst snd]. apply (nochange_led p a v); try assumption. cbn [w]. apply setSize_own; [assumption|lia].
  - (* Resize *) destruct ((0 <=? n) && (n <=? M)) eqn:G; [|exact Hskip]. apply (finish_led p a v); try assumption.
    apply grow_set_led; [assumption|lia|]. intros G2. lia.
  - (* ResizeV *) destruct ((0 <=? n) && (n <=? M) && arg_ok (els v) g) eqn:G; [|exact Hskip]. apply (finish_led p a v); try assumption.
    apply grow_set_led; [assumption|lia|]. intros G2. lia.
  - (* AssignN *) destruct ((0 <=? n) && (n <=? M) && arg_ok (els v) g) eqn:G; [|exact Hskip]. apply (finish_led p a v); try assumption.
    apply grow_set_led; [assumption|lia|]. intros G2. lia.
  - (* AssignRange *) apply (finish_led p a v); try assumption. apply assign_range_led. assumption.
  - (* Reserve *) destruct ((0 <=? n) && (n <=? M)) eqn:G; [|exact Hskip].
    assert (Hdyn : fl c <> FFCV -> let x := (if b_capacity c (w v) <? n
              then match b_grow c (w v) n true with
                   | Some (w1, ev) => (set p a (Some {| w := w1; els := els v |}), ROk, ev)
                   | None => (p, RThrew OverflowError, [])
                   end
              else (p, ROk, [])) in Led (pool_own p) (evs_of x) (pool_own (pool_of x))).
    { intros Hf. cbv zeta. destruct (b_capacity c (w v) <? n) eqn:Gc; [|apply (Hnop ROk)].
      pose proof (grow_led (w v) n true) as GL.
      destruct (b_grow c (w v) n true) as [[w1 ev]|]; [|apply (Hnop (RThrew OverflowError))].
      unfold evs_of, pool_of; cbn [fst snd]. apply pool_led1; [assumption|]. rewrite Ega. cbn [oown w].
      apply (GL w1 ev); try assumption; try lia; try reflexivity. }
    destruct (fl c) eqn:E.
    + apply Hdyn. discriminate.
    + apply Hdyn. discriminate.
    + destruct (exc_check n (b_capacity c (w v))); [apply (Hnop ROk)|apply (Hnop (RThrew OutOfRange))].
  - (* Shrink *) pose proof (shrink_led (w v) HvB) as S. destruct (b_shrink c (w v)) as [w1 ev]. cbn [fst snd] in S.
    unfold evs_of, pool_of; cbn [fst snd]. apply pool_led1; [assumption|]. rewrite Ega. exact S.
  - (* AppendN *) destruct ((0 <=? n) && (n <=? M)) eqn:G; [|exact Hskip]. apply (finish_led p a v); try assumption.
    apply grow_set_led; [assumption|lia|discriminate].
  - (* AppendNV *) destruct ((0 <=? n) && (n <=? M) && arg_ok (els v) g) eqn:G; [|exact Hskip]. apply (finish_led p a v); try assumption.
    apply grow_set_led; [assumption|lia|discriminate].
  - (* AppendRange *) apply (finish_led p a v); try assumption. apply append_range_led. assumption.
  - (* CopyAssign *) apply (finish_led p a v); try assumption. apply assign_range_led. assumption.
  - (* MoveAssign *) pose proof (move_assign_led (w v) (w vb) HvB HvbB) as MA.
    destruct (b_move_assign c (w v) (w vb)) as [[wt wo] ev]. unfold evs_of, pool_of; cbn [fst snd].
    apply pool_led2; try assumption. rewrite Ega, Egb. exact MA.
  - (* Swap *) pose proof (swap_own (w v) (w vb)) as SW. destruct (b_swap c (w v) (w vb)) as [wt wo]. cbn [fst snd] in SW.
    unfold evs_of, pool_of; cbn [fst snd]. apply pool_led2; try assumption. rewrite Ega, Egb. cbn [oown w]. apply Led_nil. apply Permutation_sym. exact SW.
  - (* Swap2 *) pose proof (swap2_led (w v) (w vb)) as SW.
    destruct (b_swap2 c (w v) (w vb)) as [[[wt wo] ev]|e].
    + unfold evs_of, pool_of; cbn [fst snd]. apply pool_led2; try assumption. rewrite Ega, Egb. apply (SW wt wo ev); try assumption. reflexivity.
    + pose proof (adjust_led (w v) (b_size c (w vb))) as LA.
      destruct (adjust c (w v) (b_size c (w vb))) as [[w1 ev]|e']; [|apply (Hnop (RThrew e))].
      unfold evs_of, pool_of; cbn [fst snd]. apply pool_led1; [assumption|]. rewrite Ega. apply (LA w1 ev); [assumption|lia|reflexivity].
  - (* At *) destruct ((0 <=? i) && (i <=? M)); [|exact Hskip]. destruct (i <? b_size c (w v)); [apply (Hnop (RVal _))|apply (Hnop (RThrew OutOfRange))].
  - (* Relocate *) destruct (container_tr c); [|exact Hskip]. unfold evs_of, pool_of; cbn [fst snd].
    apply pool_led2; try assumption; [congruence|]. rewrite Ega, Egb. cbn [oown app]. rewrite app_nil_r. apply Led_nil, Permutation_refl.
Qed.

(* ---- histories ----------------------------------------------------------------------------------------------------- *)
Fixpoint run_evs (p : pool) (ops : list op) : list aevent :=
  match ops with [] => [] | o :: t => (ext_events o ++ evs_of (step c p o)) ++ run_evs (pool_of (step c p o)) t end.
Fixpoint ops_ok (p : pool) (ops : list op) : Prop :=
  match ops with [] => True | o :: t => op_ok p o /\ ops_ok (pool_of (step c p o)) t end.

Theorem history_led ops : forall p, PInv p -> ops_ok p ops -> Led (pool_own p) (run_evs p ops) (pool_own (run c p ops)).
Proof. induction ops as [|o t IH]; intros p Hp Hok; cbn [run_evs run ops_ok] in *; [apply Led_nil, Permutation_refl|].
  destruct Hok as [Ho Ht]. eapply Led_app; [apply step_led; assumption|]. apply IH; [apply (step_inv c Hc); assumption|assumption]. Qed.

(* from the empty pool: the events of the whole history are a valid allocator conversation (never a block returned that is
   not outstanding with that size), what is outstanding at the end is exactly what the live containers own, and nothing
   is outstanding once every container is gone *)
Theorem ledger_every_history ops : ops_ok init_pool ops ->
  exists outstanding, apply_evs [] (run_evs init_pool ops) = Some outstanding /\
    Permutation outstanding (pool_own (run c init_pool ops)) /\
    ((forall k, get (run c init_pool ops) k = None) -> outstanding = []).
Proof. intros Hok. destruct (history_led ops init_pool (PInv_init c) Hok) as (r & H & P). exists r. split; [exact H|]. split; [exact P|].
  intros Hnone. assert (E : pool_own (run c init_pool ops) = []).
  { unfold pool_own. generalize dependent (run c init_pool ops). intros q _ Hq. induction q as [|x q IHq]; [reflexivity|].
    cbn [flat_map]. pose proof (Hq 0%nat) as H0. unfold get in H0. cbn [nth] in H0. subst x. cbn [oown app]. apply IHq.
    intros k. specialize (Hq (S k)). unfold get in *. cbn [nth] in Hq. exact Hq. }
  rewrite E in P. apply Permutation_sym, Permutation_nil in P. exact P. Qed.
End L.
