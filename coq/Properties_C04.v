(* C04 - SmallSet is observationally a std::set across its inline/large transition.
   Model: SetModel.v (inline vector of at most N elements in insertion order, or the backing set once it has grown; "large"
   is inferred from the backing set being non-empty).  Abstraction [abs]: the std::set a SmallSet stands for = the backing
   set, or - while inline - the FOLD OF THE SPECIFICATION'S OWN INSERT over the inline elements (so grow() is the identity
   on the abstraction by definition).  For every strict weak order and every N:
   - [C04_invariant_every_history]: after any operation sequence every SmallSet of the pool satisfies SInv (backing set
     strictly sorted; inline vector free of equivalent elements and at most N long; never both non-empty);
   - [C04_insert_is_set_insert]: insertion in the inline state, AT the N boundary (grow) and in the large state is the
     std::set insertion on the abstraction, returns inserted = "no equivalent element was present" and an iterator to an
     element equivalent to the value;  [C04_insert_range]: range insertion = repeated insertion through the transition;
   - [C04_find_is_membership]: lookups in either state decide membership of the abstraction.
   Tied to the code by the lock-step correspondence: every reachable (content, state) of a small key domain x every
   operation, plus random histories, on 8 SmallSet configurations (std::set and FlatSet backing). *)
From Coq Require Import ZArith List Bool.
From Amc Require Import Hint SetModel SetProofs.
Import ListNotations.

Theorem C04_invariant_every_history :
  forall cmp, swo cmp -> forall N ops p, SPInv cmp N p -> SPInv cmp N (fold_left (fun q o => fst (sstep cmp (KSmall N) q o)) ops p).
Proof. exact S_small_history. Qed.

Theorem C04_insert_is_set_insert :
  forall cmp, swo cmp -> forall N s v, SInv cmp N s ->
    let '(s', i, b) := ss_insert cmp N s v in
    SInv cmp N s' /\ abs cmp s' = ins cmp (abs cmp s) v /\ b = negb (has_eqv cmp (abs cmp s) v) /\
    i < length (ss_elems s') /\ eqv cmp (nth i (ss_elems s') 0%Z) v = true.
Proof. exact S_ss_insert. Qed.

Theorem C04_insert_range :
  forall cmp, swo cmp -> forall N vs s, SInv cmp N s ->
    SInv cmp N (ss_insert_range cmp N s vs) /\ abs cmp (ss_insert_range cmp N s vs) = fold_ins cmp vs (abs cmp s).
Proof. exact S_ss_insert_range. Qed.

Theorem C04_find_is_membership :
  forall cmp, swo cmp -> forall N s v, SInv cmp N s ->
    (ss_find cmp s v < ss_size s <-> has_eqv cmp (abs cmp s) v = true) /\ ss_find cmp s v <= ss_size s.
Proof. exact S_ss_find. Qed.

(* non-vacuity: N = 2, growing past N, draining to empty (back to inline), refilling *)
Example C04_example :
  let c := cmp_of CKLess in
  let p := fold_left (fun q o => fst (sstep c (KSmall 2) q o)) [SCtorRange 0 [3; 1; 2]%Z; SEraseKey 0 1%Z; SEraseKey 0 2%Z; SEraseKey 0 3%Z; SInsert 0 9%Z] sinit in
  option_map (sdescribe (KSmall 2)) (sget p 0) = Some (1, 1, [9%Z]).
Proof. reflexivity. Qed.

(* Insertion of the model is the code's: [ss_insert] - in the inline state, at the transition to the large state at exactly N
   elements, and in the large state - is proved equal (SsetTV.v) to Gen/SsetGen.v, regenerated on every run by
   translator/sset2coq.py from clang's AST of SmallSet<int, 3>::insert(const T&) / insert_small / insert_set / isSmall /
   isSmallContFull (the inline capacity stays the symbolic N; find_if with the equivalence functor, grow() and the backing
   set's insert are primitives specified in SsetPrims.v). *)
From Amc Require SsetPrims SsetTV.
From Amc.Gen Require SsetGen.
Theorem C04_insert_is_the_regenerated_one :
  forall cmp N s v, SsetGen.insert_gen cmp (Z.of_nat N) (svec s) (sset_ s) v = SsetTV.out (ss_insert cmp N s v).
Proof. exact SsetTV.insert_tv. Qed.
Theorem C04_find_is_the_regenerated_one :
  forall cmp s k, SsetGen.find_gen cmp (svec s) (sset_ s) k = Z.of_nat (ss_find cmp s k).
Proof. exact SsetTV.find_tv. Qed.
Theorem C04_erase_key_is_the_regenerated_one :
  forall cmp s v, SsetGen.erase_key_gen cmp (svec s) (sset_ s) v =
    (svec (fst (ss_erase_key cmp s v)), sset_ (fst (ss_erase_key cmp s v)), Z.of_nat (snd (ss_erase_key cmp s v))).
Proof. exact SsetTV.erase_key_tv. Qed.
