(* Slot level models, WITH the throw oracle of Throw.v, of the member functions of VectorImpl (include/amc/vectorcommon.hpp) whose
   argument is a reference to an element OF THE VECTOR ITSELF, and of the single-pass range insertion.  Every model of a member function
   takes the element flavour [tr]: false = not trivially relocatable, noexcept moves (vf::El<0>: Throw.v / EmplaceGrow.v); true =
   trivially relocatable (vf::El<1>: the overloads of SlotsTR.v, bitwise relocation, the relocating grow [grow_tr], the growing emplace
   [emplace_grow_tr]).  Copy construction, copy assignment and `allocate` are the throwing-capable events; the theorems hold for both.

     insert (position, const T &v), v = element src of the vector                        -> [insert_own]
        &v in [position, end ()):  emplace (position, T (v))                   the temporary T (v) is slot [t]; emplace_n / the growing
                                                                               emplace of EmplaceGrow.v move it into the ElemStorage [e]
        otherwise:  newV = adjustCapacity (size + 1, v, &position);            [adjust] (EmplaceGrow.grow / [grow_tr]) re-bases the reference
                    insert_n (pos, n, newV)                                    [insert_n_ref]: the reference is READ when the code reads it
     insert (position, count, const T &v), v = element src of the vector                 -> [insert_cnt_own]
        count > 0, &v in [position, end ()):  insert (position, count, const_reference (T (v)))   temporary [t], then the ordinary path
        otherwise:  newV = adjustCapacity (size + count, v, &position); shift_right; try { fill_after_shift (.., newV) }
                    catch (...) { unshift_right; throw; }                      [insert_cnt_ref]
     push_back (const T &v), v = element src of the vector                               -> [push_back_own]
        newV = adjustCapacity (size + 1, v); construct_at (end (), newV)       (NO temporary: the copy is made AFTER the reallocation)
     emplace_back (v), v = element src of the vector, size == capacity                   -> EmplaceGrow.emplace_back_grow with an own lvalue argument
        (the temporary is built BEFORE the reallocation)                       theorem [emplace_back_own_grow_spec]
     insert_range (position, first, last, std::input_iterator_tag)          -> [insert_range_in]
        append_range (input_iterator_tag): emplace_back of each element, one by one, catch (...) { destroy_n (begin () + oldSize, size () - oldSize);
        setSize (oldSize); throw; }   then   std::rotate (begin () + idx, begin () + oldSize, end ())   [append_range_in] [rotate]

   A reference to an own element is an INDEX of the memory, read by [read_ref] at the moment the code copies from it: a Raw, Moved or
   Out slot there is a lifetime error of the model (Err), never a value.

   ONE memory (Throw.mem) holds: the block [0, cap) | the ElemStorage e | the temporary t of T (v) | the new block [nb, nb + new capacity)
   when the vector has to grow (EmplaceGrow.grow: `allocate` one event, relocation, the old block becomes Out).
   Layout of the correspondence check (lib/slotcorr.py) and of the Examples: [init_own]: e = cap + 1, t = cap + 2, nb = cap + 4.

   std::rotate is modelled by its postcondition on the slots (every slot of the range must hold an object): for El<0> it contains no
   throwing-capable event (noexcept moves / swaps); its intermediate states are not modelled.

   Theorems: see the table at the end of the file (every size / capacity / position / source index / count / list / throw index;
   no axiom: Print Assumptions at the end). *)
From Coq Require Import ZArith Lia Bool List Arith.
From Amc Require Import Throw EmplaceGrow.
From Amc Require Slots SlotsTR.
Import ListNotations.

(* ---- the elements of a block as a list ----------------------------------------------------------------------------------------- *)
Definition val (s : slot) : Z := match s with Live v => v | _ => 0%Z end.
Definition vals (m : mem) (b n : nat) : list Z := map (fun i => val (m (b + i))) (seq 0 n).
Lemma vals_length m b n : length (vals m b n) = n.
Proof. unfold vals. rewrite map_length, seq_length. reflexivity. Qed.
Lemma vals_nth m b n i : i < n -> nth i (vals m b n) 0%Z = val (m (b + i)).
Proof.
  intros H. unfold vals. rewrite (nth_indep _ 0%Z (val (m (b + 0)))) by (rewrite map_length, seq_length; lia).
  change (val (m (b + 0))) with ((fun i => val (m (b + i))) 0). rewrite map_nth. rewrite seq_nth by lia. reflexivity.
Qed.
Lemma vals_ext m m' b b' n : (forall i, i < n -> m' (b' + i) = m (b + i)) -> vals m' b' n = vals m b n.
Proof. intros H. unfold vals. apply map_ext_in. intros i Hi. apply in_seq in Hi. rewrite H by lia. reflexivity. Qed.
Lemma live_val (s : slot) : is_live s = true -> s = Live (val s).
Proof. destruct s; cbn [is_live val]; congruence. Qed.

(* the range [b, b + cap) holds a vector of size elements (Transfer.Rng; = Inv on the block seen from its base address) *)
Definition Blk (m : mem) (b size cap : nat) : Prop :=
  size <= cap /\ (forall i, i < size -> is_live (m (b + i)) = true) /\ (forall i, size <= i < cap -> m (b + i) = Raw).
Lemma Blk_blockview m b size cap : Blk m b size cap <-> Inv (blockview m b cap) size cap.
Proof.
  rewrite blockview_inv. unfold Blk. split; intros (H1 & H2 & H3); (split; [exact H1|split; [exact H2|]]).
  - intros i Ha Hb. apply H3. lia.
  - intros i Hi. apply H3; lia.
Qed.
Lemma Blk_ext m m' b b' size cap : (forall i, i < cap -> m' (b' + i) = m (b + i)) -> Blk m b size cap -> Blk m' b' size cap.
Proof. intros H (H1 & H2 & H3). split; [exact H1|]. split; intros i Hi; rewrite H by lia; auto. Qed.

(* [m'] holds, from bn on, the size elements that [m] holds from bo on with the list l inserted before index pos *)
Definition Inserted (m m' : mem) (bo bn size pos : nat) (l : list Z) : Prop :=
  (forall j, j < pos -> m' (bn + j) = m (bo + j)) /\ (forall k, k < length l -> m' (bn + (pos + k)) = Live (nth k l 0%Z)) /\
  (forall j, pos + length l <= j < size + length l -> m' (bn + j) = m (bo + (j - length l))).
Lemma Inserted_vals m m' bo bn size pos l : Inserted m m' bo bn size pos l -> pos <= size ->
  vals m' bn (size + length l) = SlotsTR.spec_insert_range (vals m bo size) pos l.
Proof.
  intros (T1 & T2 & T3) Hp. apply Slots.list_ext.
  - unfold SlotsTR.spec_insert_range. rewrite !app_length, firstn_length, skipn_length, !vals_length. lia.
  - rewrite vals_length. intros i Hi. rewrite vals_nth by lia. rewrite SlotsTR.spec_insert_range_nth by (rewrite vals_length; lia).
    destruct (Nat.ltb_spec i pos); [|destruct (Nat.ltb_spec i (pos + length l))].
    + rewrite vals_nth by lia. rewrite T1 by lia. reflexivity.
    + replace i with (pos + (i - pos)) at 1 by lia. rewrite T2 by lia. reflexivity.
    + rewrite vals_nth by lia. rewrite T3 by lia. reflexivity.
Qed.
Lemma Inserted_live m m' bo bn size pos l i : Inserted m m' bo bn size pos l -> pos <= size ->
  (forall j, j < size -> is_live (m (bo + j)) = true) -> i < size + length l -> is_live (m' (bn + i)) = true.
Proof.
  intros (T1 & T2 & T3) Hp Hl Hi. destruct (le_lt_dec pos i) as [A|A]; [destruct (le_lt_dec (pos + length l) i) as [B|B]|].
  - rewrite T3 by lia. apply Hl. lia.
  - replace i with (pos + (i - pos)) by lia. rewrite T2 by lia. reflexivity.
  - rewrite T1 by lia. apply Hl. lia.
Qed.
Lemma insert_nil (a : list Z) n : n = length a -> SlotsTR.spec_insert_range a n [] = a.
Proof. intros ->. unfold SlotsTR.spec_insert_range. cbn [app]. rewrite firstn_all, skipn_all, app_nil_r. reflexivity. Qed.
Lemma spec_insert_repeat a pos count v : Slots.spec_insert a pos count v = SlotsTR.spec_insert_range a pos (repeat v count).
Proof. reflexivity. Qed.

(* ---- a const T& to a slot of the memory: read when the code reads it ------------------------------------------------------------ *)
(* El (const El &o) / operator= (const El &o): o must be alive AND hold a value: a moved-from own element would be copied as such *)
Definition read_ref (m : mem) (a : nat) : Z + err :=
  match m a with Live v => inl v | Out => inr OutOfBlock | _ => inr AssignDead end.
Definition copy_construct_ref (m : mem) (th : option nat) (dst a : nat) : out :=
  match read_ref m a with inl v => copy_construct m th dst v | inr x => Err x end.
Definition copy_assign_ref (m : mem) (th : option nat) (dst a : nat) : out :=
  match read_ref m a with inl v => copy_assign_alive m th dst v | inr x => Err x end.
(* std::fill_n (dst, n, v) *)
Fixpoint fill_n_ref (m : mem) (th : option nat) (dst n a : nat) : out :=
  match n with 0 => Done m th
  | S k => match copy_assign_ref m th dst a with Done m1 th1 => fill_n_ref m1 th1 (S dst) k a | o => o end end.
(* std::uninitialized_fill_n (dst, n, v) with its roll-back *)
Fixpoint uninit_fill_loop_ref (m : mem) (th : option nat) (first cur n a : nat) : out :=
  match n with
  | 0 => Done m th
  | S k => match copy_construct_ref m th cur a with
           | Done m1 th1 => uninit_fill_loop_ref m1 th1 first (S cur) k a
           | Threw m1 => match destroy_n m1 first (cur - first) with inl m2 => Threw m2 | inr e => Err e end
           | Err e => Err e end
  end.
Definition uninit_fill_n_ref m th dst n a := uninit_fill_loop_ref m th dst dst n a.
(* vec::fill_after_shift (first, n, count, v), not trivially relocatable *)
Definition fill_after_shift_ref (m : mem) (th : option nat) (first n count a : nat) : out :=
  if n <? count then
    match fill_n_ref m th first n a with Done m1 th1 => uninit_fill_n_ref m1 th1 (first + n) (count - n) a | o => o end
  else fill_n_ref m th first count a.

Lemma read_ref_live m a v : m a = Live v -> read_ref m a = inl v.
Proof. intros H. unfold read_ref. rewrite H. reflexivity. Qed.
Lemma copy_assign_alive_frame m th dst v m1 th1 : copy_assign_alive m th dst v = Done m1 th1 -> forall j, j <> dst -> m1 j = m j.
Proof.
  unfold copy_assign_alive. intros E j Hj.
  destruct (m dst); try discriminate; destruct (tick th) as [[|] th']; try discriminate; injection E as <- _; updsimp.
Qed.
Lemma copy_construct_frame m th dst v m1 th1 : copy_construct m th dst v = Done m1 th1 -> forall j, j <> dst -> m1 j = m j.
Proof.
  unfold copy_construct. intros E j Hj.
  destruct (m dst); try discriminate; destruct (tick th) as [[|] th']; try discriminate; injection E as <- _; updsimp.
Qed.
Lemma fill_n_alive_frame : forall n m th dst v m1 th1, fill_n_alive m th dst n v = Done m1 th1 -> forall j, ~ (dst <= j < dst + n) -> m1 j = m j.
Proof.
  induction n as [|n IH]; intros m th dst v m1 th1; cbn [fill_n_alive].
  - intros [= <- _] j _. reflexivity.
  - destruct (copy_assign_alive m th dst v) as [m2 th2|m2|x] eqn:E; try discriminate. intros H j Hj.
    rewrite (IH _ _ _ _ _ _ H) by lia. apply (copy_assign_alive_frame _ _ _ _ _ _ E). lia.
Qed.

(* while the referenced slot holds v and is not one of the slots written, copying from the reference is copying the value v *)
Lemma fill_n_ref_eq : forall n m th dst a v, m a = Live v -> ~ (dst <= a < dst + n) -> fill_n_ref m th dst n a = fill_n_alive m th dst n v.
Proof.
  induction n as [|n IH]; intros m th dst a v Ha Hn; cbn [fill_n_ref fill_n_alive]; [reflexivity|].
  unfold copy_assign_ref. rewrite (read_ref_live m a v Ha).
  destruct (copy_assign_alive m th dst v) as [m1 th1|m1|x] eqn:E; try reflexivity.
  apply IH; [|lia]. rewrite (copy_assign_alive_frame _ _ _ _ _ _ E) by lia. exact Ha.
Qed.
Lemma uninit_fill_loop_ref_eq : forall n m th first cur a v, m a = Live v -> ~ (cur <= a < cur + n) ->
  uninit_fill_loop_ref m th first cur n a = uninit_fill_loop m th first cur n v.
Proof.
  induction n as [|n IH]; intros m th first cur a v Ha Hn; cbn [uninit_fill_loop_ref uninit_fill_loop]; [reflexivity|].
  unfold copy_construct_ref. rewrite (read_ref_live m a v Ha).
  destruct (copy_construct m th cur v) as [m1 th1|m1|x] eqn:E; try reflexivity.
  apply IH; [|lia]. rewrite (copy_construct_frame _ _ _ _ _ _ E) by lia. exact Ha.
Qed.
Lemma fill_after_shift_ref_eq m th first n count a v : m a = Live v -> ~ (first <= a < first + count) ->
  fill_after_shift_ref m th first n count a = fill_after_shift_fix m th first n count v.
Proof.
  intros Ha Hn. unfold fill_after_shift_ref, fill_after_shift_fix. destruct (Nat.ltb_spec n count) as [Hlt|Hge].
  - rewrite (fill_n_ref_eq n m th first a v Ha) by lia.
    destruct (fill_n_alive m th first n v) as [m1 th1|m1|x] eqn:E; try reflexivity.
    unfold uninit_fill_n_ref, uninit_fill_n. apply uninit_fill_loop_ref_eq; [|lia].
    rewrite (fill_n_alive_frame _ _ _ _ _ _ _ E) by lia. exact Ha.
  - apply fill_n_ref_eq; [exact Ha|lia].
Qed.

(* Throw.insert_cnt_fix_strong with its hypotheses reduced to the slots the operation touches (any base address, anything around) *)
Lemma insert_cnt_fix_local m th size pos count v :
  pos <= size -> (forall j, pos <= j < size -> is_live (m j) = true) -> (forall j, size <= j < size + count -> m j = Raw) ->
  match insert_cnt_fix m th size pos count v with
  | Done m' _ => (forall j, pos <= j < pos + count -> m' j = Live v) /\ (forall j, pos + count <= j < size + count -> m' j = m (j - count)) /\
                 (forall j, ~ (pos <= j < size + count) -> m' j = m j)
  | Threw m' => forall j, m' j = m j
  | Err _ => False
  end.
Proof.
  intros Hp Hl Hr. unfold insert_cnt_fix.
  destruct (Nat.eqb_spec count 0) as [->|Hc0].
  - split; [intros; lia|]. split; [intros j Hj; rewrite Nat.sub_0_r; reflexivity|reflexivity].
  - destruct (Nat.eqb_spec (size - pos) 0) as [Hz|Hnz].
    + assert (pos = size) by lia. subst pos. unfold uninit_fill_n.
      destruct (uninit_fill_loop_spec count m th size size v) as [(m' & th' & E & P1 & P2)|(m' & E & P1 & P2)];
        [lia|intros; lia|intros k Hk; apply Hr; lia| |]; rewrite E.
      * split; [exact P1|]. split; [intros; lia|exact P2].
      * intros j. destruct (le_lt_dec size j) as [H1|H1]; [destruct (le_lt_dec (size + count) j) as [H2|H2]|]; [apply P2; lia| |apply P2; lia].
        rewrite P1 by lia. symmetry. apply Hr; lia.
    + destruct (shift_right_cnt_ok m pos (size - pos) count ltac:(lia) ltac:(lia)) as [m1 (E1 & S1 & S2 & S3 & S4)].
      * intros k Hk. apply Hl. lia.
      * intros k Hk. apply Hr; lia.
      * rewrite E1.
        pose proof (fill_after_shift_fix_spec m1 th pos (size - pos) count v) as F.
        assert (FA : forall j, pos <= j < pos + Nat.min (size - pos) count -> is_alive (m1 j) = true)
          by (intros j Hj; rewrite S2 by lia; reflexivity).
        assert (FR : forall j, pos + (size - pos) <= j < pos + count -> m1 j = Raw)
          by (intros j Hj; rewrite S4 by lia; apply Hr; lia).
        specialize (F FA FR). destruct (fill_after_shift_fix m1 th pos (size - pos) count v) as [m2 th2|m2|e]; [| |assumption].
        -- destruct F as [F1 F2]. split; [exact F1|]. split.
           ++ intros j Hj. rewrite F2 by lia. apply S1. lia.
           ++ intros j Hj. rewrite F2 by lia. apply S3. lia.
        -- destruct F as [F1 F2].
           destruct (unshift_right_ok m2 pos (size - pos) count ltac:(lia) ltac:(lia) F1) as [m3 (E3 & U1 & U2 & U3)].
           ++ intros j Hj. rewrite F2 by lia. rewrite S1 by lia. apply Hl. lia.
           ++ rewrite E3. intros j.
              destruct (le_lt_dec pos j) as [A|A]; [destruct (le_lt_dec size j) as [B|B]|].
              ** destruct (le_lt_dec (pos + Nat.max (size - pos) count) j) as [C|C]; [destruct (le_lt_dec (size + count) j) as [D|D]|].
                 --- rewrite U3 by lia. rewrite F2 by lia. apply S3. lia.
                 --- rewrite U2 by lia. symmetry. apply Hr; lia.
                 --- rewrite U3 by lia. rewrite F2 by lia. apply S4. lia.
              ** rewrite U1 by lia. rewrite F2 by lia. rewrite S1 by lia. f_equal. lia.
              ** rewrite U3 by lia. rewrite F2 by lia. apply S3. lia.
Qed.


(* ==== the trivially relocatable element (vf::El<1>): the same member functions run the overloads of SlotsTR.v ======================= *)
(* (bitwise relocation: a relocated-from slot is Raw, not moved-from; copies are the throwing-capable events, the move constructor and
   the move assignment are noexcept and no event)                                                                                      *)
(* insert (pos, count, v) with the value v: SlotsTR.insert_cnt_tr, hypotheses reduced to the slots it touches *)
Lemma insert_cnt_tr_local m th size pos count v :
  pos <= size -> (forall j, pos <= j < size -> is_live (m j) = true) -> (forall j, size <= j < size + count -> m j = Raw) ->
  match SlotsTR.insert_cnt_tr m th size pos count v with
  | Done m' _ => (forall j, pos <= j < pos + count -> m' j = Live v) /\ (forall j, pos + count <= j < size + count -> m' j = m (j - count)) /\
                 (forall j, ~ (pos <= j < size + count) -> m' j = m j)
  | Threw m' => forall j, m' j = m j
  | Err _ => False
  end.
Proof.
  intros Hp Hl Hr. unfold SlotsTR.insert_cnt_tr, SlotsTR.fill_after_shift.
  destruct (Nat.eqb_spec count 0) as [->|Hc0].
  - split; [intros; lia|]. split; [intros j Hj; rewrite Nat.sub_0_r; reflexivity|reflexivity].
  - destruct (Nat.eqb_spec (size - pos) 0) as [Hz|Hnz].
    + assert (pos = size) by lia. subst pos. unfold uninit_fill_n.
      destruct (uninit_fill_loop_spec count m th size size v) as [(m' & th' & E & P1 & P2)|(m' & E & P1 & P2)];
        [lia|intros; lia|intros k Hk; apply Hr; lia| |]; rewrite E.
      * split; [exact P1|]. split; [intros; lia|exact P2].
      * intros j. destruct (le_lt_dec size j) as [H1|H1]; [destruct (le_lt_dec (size + count) j) as [H2|H2]|]; [apply P2; lia| |apply P2; lia].
        rewrite P1 by lia. symmetry. apply Hr; lia.
    + destruct (SlotsTR.shift_right_cnt_spec m pos (size - pos) count) as [m1 (E1 & S1 & S2 & S3)].
      { intros k Hk. apply live_alive, Hl. lia. } { intros k Hk. apply Hr; lia. }
      rewrite E1. unfold uninit_fill_n.
      destruct (uninit_fill_loop_spec count m1 th pos pos v) as [(m2 & th2 & E & P1 & P2)|(m2 & E & P1 & P2)];
        [lia|intros; lia|intros k Hk; apply S2; lia| |]; rewrite E.
      * split; [exact P1|]. split.
        -- intros j Hj. rewrite P2 by lia. apply S1. lia.
        -- intros j Hj. rewrite P2 by lia. apply S3. lia.
      * destruct (SlotsTR.unshift_right_spec m2 pos (size - pos) count) as [m3 (E3 & U1 & U2 & U3)].
        { intros j Hj. rewrite P2 by lia. rewrite S1 by lia. apply live_alive, Hl. lia. }
        { intros j Hj. apply P1. lia. }
        rewrite E3. intros j.
        destruct (le_lt_dec pos j) as [A|A]; [destruct (le_lt_dec size j) as [B|B]|].
        -- destruct (le_lt_dec (pos + count) j) as [C|C]; [destruct (le_lt_dec (size + count) j) as [D|D]|].
           ++ rewrite U3 by lia. rewrite P2 by lia. apply S3. lia.
           ++ rewrite U2 by lia. symmetry. apply Hr; lia.
           ++ rewrite U3 by lia. rewrite P1 by lia. symmetry. apply Hr; lia.
        -- rewrite U1 by lia. rewrite P2 by lia. rewrite S1 by lia. f_equal. lia.
        -- rewrite U3 by lia. rewrite P2 by lia. apply S3. lia.
Qed.

(* vec::Reallocate for a trivially relocatable element (allocator without `reallocate`): allocate, one memmove, deallocate *)
Definition grow_tr (m : mem) (th : option nat) (size cap nb newcap : nat) : out :=
  let (t, th') := tick th in
  if t then Threw m
  else match SlotsTR.relocate_n (fill_range m nb newcap Raw) 0 size nb with
       | inr x => Err x
       | inl m2 => Done (fill_range m2 0 cap Out) th' end.
Lemma grow_tr_spec m th size cap nb newcap :
  (forall j, j < size -> alive (m j) = true) -> size <= cap -> cap <= nb -> size <= newcap ->
  match grow_tr m th size cap nb newcap with
  | Threw m' => th = Some 0 /\ m' = m
  | Done m' th' => th' = snd (tick th) /\ fst (tick th) = false /\ (forall j, j < size -> m' (nb + j) = m j) /\
                   (forall j, size <= j < newcap -> m' (nb + j) = Raw) /\ (forall j, j < cap -> m' j = Out) /\
                   (forall j, cap <= j -> ~ (nb <= j < nb + newcap) -> m' j = m j)
  | Err _ => False end.
Proof.
  intros Ha Hsc Hnb Hnc. unfold grow_tr. destruct (tick th) as [[|] th'] eqn:Et; cbn [fst snd].
  - split; [exact (tick_true th th' Et)|reflexivity].
  - destruct (SlotsTR.relocate_n_spec (fill_range m nb newcap Raw) 0 size nb) as [m2 (E2 & P1 & P2 & P3)].
    { intros k Hk. cbn [Nat.add]. pose proof (Ha k Hk) as W. frsimp; exact W. }
    { intros j Hj Hn. frsimp. }
    rewrite E2. cbn [Nat.add] in P1, P2. split; [reflexivity|]. split; [reflexivity|]. split; [|split; [|split]].
    + intros j Hj. unfold fill_range at 1. destruct (Nat.leb_spec 0 (nb + j)); [|lia]. destruct (Nat.ltb_spec (nb + j) (0 + cap)); [lia|].
      cbn [andb]. rewrite P1 by lia. frsimp.
    + intros j Hj. unfold fill_range at 1. destruct (Nat.leb_spec 0 (nb + j)); [|lia]. destruct (Nat.ltb_spec (nb + j) (0 + cap)); [lia|].
      cbn [andb]. rewrite P3 by lia. frsimp.
    + intros j Hj. frsimp.
    + intros j H1 H2. unfold fill_range at 1. destruct (Nat.leb_spec 0 j); [|lia]. destruct (Nat.ltb_spec j (0 + cap)); [lia|].
      cbn [andb]. rewrite P3 by lia. frsimp.
Qed.

(* DynamicVector::emplace (position, args...) on a full vector of trivially relocatable elements: EmplaceGrow.emplace_grow with the
   relocating grow, relocate_at / relocate_after_shift = one memmove of the temporary (no destructor call for e) *)
Definition emplace_grow_tr (m : mem) (th : option nat) (size pos e a : nat) (k : argkind) (nb : nat) : out :=
  match construct_arg m th e a k with
  | Done m1 th1 =>
      match grow_tr m1 th1 size size nb (next_cap size) with
      | Threw m2 => catch_grow true m2 e a k
      | Done m2 th2 =>
          let n := size - pos in
          if n =? 0 then SlotsTR.lift (SlotsTR.relocate m2 (nb + pos) e) th2
          else SlotsTR.shift_relocate m2 th2 (nb + pos) n e
      | Err x => Err x end
  | o => o end.
Theorem emplace_grow_tr_spec m th size pos e a k nb va :
  GrowPre m size pos e a nb va ->
  match emplace_grow_tr m th size pos e a k nb with
  | Threw m' => forall j, m' j = m j
  | Done m' _ => (forall j, j < pos -> m' (nb + j) = m j) /\ m' (nb + pos) = Live va /\
                 (forall j, pos <= j < size -> m' (nb + S j) = m j) /\
                 Inv (blockview m' nb (next_cap size)) (size + 1) (next_cap size) /\
                 (forall j, j < size -> m' j = Out) /\ m' e = Raw /\ m' a = arg_after k va /\
                 (forall j, size <= j -> ~ (nb <= j < nb + next_cap size) -> j <> e -> j <> a -> m' j = m j)
  | Err _ => False end.
Proof.
  intros (HI & Hpos & Hes & Has & Hea & He & Ha & Hnb & Hen & Han & Hnew).
  apply blockview_inv in HI. destruct HI as (_ & Hl & _). cbn [Nat.add] in Hl.
  pose proof (next_cap_gt size) as Hnc. unfold emplace_grow_tr.
  pose proof (construct_arg_spec m th e a k va He Ha) as C.
  destruct (construct_arg m th e a k) as [m1 th1|m1|x1]; [|destruct C as (_ & _ & ->); reflexivity|exact C].
  destruct C as (C1 & C2 & C3 & _).
  assert (Hal : forall j, j < size -> alive (m1 j) = true) by (intros j Hj; rewrite C3 by lia; apply live_alive, Hl; exact Hj).
  pose proof (grow_tr_spec m1 th1 size size nb (next_cap size) Hal ltac:(lia) ltac:(lia) ltac:(lia)) as G.
  destruct (grow_tr m1 th1 size size nb (next_cap size)) as [m2 th2|m2|x2]; [| |exact G].
  2: { destruct G as (_ & ->). destruct (catch_grow_spec m1 e a k va C1 C2 Hea) as [m4 (E4 & Q1 & Q2 & Q3)]. rewrite E4. intros j.
       destruct (Nat.eq_dec j e) as [->|]; [congruence|]. destruct (Nat.eq_dec j a) as [->|]; [congruence|].
       rewrite Q3 by assumption. apply C3; assumption. }
  destruct G as (_ & _ & G1 & G2 & G3 & G4).
  assert (He2 : m2 e = Live va) by (rewrite G4 by lia; exact C1).
  assert (Ha2 : m2 a = arg_after k va) by (rewrite G4 by lia; exact C2).
  assert (Hfin : forall m3, m3 (nb + pos) = Live va -> (forall j, pos < j <= size -> m3 (nb + j) = m2 (nb + (j - 1))) -> m3 e = Raw ->
            (forall j, ~ (nb + pos <= j <= nb + size) -> j <> e -> m3 j = m2 j) ->
            (forall j, j < pos -> m3 (nb + j) = m j) /\ m3 (nb + pos) = Live va /\
            (forall j, pos <= j < size -> m3 (nb + S j) = m j) /\
            Inv (blockview m3 nb (next_cap size)) (size + 1) (next_cap size) /\
            (forall j, j < size -> m3 j = Out) /\ m3 e = Raw /\ m3 a = arg_after k va /\
            (forall j, size <= j -> ~ (nb <= j < nb + next_cap size) -> j <> e -> j <> a -> m3 j = m j)).
  { intros m3 F0 F1 F2 F3.
    assert (Hold : forall j, j < size -> m2 (nb + j) = m j) by (intros j Hj; rewrite G1 by lia; apply C3; lia).
    split; [intros j Hj; rewrite F3 by lia; apply Hold; lia|]. split; [exact F0|]. split.
    { intros j Hj. rewrite F1 by lia. replace (S j - 1) with j by lia. apply Hold; lia. }
    split.
    { apply blockview_inv. split; [lia|]. split.
      - intros i Hi. destruct (le_lt_dec i pos) as [H1|H1]; [destruct (Nat.eq_dec i pos) as [->|]|].
        + rewrite F0. reflexivity.
        + rewrite F3 by lia. rewrite Hold by lia. apply Hl; lia.
        + rewrite F1 by lia. rewrite Hold by lia. apply Hl; lia.
      - intros i H1 H2. rewrite F3 by lia. apply G2. lia. }
    split; [intros j Hj; rewrite F3 by lia; apply G3; lia|]. split; [exact F2|].
    split; [rewrite F3 by lia; exact Ha2|].
    intros j H1 H2 H3 H4. rewrite F3 by lia. rewrite G4 by lia. apply C3; lia. }
  cbv zeta. destruct (Nat.eqb_spec (size - pos) 0) as [Hz|Hnz].
  - assert (pos = size) by lia. subst pos.
    rewrite (SlotsTR.relocate_ok m2 (nb + size) e) by (rewrite ?He2; auto; apply G2; lia). cbn [SlotsTR.lift ThrowMove.lift].
    apply Hfin.
    + rewrite He2. updsimp.
    + intros j Hj. lia.
    + updsimp.
    + intros j H1 H2. updsimp.
  - destruct (SlotsTR.shift_relocate_spec m2 th2 (nb + pos) (size - pos) e) as [m3 (E & Q0 & Q1 & Q2 & Q3)].
    + intros j Hj. replace j with (nb + (j - nb)) by lia. rewrite G1 by lia. apply Hal. lia.
    + replace (nb + pos + (size - pos)) with (nb + size) by lia. apply G2. lia.
    + rewrite He2. reflexivity.
    + lia.
    + rewrite E. apply Hfin.
      * rewrite Q0. exact He2.
      * intros j Hj. rewrite Q1 by lia. f_equal. lia.
      * exact Q2.
      * intros j H1 H2. apply Q3; lia.
Qed.

(* full vector of size 3, position 1 (layout EmplaceGrow.init_lay: 4 = e, 5 = the external argument, new block [7, 12)): an rvalue
   argument, the allocation throws (event 0: the argument has its value back) / completes *)
Example emplace_grow_tr_ex :
  GrowPre (init_lay 3 3 99) 3 1 4 5 7 99 /\
  EmplaceGrow.show (emplace_grow_tr (init_lay 3 3 99) (Some 0) 3 1 4 5 Rvalue 7) 13
    = Some (true, [Live 10; Live 11; Live 12; Out; Raw; Live 99; Out; Out; Out; Out; Out; Out; Out]%Z) /\
  EmplaceGrow.show (emplace_grow_tr (init_lay 3 3 99) None 3 1 4 5 Rvalue 7) 13
    = Some (false, [Out; Out; Out; Out; Raw; Moved; Out; Live 10; Live 99; Live 11; Live 12; Raw; Out]%Z) /\
  EmplaceGrow.show (emplace_grow_tr (init_lay 3 3 99) (Some 1) 3 1 4 5 Lvalue 7) 13
    = Some (true, [Live 10; Live 11; Live 12; Out; Raw; Live 99; Out; Out; Out; Out; Out; Out; Out]%Z).
Proof. split; [exact grow_pre_ex|]. repeat split; vm_compute; reflexivity. Qed.

(* ---- insert (position, count, v): the ordinary path, v a reference ---------------------------------------------------------------- *)
(* absolute slot indices: the vector occupies [.., size), pos is the slot of the insertion point, a the slot the reference designates;
   tr = false: vf::El<0> (Throw.shift_right_cnt, fill_after_shift, Throw.unshift_right); tr = true: vf::El<1> (the overloads of SlotsTR.v:
   fill_after_shift is std::uninitialized_fill_n over all count slots) *)
Definition insert_cnt_ref (tr : bool) (m : mem) (th : option nat) (size pos count a : nat) : out :=
  if count =? 0 then Done m th else
  let n := size - pos in
  if n =? 0 then uninit_fill_n_ref m th pos count a else
  match (if tr then SlotsTR.shift_right_cnt m pos n count else shift_right_cnt m pos n count) with
  | inr e => Err e
  | inl m1 => match (if tr then uninit_fill_n_ref m1 th pos count a else fill_after_shift_ref m1 th pos n count a) with
              | Threw m2 => match (if tr then SlotsTR.unshift_right m2 pos n count else unshift_right m2 pos n count) with
                            | inl m3 => Threw m3 | inr e => Err e end
              | o => o end
  end.
(* the same with a value: the models of Throw.v / SlotsTR.v *)
Definition insert_cnt_val (tr : bool) (m : mem) (th : option nat) (size pos count : nat) (v : Z) : out :=
  if tr then SlotsTR.insert_cnt_tr m th size pos count v else insert_cnt_fix m th size pos count v.
Lemma insert_cnt_val_local tr m th size pos count v :
  pos <= size -> (forall j, pos <= j < size -> is_live (m j) = true) -> (forall j, size <= j < size + count -> m j = Raw) ->
  match insert_cnt_val tr m th size pos count v with
  | Done m' _ => (forall j, pos <= j < pos + count -> m' j = Live v) /\ (forall j, pos + count <= j < size + count -> m' j = m (j - count)) /\
                 (forall j, ~ (pos <= j < size + count) -> m' j = m j)
  | Threw m' => forall j, m' j = m j
  | Err _ => False
  end.
Proof. intros H1 H2 H3. destruct tr; [apply insert_cnt_tr_local|apply insert_cnt_fix_local]; assumption. Qed.

(* the reference designates a live slot outside [pos, size + count): it is never written, every copy reads the same value *)
Lemma insert_cnt_ref_eq tr m th size pos count a v :
  pos <= size -> (forall j, pos <= j < size -> is_live (m j) = true) -> (forall j, size <= j < size + count -> m j = Raw) ->
  m a = Live v -> ~ (pos <= a < size + count) ->
  insert_cnt_ref tr m th size pos count a = insert_cnt_val tr m th size pos count v.
Proof.
  intros Hp Hl Hr Ha Hout. unfold insert_cnt_ref, insert_cnt_val, insert_cnt_fix, SlotsTR.insert_cnt_tr, SlotsTR.fill_after_shift.
  destruct (Nat.eqb_spec count 0) as [->|Hc0]; [destruct tr; reflexivity|]. cbv zeta.
  destruct (Nat.eqb_spec (size - pos) 0) as [Hz|Hnz].
  - assert (E : uninit_fill_n_ref m th pos count a = uninit_fill_n m th pos count v)
      by (unfold uninit_fill_n_ref, uninit_fill_n; apply uninit_fill_loop_ref_eq; [exact Ha|lia]).
    rewrite E. destruct tr; reflexivity.
  - destruct tr.
    + destruct (SlotsTR.shift_right_cnt_spec m pos (size - pos) count) as [m1 (E1 & S1 & S2 & S3)].
      { intros k Hk. apply live_alive, Hl. lia. } { intros k Hk. apply Hr; lia. }
      rewrite E1. assert (E : uninit_fill_n_ref m1 th pos count a = uninit_fill_n m1 th pos count v).
      { unfold uninit_fill_n_ref, uninit_fill_n. apply uninit_fill_loop_ref_eq; [|lia]. rewrite S3 by lia. exact Ha. }
      rewrite E. reflexivity.
    + destruct (shift_right_cnt_ok m pos (size - pos) count ltac:(lia) ltac:(lia)) as [m1 (E1 & S1 & S2 & S3 & S4)].
      * intros k Hk. apply Hl. lia.
      * intros k Hk. apply Hr; lia.
      * rewrite E1. rewrite (fill_after_shift_ref_eq m1 th pos (size - pos) count a v); [reflexivity| |lia].
        rewrite S3 by lia. exact Ha.
Qed.

(* ---- vec::insert_n (pos, n, const T &v), v a reference ------------------------------------------------------------------------------ *)
(* n == 0: construct_at (pos, v);  else shift_right (pos, n); try { assign_after_shift (pos, v); } catch (...) { shift_left (pos + 1, n); throw; }
   assign_after_shift: *pos = v (El<0>: the slot is moved-from) / construct_at (pos, v) (El<1>: the slot is raw) *)
Definition insert_n_ref (tr : bool) (m : mem) (th : option nat) (pos n a : nat) : out :=
  if n =? 0 then copy_construct_ref m th pos a
  else match (if tr then SlotsTR.shift_right1 m pos n else shift_right1 m pos n) with
       | inr x => Err x
       | inl m1 => match (if tr then copy_construct_ref m1 th pos a else copy_assign_ref m1 th pos a) with
                   | Threw m2 => match (if tr then SlotsTR.shift_left m2 (pos + 1) n else shift_left m2 (pos + 1) n) with
                                 | inl m3 => Threw m3 | inr x => Err x end
                   | o => o end
       end.
Lemma insert_n_ref_spec tr m th pos n a v :
  (forall j, pos <= j < pos + n -> is_live (m j) = true) -> m (pos + n) = Raw -> m a = Live v -> ~ (pos <= a <= pos + n) ->
  match insert_n_ref tr m th pos n a with
  | Done m' _ => m' pos = Live v /\ (forall j, pos < j <= pos + n -> m' j = m (j - 1)) /\ (forall j, ~ (pos <= j <= pos + n) -> m' j = m j)
  | Threw m' => forall j, m' j = m j
  | Err _ => False end.
Proof.
  intros Hl Hr Ha Hout. unfold insert_n_ref. destruct (Nat.eqb_spec n 0) as [->|Hnz].
  - rewrite Nat.add_0_r in Hr. unfold copy_construct_ref. rewrite (read_ref_live m a v Ha). unfold copy_construct. rewrite Hr.
    destruct (tick th) as [[|] th']; [reflexivity|]. split; [updsimp|]. split; [intros; lia|intros; updsimp].
  - destruct tr.
    + destruct (SlotsTR.shift_right1_spec m pos n) as [m1 (E & P1 & P0 & P2)]; [|exact Hr|].
      { intros k Hk. apply live_alive, Hl. lia. }
      rewrite E. unfold copy_construct_ref. rewrite (read_ref_live m1 a v) by (rewrite P2 by lia; exact Ha).
      unfold copy_construct. rewrite P0. destruct (tick th) as [[|] th'].
      * destruct (SlotsTR.shift_left_spec m1 pos n) as [m3 (E3 & Q1 & Q0 & Q2)]; [lia| |exact P0|].
        { intros j Hj. rewrite P1 by lia. apply live_alive, Hl. lia. }
        rewrite E3. intros j.
        destruct (le_lt_dec pos j) as [H1|H1]; [destruct (le_lt_dec (pos + n) j) as [H2|H2]|].
        -- destruct (Nat.eq_dec j (pos + n)) as [->|]; [rewrite Q0; symmetry; exact Hr|]. rewrite Q2 by lia. apply P2. lia.
        -- rewrite Q1 by lia. rewrite P1 by lia. f_equal. lia.
        -- rewrite Q2 by lia. apply P2. lia.
      * split; [updsimp|]. split.
        -- intros j Hj. rewrite <- P1 by lia. updsimp.
        -- intros j Hj. rewrite <- P2 by lia. updsimp.
    + destruct (shift_right1_spec m pos n) as [m1 (E & P0 & P1 & P2)]; [lia| |exact Hr|].
      { intros j Hj. apply live_alive, Hl. exact Hj. }
      rewrite E. unfold copy_assign_ref. rewrite (read_ref_live m1 a v) by (rewrite P2 by lia; exact Ha).
      unfold copy_assign_alive. rewrite P0. destruct (tick th) as [[|] th'].
      * destruct (shift_left_spec m1 pos n) as [m3 (E3 & Q1 & Q0 & Q2)]; [lia| |].
        { intros j Hj. destruct (Nat.eq_dec j pos) as [->|]; [rewrite P0; reflexivity|]. rewrite P1 by lia. apply live_alive, Hl. lia. }
        rewrite E3. intros j.
        destruct (le_lt_dec pos j) as [H1|H1]; [destruct (le_lt_dec (pos + n) j) as [H2|H2]|].
        -- destruct (Nat.eq_dec j (pos + n)) as [->|]; [rewrite Q0; symmetry; exact Hr|]. rewrite Q2 by lia. apply P2. lia.
        -- rewrite Q1 by lia. rewrite P1 by lia. f_equal. lia.
        -- rewrite Q2 by lia. apply P2. lia.
      * split; [updsimp|]. split.
        -- intros j Hj. rewrite <- P1 by lia. updsimp.
        -- intros j Hj. rewrite <- P2 by lia. updsimp.
Qed.

(* ---- adjustCapacity (needed, v, &position): grow when the capacity is too small; the reference and the position are re-based ------- *)
(* SafeNextCapacity (capa, needed, false) below the limit of size_type: max ((3 * capa + 1) / 2, needed) *)
Definition next_capn (cap need : nat) : nat := Nat.max ((3 * cap + 1) / 2) need.
Lemma next_capn_one cap : next_capn cap (cap + 1) = next_cap cap.
Proof. reflexivity. Qed.
Lemma next_capn_ge cap need : need <= next_capn cap need.
Proof. unfold next_capn. apply Nat.le_max_r. Qed.
Definition grow_g (tr : bool) := if tr then grow_tr else grow.
Lemma grow_g_spec tr m th size cap nb newcap :
  (forall j, j < size -> alive (m j) = true) -> size <= cap -> cap <= nb -> size <= newcap ->
  match grow_g tr m th size cap nb newcap with
  | Threw m' => th = Some 0 /\ m' = m
  | Done m' th' => th' = snd (tick th) /\ fst (tick th) = false /\ (forall j, j < size -> m' (nb + j) = m j) /\
                   (forall j, size <= j < newcap -> m' (nb + j) = Raw) /\ (forall j, j < cap -> m' j = Out) /\
                   (forall j, cap <= j -> ~ (nb <= j < nb + newcap) -> m' j = m j)
  | Err _ => False end.
Proof. intros. destruct tr; [apply grow_tr_spec|apply grow_spec]; assumption. Qed.
(* -> (outcome, base address of the block afterwards, its capacity) *)
Definition adjust (tr : bool) (m : mem) (th : option nat) (size cap need nb : nat) : out * nat * nat :=
  if cap <? need then (grow_g tr m th size cap nb (next_capn cap need), nb, next_capn cap need) else (Done m th, 0, cap).

(* the block [0, cap); two temporaries e, t between the block and nb; nothing exists from nb on (the new block will) *)
Definition OwnPre (m : mem) (size cap e t nb : nat) : Prop :=
  Inv (blockview m 0 cap) size cap /\ cap <= e < nb /\ cap <= t < nb /\ e <> t /\ m e = Raw /\ m t = Raw /\ (forall j, nb <= j -> m j = Out).

Lemma adjust_spec tr m th size cap need nb :
  Blk m 0 size cap -> cap <= nb -> size <= need ->
  match adjust tr m th size cap need nb with
  | (Done m1 th1, b, c) =>
      Blk m1 b size c /\ need <= c /\ (forall j, j < size -> m1 (b + j) = m j) /\
      ((b = 0 /\ c = cap /\ need <= cap /\ m1 = m /\ th1 = th) \/
       (b = nb /\ c = next_capn cap need /\ cap < need /\ fst (tick th) = false /\ th1 = snd (tick th) /\ (forall j, j < cap -> m1 j = Out) /\
        (forall j, cap <= j -> ~ (nb <= j < nb + c) -> m1 j = m j)))
  | (Threw m1, _, _) => m1 = m /\ cap < need /\ th = Some 0
  | (Err _, _, _) => False end.
Proof.
  intros (Hsc & Hl & Hr) Hnb Hneed. unfold adjust. destruct (Nat.ltb_spec cap need) as [Hlt|Hge].
  - pose proof (next_capn_ge cap need) as Hnc.
    pose proof (grow_g_spec tr m th size cap nb (next_capn cap need)) as G.
    assert (Hal : forall j, j < size -> alive (m j) = true) by (intros j Hj; apply live_alive; apply (Hl j Hj)).
    specialize (G Hal Hsc Hnb ltac:(lia)).
    destruct (grow_g tr m th size cap nb (next_capn cap need)) as [m1 th1|m1|x]; [| |exact G].
    + destruct G as (G0 & G0' & G1 & G2 & G3 & G4). split; [|split; [lia|split; [exact G1|]]].
      * split; [lia|]. split; [intros i Hi; rewrite G1 by lia; apply (Hl i Hi)|intros i Hi; apply G2; lia].
      * right. repeat split; try assumption; lia.
    + destruct G as (G0 & G1). repeat split; assumption.
  - split; [split; [exact Hsc|split; assumption]|]. split; [exact Hge|]. split; [reflexivity|]. left. repeat split. exact Hge.
Qed.

(* vec::emplace_n and the growing DynamicVector::emplace, both flavours, with the statements they share *)
Definition emplace_n_g (tr : bool) := if tr then SlotsTR.emplace_n else emplace_n.
Definition emplace_grow_g (tr : bool) (m : mem) (th : option nat) (size pos e a : nat) (k : argkind) (nb : nat) : out :=
  if tr then emplace_grow_tr m th size pos e a k nb else emplace_grow true m th size pos e a k nb.
Lemma emplace_n_g_spec tr m th size cap pos e a k va :
  EmplaceNPre m size cap pos e a va ->
  match emplace_n_g tr m th pos (size - pos) e a k with
  | Threw m' => k = Lvalue /\ th = Some 0 /\ (forall j, m' j = m j)
  | Done m' _ => (forall j, j < pos -> m' j = m j) /\ m' pos = Live va /\ (forall j, pos <= j < size -> m' (S j) = m j) /\
                 m' e = Raw /\ m' a = arg_after k va /\ Inv (blockview m' 0 cap) (size + 1) cap /\
                 (forall j, size < j -> j <> e -> j <> a -> m' j = m j)
  | Err _ => False end.
Proof. intros H. destruct tr; [apply SlotsTR.emplace_n_spec|apply emplace_n_spec]; exact H. Qed.
Lemma emplace_grow_g_spec tr m th size pos e a k nb va :
  GrowPre m size pos e a nb va ->
  match emplace_grow_g tr m th size pos e a k nb with
  | Threw m' => forall j, m' j = m j
  | Done m' _ => (forall j, j < pos -> m' (nb + j) = m j) /\ m' (nb + pos) = Live va /\
                 (forall j, pos <= j < size -> m' (nb + S j) = m j) /\
                 Inv (blockview m' nb (next_cap size)) (size + 1) (next_cap size) /\
                 (forall j, j < size -> m' j = Out) /\ m' e = Raw /\ m' a = arg_after k va /\
                 (forall j, size <= j -> ~ (nb <= j < nb + next_cap size) -> j <> e -> j <> a -> m' j = m j)
  | Err _ => False end.
Proof.
  intros H. destruct tr; cbn [emplace_grow_g]; [apply emplace_grow_tr_spec; exact H|].
  pose proof (emplace_grow_spec m th size pos e a k nb va H) as S.
  destruct (emplace_grow true m th size pos e a k nb); [exact S|exact (proj1 S)|exact S].
Qed.

(* ---- the models ---------------------------------------------------------------------------------------------------------------- *)
(* the temporary T (v) is destroyed at the end of the full expression, on both exits *)
Definition finish_tmp (t : nat) (o : out) : out :=
  match o with
  | Done m th => match destroy m t with inl m' => Done m' th | inr x => Err x end
  | Threw m => match destroy m t with inl m' => Threw m' | inr x => Err x end
  | Err x => Err x end.

(* iterator insert (const_iterator position, const_reference v), v = element src:
     if (std::addressof (v) >= position && std::addressof (v) < cend ()) return this->emplace (position, T (v));
     const_reference newV = this->adjustCapacity (size () + 1U, v, &position);
     insert_n (pos, size () - (pos - begin ()), newV); incrSize ();
   DynamicVector::emplace: size () == capacity () ? the growing path (EmplaceGrow.emplace_grow) : emplace_n *)
Definition insert_own (tr : bool) (m : mem) (th : option nat) (size cap pos src e t nb : nat) : out :=
  if (pos <=? src) && (src <? size) then
    match construct_arg m th t src Lvalue with                                  (* T (v): one throwing-capable event *)
    | Done m1 th1 =>
        finish_tmp t (if size <? cap then emplace_n_g tr m1 th1 pos (size - pos) e t Rvalue
                      else emplace_grow_g tr m1 th1 size pos e t Rvalue nb)
    | o => o end
  else
    match adjust tr m th size cap (size + 1) nb with
    | (Done m1 th1, b, _) => insert_n_ref tr m1 th1 (b + pos) (size - pos) (b + src)
    | (o, _, _) => o end.

(* iterator insert (const_iterator position, size_type count, const_reference v), v = element src:
     if (count > 0 && std::addressof (v) >= position && std::addressof (v) < cend ()) return insert (position, count, const_reference (T (v)));
     if (count > 0) { newV = adjustCapacity (size () + count, v, &position); ... the ordinary path ...; setSize (size () + count); } *)
Definition insert_cnt_own (tr : bool) (m : mem) (th : option nat) (size cap pos count src t nb : nat) : out :=
  if (0 <? count) && (pos <=? src) && (src <? size) then
    match construct_arg m th t src Lvalue with                                  (* T (v) *)
    | Done m1 th1 =>
        finish_tmp t (match adjust tr m1 th1 size cap (size + count) nb with    (* the temporary is not an element: not re-based *)
                      | (Done m2 th2, b, _) => insert_cnt_ref tr m2 th2 (b + size) (b + pos) count t
                      | (o, _, _) => o end)
    | o => o end
  else if count =? 0 then Done m th
  else match adjust tr m th size cap (size + count) nb with
       | (Done m1 th1, b, _) => insert_cnt_ref tr m1 th1 (b + size) (b + pos) count (b + src)
       | (o, _, _) => o end.

(* void push_back (const_reference v):  newV = adjustCapacity (size () + 1U, v); construct_at (end (), newV); incrSize (); *)
Definition push_back_own (tr : bool) (m : mem) (th : option nat) (size cap src nb : nat) : out :=
  match adjust tr m th size cap (size + 1) nb with
  | (Done m1 th1, b, _) => copy_construct_ref m1 th1 (b + size) (b + src)
  | (o, _, _) => o end.

(* ---- what a call leaves behind --------------------------------------------------------------------------------------------------- *)
(* the vector is the block [b', b' + c') with size' elements; both temporaries are gone; either it still is the old block and nothing
   outside it changed, or it is the new one: the old block has been freed and nothing outside both blocks changed *)
Definition After (m m' : mem) (cap e t nb b' c' size' : nat) : Prop :=
  Blk m' b' size' c' /\ m' e = Raw /\ m' t = Raw /\
  ((b' = 0 /\ c' = cap /\ (forall j, cap <= j -> m' j = m j)) \/
   (b' = nb /\ cap < c' /\ (forall j, j < cap -> m' j = Out) /\ (forall j, cap <= j -> ~ (nb <= j < nb + c') -> m' j = m j))).

Lemma OwnPre_Blk m size cap e t nb : OwnPre m size cap e t nb -> Blk m 0 size cap.
Proof. intros (HI & _). apply Blk_blockview. exact HI. Qed.

(* m: before the call; mt: m, maybe with the temporary t alive; m': after the element moves, t still as the operation left it;
   m'': t destroyed *)
Lemma finish_ok m mt m' m'' b c size cap e t nb pos l :
  OwnPre m size cap e t nb -> pos <= size -> (forall j, j <> t -> mt j = m j) -> size + length l <= c ->
  Inserted mt m' 0 b size pos l -> (forall i, size + length l <= i < c -> m' (b + i) = Raw) -> m' e = Raw ->
  ((b = 0 /\ c = cap /\ (forall j, cap <= j -> j <> t -> m' j = mt j)) \/
   (b = nb /\ cap < c /\ (forall j, j < cap -> m' j = Out) /\ (forall j, cap <= j -> ~ (nb <= j < nb + c) -> j <> t -> m' j = mt j))) ->
  (forall j, j <> t -> m'' j = m' j) -> m'' t = Raw ->
  After m m'' cap e t nb b c (size + length l) /\ vals m'' b (size + length l) = SlotsTR.spec_insert_range (vals m 0 size) pos l.
Proof.
  intros HP Hpos Hmt Hc HIns Hraw He HD Hm'' Ht.
  pose proof (OwnPre_Blk _ _ _ _ _ _ HP) as (Hsc & Hl & Hr).
  destruct HP as (_ & Hecap & Htcap & Het & Hme & Hmt0 & Hout).
  assert (Hb : b = 0 /\ c = cap \/ b = nb /\ cap < c) by (destruct HD as [(-> & -> & _)|(-> & ? & _)]; [left|right]; split; auto).
  assert (Htb : forall i, i < c -> b + i <> t) by (intros i Hi; destruct Hb as [(-> & ->)|(-> & _)]; lia).
  assert (HIns2 : Inserted m m'' 0 b size pos l).
  { destruct HIns as (T1 & T2 & T3). split; [|split].
    - intros j Hj. rewrite Hm'' by (apply Htb; lia). rewrite T1 by lia. apply Hmt. lia.
    - intros k Hk. rewrite Hm'' by (apply Htb; lia). apply T2. exact Hk.
    - intros j Hj. rewrite Hm'' by (apply Htb; lia). rewrite T3 by lia. apply Hmt. lia. }
  split; [|apply (Inserted_vals m m'' 0 b size pos l HIns2 Hpos)].
  split; [|split; [|split]].
  - split; [exact Hc|]. split.
    + intros i Hi. apply (Inserted_live m m'' 0 b size pos l i HIns2 Hpos); [|exact Hi]. intros j Hj. apply (Hl j Hj).
    + intros i Hi. rewrite Hm'' by (apply Htb; lia). apply Hraw. exact Hi.
  - rewrite Hm'' by lia. exact He.
  - exact Ht.
  - destruct HD as [(-> & -> & F)|(-> & Hcc & F1 & F2)]; [left|right].
    + split; [reflexivity|]. split; [reflexivity|]. intros j Hj. destruct (Nat.eq_dec j t) as [->|Hne]; [congruence|].
      rewrite Hm'' by exact Hne. rewrite F by assumption. apply Hmt. exact Hne.
    + split; [reflexivity|]. split; [exact Hcc|]. split.
      * intros j Hj. rewrite Hm'' by lia. apply F1. exact Hj.
      * intros j Hj Hnb. destruct (Nat.eq_dec j t) as [->|Hne]; [congruence|].
        rewrite Hm'' by exact Hne. rewrite F2 by assumption. apply Hmt. exact Hne.
Qed.

(* after adjustCapacity (outcome of [adjust_spec] on mt) and an insertion inside the block that touched nothing else *)
Lemma bridge mt m1 m' b c size cap e t nb pos l :
  cap <= e < nb -> cap <= t < nb -> size <= cap ->
  Blk m1 b size c -> (forall j, j < size -> m1 (b + j) = mt j) ->
  ((b = 0 /\ c = cap /\ m1 = mt) \/
   (b = nb /\ cap < c /\ (forall j, j < cap -> m1 j = Out) /\ (forall j, cap <= j -> ~ (nb <= j < nb + c) -> m1 j = mt j))) ->
  pos <= size -> size + length l <= c ->
  Inserted m1 m' b b size pos l -> (forall j, ~ (b + pos <= j < b + size + length l) -> m' j = m1 j) ->
  Inserted mt m' 0 b size pos l /\ (forall i, size + length l <= i < c -> m' (b + i) = Raw) /\ m' e = mt e /\ m' t = mt t /\
  ((b = 0 /\ c = cap /\ (forall j, cap <= j -> j <> t -> m' j = mt j)) \/
   (b = nb /\ cap < c /\ (forall j, j < cap -> m' j = Out) /\ (forall j, cap <= j -> ~ (nb <= j < nb + c) -> j <> t -> m' j = mt j))).
Proof.
  intros He Ht Hsc (_ & Hl1 & Hr1) Hsame HD Hpos Hc (T1 & T2 & T3) Hfr.
  assert (Hout : forall j, ~ (b <= j < b + c) -> cap <= j -> m1 j = mt j).
  { intros j Hj Hcap. destruct HD as [(-> & -> & ->)|(-> & _ & _ & F)]; [reflexivity|apply F; assumption]. }
  assert (Hb : b = 0 /\ c = cap \/ b = nb /\ cap < c) by (destruct HD as [(-> & -> & _)|(-> & ? & _)]; [left|right]; split; auto).
  split; [|split; [|split; [|split]]].
  - split; [|split].
    + intros j Hj. cbn [Nat.add]. rewrite T1 by lia. apply Hsame. lia.
    + exact T2.
    + intros j Hj. cbn [Nat.add]. rewrite T3 by lia. apply Hsame. lia.
  - intros i Hi. rewrite Hfr by lia. apply Hr1. lia.
  - rewrite Hfr by (destruct Hb as [(-> & ->)|(-> & _)]; lia). apply Hout; [destruct Hb as [(-> & ->)|(-> & _)]; lia|lia].
  - rewrite Hfr by (destruct Hb as [(-> & ->)|(-> & _)]; lia). apply Hout; [destruct Hb as [(-> & ->)|(-> & _)]; lia|lia].
  - destruct HD as [(-> & -> & ->)|(-> & Hcc & F1 & F2)]; [left|right].
    + split; [reflexivity|]. split; [reflexivity|]. intros j Hj _. apply Hfr. lia.
    + split; [reflexivity|]. split; [exact Hcc|]. split.
      * intros j Hj. rewrite Hfr by lia. apply F1. exact Hj.
      * intros j Hj Hnb _. rewrite Hfr by lia. apply F2; assumption.
Qed.

(* ---- the single-pass range insertion, within the capacity -------------------------------------------------------------------------- *)
(* append_range (first, last, std::input_iterator_tag), size () + distance <= capacity ():
     const SizeType oldSize = size ();
     try { for (; first != last; ++first) emplace_back (x); }              emplace_back below the capacity: construct_at (end (), x); incrSize ()
     catch (...) { destroy_n (begin () + oldSize, size () - oldSize); setSize (oldSize); throw; }
   the range is the list of the values of its (external) elements; -> (outcome, size () at that moment) *)
Fixpoint append_loop (m : mem) (th : option nat) (cur : nat) (l : list Z) : out * nat :=
  match l with
  | [] => (Done m th, cur)
  | x :: l' => match copy_construct m th cur x with Done m1 th1 => append_loop m1 th1 (S cur) l' | o => (o, cur) end
  end.
Definition append_range_in (m : mem) (th : option nat) (size : nat) (l : list Z) : out :=
  match append_loop m th size l with
  | (Threw m1, cur) => match destroy_n m1 size (cur - size) with inl m2 => Threw m2 | inr x => Err x end
  | (o, _) => o end.
(* std::rotate (first, mid, last) by its postcondition: the slots of [mid, last) come first, then those of [first, mid); every slot of
   the range must hold an object (noexcept moves / swaps of El<0>: no event) *)
Definition rotate (m : mem) (first mid last : nat) : mem + err :=
  if forallb (fun j => alive (m j)) (seq first (last - first)) then
    inl (fun j => if (first <=? j) && (j <? last)
                  then (if j <? first + (last - mid) then m (j + (mid - first)) else m (j - (last - mid)))
                  else m j)
  else inr AssignDead.
(* insert_range (position, first, last, std::input_iterator_tag):
     idx = position - begin (); oldSize = size (); append_range (first, last, input_iterator_tag ());
     std::rotate (begin () + idx, begin () + oldSize, end ()); *)
Definition insert_range_in (m : mem) (th : option nat) (size pos : nat) (l : list Z) : out :=
  match append_range_in m th size l with
  | Done m1 th1 => match rotate m1 pos size (size + length l) with inl m2 => Done m2 th1 | inr x => Err x end
  | o => o end.

(* ---- the fixed layout of the correspondence check and of the examples ------------------------------------------------------------------ *)
(* block [0, cap) with size elements 10, 11, ... | cap: Out | cap + 1: e (raw) | cap + 2: t (raw) | Out; the new block starts at cap + 4 *)
Definition init_own (size cap : nat) : mem :=
  fun i => if i <? size then Live (Z.of_nat (10 + i)) else if i <? cap then Raw
           else if i =? cap + 1 then Raw else if i =? cap + 2 then Raw else Out.
Ltac ownsimp := unfold init_own, blockview;
  repeat match goal with
         | |- context [Nat.ltb ?a ?b] => destruct (Nat.ltb_spec a b)
         | |- context [Nat.eqb ?a ?b] => destruct (Nat.eqb_spec a b) end;
  try lia; try reflexivity; try congruence.
Lemma init_own_pre size cap : size <= cap -> OwnPre (init_own size cap) size cap (cap + 1) (cap + 2) (cap + 4).
Proof.
  intros H. unfold OwnPre. split.
  { apply blockview_inv. split; [lia|]. cbn [Nat.add]. split; [intros i Hi; ownsimp|intros i Ha Hb; ownsimp]. }
  repeat split; try lia; try (intros; ownsimp).
Qed.

(* ==== Theorems ====================================================================================================================== *)
Lemma destroy_alive m i : alive (m i) = true -> destroy m i = inl (upd m i Raw).
Proof. apply destroy_ok. Qed.
Lemma OwnPre_tmp m size cap e t nb v mt : OwnPre m size cap e t nb -> mt t = Live v -> (forall j, j <> t -> mt j = m j) ->
  Inv (blockview mt 0 cap) size cap /\ mt e = Raw /\ (forall j, nb <= j -> mt j = Out).
Proof.
  intros (HI & He & Ht & Het & Hme & Hmt & Hout) Hv Hsame. split; [|split].
  - apply Blk_blockview. apply Blk_blockview in HI. apply (Blk_ext m mt 0 0 size cap); [|exact HI].
    intros i Hi. cbn [Nat.add]. apply Hsame. lia.
  - rewrite Hsame by lia. exact Hme.
  - intros j Hj. rewrite Hsame by lia. apply Hout. exact Hj.
Qed.

(* ---- 1. insert (position, own element) -------------------------------------------------------------------------------------------- *)
(* From the vector invariant, for EVERY size, capacity (room or full), position, source index and throw index:
   never a lifetime error (the reference is never read after its slot was vacated / overwritten);
   completion: the vector (in the old block, or in the new one of capacity SafeNextCapacity when it was full) holds
     firstn pos l ++ [nth src l] ++ skipn pos l  - the value the argument had BEFORE the call -, both temporaries are gone,
     the old block is freed when the vector grew, nothing else changed;
   a throw: EVERY slot of the memory is as before - except when the vector was full, the argument lies before the position and it is the
   element copy (not the allocation) that throws: then the vector HAS grown (its elements are the same, in the new block). *)
Theorem insert_own_spec tr m th size cap pos src e t nb :
  OwnPre m size cap e t nb -> pos <= size -> src < size ->
  match insert_own tr m th size cap pos src e t nb with
  | Done m' _ => exists b' c', After m m' cap e t nb b' c' (size + 1) /\ (b' = 0 <-> size < cap) /\ (size = cap -> c' = next_cap size) /\
                   vals m' b' (size + 1) = Slots.spec_insert (vals m 0 size) pos 1 (nth src (vals m 0 size) 0%Z)
  | Threw m' => (forall j, m' j = m j) \/
                (size = cap /\ src < pos /\ After m m' cap e t nb nb (next_cap size) size /\ vals m' nb size = vals m 0 size)
  | Err _ => False end.
Proof.
  intros HP Hpos Hsrc. pose proof (OwnPre_Blk _ _ _ _ _ _ HP) as HB. pose proof HB as (Hsc & Hl & Hr).
  pose proof HP as (HI & He & Ht & Het & Hme & Hmt & Hout).
  pose proof (live_val _ (Hl src Hsrc)) as Hv. cbn [Nat.add] in Hv. set (v := val (m src)) in *.
  assert (Hnth : nth src (vals m 0 size) 0%Z = v) by (rewrite vals_nth by exact Hsrc; reflexivity). rewrite Hnth.
  rewrite spec_insert_repeat. change (size + 1) with (size + length (repeat v 1)).
  unfold insert_own. destruct (Nat.leb_spec pos src) as [Hle|Hgt]; [destruct (Nat.ltb_spec src size) as [_|]; [|lia]|]; cbn [andb].
  - (* the argument is about to be shifted: T (v), then emplace *)
    pose proof (construct_arg_spec m th t src Lvalue v Hmt Hv) as C.
    destruct (construct_arg m th t src Lvalue) as [mt th1|mt|x]; [|destruct C as (_ & _ & ->); left; reflexivity|exact C].
    destruct C as (C1 & C2 & C3 & _). cbn [arg_after] in C2.
    assert (Hsame : forall j, j <> t -> mt j = m j).
    { intros j Hj. destruct (Nat.eq_dec j src) as [->|]; [congruence|]. apply C3; assumption. }
    destruct (OwnPre_tmp m size cap e t nb v mt HP C1 Hsame) as (HIt & Hmte & Houtt).
    destruct (Nat.ltb_spec size cap) as [Hroom|Hfull].
    + (* emplace_n *)
      pose proof (emplace_n_g_spec tr mt th1 size cap pos e t Rvalue v) as S.
      assert (Pre : EmplaceNPre mt size cap pos e t v) by (unfold EmplaceNPre; split; [exact HIt|]; repeat split; try assumption; lia).
      specialize (S Pre). destruct (emplace_n_g tr mt th1 pos (size - pos) e t Rvalue) as [m' th'|m'|x]; [|destruct S as (S & _); discriminate|exact S].
      destruct S as (S1 & S2 & S3 & S4 & S5 & S6 & S7). cbn [arg_after] in S5. cbn [finish_tmp].
      rewrite destroy_alive by (rewrite S5; reflexivity).
      exists 0, cap.
      destruct (finish_ok m mt m' (upd m' t Raw) 0 cap size cap e t nb pos (repeat v 1) HP Hpos Hsame) as (A & V).
      * cbn [repeat length]. lia.
      * split; [|split]; cbn [Nat.add repeat length].
        -- exact S1.
        -- intros k Hk. assert (k = 0) by lia. subst k. rewrite Nat.add_0_r. exact S2.
        -- intros j Hj. replace j with (S (j - 1)) at 1 by lia. apply S3. lia.
      * cbn [Nat.add repeat length]. intros i Hi. apply Blk_blockview in S6. destruct S6 as (_ & _ & R6). apply (R6 i). lia.
      * exact S4.
      * left. split; [reflexivity|]. split; [reflexivity|]. intros j Hj Hjt. destruct (Nat.eq_dec j e) as [->|Hne]; [congruence|].
        apply S7; [lia|exact Hne|exact Hjt].
      * intros j Hj. updsimp.
      * updsimp.
      * split; [exact A|]. split; [split; [intros _; exact Hroom|reflexivity]|]. split; [lia|exact V].
    + (* the growing emplace *)
      assert (size = cap) by lia. subst cap.
      pose proof (emplace_grow_g_spec tr mt th1 size pos e t Rvalue nb v) as S.
      assert (Pre : GrowPre mt size pos e t nb v).
      { unfold GrowPre. pose proof (next_cap_gt size). split; [exact HIt|]. repeat split; try assumption; try lia. intros j Hj. apply Houtt. lia. }
      specialize (S Pre). destruct (emplace_grow_g tr mt th1 size pos e t Rvalue nb) as [m' th'|m'|x]; [| |exact S].
      * destruct S as (S1 & S2 & S3 & S4 & S5 & S6 & S7 & S8). cbn [arg_after] in S7. cbn [finish_tmp].
        rewrite destroy_alive by (rewrite S7; reflexivity).
        exists nb, (next_cap size). pose proof (next_cap_gt size) as Hnc.
        destruct (finish_ok m mt m' (upd m' t Raw) nb (next_cap size) size size e t nb pos (repeat v 1) HP Hpos Hsame) as (A & V).
        -- cbn [repeat length]. lia.
        -- split; [|split]; cbn [Nat.add repeat length].
           ++ exact S1.
           ++ intros k Hk. assert (k = 0) by lia. subst k. rewrite Nat.add_0_r. exact S2.
           ++ intros j Hj. replace j with (S (j - 1)) at 1 by lia. apply S3. lia.
        -- cbn [repeat length]. intros i Hi. apply Blk_blockview in S4. destruct S4 as (_ & _ & R4). apply (R4 i). lia.
        -- exact S6.
        -- right. split; [reflexivity|]. split; [lia|]. split; [exact S5|]. intros j Hj Hnb Hjt.
           destruct (Nat.eq_dec j e) as [->|Hne]; [congruence|]. apply S8; assumption.
        -- intros j Hj. updsimp.
        -- updsimp.
        -- split; [exact A|]. split; [split; [intros ->; lia|lia]|]. split; [reflexivity|exact V].
      * pose proof S as S1. cbn [finish_tmp]. rewrite destroy_alive by (rewrite S1, C1; reflexivity).
        left. intros j. destruct (Nat.eq_dec j t) as [->|Hne]; [rewrite Hmt; updsimp|]. rewrite <- Hsame by exact Hne. rewrite <- S1. updsimp.
  - (* the argument lies before the position: adjustCapacity re-bases it, insert_n reads it after the shift *)
    assert (Hb2 : (pos <=? src) && (src <? size) = false) by (destruct (Nat.leb_spec pos src); [lia|reflexivity]).
    pose proof (adjust_spec tr m th size cap (size + 1) nb HB ltac:(lia) ltac:(lia)) as AD.
    destruct (adjust tr m th size cap (size + 1) nb) as [[o b] c]. destruct o as [m1 th1|m1|x]; [|destruct AD as (-> & _); left; reflexivity|exact AD].
    destruct AD as (B1 & Hc & Hsame1 & HD). pose proof B1 as (_ & Hl1 & Hr1).
    pose proof (insert_n_ref_spec tr m1 th1 (b + pos) (size - pos) (b + src) v) as S.
    assert (S' := S ltac:(intros j Hj; replace j with (b + (j - b)) by lia; apply Hl1; lia)
                    ltac:(replace (b + pos + (size - pos)) with (b + size) by lia; apply Hr1; lia)
                    ltac:(rewrite Hsame1 by lia; exact Hv) ltac:(lia)). clear S.
    assert (HD' : (b = 0 /\ c = cap /\ m1 = m) \/
                  (b = nb /\ cap < c /\ (forall j, j < cap -> m1 j = Out) /\ (forall j, cap <= j -> ~ (nb <= j < nb + c) -> m1 j = m j))).
    { destruct HD as [(-> & -> & _ & -> & _)|(-> & -> & Hlt & _ & _ & F1 & F2)]; [left; auto|right]. pose proof (next_capn_ge cap (size + 1)).
      repeat split; try assumption; lia. }
    assert (Hcase : b = 0 /\ size < cap \/ b = nb /\ size = cap /\ c = next_cap size).
    { destruct HD as [(-> & -> & ? & _)|(-> & -> & Hlt & _)]; [left; split; [reflexivity|lia]|right].
      assert (size = cap) by lia. subst cap. repeat split. }
    destruct (insert_n_ref tr m1 th1 (b + pos) (size - pos) (b + src)) as [m' th'|m'|x]; [| |exact S'].
    + destruct S' as (S1 & S2 & S3). exists b, c.
      destruct (bridge m m1 m' b c size cap e t nb pos (repeat v 1) He Ht Hsc B1 Hsame1 HD' Hpos) as (Q1 & Q2 & Q3 & Q4 & Q5).
      * cbn [repeat length]. lia.
      * split; [|split]; cbn [repeat length].
        -- intros j Hj. apply S3. lia.
        -- intros k Hk. assert (k = 0) by lia. subst k. rewrite Nat.add_0_r. exact S1.
        -- intros j Hj. rewrite S2 by lia. f_equal. lia.
      * cbn [repeat length]. intros j Hj. apply S3. lia.
      * destruct (finish_ok m m m' m' b c size cap e t nb pos (repeat v 1) HP Hpos ltac:(reflexivity)) as (A & V); try assumption.
        -- congruence.
        -- reflexivity.
        -- congruence.
        -- split; [exact A|]. split; [destruct Hcase as [(-> & ?)|(-> & -> & _)]; split; intros; try reflexivity; try assumption; lia|].
           split; [destruct Hcase as [(_ & ?)|(_ & _ & ->)]; [lia|reflexivity]|exact V].
    + destruct Hcase as [(-> & Hroom)|(-> & <- & ->)].
      * left. destruct HD' as [(_ & _ & ->)|(Hnb0 & _)]; [exact S'|lia].
      * right. split; [reflexivity|]. split; [lia|].
        destruct (bridge m m1 m' nb (next_cap size) size size e t nb size [] He Ht Hsc B1 Hsame1 HD' ltac:(lia)) as (Q1 & Q2 & Q3 & Q4 & Q5).
        -- cbn [length]. lia.
        -- split; [|split]; cbn [length].
           ++ intros j Hj. apply S'.
           ++ intros k Hk. lia.
           ++ intros j Hj. lia.
        -- intros j Hj. apply S'.
        -- destruct (finish_ok m m m' m' nb (next_cap size) size size e t nb size [] HP ltac:(lia) ltac:(reflexivity)) as (A & V); try assumption.
           ++ cbn [length]. lia.
           ++ congruence.
           ++ reflexivity.
           ++ congruence.
           ++ cbn [length] in A, V. rewrite Nat.add_0_r in A, V. split; [exact A|]. rewrite V. apply insert_nil. rewrite vals_length. reflexivity.
Qed.

(* within the capacity a throw of insert (position, own element) leaves EVERY slot of the memory as it was *)
Corollary insert_own_strong_incap tr m th size cap pos src e t nb m' :
  OwnPre m size cap e t nb -> pos <= size -> src < size -> size < cap ->
  insert_own tr m th size cap pos src e t nb = Threw m' -> forall j, m' j = m j.
Proof.
  intros HP Hpos Hsrc Hroom E. pose proof (insert_own_spec tr m th size cap pos src e t nb HP Hpos Hsrc) as S. rewrite E in S.
  destruct S as [S|(S & _)]; [exact S|lia].
Qed.

Definition show (o : out) (n : nat) : option (bool * list slot) :=
  match o with Done m _ => Some (false, map m (seq 0 n)) | Threw m => Some (true, map m (seq 0 n)) | Err _ => None end.

(* size 3, capacity 5: slots 0..4 the block, 6 = e, 7 = t.  insert (begin () + 1, v[2]): the copy T (v) is event 0;
   insert (begin () + 2, v[0]): the copy assignment after the shift is event 0 (shift_left restores the block) *)
Example insert_own_ex :
  OwnPre (init_own 3 5) 3 5 6 7 9 /\ 1 <= 3 /\ 2 < 3 /\ 3 < 5 /\
  show (insert_own false (init_own 3 5) (Some 0) 3 5 1 2 6 7 9) 9 = Some (true, [Live 10; Live 11; Live 12; Raw; Raw; Out; Raw; Raw; Out]%Z) /\
  show (insert_own false (init_own 3 5) (Some 1) 3 5 1 2 6 7 9) 9 = Some (false, [Live 10; Live 12; Live 11; Live 12; Raw; Out; Raw; Raw; Out]%Z) /\
  show (insert_own false (init_own 3 5) (Some 0) 3 5 2 0 6 7 9) 9 = Some (true, [Live 10; Live 11; Live 12; Raw; Raw; Out; Raw; Raw; Out]%Z) /\
  show (insert_own false (init_own 3 5) None 3 5 2 0 6 7 9) 9 = Some (false, [Live 10; Live 11; Live 10; Live 12; Raw; Out; Raw; Raw; Out]%Z).
Proof. split; [apply (init_own_pre 3 5); lia|]. repeat split; try lia; vm_compute; reflexivity. Qed.
(* full vector of size 3: 4 = e, 5 = t, new block [7, 12).  insert (begin () + 1, v[2]): T (v) is event 0, the allocation event 1 (the
   temporary e gives its value back to t, both are destroyed); insert (begin () + 2, v[0]): the allocation is event 0, the copy event 1 *)
Example insert_own_grow_ex :
  OwnPre (init_own 3 3) 3 3 4 5 7 /\
  show (insert_own false (init_own 3 3) (Some 1) 3 3 1 2 4 5 7) 13
    = Some (true, [Live 10; Live 11; Live 12; Out; Raw; Raw; Out; Out; Out; Out; Out; Out; Out]%Z) /\
  show (insert_own false (init_own 3 3) (Some 2) 3 3 1 2 4 5 7) 13
    = Some (false, [Out; Out; Out; Out; Raw; Raw; Out; Live 10; Live 12; Live 11; Live 12; Raw; Out]%Z) /\
  show (insert_own false (init_own 3 3) (Some 0) 3 3 2 0 4 5 7) 13
    = Some (true, [Live 10; Live 11; Live 12; Out; Raw; Raw; Out; Out; Out; Out; Out; Out; Out]%Z) /\
  show (insert_own false (init_own 3 3) (Some 1) 3 3 2 0 4 5 7) 13
    = Some (true, [Out; Out; Out; Out; Raw; Raw; Out; Live 10; Live 11; Live 12; Raw; Raw; Out]%Z) /\
  show (insert_own false (init_own 3 3) (Some 2) 3 3 2 0 4 5 7) 13
    = Some (false, [Out; Out; Out; Out; Raw; Raw; Out; Live 10; Live 11; Live 10; Live 12; Raw; Out]%Z).
Proof. split; [apply (init_own_pre 3 3); lia|]. repeat split; vm_compute; reflexivity. Qed.

(* "a throw leaves every slot as before" is FALSE for the full vector when the argument lies before the position and the element copy
   throws (event 1, after the allocation): the old block has been freed, the vector lives in the new one (same elements, capacity 5).
   std::vector leaves capacity, iterators and references untouched there; amc keeps the contents only ([insert_own_spec]) *)
Lemma insert_own_grow_slots_refuted : forall tr, exists m th size cap pos src e t nb m',
  OwnPre m size cap e t nb /\ pos <= size /\ src < size /\ insert_own tr m th size cap pos src e t nb = Threw m' /\
  m 0 = Live 10%Z /\ m' 0 = Out /\ m' nb = Live 10%Z /\ ~ (forall j, m' j = m j).
Proof.
  intros tr. destruct tr.
  all: exists (init_own 3 3), (Some 1), 3, 3, 2, 0, 4, 5, 7; eexists.
  all: split; [apply (init_own_pre 3 3); lia|]; split; [lia|]; split; [lia|]; split; [vm_compute; reflexivity|].
  all: split; [reflexivity|]; split; [reflexivity|]; split; [reflexivity|]; intros H; specialize (H 0); discriminate H.
Qed.

(* ---- 2. insert (position, count, own element) ------------------------------------------------------------------------------------- *)
Lemma nth_repeat (v : Z) c k : k < c -> nth k (repeat v c) 0%Z = v.
Proof. apply Slots.nth_repeat'. Qed.

(* the ordinary path after adjustCapacity, the reference being the temporary t (tmp = true) or the re-based own element before pos *)
Definition cnt_path (tr tmp : bool) (mt : mem) (th : option nat) (size cap pos count src t nb : nat) : out :=
  match adjust tr mt th size cap (size + count) nb with
  | (Done m2 th2, b, _) => insert_cnt_ref tr m2 th2 (b + size) (b + pos) count (if tmp then t else b + src)
  | (o, _, _) => o end.
Lemma cnt_path_spec (tr tmp : bool) mt th size cap pos count src e t nb v :
  Blk mt 0 size cap -> cap <= e < nb -> cap <= t < nb -> pos <= size -> 0 < count ->
  (if tmp return Prop then mt t = Live v else src < pos /\ mt src = Live v) ->
  match cnt_path tr tmp mt th size cap pos count src t nb with
  | Done m' _ => exists b c, size + count <= c /\ (b = 0 <-> size + count <= cap) /\ (b = nb -> c = next_capn cap (size + count)) /\
                   Inserted mt m' 0 b size pos (repeat v count) /\
                   (forall i, size + count <= i < c -> m' (b + i) = Raw) /\ m' e = mt e /\ m' t = mt t /\
                   ((b = 0 /\ c = cap /\ (forall j, cap <= j -> j <> t -> m' j = mt j)) \/
                    (b = nb /\ cap < c /\ (forall j, j < cap -> m' j = Out) /\ (forall j, cap <= j -> ~ (nb <= j < nb + c) -> j <> t -> m' j = mt j)))
  | Threw m' => (forall j, m' j = mt j) \/
                (exists c, size + count <= c /\ cap < size + count /\ c = next_capn cap (size + count) /\
                   Inserted mt m' 0 nb size size [] /\ (forall i, size <= i < c -> m' (nb + i) = Raw) /\
                   m' e = mt e /\ m' t = mt t /\ cap < c /\ (forall j, j < cap -> m' j = Out) /\
                   (forall j, cap <= j -> ~ (nb <= j < nb + c) -> j <> t -> m' j = mt j))
  | Err _ => False end.
Proof.
  intros HB He Ht Hpos Hcnt Href. pose proof HB as (Hsc & Hl & Hr). unfold cnt_path.
  pose proof (adjust_spec tr mt th size cap (size + count) nb HB ltac:(lia) ltac:(lia)) as AD.
  destruct (adjust tr mt th size cap (size + count) nb) as [[o b] c]. destruct o as [m2 th2|m2|x]; [|destruct AD as (-> & _); left; reflexivity|exact AD].
  destruct AD as (B2 & Hc & Hsame2 & HD). pose proof B2 as (_ & Hl2 & Hr2).
  assert (HD' : (b = 0 /\ c = cap /\ m2 = mt) \/
                (b = nb /\ cap < c /\ (forall j, j < cap -> m2 j = Out) /\ (forall j, cap <= j -> ~ (nb <= j < nb + c) -> m2 j = mt j))).
  { destruct HD as [(-> & -> & _ & -> & _)|(-> & -> & Hlt & _ & _ & F1 & F2)]; [left; auto|right]. pose proof (next_capn_ge cap (size + count)).
    repeat split; try assumption; lia. }
  assert (Hb : b = 0 /\ c = cap \/ b = nb /\ cap < c) by (destruct HD' as [(-> & -> & _)|(-> & ? & _)]; [left|right]; split; auto).
  assert (Hgrown : (b = 0 <-> size + count <= cap) /\ (b = nb -> c = next_capn cap (size + count) /\ cap < size + count)).
  { destruct HD as [(-> & -> & ? & _)|(-> & -> & ? & _)]; split; try split; intros; try reflexivity; try assumption; lia. }
  set (a := if tmp then t else b + src).
  assert (Ha : m2 a = Live v /\ ~ (b + pos <= a < b + size + count)).
  { unfold a. destruct tmp.
    - split; [|destruct Hb as [(-> & ->)|(-> & _)]; lia].
      destruct HD' as [(_ & _ & ->)|(-> & _ & _ & F)]; [exact Href|]. rewrite F by lia. exact Href.
    - destruct Href as (Hsp & Hv). split; [|lia]. rewrite Hsame2 by lia. exact Hv. }
  destruct Ha as (Ha1 & Ha2).
  assert (L1 : forall j, b + pos <= j < b + size -> is_live (m2 j) = true)
    by (intros j Hj; replace j with (b + (j - b)) by lia; apply Hl2; lia).
  assert (L2 : forall j, b + size <= j < b + size + count -> m2 j = Raw)
    by (intros j Hj; replace j with (b + (j - b)) by lia; apply Hr2; lia).
  rewrite (insert_cnt_ref_eq tr m2 th2 (b + size) (b + pos) count a v ltac:(lia) L1 L2 Ha1 Ha2).
  pose proof (insert_cnt_val_local tr m2 th2 (b + size) (b + pos) count v ltac:(lia) L1 L2) as S.
  destruct (insert_cnt_val tr m2 th2 (b + size) (b + pos) count v) as [m' th'|m'|x]; [| |exact S].
  - destruct S as (F1 & F2 & F3). exists b, c. split; [exact Hc|]. split; [apply Hgrown|]. split; [apply Hgrown|].
    destruct (bridge mt m2 m' b c size cap e t nb pos (repeat v count) He Ht Hsc B2 Hsame2 HD' Hpos) as (Q1 & Q2 & Q3 & Q4 & Q5).
    + rewrite repeat_length. exact Hc.
    + unfold Inserted. rewrite repeat_length. split; [|split].
      * intros j Hj. apply F3. lia.
      * intros k Hk. rewrite nth_repeat by exact Hk. apply F1. lia.
      * intros j Hj. rewrite F2 by lia. f_equal. lia.
    + rewrite repeat_length. intros j Hj. apply F3. lia.
    + rewrite repeat_length in Q2. auto.
  - destruct HD' as [(-> & -> & ->)|(-> & Hcc & G1 & G2)]; [left; exact S|right].
    exists c. split; [exact Hc|]. destruct Hgrown as (_ & Hg). destruct (Hg eq_refl) as (Hg1 & Hg2). split; [exact Hg2|]. split; [exact Hg1|].
    destruct (bridge mt m2 m' nb c size cap e t nb size [] He Ht Hsc B2 Hsame2 ltac:(right; auto) ltac:(lia)) as (Q1 & Q2 & Q3 & Q4 & Q5).
    + cbn [length]. lia.
    + split; [|split]; cbn [length]; [intros j Hj; apply S|intros; lia|intros; lia].
    + intros j Hj. apply S.
    + cbn [length] in Q2. destruct Q5 as [(Hnb0 & _)|(_ & _ & Q5 & Q6)]; [lia|].
      split; [exact Q1|]. split; [intros i Hi; apply Q2; lia|]. auto.
Qed.

(* the vector grew, then the copy threw and the handler put the elements back: same elements, in the new block *)
Lemma threw_grown m mt m' m'' c size cap e t nb :
  OwnPre m size cap e t nb -> (forall j, j <> t -> mt j = m j) -> size <= c ->
  Inserted mt m' 0 nb size size [] -> (forall i, size <= i < c -> m' (nb + i) = Raw) -> m' e = mt e -> cap < c ->
  (forall j, j < cap -> m' j = Out) -> (forall j, cap <= j -> ~ (nb <= j < nb + c) -> j <> t -> m' j = mt j) ->
  (forall j, j <> t -> m'' j = m' j) -> m'' t = Raw ->
  After m m'' cap e t nb nb c size /\ vals m'' nb size = vals m 0 size.
Proof.
  intros HP Hmt Hc HI Hraw He Hcc F1 F2 Hm'' Ht. pose proof HP as (_ & Hecap & Htcap & Het & Hme & _).
  destruct (finish_ok m mt m' m'' nb c size cap e t nb size [] HP ltac:(lia) Hmt) as (A & V); try assumption.
  - cbn [length]. lia.
  - cbn [length]. intros i Hi. apply Hraw. lia.
  - rewrite He. rewrite Hmt by lia. exact Hme.
  - right. auto.
  - cbn [length] in A, V. rewrite Nat.add_0_r in A, V. split; [exact A|]. rewrite V. apply insert_nil. rewrite vals_length. reflexivity.
Qed.

(* From the vector invariant, for EVERY size, capacity, position, count, source index and throw index:
   never a lifetime error; completion: firstn pos l ++ repeat (nth src l) count ++ skipn pos l, in the old block when size + count fits in
   the capacity, in a new block of capacity SafeNextCapacity otherwise; the temporary is gone;
   a throw: every slot as before, or - only when the vector had to grow and a copy (not the allocation) threw - the same elements in
   the new block. *)
Theorem insert_cnt_own_spec tr m th size cap pos count src e t nb :
  OwnPre m size cap e t nb -> pos <= size -> src < size ->
  match insert_cnt_own tr m th size cap pos count src t nb with
  | Done m' _ => exists b' c', After m m' cap e t nb b' c' (size + count) /\ (b' = 0 <-> size + count <= cap) /\
                   (b' = nb -> c' = next_capn cap (size + count)) /\
                   vals m' b' (size + count) = Slots.spec_insert (vals m 0 size) pos count (nth src (vals m 0 size) 0%Z)
  | Threw m' => (forall j, m' j = m j) \/
                (cap < size + count /\ After m m' cap e t nb nb (next_capn cap (size + count)) size /\ vals m' nb size = vals m 0 size)
  | Err _ => False end.
Proof.
  intros HP Hpos Hsrc. pose proof (OwnPre_Blk _ _ _ _ _ _ HP) as HB. pose proof HB as (Hsc & Hl & Hr).
  pose proof HP as (HI & He & Ht & Het & Hme & Hmt & Hout).
  pose proof (live_val _ (Hl src Hsrc)) as Hv. cbn [Nat.add] in Hv. set (v := val (m src)) in *.
  assert (Hnth : nth src (vals m 0 size) 0%Z = v) by (rewrite vals_nth by exact Hsrc; reflexivity). rewrite Hnth.
  rewrite spec_insert_repeat. unfold insert_cnt_own.
  destruct (Nat.ltb_spec 0 count) as [Hcnt|Hz]; [destruct (Nat.leb_spec pos src) as [Hle|Hgt]; [destruct (Nat.ltb_spec src size) as [_|]; [|lia]|]|]; cbn [andb].
  - (* T (v), then the ordinary path with the temporary as the value *)
    pose proof (construct_arg_spec m th t src Lvalue v Hmt Hv) as C.
    destruct (construct_arg m th t src Lvalue) as [mt th1|mt|x]; [|destruct C as (_ & _ & ->); left; reflexivity|exact C].
    destruct C as (C1 & C2 & C3 & _). cbn [arg_after] in C2.
    assert (Hsame : forall j, j <> t -> mt j = m j).
    { intros j Hj. destruct (Nat.eq_dec j src) as [->|]; [congruence|]. apply C3; assumption. }
    destruct (OwnPre_tmp m size cap e t nb v mt HP C1 Hsame) as (HIt & Hmte & Houtt). apply Blk_blockview in HIt.
    change (match adjust tr mt th1 size cap (size + count) nb with
            | (Done m2 th2, b, _) => insert_cnt_ref tr m2 th2 (b + size) (b + pos) count t
            | (o, _, _) => o end) with (cnt_path tr true mt th1 size cap pos count src t nb).
    pose proof (cnt_path_spec tr true mt th1 size cap pos count src e t nb v HIt He Ht Hpos Hcnt C1) as S.
    destruct (cnt_path tr true mt th1 size cap pos count src t nb) as [m' th'|m'|x]; [| |exact S]; cbn [finish_tmp].
    + destruct S as (b & c & Hc & Hb0 & Hbn & Q1 & Q2 & Q3 & Q4 & Q5). rewrite destroy_alive by (rewrite Q4, C1; reflexivity).
      exists b, c. rewrite <- (repeat_length v count) in Hc, Q2.
      destruct (finish_ok m mt m' (upd m' t Raw) b c size cap e t nb pos (repeat v count) HP Hpos Hsame Hc Q1 Q2) as (A & V).
      * rewrite Q3. exact Hmte.
      * exact Q5.
      * intros j Hj. updsimp.
      * updsimp.
      * rewrite repeat_length in A, V. auto.
    + destruct S as [S|(c & Hc & Hg & -> & Q1 & Q2 & Q3 & Q4 & Hcc & F1 & F2)].
      * rewrite destroy_alive by (rewrite S, C1; reflexivity). left. intros j.
        destruct (Nat.eq_dec j t) as [->|Hne]; [rewrite Hmt; updsimp|]. rewrite <- Hsame by exact Hne. rewrite <- S. updsimp.
      * rewrite destroy_alive by (rewrite Q4, C1; reflexivity). right. split; [exact Hg|].
        apply (threw_grown m mt m' (upd m' t Raw) _ size cap e t nb HP Hsame); try assumption; [lia|intros j Hj; updsimp|updsimp].
  - (* the argument lies before the position: no temporary *)
    assert (Hb2 : (pos <=? src) && (src <? size) = false) by (destruct (Nat.leb_spec pos src); [lia|reflexivity]).
    destruct (Nat.eqb_spec count 0) as [|_]; [lia|].
    change (match adjust tr m th size cap (size + count) nb with
            | (Done m1 th1, b, _) => insert_cnt_ref tr m1 th1 (b + size) (b + pos) count (b + src)
            | (o, _, _) => o end) with (cnt_path tr false m th size cap pos count src t nb).
    pose proof (cnt_path_spec tr false m th size cap pos count src e t nb v HB He Ht Hpos Hcnt (conj Hgt Hv)) as S.
    destruct (cnt_path tr false m th size cap pos count src t nb) as [m' th'|m'|x]; [| |exact S].
    + destruct S as (b & c & Hc & Hb0 & Hbn & Q1 & Q2 & Q3 & Q4 & Q5). exists b, c. rewrite <- (repeat_length v count) in Hc, Q2.
      destruct (finish_ok m m m' m' b c size cap e t nb pos (repeat v count) HP Hpos ltac:(reflexivity) Hc Q1 Q2) as (A & V).
      * congruence.
      * exact Q5.
      * reflexivity.
      * congruence.
      * rewrite repeat_length in A, V. auto.
    + destruct S as [S|(c & Hc & Hg & -> & Q1 & Q2 & Q3 & Q4 & Hcc & F1 & F2)]; [left; exact S|right]. split; [exact Hg|].
      apply (threw_grown m m m' m' _ size cap e t nb HP ltac:(reflexivity)); try assumption; [lia|reflexivity|congruence].
  - (* count == 0: nothing happens *)
    assert (count = 0) by lia. subst count. cbn [Nat.eqb]. exists 0, cap.
    destruct (finish_ok m m m m 0 cap size cap e t nb pos (repeat v 0) HP Hpos ltac:(reflexivity)) as (A & V).
    + cbn [repeat length]. lia.
    + split; [|split]; cbn [repeat length]; [reflexivity|intros; lia|intros j Hj; f_equal; lia].
    + cbn [repeat length Nat.add]. intros i Hi. apply Hr. lia.
    + exact Hme.
    + left. auto.
    + reflexivity.
    + exact Hmt.
    + split; [exact A|]. split; [split; intros; [lia|reflexivity]|]. split; [lia|exact V].
Qed.

(* when size + count fits in the capacity a throw of insert (position, count, own element) leaves EVERY slot as it was
   (the repaired handler: vec::unshift_right; the temporary T (v) destroyed) *)
Corollary insert_cnt_own_strong_incap tr m th size cap pos count src e t nb m' :
  OwnPre m size cap e t nb -> pos <= size -> src < size -> size + count <= cap ->
  insert_cnt_own tr m th size cap pos count src t nb = Threw m' -> forall j, m' j = m j.
Proof.
  intros HP Hpos Hsrc Hroom E. pose proof (insert_cnt_own_spec tr m th size cap pos count src e t nb HP Hpos Hsrc) as S. rewrite E in S.
  destruct S as [S|(S & _)]; [exact S|lia].
Qed.

(* size 3, capacity 6 (slots 0..5 the block, 7 = e, 8 = t): insert (begin () + 1, 2, v[2]): T (v) is event 0, the two copy assignments of
   fill_after_shift events 1 and 2 (n = 2 = count); insert (begin () + 2, 2, v[0]), n = 1 < count: assignment event 0, construction event 1 *)
Example insert_cnt_own_ex :
  OwnPre (init_own 3 6) 3 6 7 8 10 /\
  show (insert_cnt_own false (init_own 3 6) (Some 0) 3 6 1 2 2 8 10) 10 = Some (true, [Live 10; Live 11; Live 12; Raw; Raw; Raw; Out; Raw; Raw; Out]%Z) /\
  show (insert_cnt_own false (init_own 3 6) (Some 2) 3 6 1 2 2 8 10) 10 = Some (true, [Live 10; Live 11; Live 12; Raw; Raw; Raw; Out; Raw; Raw; Out]%Z) /\
  show (insert_cnt_own false (init_own 3 6) (Some 3) 3 6 1 2 2 8 10) 10 = Some (false, [Live 10; Live 12; Live 12; Live 11; Live 12; Raw; Out; Raw; Raw; Out]%Z) /\
  show (insert_cnt_own false (init_own 3 6) (Some 1) 3 6 2 2 0 8 10) 10 = Some (true, [Live 10; Live 11; Live 12; Raw; Raw; Raw; Out; Raw; Raw; Out]%Z) /\
  show (insert_cnt_own false (init_own 3 6) (Some 2) 3 6 2 2 0 8 10) 10 = Some (false, [Live 10; Live 11; Live 10; Live 10; Live 12; Raw; Out; Raw; Raw; Out]%Z).
Proof. split; [apply (init_own_pre 3 6); lia|]. repeat split; vm_compute; reflexivity. Qed.
(* size 3, capacity 4, count 2: the vector grows to max ((3 * 4 + 1) / 2, 5) = 6 slots at [8, 14); T (v) event 0, allocation event 1,
   the copies from event 2 on: a failed copy leaves the elements in the NEW block *)
Example insert_cnt_own_grow_ex :
  OwnPre (init_own 3 4) 3 4 5 6 8 /\ next_capn 4 5 = 6 /\
  show (insert_cnt_own false (init_own 3 4) (Some 1) 3 4 1 2 2 6 8) 15
    = Some (true, [Live 10; Live 11; Live 12; Raw; Out; Raw; Raw; Out; Out; Out; Out; Out; Out; Out; Out]%Z) /\
  show (insert_cnt_own false (init_own 3 4) (Some 3) 3 4 1 2 2 6 8) 15
    = Some (true, [Out; Out; Out; Out; Out; Raw; Raw; Out; Live 10; Live 11; Live 12; Raw; Raw; Raw; Out]%Z) /\
  show (insert_cnt_own false (init_own 3 4) (Some 4) 3 4 1 2 2 6 8) 15
    = Some (false, [Out; Out; Out; Out; Out; Raw; Raw; Out; Live 10; Live 12; Live 12; Live 11; Live 12; Raw; Out]%Z).
Proof. split; [apply (init_own_pre 3 4); lia|]. repeat split; vm_compute; reflexivity. Qed.
Lemma insert_cnt_own_grow_slots_refuted : forall tr, exists m th size cap pos count src e t nb m',
  OwnPre m size cap e t nb /\ pos <= size /\ src < size /\ insert_cnt_own tr m th size cap pos count src t nb = Threw m' /\
  m 0 = Live 10%Z /\ m' 0 = Out /\ m' nb = Live 10%Z /\ ~ (forall j, m' j = m j).
Proof.
  intros tr. destruct tr.
  all: exists (init_own 3 4), (Some 3), 3, 4, 1, 2, 2, 5, 6, 8; eexists.
  all: split; [apply (init_own_pre 3 4); lia|]; split; [lia|]; split; [lia|]; split; [vm_compute; reflexivity|].
  all: split; [reflexivity|]; split; [reflexivity|]; split; [reflexivity|]; intros H; specialize (H 0); discriminate H.
Qed.

(* ---- 3. push_back (own element) / emplace_back (own element) ---------------------------------------------------------------------- *)
Lemma insert_cnt_ref_end_one tr m th p a : insert_cnt_ref tr m th p p 1 a = copy_construct_ref m th p a.
Proof.
  unfold insert_cnt_ref. cbn [Nat.eqb]. rewrite Nat.sub_diag. cbn [Nat.eqb]. unfold uninit_fill_n_ref. cbn [uninit_fill_loop_ref].
  destruct (copy_construct_ref m th p a) as [m1 th1|m1|x]; try reflexivity. rewrite Nat.sub_diag. reflexivity.
Qed.
(* push_back (v) is insert (end (), 1, v) *)
Lemma push_back_as_insert tr m th size cap src t nb : src < size ->
  push_back_own tr m th size cap src nb = insert_cnt_own tr m th size cap size 1 src t nb.
Proof.
  intros Hs. unfold push_back_own, insert_cnt_own. destruct (Nat.leb_spec size src); [lia|]. cbn [Nat.ltb Nat.leb andb Nat.eqb].
  destruct (adjust tr m th size cap (size + 1) nb) as [[o b] c]. destruct o; try reflexivity. rewrite insert_cnt_ref_end_one. reflexivity.
Qed.
Lemma spec_insert_end (a : list Z) v : Slots.spec_insert a (length a) 1 v = a ++ [v].
Proof. unfold Slots.spec_insert. rewrite firstn_all, skipn_all, app_nil_r. reflexivity. Qed.
(* From the vector invariant, for EVERY size, capacity, source index and throw index: never a lifetime error; completion: l ++ [nth src l];
   a throw: every slot as before - or, when the vector was full and the COPY threw (push_back copies after the reallocation), the same
   elements in the new block *)
Theorem push_back_own_spec tr m th size cap src e t nb :
  OwnPre m size cap e t nb -> src < size ->
  match push_back_own tr m th size cap src nb with
  | Done m' _ => exists b' c', After m m' cap e t nb b' c' (size + 1) /\ (b' = 0 <-> size < cap) /\ (b' = nb -> c' = next_cap size) /\
                   vals m' b' (size + 1) = vals m 0 size ++ [nth src (vals m 0 size) 0%Z]
  | Threw m' => (forall j, m' j = m j) \/
                (size = cap /\ After m m' cap e t nb nb (next_cap size) size /\ vals m' nb size = vals m 0 size)
  | Err _ => False end.
Proof.
  intros HP Hsrc. rewrite (push_back_as_insert tr m th size cap src t nb Hsrc).
  pose proof (insert_cnt_own_spec tr m th size cap size 1 src e t nb HP (le_n size) Hsrc) as S.
  pose proof (OwnPre_Blk _ _ _ _ _ _ HP) as (Hsc & _).
  destruct (insert_cnt_own tr m th size cap size 1 src t nb) as [m' th'|m'|x]; [| |exact S].
  - destruct S as (b' & c' & A & Hb & Hc & V). exists b', c'. split; [exact A|]. split; [split; intros; [lia|apply Hb; lia]|]. split.
    + intros Hn. rewrite (Hc Hn). assert (~ (size + 1 <= cap)) by (intros Q; apply Hb in Q; destruct HP as (_ & ? & _); lia).
      assert (cap = size) by lia. subst cap. reflexivity.
    + rewrite V. rewrite <- (vals_length m 0 size) at 2. apply spec_insert_end.
  - destruct S as [S|(Hg & A & V)]; [left; exact S|right]. assert (cap = size) by lia. subst cap. split; [reflexivity|]. split; [exact A|exact V].
Qed.
Corollary push_back_own_strong_incap tr m th size cap src e t nb m' :
  OwnPre m size cap e t nb -> src < size -> size < cap -> push_back_own tr m th size cap src nb = Threw m' -> forall j, m' j = m j.
Proof.
  intros HP Hsrc Hroom E. pose proof (push_back_own_spec tr m th size cap src e t nb HP Hsrc) as S. rewrite E in S.
  destruct S as [S|(S & _)]; [exact S|lia].
Qed.
(* full vector of size 3 (4 = e, 5 = t, new block [7, 12)): push_back (v[1]): the allocation is event 0, the copy event 1 *)
Example push_back_own_ex :
  OwnPre (init_own 3 3) 3 3 4 5 7 /\ OwnPre (init_own 3 4) 3 4 5 6 8 /\
  show (push_back_own false (init_own 3 3) (Some 0) 3 3 1 7) 13 = Some (true, [Live 10; Live 11; Live 12; Out; Raw; Raw; Out; Out; Out; Out; Out; Out; Out]%Z) /\
  show (push_back_own false (init_own 3 3) (Some 1) 3 3 1 7) 13 = Some (true, [Out; Out; Out; Out; Raw; Raw; Out; Live 10; Live 11; Live 12; Raw; Raw; Out]%Z) /\
  show (push_back_own false (init_own 3 3) (Some 2) 3 3 1 7) 13 = Some (false, [Out; Out; Out; Out; Raw; Raw; Out; Live 10; Live 11; Live 12; Live 11; Raw; Out]%Z) /\
  show (push_back_own false (init_own 3 4) (Some 0) 3 4 1 8) 8 = Some (true, [Live 10; Live 11; Live 12; Raw; Out; Raw; Raw; Out]%Z) /\
  show (push_back_own false (init_own 3 4) (Some 1) 3 4 1 8) 8 = Some (false, [Live 10; Live 11; Live 12; Live 11; Out; Raw; Raw; Out]%Z).
Proof. split; [apply (init_own_pre 3 3); lia|]. split; [apply (init_own_pre 3 4); lia|]. repeat split; vm_compute; reflexivity. Qed.
Lemma push_back_own_grow_slots_refuted : forall tr, exists m th size cap src e t nb m',
  OwnPre m size cap e t nb /\ src < size /\ push_back_own tr m th size cap src nb = Threw m' /\
  m 0 = Live 10%Z /\ m' 0 = Out /\ m' nb = Live 10%Z /\ ~ (forall j, m' j = m j).
Proof.
  intros tr. destruct tr.
  all: exists (init_own 3 3), (Some 1), 3, 3, 1, 4, 5, 7; eexists.
  all: split; [apply (init_own_pre 3 3); lia|]; split; [lia|]; split; [vm_compute; reflexivity|].
  all: split; [reflexivity|]; split; [reflexivity|]; split; [reflexivity|]; intros H; specialize (H 0); discriminate H.
Qed.

(* emplace_back (v), v an own element, on a full vector (EmplaceGrow.emplace_back_grow, argument slot inside the old block): the
   temporary e is built BEFORE the reallocation, so a throw (the copy, or the allocation) leaves EVERY slot as it was - unlike push_back *)
Theorem emplace_back_own_grow_spec m th size src e t nb :
  OwnPre m size size e t nb -> src < size ->
  match emplace_back_grow true m th size e src Lvalue nb with
  | Done m' _ => After m m' size e t nb nb (next_cap size) (size + 1) /\ vals m' nb (size + 1) = vals m 0 size ++ [nth src (vals m 0 size) 0%Z]
  | Threw m' => forall j, m' j = m j
  | Err _ => False end.
Proof.
  intros HP Hsrc. pose proof (OwnPre_Blk _ _ _ _ _ _ HP) as HB. pose proof HB as (Hsc & Hl & Hr).
  pose proof HP as (HI & He & Ht & Het & Hme & Hmt & Hout).
  pose proof (live_val _ (Hl src Hsrc)) as Hv. cbn [Nat.add] in Hv. set (v := val (m src)) in *.
  assert (Hnth : nth src (vals m 0 size) 0%Z = v) by (rewrite vals_nth by exact Hsrc; reflexivity). rewrite Hnth.
  pose proof (emplace_grow_throw_strong m th size size e src Lvalue nb v) as TS. rewrite <- emplace_back_grow_eq in TS.
  unfold emplace_back_grow in *.
  pose proof (construct_arg_spec m th e src Lvalue v Hme Hv) as C.
  destruct (construct_arg m th e src Lvalue) as [m1 th1|m1|x]; [|destruct C as (_ & _ & ->); reflexivity|exact C].
  destruct C as (C1 & C2 & C3 & _). cbn [arg_after] in C2.
  assert (Hsame : forall j, j <> e -> m1 j = m j).
  { intros j Hj. destruct (Nat.eq_dec j src) as [->|]; [congruence|]. apply C3; assumption. }
  pose proof (next_cap_gt size) as Hnc.
  pose proof (grow_spec m1 th1 size size nb (next_cap size)) as G.
  assert (Hal : forall j, j < size -> alive (m1 j) = true) by (intros j Hj; rewrite Hsame by lia; apply live_alive; apply (Hl j Hj)).
  specialize (G Hal (le_n size) ltac:(lia) ltac:(lia)).
  destruct (grow m1 th1 size size nb (next_cap size)) as [m2 th2|m2|x]; [| |exact G].
  - destruct G as (_ & _ & G1 & G2 & G3 & G4).
    assert (He2 : m2 e = Live v) by (rewrite G4 by lia; exact C1).
    unfold relocate_at. rewrite (mv_construct_ok m2 (nb + size) e) by (rewrite ?He2; auto; apply G2; lia).
    rewrite destroy_ok by updsimp.
    set (m3 := upd (upd (upd m2 (nb + size) (m2 e)) e Moved) e Raw).
    destruct (finish_ok m m m3 m3 nb (next_cap size) size size e t nb size [v] HP (le_n size) ltac:(reflexivity)) as (A & V).
    + cbn [length]. lia.
    + split; [|split]; cbn [length].
      * intros j Hj. unfold m3. cbn [Nat.add]. rewrite <- (Hsame j) by lia. rewrite <- G1 by lia. updsimp.
      * intros k Hk. assert (k = 0) by lia. subst k. rewrite Nat.add_0_r. cbn [nth]. unfold m3. rewrite <- He2. updsimp.
      * intros j Hj. lia.
    + cbn [length]. intros i Hi. unfold m3. rewrite <- (G2 i) by lia. updsimp.
    + unfold m3. updsimp.
    + right. split; [reflexivity|]. split; [lia|]. split.
      * intros j Hj. unfold m3. rewrite <- (G3 j Hj). updsimp.
      * intros j Hj Hnb Hjt. destruct (Nat.eq_dec j e) as [->|Hne]; [unfold m3; rewrite Hme; updsimp|].
        rewrite <- Hsame by exact Hne. rewrite <- G4 by assumption. unfold m3. updsimp.
    + reflexivity.
    + unfold m3. rewrite <- Hmt. rewrite <- (Hsame t) by lia. rewrite <- (G4 t) by lia. updsimp.
    + cbn [length] in A, V. split; [exact A|]. rewrite V. rewrite <- (vals_length m 0 size) at 2. rewrite <- spec_insert_end. reflexivity.
  - destruct (catch_grow true m2 e src Lvalue) as [m4 th4|m4|x] eqn:E4.
    + destruct G as (_ & ->). unfold catch_grow, give_back in E4. destruct (destroy m1 e); discriminate.
    + apply (TS m4 Hme Hv eq_refl).
    + destruct G as (_ & ->). unfold catch_grow, give_back in E4. rewrite destroy_ok in E4 by (rewrite C1; reflexivity). discriminate.
Qed.
Example emplace_back_own_grow_ex :
  OwnPre (init_own 3 3) 3 3 4 5 7 /\
  show (emplace_back_grow true (init_own 3 3) (Some 0) 3 4 1 Lvalue 7) 13 = Some (true, [Live 10; Live 11; Live 12; Out; Raw; Raw; Out; Out; Out; Out; Out; Out; Out]%Z) /\
  show (emplace_back_grow true (init_own 3 3) (Some 1) 3 4 1 Lvalue 7) 13 = Some (true, [Live 10; Live 11; Live 12; Out; Raw; Raw; Out; Out; Out; Out; Out; Out; Out]%Z) /\
  show (emplace_back_grow true (init_own 3 3) (Some 2) 3 4 1 Lvalue 7) 13 = Some (false, [Out; Out; Out; Out; Raw; Raw; Out; Live 10; Live 11; Live 12; Live 11; Raw; Out]%Z).
Proof. split; [apply (init_own_pre 3 3); lia|]. repeat split; vm_compute; reflexivity. Qed.

(* the trivially relocatable flavour (tr = true) on the same cases: the shifted slots are vacated (Raw) instead of moved-from, the
   relocation of the temporary needs no destructor; the outcomes are the same lists *)
Example own_tr_ex :
  show (insert_own true (init_own 3 5) (Some 0) 3 5 1 2 6 7 9) 9 = Some (true, [Live 10; Live 11; Live 12; Raw; Raw; Out; Raw; Raw; Out]%Z) /\
  show (insert_own true (init_own 3 5) (Some 1) 3 5 1 2 6 7 9) 9 = Some (false, [Live 10; Live 12; Live 11; Live 12; Raw; Out; Raw; Raw; Out]%Z) /\
  show (insert_own true (init_own 3 5) (Some 0) 3 5 2 0 6 7 9) 9 = Some (true, [Live 10; Live 11; Live 12; Raw; Raw; Out; Raw; Raw; Out]%Z) /\
  show (insert_own true (init_own 3 3) (Some 1) 3 3 1 2 4 5 7) 13
    = Some (true, [Live 10; Live 11; Live 12; Out; Raw; Raw; Out; Out; Out; Out; Out; Out; Out]%Z) /\
  show (insert_own true (init_own 3 3) (Some 1) 3 3 2 0 4 5 7) 13
    = Some (true, [Out; Out; Out; Out; Raw; Raw; Out; Live 10; Live 11; Live 12; Raw; Raw; Out]%Z) /\
  show (insert_own true (init_own 3 3) (Some 2) 3 3 1 2 4 5 7) 13
    = Some (false, [Out; Out; Out; Out; Raw; Raw; Out; Live 10; Live 12; Live 11; Live 12; Raw; Out]%Z) /\
  show (insert_cnt_own true (init_own 3 6) (Some 2) 3 6 1 2 2 8 10) 10 = Some (true, [Live 10; Live 11; Live 12; Raw; Raw; Raw; Out; Raw; Raw; Out]%Z) /\
  show (insert_cnt_own true (init_own 3 6) (Some 3) 3 6 1 2 2 8 10) 10 = Some (false, [Live 10; Live 12; Live 12; Live 11; Live 12; Raw; Out; Raw; Raw; Out]%Z) /\
  show (push_back_own true (init_own 3 3) (Some 1) 3 3 1 7) 13 = Some (true, [Out; Out; Out; Out; Raw; Raw; Out; Live 10; Live 11; Live 12; Raw; Raw; Out]%Z).
Proof. repeat split; vm_compute; reflexivity. Qed.

(* ---- 4. insert (position, first, last) with single-pass iterators, within the capacity ------------------------------------------------ *)
(* appending one by one with the roll-back of append_range IS std::uninitialized_copy_n with its roll-back (SlotsTR.uninit_copy_loop) *)
Lemma append_loop_copy : forall l m th first cur,
  match append_loop m th cur l with
  | (Threw m1, c) => match destroy_n m1 first (c - first) with inl m2 => Threw m2 | inr x => Err x end
  | (o, _) => o end = SlotsTR.uninit_copy_loop m th first cur l.
Proof.
  induction l as [|x l IH]; intros m th first cur; cbn [append_loop SlotsTR.uninit_copy_loop]; [reflexivity|].
  destruct (copy_construct m th cur x) as [m1 th1|m1|e]; [apply IH|reflexivity|reflexivity].
Qed.
Lemma append_range_in_copy m th size l : append_range_in m th size l = SlotsTR.uninit_copy_n m th size l.
Proof. unfold append_range_in, SlotsTR.uninit_copy_n. apply append_loop_copy. Qed.

Lemma rotate_ok m first mid last : first <= mid <= last -> (forall j, first <= j < last -> alive (m j) = true) ->
  exists m', rotate m first mid last = inl m' /\
    (forall j, first <= j < first + (last - mid) -> m' j = m (j + (mid - first))) /\
    (forall j, first + (last - mid) <= j < last -> m' j = m (j - (last - mid))) /\
    (forall j, ~ (first <= j < last) -> m' j = m j).
Proof.
  intros Hord Ha. unfold rotate.
  assert (F : forallb (fun j => alive (m j)) (seq first (last - first)) = true).
  { apply forallb_forall. intros j Hj. apply in_seq in Hj. apply Ha. lia. }
  rewrite F. eexists. split; [reflexivity|]. split; [|split]; intros j Hj; cbv beta.
  - destruct (Nat.leb_spec first j); [|lia]. destruct (Nat.ltb_spec j last); [|lia]. cbn [andb].
    destruct (Nat.ltb_spec j (first + (last - mid))); [reflexivity|lia].
  - destruct (Nat.leb_spec first j); [|lia]. destruct (Nat.ltb_spec j last); [|lia]. cbn [andb].
    destruct (Nat.ltb_spec j (first + (last - mid))); [lia|reflexivity].
  - destruct (Nat.leb_spec first j); destruct (Nat.ltb_spec j last); cbn [andb]; try reflexivity. lia.
Qed.

(* From Inv m size cap, for EVERY size, capacity, position, list of values and throw index (size + length l <= cap):
   never a lifetime error; completion: firstn pos a ++ l ++ skipn pos a, Inv for size + length l;
   a throw (the k-th element copy): the roll-back of append_range destroyed the k elements appended so far and reset the size:
   EVERY slot is as before (std::rotate is not reached).
   Beyond the capacity (not modelled here): each emplace_back that finds the vector full grows it first (EmplaceGrow.emplace_back_grow);
   the roll-back then restores elements and size in the block of that moment - the capacity stays grown (see SLOTDRV.md, probe). *)
Theorem insert_range_in_spec m th size cap pos l :
  Inv m size cap -> pos <= size -> size + length l <= cap ->
  match insert_range_in m th size pos l with
  | Done m' _ => Inv m' (size + length l) cap /\ vals m' 0 (size + length l) = SlotsTR.spec_insert_range (vals m 0 size) pos l
  | Threw m' => forall j, m' j = m j
  | Err _ => False end.
Proof.
  intros (Hsc & Hl & Hr & Ho) Hpos Hcap. unfold insert_range_in. rewrite append_range_in_copy. unfold SlotsTR.uninit_copy_n.
  destruct (SlotsTR.uninit_copy_loop_spec l m th size size) as [(m1 & th1 & E & P1 & P2)|(m1 & E & P1 & P2)];
    [lia|intros; lia|intros k Hk; apply Hr; lia| |]; rewrite E.
  - destruct (rotate_ok m1 pos size (size + length l)) as [m2 (E2 & R1 & R2 & R3)]; [lia| |].
    { intros j Hj. destruct (le_lt_dec size j) as [A|A].
      - replace j with (size + (j - size)) by lia. rewrite P1 by lia. reflexivity.
      - rewrite P2 by lia. apply live_alive. apply Hl. exact A. }
    rewrite E2. replace (size + length l - size) with (length l) in R1, R2 by lia.
    assert (HIns : Inserted m m2 0 0 size pos l).
    { split; [|split]; cbn [Nat.add].
      - intros j Hj. rewrite R3 by lia. apply P2. lia.
      - intros k Hk. rewrite R1 by lia. replace (pos + k + (size - pos)) with (size + k) by lia. apply P1. exact Hk.
      - intros j Hj. rewrite R2 by lia. apply P2. lia. }
    split; [|apply (Inserted_vals m m2 0 0 size pos l HIns Hpos)].
    repeat split; [lia| | |].
    + intros i Hi. apply (Inserted_live m m2 0 0 size pos l i HIns Hpos); [|exact Hi]. intros j Hj. apply Hl. exact Hj.
    + intros i A B. rewrite R3 by lia. rewrite P2 by lia. apply Hr; lia.
    + intros i Hi. rewrite R3 by lia. rewrite P2 by lia. apply Ho. lia.
  - intros j. destruct (le_lt_dec size j) as [A|A]; [destruct (le_lt_dec (size + length l) j) as [B|B]|]; [apply P2; lia| |apply P2; lia].
    rewrite P1 by lia. symmetry. apply Hr; lia.
Qed.
(* append (first, last) with single-pass iterators (append_range alone): the same without the rotation *)
Theorem append_range_in_spec m th size cap l :
  Inv m size cap -> size + length l <= cap ->
  match append_range_in m th size l with
  | Done m' _ => Inv m' (size + length l) cap /\ vals m' 0 (size + length l) = vals m 0 size ++ l
  | Threw m' => forall j, m' j = m j
  | Err _ => False end.
Proof.
  intros (Hsc & Hl & Hr & Ho) Hcap. rewrite append_range_in_copy. unfold SlotsTR.uninit_copy_n.
  destruct (SlotsTR.uninit_copy_loop_spec l m th size size) as [(m1 & th1 & E & P1 & P2)|(m1 & E & P1 & P2)];
    [lia|intros; lia|intros k Hk; apply Hr; lia| |]; rewrite E.
  - assert (HIns : Inserted m m1 0 0 size size l).
    { split; [|split]; cbn [Nat.add]; [intros j Hj; apply P2; lia|intros k Hk; apply P1; exact Hk|intros j Hj; lia]. }
    split.
    + repeat split; [lia| | |].
      * intros i Hi. apply (Inserted_live m m1 0 0 size size l i HIns (le_n size)); [|exact Hi]. intros j Hj. apply Hl. exact Hj.
      * intros i A B. rewrite P2 by lia. apply Hr; lia.
      * intros i Hi. rewrite P2 by lia. apply Ho. lia.
    + rewrite (Inserted_vals m m1 0 0 size size l HIns (le_n size)). unfold SlotsTR.spec_insert_range.
      rewrite <- (vals_length m 0 size) at 1 3. rewrite firstn_all, skipn_all, app_nil_r. reflexivity.
  - intros j. destruct (le_lt_dec size j) as [A|A]; [destruct (le_lt_dec (size + length l) j) as [B|B]|]; [apply P2; lia| |apply P2; lia].
    rewrite P1 by lia. symmetry. apply Hr; lia.
Qed.
Lemma init_own_inv size cap : size <= cap -> Inv (blockview (init_own size cap) 0 cap) size cap.
Proof. intros H. apply init_own_pre. exact H. Qed.
(* size 3, capacity 6, insert (begin () + 1, {100, 101}): the 2nd copy throws (event 1): slot 3 destroyed, nothing moved; completion *)
Example insert_range_in_ex :
  Inv (blockview (init_own 3 6) 0 6) 3 6 /\ 1 <= 3 /\ 3 + length [100; 101]%Z <= 6 /\
  show (insert_range_in (blockview (init_own 3 6) 0 6) (Some 1) 3 1 [100; 101]%Z) 7 = Some (true, [Live 10; Live 11; Live 12; Raw; Raw; Raw; Out]%Z) /\
  show (insert_range_in (blockview (init_own 3 6) 0 6) (Some 2) 3 1 [100; 101]%Z) 7
    = Some (false, [Live 10; Live 100; Live 101; Live 11; Live 12; Raw; Out]%Z) /\
  show (append_range_in (blockview (init_own 3 6) 0 6) None 3 [100; 101]%Z) 7 = Some (false, [Live 10; Live 11; Live 12; Live 100; Live 101; Raw; Out]%Z).
Proof. split; [apply init_own_inv; lia|]. repeat split; try (cbn [length]; lia); vm_compute; reflexivity. Qed.
(* a reference that designates a vacated slot is an error of the model, never a value: the body of the pre-repair insert (pos, own element)
   (shift first, read afterwards) on the argument at the insertion point *)
Example read_after_shift_is_an_error :
  match shift_right1 (init_own 3 5) 1 2 with
  | inl m1 => copy_assign_ref m1 None 1 1 = Err AssignDead /\ read_ref m1 2 = inl 11%Z
  | inr _ => False end.
Proof. vm_compute. split; reflexivity. Qed.

(* ==== Summary ========================================================================================================================
   Hypotheses everywhere: [OwnPre m size cap e t nb] (the vector invariant Inv on the block [0, cap), the two temporaries raw, nothing
   from nb on) or [Inv m size cap]; pos <= size; src < size.  No outcome is ever [Err]: no construction over a live object, no
   assignment to / destruction of / COPY FROM a slot that does not hold a live value, nothing outside the blocks.

   (every theorem about insert_own / insert_cnt_own / push_back_own is stated for both element flavours: forall tr)
   [insert_own_spec]  [insert_own_strong_incap]  [insert_own_grow_slots_refuted]  [insert_own_ex]  [insert_own_grow_ex]  [own_tr_ex]
   [insert_cnt_own_spec]  [insert_cnt_own_strong_incap]  [insert_cnt_own_grow_slots_refuted]  [insert_cnt_own_ex]  [insert_cnt_own_grow_ex]
   [push_back_own_spec]  [push_back_own_strong_incap]  [push_back_own_grow_slots_refuted]  [push_back_as_insert]  [push_back_own_ex]
   [emplace_back_own_grow_spec]  [emplace_back_own_grow_ex]
   [insert_range_in_spec]  [append_range_in_spec]  [append_range_in_copy]  [insert_range_in_ex]
   pieces: [insert_cnt_fix_local] [insert_cnt_tr_local] [insert_cnt_ref_eq] [insert_n_ref_spec] [grow_tr_spec] [emplace_grow_tr_spec]
           [adjust_spec] [cnt_path_spec] [rotate_ok] [finish_ok] [bridge]

   Observation proved by the three [_grow_slots_refuted] lemmas (confirmed on the code: harness/cpp/SLOTDRV.md): insert (pos, const T&),
   insert (pos, count, const T&) and push_back (const T&) copy the element AFTER adjustCapacity has reallocated; when that copy throws the
   elements are intact but the vector has moved to a larger block (capacity grown, every iterator / reference invalidated), where
   std::vector and amc's own emplace_back / emplace (temporary first) change nothing. *)
Print Assumptions insert_own_spec.
Print Assumptions insert_own_strong_incap.
Print Assumptions insert_own_grow_slots_refuted.
Print Assumptions insert_cnt_own_spec.
Print Assumptions insert_cnt_own_strong_incap.
Print Assumptions insert_cnt_own_grow_slots_refuted.
Print Assumptions push_back_own_spec.
Print Assumptions push_back_own_strong_incap.
Print Assumptions push_back_own_grow_slots_refuted.
Print Assumptions emplace_back_own_grow_spec.
Print Assumptions insert_range_in_spec.
Print Assumptions append_range_in_spec.
Print Assumptions emplace_grow_tr_spec.
Print Assumptions own_tr_ex.
Print Assumptions emplace_grow_tr_ex.
Print Assumptions insert_own_ex.
Print Assumptions insert_cnt_own_ex.
Print Assumptions insert_range_in_ex.
