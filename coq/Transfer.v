(* Slot level models of the WHOLE-CONTENT TRANSFERS between two storages: the helpers of include/amc/vectorcommon.hpp, memory.hpp and
   smallvector.hpp that move every element of one element range into another one (swap of inline storages, move assignment between
   inline storages, the relocation of a vector into a new block / between the inline storage and a heap block), and erase_at.
   Memory, slots, throw oracle: Throw.v; moves: EmplaceGrow.v (mv_construct, mv_assign, ...); bitwise relocation: SlotsTR.v.

     vec::swap_deep (first1, n1, first2, n2)           std::swap_ranges over the common prefix (std::swap: T tmp (move (a)); a = move (b);
                                                       b = move (tmp); ~tmp), then uninitialized_relocate_n of the longer tail into the
                                                       raw slots of the shorter range                                  -> [swap_deep tr]
     vec::move_n (first, n, d_first, d_n)              not trivially relocatable: std::move over min (n, d_n) live slots, then
                                                       uninitialized_move_n of the rest / destroy_n of the surplus, then destroy_n of
                                                       the n (moved-from) sources; trivially relocatable: destroy_n (d_first, d_n),
                                                       uninitialized_relocate_n (first, n, d_first)                    -> [move_n tr]
     amc::uninitialized_relocate_n (first, n, dest)    Default: uninitialized_move_n (with its roll-back: destroy (dest, current);
                                                       throw;), then destroy_n (first, n)                              -> [uninit_relocate_n mt]
                                                       MemMove (trivially relocatable): SlotsTR.relocate_n
     vec::RelocateToNewBuffer (src, n, dest)           !RelocateByCopy: uninitialized_relocate_n                       -> [relocate_to_new_buffer]
                                                       RelocateByCopy (moves may throw, copyable): uninitialized_copy_n (roll-back),
                                                       then destroy_n (src, n)                                         -> [relocate_by_copy]
     vec::erase_at (first, count)                      destroy_at (std::move (first + 1, first + 1 + count, first)) /
                                                       destroy_at (first); uninitialized_relocate_n (first + 1, count, first)  -> [erase_at tr]

   The two element ranges are two index ranges [b1, b1 + cap1), [b2, b2 + cap2) of the SAME memory (as the old and the new block of
   EmplaceGrow.v); [Rng m b size cap]: the first size slots of the range Live, the others Raw; [Disj]: the ranges do not overlap.
   The temporary of std::swap is a slot [t] of the memory outside both ranges (Raw before and after).
   tr = true: the trivially relocatable element (vf::El<1>: bitwise relocation, no moved-from shell, noexcept moves without event);
   tr = false: vf::El<0> (noexcept moves, no event).  mt = true: vf::El<2> (every move is a throwing-capable event).
   [count_live m b n]: the number of objects alive in the n slots from b (Live v or Moved: constructed and not destroyed).

   Theorems, for EVERY length / capacity / base address / throw index (no axiom: Print Assumptions at the end):
     [swap_deep_spec] [swap_deep_conserves]           never Err, nothing throws; range 1 holds the old contents of range 2 and vice versa
                                                       (as lists), sizes exchanged, every other slot of both ranges Raw, t Raw, nothing
                                                       else touched; count_live over both ranges = n1 + n2 = before
     [move_n_spec] [move_n_conserves]                  never Err, nothing throws; the destination holds the n values of the source in order,
                                                       its slots from n on are Raw (surplus destroyed), EVERY slot of the source range is
                                                       Raw (move_n destroys the moved-from shells itself: the caller only resets the size);
                                                       count_live over both ranges = n
     [relocate_to_new_buffer_spec] [.._conserves]      El<0> / El<1> into a raw block: never Err, nothing throws; new block = old contents,
                                                       old block all Raw; count_live = n
     [relocate_by_copy_strong] [.._conserves]          the copy variant with every throw index: Done as above; Threw -> EVERY slot of the
                                                       memory as before (old block intact, new block all Raw); count_live = n in both
     [uninit_relocate_n_mt_basic] [.._conserves]       amc::uninitialized_relocate_n itself with throwing moves (El<2>, as StaticVectorBase::
                                                       move_construct calls it): Threw -> new block all Raw, the n sources still alive (the
                                                       ones already moved are moved-from: BASIC guarantee only), nothing else touched;
                                                       count_live = n in both outcomes
     [erase_at_spec] [erase_at_conserves]              never Err; Inv for size - 1, prefix, suffix one slot lower, the list of Erase.spec_erase;
                                                       count_live = size - 1
     [erase_at_mt_basic]                               erase_at with throwing moves (El<2>) = ThrowMove.erase_n for one element: Threw -> size
                                                       kept, every element alive, count_live = size *)
From Coq Require Import ZArith Lia Bool List Arith.
From Amc Require Import Throw EmplaceGrow.
From Amc Require Slots Erase ThrowMove SlotsTR.
Import ListNotations.

Definition lift := ThrowMove.lift.
Definition bindE (r : mem + err) (f : mem -> mem + err) : mem + err := match r with inl m => f m | inr x => inr x end.
Notation "x <- r ;; k" := (bindE r (fun x => k)) (at level 61, r at next level, right associativity).

(* ---- element ranges ------------------------------------------------------------------------------------------------------------- *)
(* the range [b, b + cap) holds a vector of size elements: the first size slots Live, the others Raw *)
Definition Rng (m : mem) (b size cap : nat) : Prop :=
  size <= cap /\ (forall i, i < size -> is_live (m (b + i)) = true) /\ (forall i, size <= i < cap -> m (b + i) = Raw).
Definition Disj (b1 cap1 b2 cap2 : nat) : Prop := b1 + cap1 <= b2 \/ b2 + cap2 <= b1.
Definition inR (b cap j : nat) : Prop := b <= j < b + cap.
(* Rng is the vector invariant of Throw.v on the block seen from its base address *)
Lemma Rng_blockview m b size cap : Rng m b size cap <-> Inv (blockview m b cap) size cap.
Proof.
  rewrite blockview_inv. unfold Rng. split; intros (H1 & H2 & H3); (split; [exact H1|split; [exact H2|]]).
  - intros i Ha Hb. apply H3. lia.
  - intros i Hi. apply H3; lia.
Qed.
(* the first n slots of a range, as a list *)
Definition content (m : mem) (b n : nat) : list slot := map (fun i => m (b + i)) (seq 0 n).
Lemma content_ext m m' b b' n : (forall k, k < n -> m' (b' + k) = m (b + k)) -> content m' b' n = content m b n.
Proof. intros H. unfold content. apply map_ext_in. intros i Hi. apply in_seq in Hi. apply H. lia. Qed.
Lemma content_length m b n : length (content m b n) = n.
Proof. unfold content. rewrite map_length, seq_length. reflexivity. Qed.
(* objects alive (constructed, not destroyed: Live v or moved-from) in the n slots from b *)
Fixpoint count_live (m : mem) (b n : nat) : nat :=
  match n with 0 => 0 | S k => (if alive (m b) then 1 else 0) + count_live m (S b) k end.
Lemma count_live_rng : forall cap m b size, size <= cap ->
  (forall i, i < size -> alive (m (b + i)) = true) -> (forall i, size <= i < cap -> alive (m (b + i)) = false) ->
  count_live m b cap = size.
Proof.
  induction cap as [|cap IH]; intros m b size Hs Ha Hr; cbn [count_live]; [lia|].
  destruct size as [|size].
  - pose proof (Hr 0 ltac:(lia)) as R0. rewrite Nat.add_0_r in R0. rewrite R0.
    rewrite (IH m (S b) 0); [reflexivity|lia|intros; lia|].
    intros i Hi. replace (S b + i) with (b + S i) by lia. apply Hr. lia.
  - pose proof (Ha 0 ltac:(lia)) as A0. rewrite Nat.add_0_r in A0. rewrite A0.
    rewrite (IH m (S b) size); [reflexivity|lia| |].
    + intros i Hi. replace (S b + i) with (b + S i) by lia. apply Ha. lia.
    + intros i Hi. replace (S b + i) with (b + S i) by lia. apply Hr. lia.
Qed.
Lemma count_live_ext : forall n m m' b, (forall k, k < n -> m' (b + k) = m (b + k)) -> count_live m' b n = count_live m b n.
Proof.
  induction n as [|n IH]; intros m m' b H; cbn [count_live]; [reflexivity|].
  pose proof (H 0 ltac:(lia)) as H0. rewrite Nat.add_0_r in H0. rewrite H0. f_equal. apply IH.
  intros k Hk. replace (S b + k) with (b + S k) by lia. apply H. lia.
Qed.
Lemma Rng_count m b size cap : Rng m b size cap -> count_live m b cap = size.
Proof.
  intros (H1 & H2 & H3). apply count_live_rng; [exact H1| |].
  - intros i Hi. apply live_alive, H2, Hi.
  - intros i Hi. rewrite H3 by exact Hi. reflexivity.
Qed.

(* the memory of the Examples and of the correspondence check (lib/slotcorr.py): range 1 = [0, cap1) with the elements 10, 11, ...;
   slot cap1 Out (guard); t = cap1 + 1 (Raw: the temporary of std::swap); cap1 + 2 Out (guard); range 2 = [cap1 + 3, cap1 + 3 + cap2)
   with the elements 20, 21, ...; Out beyond *)
Definition init2 (n1 cap1 n2 cap2 : nat) : mem :=
  fun i => if i <? n1 then Live (Z.of_nat (10 + i)) else if i <? cap1 then Raw
           else if i =? cap1 + 1 then Raw
           else if i <? cap1 + 3 then Out
           else if i <? cap1 + 3 + n2 then Live (Z.of_nat (20 + (i - (cap1 + 3)))) else if i <? cap1 + 3 + cap2 then Raw else Out.
Ltac i2simp := unfold init2;
  repeat match goal with
         | |- context [Nat.ltb ?a ?b] => destruct (Nat.ltb_spec a b)
         | |- context [Nat.eqb ?a ?b] => destruct (Nat.eqb_spec a b) end;
  try lia; try reflexivity.
Lemma init2_pre n1 cap1 n2 cap2 : n1 <= cap1 -> n2 <= cap2 ->
  Rng (init2 n1 cap1 n2 cap2) 0 n1 cap1 /\ Rng (init2 n1 cap1 n2 cap2) (cap1 + 3) n2 cap2 /\ Disj 0 cap1 (cap1 + 3) cap2 /\
  init2 n1 cap1 n2 cap2 (cap1 + 1) = Raw /\ ~ inR 0 cap1 (cap1 + 1) /\ ~ inR (cap1 + 3) cap2 (cap1 + 1).
Proof.
  intros H1 H2. unfold Rng, Disj, inR. split; [|split; [|split; [|split; [|split]]]]; try lia.
  - split; [exact H1|]. split; intros i Hi; cbn [Nat.add]; i2simp.
  - split; [exact H2|]. split; intros i Hi; i2simp.
  - i2simp.
Qed.

(* ---- moves between two disjoint ranges (noexcept) ------------------------------------------------------------------------------------ *)
(* std::move (src, src + c, dst): move assignments, lowest first *)
Lemma mv_forward_disj : forall c m src dst, (src + c <= dst \/ dst + c <= src) ->
  (forall k, k < c -> alive (m (src + k)) = true) -> (forall k, k < c -> alive (m (dst + k)) = true) ->
  exists m', mv_forward m src c dst = inl m' /\ (forall k, k < c -> m' (dst + k) = m (src + k)) /\
    (forall k, k < c -> m' (src + k) = Moved) /\ (forall j, ~ (src <= j < src + c) -> ~ (dst <= j < dst + c) -> m' j = m j).
Proof.
  induction c as [|c IH]; intros m src dst Hd Hs Ha; cbn [mv_forward].
  - exists m. repeat split; intros; try lia; reflexivity.
  - pose proof (Hs 0 ltac:(lia)) as S0. pose proof (Ha 0 ltac:(lia)) as A0. rewrite Nat.add_0_r in S0, A0.
    rewrite (mv_assign_ok m dst src A0 S0).
    destruct (IH (upd (upd m dst (m src)) src Moved) (S src) (S dst)) as [m' (E & P1 & P2 & P3)]; [lia| | |].
    + intros k Hk. pose proof (Hs (S k) ltac:(lia)) as W. replace (src + S k) with (S src + k) in W by lia. updsimp; exact W.
    + intros k Hk. pose proof (Ha (S k) ltac:(lia)) as W. replace (dst + S k) with (S dst + k) in W by lia. updsimp; exact W.
    + exists m'. split; [exact E|]. split; [|split].
      * intros k Hk. destruct k as [|k].
        -- rewrite !Nat.add_0_r. rewrite P3 by lia. updsimp.
        -- replace (dst + S k) with (S dst + k) by lia. replace (src + S k) with (S src + k) by lia. rewrite P1 by lia. updsimp.
      * intros k Hk. destruct k as [|k].
        -- rewrite Nat.add_0_r. rewrite P3 by lia. updsimp.
        -- replace (src + S k) with (S src + k) by lia. apply P2. lia.
      * intros j H1 H2. rewrite P3 by lia. updsimp.
Qed.

(* uninitialized_relocate_n, Default, with noexcept moves: uninitialized_move_n then destroy_n of the sources *)
Definition relocate_nx (m : mem) (src n dst : nat) : mem + err := m1 <- mv_uninit_n m src n dst ;; destroy_n m1 src n.
(* amc::uninitialized_relocate_n (src, n, dst) for the two elements with noexcept moves: memmove (tr) / move + destroy *)
Definition relocate_any (tr : bool) (m : mem) (src n dst : nat) : mem + err :=
  if tr then SlotsTR.relocate_n m src n dst else relocate_nx m src n dst.
Lemma relocate_nx_spec m src n dst : (src + n <= dst \/ dst + n <= src) ->
  (forall k, k < n -> alive (m (src + k)) = true) -> (forall k, k < n -> m (dst + k) = Raw) ->
  exists m', relocate_nx m src n dst = inl m' /\ (forall k, k < n -> m' (dst + k) = m (src + k)) /\
    (forall k, k < n -> m' (src + k) = Raw) /\ (forall j, ~ (src <= j < src + n) -> ~ (dst <= j < dst + n) -> m' j = m j).
Proof.
  intros Hd Ha Hr. unfold relocate_nx.
  destruct (mv_uninit_n_spec n m src dst Hd Ha Hr) as [m1 (E1 & P1 & P2 & P3)]. rewrite E1. cbn [bindE].
  destruct (destroy_n_alive n m1 src) as [m2 (E2 & Q1 & Q2)]; [intros k Hk; rewrite P2 by lia; reflexivity|].
  exists m2. split; [exact E2|]. split; [|split].
  - intros k Hk. rewrite Q2 by lia. apply P1; lia.
  - intros k Hk. apply Q1. lia.
  - intros j H1 H2. rewrite Q2 by lia. apply P3; lia.
Qed.
(* both flavours have the same effect between two disjoint ranges: the objects (with their state) sit in the destination, every
   source slot is Raw (destroyed moved-from shell / vacated by the memmove), nothing else changed *)
Lemma relocate_any_spec tr m src n dst : (src + n <= dst \/ dst + n <= src) ->
  (forall k, k < n -> alive (m (src + k)) = true) -> (forall k, k < n -> m (dst + k) = Raw) ->
  exists m', relocate_any tr m src n dst = inl m' /\ (forall k, k < n -> m' (dst + k) = m (src + k)) /\
    (forall k, k < n -> m' (src + k) = Raw) /\ (forall j, ~ (src <= j < src + n) -> ~ (dst <= j < dst + n) -> m' j = m j).
Proof.
  intros Hd Ha Hr. destruct tr; cbn [relocate_any]; [|apply relocate_nx_spec; assumption].
  destruct (SlotsTR.relocate_n_spec m src n dst Ha) as [m' (E & P1 & P2 & P3)].
  { intros j Hj Hn. replace j with (dst + (j - dst)) by lia. apply Hr. lia. }
  exists m'. split; [exact E|]. split; [exact P1|]. split; [|intros j H1 H2; apply P3; lia].
  intros k Hk. apply P2; lia.
Qed.

(* ---- vec::swap_deep (first1, count1, first2, count2) -------------------------------------------------------------------------------------
     std::swap_ranges (first1, first1 + min (count1, count2), first2);
     if (count1 < count2) uninitialized_relocate_n (first2 + count1, count2 - count1, first1 + count1);
     else                 uninitialized_relocate_n (first1 + count2, count1 - count2, first2 + count2);
   std::swap (a, b) (libstdc++, no overload for the element):  T tmp = std::move (a); a = std::move (b); b = std::move (tmp);  and tmp is
   destroyed at the end of the call.  The temporary is the slot t.  Both elements (El<0>, El<1>) are swapped this way: the trivially
   relocatable one is NOT swapped bitwise; only the relocation of the tail differs (memmove). *)
Definition swap1 (m : mem) (t a b : nat) : mem + err :=
  m1 <- mv_construct m t a ;; m2 <- mv_assign m1 a b ;; m3 <- mv_assign m2 b t ;; destroy m3 t.
Fixpoint swap_ranges (m : mem) (t a b n : nat) : mem + err :=
  match n with 0 => inl m | S k => m1 <- swap1 m t a b ;; swap_ranges m1 t (S a) (S b) k end.
Definition swap_deep (tr : bool) (m : mem) (t first1 n1 first2 n2 : nat) : mem + err :=
  m1 <- swap_ranges m t first1 first2 (Nat.min n1 n2) ;;
  if n1 <? n2 then relocate_any tr m1 (first2 + n1) (n2 - n1) (first1 + n1)
  else relocate_any tr m1 (first1 + n2) (n1 - n2) (first2 + n2).

Lemma swap1_spec m t a b : m t = Raw -> alive (m a) = true -> alive (m b) = true -> a <> b -> t <> a -> t <> b ->
  exists m', swap1 m t a b = inl m' /\ m' a = m b /\ m' b = m a /\ m' t = Raw /\ (forall j, j <> a -> j <> b -> j <> t -> m' j = m j).
Proof.
  intros Ht Ha Hb Hab Hta Htb. unfold swap1.
  rewrite (mv_construct_ok m t a Ht Ha). cbn [bindE].
  rewrite mv_assign_ok by (updsimp; assumption). cbn [bindE].
  rewrite mv_assign_ok by (updsimp; assumption). cbn [bindE].
  rewrite destroy_ok by updsimp.
  eexists. split; [reflexivity|]. split; [updsimp|]. split; [updsimp|]. split; [updsimp|]. intros j H1 H2 H3. updsimp.
Qed.
Lemma swap_ranges_spec : forall n m t a b, (a + n <= b \/ b + n <= a) -> m t = Raw -> ~ (a <= t < a + n) -> ~ (b <= t < b + n) ->
  (forall k, k < n -> alive (m (a + k)) = true) -> (forall k, k < n -> alive (m (b + k)) = true) ->
  exists m', swap_ranges m t a b n = inl m' /\ (forall k, k < n -> m' (a + k) = m (b + k)) /\ (forall k, k < n -> m' (b + k) = m (a + k)) /\
    (forall j, ~ (a <= j < a + n) -> ~ (b <= j < b + n) -> m' j = m j).
Proof.
  induction n as [|n IH]; intros m t a b Hd Ht Hta Htb Ha Hb; cbn [swap_ranges].
  - exists m. repeat split; intros; try lia; reflexivity.
  - pose proof (Ha 0 ltac:(lia)) as A0. pose proof (Hb 0 ltac:(lia)) as B0. rewrite Nat.add_0_r in A0, B0.
    destruct (swap1_spec m t a b Ht A0 B0) as [m1 (E1 & Q1 & Q2 & Q3 & Q4)]; [lia|lia|lia|]. rewrite E1. cbn [bindE].
    destruct (IH m1 t (S a) (S b)) as [m' (E & P1 & P2 & P3)]; [lia|exact Q3|lia|lia| | |].
    + intros k Hk. rewrite Q4 by lia. replace (S a + k) with (a + S k) by lia. apply Ha. lia.
    + intros k Hk. rewrite Q4 by lia. replace (S b + k) with (b + S k) by lia. apply Hb. lia.
    + exists m'. split; [exact E|]. split; [|split].
      * intros k Hk. destruct k as [|k].
        -- rewrite !Nat.add_0_r. rewrite P3 by lia. exact Q1.
        -- replace (a + S k) with (S a + k) by lia. replace (b + S k) with (S b + k) by lia. rewrite P1 by lia. apply Q4; lia.
      * intros k Hk. destruct k as [|k].
        -- rewrite !Nat.add_0_r. rewrite P3 by lia. exact Q2.
        -- replace (a + S k) with (S a + k) by lia. replace (b + S k) with (S b + k) by lia. rewrite P2 by lia. apply Q4; lia.
      * intros j H1 H2. rewrite P3 by lia. destruct (Nat.eq_dec j t) as [->|Hne]; [congruence|apply Q4; lia].
Qed.

(* the second half of swap_deep, stated once for both branches: [s] is the SHORTER range (ns elements), [l] the longer one (nl); c is
   the memory after the prefix of ns elements has been exchanged; the tail of l is relocated into the raw slots of s *)
Lemma swap_tail_spec tr m c bs ns caps bl nl capl :
  Rng m bs ns caps -> Rng m bl nl capl -> Disj bs caps bl capl -> ns <= nl -> nl <= caps ->
  (forall k, k < ns -> c (bs + k) = m (bl + k)) -> (forall k, k < ns -> c (bl + k) = m (bs + k)) ->
  (forall j, ~ (bs <= j < bs + ns) -> ~ (bl <= j < bl + ns) -> c j = m j) ->
  exists m', relocate_any tr c (bl + ns) (nl - ns) (bs + ns) = inl m' /\
    (forall k, k < nl -> m' (bs + k) = m (bl + k)) /\ (forall k, k < ns -> m' (bl + k) = m (bs + k)) /\
    (forall k, nl <= k < caps -> m' (bs + k) = Raw) /\ (forall k, ns <= k < capl -> m' (bl + k) = Raw) /\
    (forall j, ~ inR bs caps j -> ~ inR bl capl j -> m' j = m j).
Proof.
  intros (Hs1 & Hs2 & Hs3) (Hl1 & Hl2 & Hl3) HD Hle Hfit C1 C2 C3. unfold Disj in HD. unfold inR.
  destruct (relocate_any_spec tr c (bl + ns) (nl - ns) (bs + ns)) as [m' (E & P1 & P2 & P3)]; [lia| | |].
  { intros k Hk. rewrite C3 by lia. replace (bl + ns + k) with (bl + (ns + k)) by lia. apply live_alive, Hl2. lia. }
  { intros k Hk. rewrite C3 by lia. replace (bs + ns + k) with (bs + (ns + k)) by lia. apply Hs3. lia. }
  exists m'. split; [exact E|]. split; [|split; [|split; [|split]]].
  - intros k Hk. destruct (le_lt_dec ns k) as [L|L].
    + replace (bs + k) with (bs + ns + (k - ns)) by lia. rewrite P1 by lia. rewrite C3 by lia. f_equal. lia.
    + rewrite P3 by lia. apply C1; exact L.
  - intros k Hk. rewrite P3 by lia. apply C2; exact Hk.
  - intros k Hk. rewrite P3 by lia. rewrite C3 by lia. apply Hs3. lia.
  - intros k Hk. destruct (le_lt_dec nl k) as [L|L].
    + rewrite P3 by lia. rewrite C3 by lia. apply Hl3. lia.
    + replace (bl + k) with (bl + ns + (k - ns)) by lia. apply P2. lia.
  - intros j H1 H2. rewrite P3 by lia. apply C3; lia.
Qed.

(* swap_deep between two well-formed disjoint ranges, each with room for the elements of the other (what the callers guarantee: two
   inline storages of the same capacity; swap2 after both capacities have been adjusted): never a lifetime error, nothing throws (the
   oracle is handed back untouched); range 1 holds the old contents of range 2 and vice versa, the sizes are exchanged and both ranges
   are well-formed again (every other slot of them Raw); the temporary is Raw; no slot outside the two ranges changed *)
Theorem swap_deep_spec tr m th t b1 n1 cap1 b2 n2 cap2 :
  Rng m b1 n1 cap1 -> Rng m b2 n2 cap2 -> Disj b1 cap1 b2 cap2 -> n2 <= cap1 -> n1 <= cap2 ->
  m t = Raw -> ~ inR b1 cap1 t -> ~ inR b2 cap2 t ->
  match lift (swap_deep tr m t b1 n1 b2 n2) th with
  | Done m' th' => th' = th /\ content m' b1 n2 = content m b2 n2 /\ content m' b2 n1 = content m b1 n1 /\
                   Rng m' b1 n2 cap1 /\ Rng m' b2 n1 cap2 /\ m' t = Raw /\
                   (forall j, ~ inR b1 cap1 j -> ~ inR b2 cap2 j -> m' j = m j)
  | Threw _ => False
  | Err _ => False end.
Proof.
  intros R1 R2 HD Hf1 Hf2 Ht Ht1 Ht2. pose proof R1 as (A1 & A2 & A3). pose proof R2 as (B1 & B2 & B3).
  unfold Disj in HD. unfold inR in Ht1, Ht2. unfold swap_deep.
  destruct (swap_ranges_spec (Nat.min n1 n2) m t b1 b2) as [c (Ec & C1 & C2 & C3)]; [lia|exact Ht|lia|lia| | |].
  { intros k Hk. apply live_alive, A2. lia. } { intros k Hk. apply live_alive, B2. lia. }
  rewrite Ec. cbn [bindE].
  assert (Fin : forall m', (forall k, k < n2 -> m' (b1 + k) = m (b2 + k)) -> (forall k, k < n1 -> m' (b2 + k) = m (b1 + k)) ->
            (forall k, n2 <= k < cap1 -> m' (b1 + k) = Raw) -> (forall k, n1 <= k < cap2 -> m' (b2 + k) = Raw) ->
            (forall j, ~ inR b1 cap1 j -> ~ inR b2 cap2 j -> m' j = m j) ->
            th = th /\ content m' b1 n2 = content m b2 n2 /\ content m' b2 n1 = content m b1 n1 /\
            Rng m' b1 n2 cap1 /\ Rng m' b2 n1 cap2 /\ m' t = Raw /\ (forall j, ~ inR b1 cap1 j -> ~ inR b2 cap2 j -> m' j = m j)).
  { intros m' F1 F2 F3 F4 F5. split; [reflexivity|]. split; [apply content_ext; exact F1|]. split; [apply content_ext; exact F2|].
    split; [|split; [|split; [|exact F5]]].
    - split; [exact Hf1|]. split; [|exact F3]. intros i Hi. rewrite F1 by exact Hi. apply B2, Hi.
    - split; [exact Hf2|]. split; [|exact F4]. intros i Hi. rewrite F2 by exact Hi. apply A2, Hi.
    - rewrite F5 by (unfold inR; lia). exact Ht. }
  destruct (Nat.ltb_spec n1 n2) as [Hlt|Hge].
  - (* range 1 is the shorter one *)
    rewrite Nat.min_l in C1, C2, C3 by lia.
    destruct (swap_tail_spec tr m c b1 n1 cap1 b2 n2 cap2 R1 R2 HD ltac:(lia) Hf1 C1 C2 C3) as [m' (E & P1 & P2 & P3 & P4 & P5)].
    rewrite E. cbn [lift ThrowMove.lift]. apply Fin; assumption.
  - (* range 2 is the shorter one (or both have the same length: nothing to relocate) *)
    rewrite Nat.min_r in C1, C2, C3 by lia.
    destruct (swap_tail_spec tr m c b2 n2 cap2 b1 n1 cap1 R2 R1 ltac:(unfold Disj; lia) ltac:(lia) Hf2 C2 C1) as [m' (E & P1 & P2 & P3 & P4 & P5)].
    { intros j H1 H2. apply C3; assumption. }
    rewrite E. cbn [lift ThrowMove.lift]. apply Fin; try assumption. intros j H1 H2. apply P5; assumption.
Qed.
(* conservation: n1 + n2 objects alive in the two ranges before and after (no leak, no double destruction), none in the temporary *)
Theorem swap_deep_conserves tr m t b1 n1 cap1 b2 n2 cap2 m' :
  Rng m b1 n1 cap1 -> Rng m b2 n2 cap2 -> Disj b1 cap1 b2 cap2 -> n2 <= cap1 -> n1 <= cap2 ->
  m t = Raw -> ~ inR b1 cap1 t -> ~ inR b2 cap2 t -> swap_deep tr m t b1 n1 b2 n2 = inl m' ->
  count_live m' b1 cap1 + count_live m' b2 cap2 = n1 + n2 /\ count_live m b1 cap1 + count_live m b2 cap2 = n1 + n2 /\
  count_live m' t 1 = 0.
Proof.
  intros R1 R2 HD Hf1 Hf2 Ht Ht1 Ht2 E.
  pose proof (swap_deep_spec tr m None t b1 n1 cap1 b2 n2 cap2 R1 R2 HD Hf1 Hf2 Ht Ht1 Ht2) as S. rewrite E in S. cbn [lift ThrowMove.lift] in S.
  destruct S as (_ & _ & _ & S1 & S2 & S3 & _).
  rewrite (Rng_count _ _ _ _ S1), (Rng_count _ _ _ _ S2), (Rng_count _ _ _ _ R1), (Rng_count _ _ _ _ R2).
  split; [lia|]. split; [reflexivity|]. cbn [count_live]. rewrite S3. reflexivity.
Qed.
(* [10, 11, 12, raw] and [20, raw, raw]: both flavours; [10] and [20, 21, 22] (range 1 shorter); equal lengths *)
Example swap_deep_spec_ex :
  (Rng (init2 3 4 1 3) 0 3 4 /\ Rng (init2 3 4 1 3) 7 1 3 /\ Disj 0 4 7 3 /\ 1 <= 4 /\ 3 <= 3 /\ init2 3 4 1 3 5 = Raw /\ ~ inR 0 4 5 /\ ~ inR 7 3 5) /\
  show (lift (swap_deep false (init2 3 4 1 3) 5 0 3 7 1) (Some 0)) 11
    = Some (false, [Live 20; Raw; Raw; Raw; Out; Raw; Out; Live 10; Live 11; Live 12; Out]%Z) /\
  show (lift (swap_deep true (init2 3 4 1 3) 5 0 3 7 1) None) 11
    = Some (false, [Live 20; Raw; Raw; Raw; Out; Raw; Out; Live 10; Live 11; Live 12; Out]%Z) /\
  show (lift (swap_deep false (init2 1 3 3 3) 4 0 1 6 3) None) 10
    = Some (false, [Live 20; Live 21; Live 22; Out; Raw; Out; Live 10; Raw; Raw; Out]%Z) /\
  show (lift (swap_deep true (init2 2 2 2 2) 3 0 2 5 2) None) 8
    = Some (false, [Live 20; Live 21; Out; Raw; Out; Live 10; Live 11; Out]%Z).
Proof.
  destruct (init2_pre 3 4 1 3 ltac:(lia) ltac:(lia)) as (H1 & H2 & H3 & H4 & H5 & H6).
  split; [repeat (split; [first [assumption|lia]|]); assumption|].
  repeat split; vm_compute; reflexivity.
Qed.
Example swap_deep_conserves_ex :
  exists m', swap_deep false (init2 3 4 1 3) 5 0 3 7 1 = inl m' /\ count_live m' 0 4 + count_live m' 7 3 = 3 + 1 /\
             count_live (init2 3 4 1 3) 0 4 + count_live (init2 3 4 1 3) 7 3 = 3 + 1 /\ count_live m' 5 1 = 0.
Proof. eexists. split; [vm_compute; reflexivity|]. repeat split; vm_compute; reflexivity. Qed.

(* ---- vec::move_n (first, n, d_first, d_n): the element part of a move assignment between two inline storages ----------------------------
   not trivially relocatable:   std::move (first, first + std::min (n, d_n), d_first);
                                if (d_n < n) amc::uninitialized_move_n (first + d_n, n - d_n, d_first + d_n);
                                else         amc::destroy_n (d_first + n, d_n - n);
                                amc::destroy_n (first, n);
   trivially relocatable:       amc::destroy_n (d_first, d_n);  uninitialized_relocate_n (first, n, d_first);
   Both leave NO object in the source range (the first destroys the n moved-from shells itself); the callers
   (StaticVectorBase::move_assign, SmallVectorBase::move_assign) then only set the sizes. *)
Definition move_n (tr : bool) (m : mem) (first n d_first d_n : nat) : mem + err :=
  if tr then m1 <- destroy_n m d_first d_n ;; SlotsTR.relocate_n m1 first n d_first
  else m1 <- mv_forward m first (Nat.min n d_n) d_first ;;
       m2 <- (if d_n <? n then mv_uninit_n m1 (first + d_n) (n - d_n) (d_first + d_n) else destroy_n m1 (d_first + n) (d_n - n)) ;;
       destroy_n m2 first n.

(* source range [bs, bs + caps) with n elements, destination [bd, bd + capd) with dn elements and room for n: never a lifetime error,
   nothing throws; the destination holds the n values of the source in order and is well-formed for size n (its dn - n surplus elements
   destroyed); EVERY slot of the source range is Raw; nothing else changed *)
Theorem move_n_spec tr m th bs n caps bd dn capd :
  Rng m bs n caps -> Rng m bd dn capd -> Disj bs caps bd capd -> n <= capd ->
  match lift (move_n tr m bs n bd dn) th with
  | Done m' th' => th' = th /\ content m' bd n = content m bs n /\ Rng m' bd n capd /\ Rng m' bs 0 caps /\
                   (forall j, ~ inR bs caps j -> ~ inR bd capd j -> m' j = m j)
  | Threw _ => False
  | Err _ => False end.
Proof.
  intros RS RD HD Hfit. pose proof RS as (A1 & A2 & A3). pose proof RD as (B1 & B2 & B3). unfold Disj in HD.
  assert (Fin : forall m', (forall k, k < n -> m' (bd + k) = m (bs + k)) -> (forall k, n <= k < capd -> m' (bd + k) = Raw) ->
            (forall k, k < caps -> m' (bs + k) = Raw) -> (forall j, ~ inR bs caps j -> ~ inR bd capd j -> m' j = m j) ->
            th = th /\ content m' bd n = content m bs n /\ Rng m' bd n capd /\ Rng m' bs 0 caps /\
            (forall j, ~ inR bs caps j -> ~ inR bd capd j -> m' j = m j)).
  { intros m' F1 F2 F3 F4. split; [reflexivity|]. split; [apply content_ext; exact F1|]. split; [|split; [|exact F4]].
    - split; [exact Hfit|]. split; [|exact F2]. intros i Hi. rewrite F1 by exact Hi. apply A2, Hi.
    - split; [lia|]. split; [intros; lia|]. intros i Hi. apply F3. lia. }
  unfold move_n, inR in *. destruct tr.
  - (* trivially relocatable: the destination is emptied first, then the source relocated *)
    destruct (destroy_n_spec dn m bd) as [m1 (E1 & D1 & D2)]; [intros k Hk; apply B2, Hk|]. rewrite E1. cbn [bindE].
    destruct (relocate_any_spec true m1 bs n bd) as [m' (E & P1 & P2 & P3)]; [lia| | |].
    { intros k Hk. rewrite D2 by lia. apply live_alive, A2, Hk. }
    { intros k Hk. destruct (le_lt_dec dn k) as [L|L]; [rewrite D2 by lia; apply B3; lia|apply D1; lia]. }
    cbn [relocate_any] in E. rewrite E. cbn [lift ThrowMove.lift]. apply Fin.
    + intros k Hk. rewrite P1 by exact Hk. apply D2. lia.
    + intros k Hk. rewrite P3 by lia. destruct (le_lt_dec dn k) as [L|L]; [rewrite D2 by lia; apply B3; lia|apply D1; lia].
    + intros k Hk. destruct (le_lt_dec n k) as [L|L]; [rewrite P3 by lia; rewrite D2 by lia; apply A3; lia|apply P2; exact L].
    + intros j H1 H2. rewrite P3 by lia. apply D2. lia.
  - (* move-assign over the common prefix *)
    destruct (mv_forward_disj (Nat.min n dn) m bs bd) as [m1 (E1 & M1 & M2 & M3)]; [lia| | |].
    { intros k Hk. apply live_alive, A2. lia. } { intros k Hk. apply live_alive, B2. lia. }
    rewrite E1. cbn [bindE]. destruct (Nat.ltb_spec dn n) as [Hlt|Hge].
    + (* the destination is shorter: move-construct the rest *)
      rewrite Nat.min_r in M1, M2, M3 by lia.
      destruct (mv_uninit_n_spec (n - dn) m1 (bs + dn) (bd + dn)) as [m2 (E2 & U1 & U2 & U3)]; [lia| | |].
      { intros k Hk. rewrite M3 by lia. replace (bs + dn + k) with (bs + (dn + k)) by lia. apply live_alive, A2. lia. }
      { intros k Hk. rewrite M3 by lia. replace (bd + dn + k) with (bd + (dn + k)) by lia. apply B3. lia. }
      rewrite E2. cbn [bindE].
      destruct (destroy_n_alive n m2 bs) as [m3 (E3 & Q1 & Q2)].
      { intros k Hk. destruct (le_lt_dec dn k) as [L|L].
        - replace (bs + k) with (bs + dn + (k - dn)) by lia. rewrite U2 by lia. reflexivity.
        - rewrite U3 by lia. rewrite M2 by exact L. reflexivity. }
      rewrite E3. cbn [lift ThrowMove.lift]. apply Fin.
      * intros k Hk. rewrite Q2 by lia. destruct (le_lt_dec dn k) as [L|L].
        -- replace (bd + k) with (bd + dn + (k - dn)) by lia. rewrite U1 by lia. rewrite M3 by lia. f_equal. lia.
        -- rewrite U3 by lia. apply M1; exact L.
      * intros k Hk. rewrite Q2 by lia. rewrite U3 by lia. rewrite M3 by lia. apply B3. lia.
      * intros k Hk. destruct (le_lt_dec n k) as [L|L]; [|apply Q1; lia].
        rewrite Q2 by lia. rewrite U3 by lia. rewrite M3 by lia. apply A3. lia.
      * intros j H1 H2. rewrite Q2 by lia. rewrite U3 by lia. apply M3; lia.
    + (* the destination is not shorter: destroy its surplus *)
      rewrite Nat.min_l in M1, M2, M3 by lia.
      destruct (destroy_n_alive (dn - n) m1 (bd + n)) as [m2 (E2 & S1 & S2)].
      { intros k Hk. rewrite M3 by lia. replace (bd + n + k) with (bd + (n + k)) by lia. apply live_alive, B2. lia. }
      rewrite E2. cbn [bindE].
      destruct (destroy_n_alive n m2 bs) as [m3 (E3 & Q1 & Q2)].
      { intros k Hk. rewrite S2 by lia. rewrite M2 by exact Hk. reflexivity. }
      rewrite E3. cbn [lift ThrowMove.lift]. apply Fin.
      * intros k Hk. rewrite Q2 by lia. rewrite S2 by lia. apply M1; exact Hk.
      * intros k Hk. rewrite Q2 by lia. destruct (le_lt_dec dn k) as [L|L]; [|apply S1; lia].
        rewrite S2 by lia. rewrite M3 by lia. apply B3. lia.
      * intros k Hk. destruct (le_lt_dec n k) as [L|L]; [|apply Q1; lia].
        rewrite Q2 by lia. rewrite S2 by lia. rewrite M3 by lia. apply A3. lia.
      * intros j H1 H2. rewrite Q2 by lia. rewrite S2 by lia. apply M3; lia.
Qed.
(* conservation: n + dn objects before; n after (the dn old elements of the destination and the n moved-from shells / the vacated
   source slots are gone: dn + n destructions or relocations, each object exactly once) *)
Theorem move_n_conserves tr m bs n caps bd dn capd m' :
  Rng m bs n caps -> Rng m bd dn capd -> Disj bs caps bd capd -> n <= capd -> move_n tr m bs n bd dn = inl m' ->
  count_live m' bs caps = 0 /\ count_live m' bd capd = n /\ count_live m bs caps + count_live m bd capd = n + dn.
Proof.
  intros RS RD HD Hfit E. pose proof (move_n_spec tr m None bs n caps bd dn capd RS RD HD Hfit) as S. rewrite E in S.
  cbn [lift ThrowMove.lift] in S. destruct S as (_ & _ & S1 & S2 & _).
  rewrite (Rng_count _ _ _ _ S1), (Rng_count _ _ _ _ S2), (Rng_count _ _ _ _ RS), (Rng_count _ _ _ _ RD). repeat split.
Qed.
(* source [10, 11, 12, raw] into [20, raw, raw] (shorter), into [20, 21, 22, 23] from [10, 11] (longer: surplus destroyed), both flavours *)
Example move_n_spec_ex :
  (Rng (init2 3 4 1 3) 0 3 4 /\ Rng (init2 3 4 1 3) 7 1 3 /\ Disj 0 4 7 3 /\ 3 <= 3) /\
  show (lift (move_n false (init2 3 4 1 3) 0 3 7 1) (Some 0)) 11 = Some (false, [Raw; Raw; Raw; Raw; Out; Raw; Out; Live 10; Live 11; Live 12; Out]%Z) /\
  show (lift (move_n true (init2 3 4 1 3) 0 3 7 1) None) 11 = Some (false, [Raw; Raw; Raw; Raw; Out; Raw; Out; Live 10; Live 11; Live 12; Out]%Z) /\
  show (lift (move_n false (init2 2 2 4 4) 0 2 5 4) None) 10 = Some (false, [Raw; Raw; Out; Raw; Out; Live 10; Live 11; Raw; Raw; Out]%Z) /\
  show (lift (move_n true (init2 2 2 4 4) 0 2 5 4) None) 10 = Some (false, [Raw; Raw; Out; Raw; Out; Live 10; Live 11; Raw; Raw; Out]%Z).
Proof.
  destruct (init2_pre 3 4 1 3 ltac:(lia) ltac:(lia)) as (H1 & H2 & H3 & _).
  split; [repeat (split; [first [assumption|lia]|]); lia|]. repeat split; vm_compute; reflexivity.
Qed.
Example move_n_conserves_ex :
  exists m', move_n false (init2 2 2 4 4) 0 2 5 4 = inl m' /\ count_live m' 0 2 = 0 /\ count_live m' 5 4 = 2 /\
             count_live (init2 2 2 4 4) 0 2 + count_live (init2 2 2 4 4) 5 4 = 2 + 4.
Proof. eexists. split; [vm_compute; reflexivity|]. repeat split; vm_compute; reflexivity. Qed.

(* ---- amc::uninitialized_relocate_n (first, count, dest), Default mode --------------------------------------------------------------------
     std::pair<InputIt, OutputIt> p = amc::uninitialized_move_n (first, count, dest);  amc::destroy_n (first, count);
   uninitialized_move_n (memory.hpp before C++17, std::uninitialized_move_n since): construct_at (current, std::move (first[0])) forward;
   catch (...) { destroy (dest, current); throw; }.
   mt = false: the move constructor is noexcept and no event (El<0>): the roll-back is dead code ([uninit_relocate_n_nx]);
   mt = true: every move construction is a throwing-capable event (El<2>, ThrowMove.move_construct). *)
Definition move_construct_g (mt : bool) (m : mem) (th : option nat) (dst src : nat) : out :=
  if mt then ThrowMove.move_construct m th dst src else lift (mv_construct m dst src) th.
Fixpoint uninit_move_loop (mt : bool) (m : mem) (th : option nat) (src dst0 cur n : nat) : out :=
  match n with
  | 0 => Done m th
  | S k => match move_construct_g mt m th cur src with
           | Done m1 th1 => uninit_move_loop mt m1 th1 (S src) dst0 (S cur) k
           | Threw m1 => match destroy_n m1 dst0 (cur - dst0) with inl m2 => Threw m2 | inr e => Err e end
           | Err e => Err e end
  end.
Definition uninit_move_n (mt : bool) (m : mem) (th : option nat) (src n dst : nat) : out := uninit_move_loop mt m th src dst dst n.
Definition uninit_relocate_n (mt : bool) (m : mem) (th : option nat) (src n dst : nat) : out :=
  match uninit_move_n mt m th src n dst with Done m1 th1 => lift (destroy_n m1 src n) th1 | o => o end.
Lemma uninit_move_loop_mt : forall n m th src dst0 cur,
  uninit_move_loop true m th src dst0 cur n = ThrowMove.uninit_move_loop m th src dst0 cur n.
Proof.
  induction n as [|n IH]; intros m th src dst0 cur; cbn [uninit_move_loop ThrowMove.uninit_move_loop move_construct_g]; [reflexivity|].
  destruct (ThrowMove.move_construct m th cur src) as [m1 th1|m1|x]; [apply IH|reflexivity|reflexivity].
Qed.
Lemma uninit_move_loop_nx : forall n m th src dst0 cur,
  uninit_move_loop false m th src dst0 cur n = lift (mv_uninit_n m src n cur) th.
Proof.
  induction n as [|n IH]; intros m th src dst0 cur; cbn [uninit_move_loop mv_uninit_n move_construct_g]; [reflexivity|].
  destruct (mv_construct m cur src) as [m1|x]; cbn [lift ThrowMove.lift]; [apply IH|reflexivity].
Qed.
(* with noexcept moves the whole function is the plain memory transformer relocate_nx: it cannot throw *)
Lemma uninit_relocate_n_nx m th src n dst : uninit_relocate_n false m th src n dst = lift (relocate_nx m src n dst) th.
Proof.
  unfold uninit_relocate_n, uninit_move_n, relocate_nx. rewrite uninit_move_loop_nx.
  destruct (mv_uninit_n m src n dst) as [m1|x]; reflexivity.
Qed.

(* vec::RelocateToNewBuffer (src, n, dest) when !RelocateByCopy<T> (El<0>: uninitialized_relocate_n in Default mode; El<1>: memmove) *)
Definition relocate_to_new_buffer (tr : bool) (m : mem) (th : option nat) (src n dst : nat) : out :=
  if tr then lift (SlotsTR.relocate_n m src n dst) th else uninit_relocate_n false m th src n dst.
Lemma relocate_to_new_buffer_any tr m th src n dst : relocate_to_new_buffer tr m th src n dst = lift (relocate_any tr m src n dst) th.
Proof. destruct tr; cbn [relocate_to_new_buffer relocate_any]; [reflexivity|apply uninit_relocate_n_nx]. Qed.

(* what a completed relocation of the n elements of [bs, bs + caps) into the RAW range [bd, bd + capd) leaves *)
Definition Relocated (m m' : mem) (bs n caps bd capd : nat) : Prop :=
  content m' bd n = content m bs n /\ Rng m' bd n capd /\ Rng m' bs 0 caps /\ (forall j, ~ inR bs caps j -> ~ inR bd capd j -> m' j = m j).
Lemma Relocated_intro m m' bs n caps bd capd : Rng m bs n caps -> Rng m bd 0 capd -> Disj bs caps bd capd -> n <= capd ->
  (forall k, k < n -> m' (bd + k) = m (bs + k)) -> (forall k, k < n -> m' (bs + k) = Raw) ->
  (forall j, ~ (bs <= j < bs + n) -> ~ (bd <= j < bd + n) -> m' j = m j) -> Relocated m m' bs n caps bd capd.
Proof.
  intros (A1 & A2 & A3) (_ & _ & B3) HD Hfit F1 F2 F3. unfold Disj in HD. split; [apply content_ext; exact F1|]. split; [|split].
  - split; [exact Hfit|]. split; [intros i Hi; rewrite F1 by exact Hi; apply A2, Hi|].
    intros i Hi. rewrite F3 by lia. apply B3. lia.
  - split; [lia|]. split; [intros; lia|]. intros i Hi. destruct (le_lt_dec n i) as [L|L]; [|apply F2; exact L].
    rewrite F3 by lia. apply A3. lia.
  - intros j H1 H2. unfold inR in H1, H2. apply F3; lia.
Qed.
Lemma Relocated_count m m' bs n caps bd capd : Relocated m m' bs n caps bd capd -> count_live m' bs caps = 0 /\ count_live m' bd capd = n.
Proof. intros (_ & S1 & S2 & _). rewrite (Rng_count _ _ _ _ S1), (Rng_count _ _ _ _ S2). split; reflexivity. Qed.

(* the relocation of a vector into a new block (vec::Reallocate / SmallVectorBase::grow when the vector grows; resetToSmall and
   move_construct between the inline storage and a heap block), element with noexcept moves: never a lifetime error, nothing throws,
   the new block holds the old contents, the old block is all Raw *)
Theorem relocate_to_new_buffer_spec tr m th bs n caps bd capd :
  Rng m bs n caps -> Rng m bd 0 capd -> Disj bs caps bd capd -> n <= capd ->
  match relocate_to_new_buffer tr m th bs n bd with
  | Done m' th' => th' = th /\ Relocated m m' bs n caps bd capd
  | Threw _ => False
  | Err _ => False end.
Proof.
  intros RS RD HD Hfit. pose proof RS as (A1 & A2 & A3). pose proof RD as (_ & _ & B3). unfold Disj in HD.
  rewrite relocate_to_new_buffer_any.
  destruct (relocate_any_spec tr m bs n bd) as [m' (E & P1 & P2 & P3)]; [lia| | |].
  { intros k Hk. apply live_alive, A2, Hk. } { intros k Hk. apply B3. lia. }
  rewrite E. cbn [lift ThrowMove.lift]. split; [reflexivity|]. apply Relocated_intro; assumption.
Qed.
Theorem relocate_to_new_buffer_conserves tr m th bs n caps bd capd m' th' :
  Rng m bs n caps -> Rng m bd 0 capd -> Disj bs caps bd capd -> n <= capd -> relocate_to_new_buffer tr m th bs n bd = Done m' th' ->
  count_live m' bs caps + count_live m' bd capd = n /\ count_live m bs caps + count_live m bd capd = n.
Proof.
  intros RS RD HD Hfit E. pose proof (relocate_to_new_buffer_spec tr m th bs n caps bd capd RS RD HD Hfit) as S. rewrite E in S.
  destruct S as (_ & S). destruct (Relocated_count _ _ _ _ _ _ _ S) as [C1 C2].
  rewrite C1, C2, (Rng_count _ _ _ _ RS), (Rng_count _ _ _ _ RD). split; lia.
Qed.
(* a full block [10, 11, 12] into a new block of 5 raw slots *)
Example relocate_to_new_buffer_spec_ex :
  (Rng (init2 3 3 0 5) 0 3 3 /\ Rng (init2 3 3 0 5) 6 0 5 /\ Disj 0 3 6 5 /\ 3 <= 5) /\
  show (relocate_to_new_buffer false (init2 3 3 0 5) (Some 0) 0 3 6) 12
    = Some (false, [Raw; Raw; Raw; Out; Raw; Out; Live 10; Live 11; Live 12; Raw; Raw; Out]%Z) /\
  show (relocate_to_new_buffer true (init2 3 3 0 5) None 0 3 6) 12
    = Some (false, [Raw; Raw; Raw; Out; Raw; Out; Live 10; Live 11; Live 12; Raw; Raw; Out]%Z).
Proof.
  destruct (init2_pre 3 3 0 5 ltac:(lia) ltac:(lia)) as (H1 & H2 & H3 & _).
  split; [repeat (split; [first [assumption|lia]|]); lia|]. repeat split; vm_compute; reflexivity.
Qed.
Example relocate_to_new_buffer_conserves_ex :
  exists m' th', relocate_to_new_buffer false (init2 3 3 0 5) None 0 3 6 = Done m' th' /\ count_live m' 0 3 + count_live m' 6 5 = 3.
Proof. eexists. eexists. split; [vm_compute; reflexivity|]. vm_compute; reflexivity. Qed.

(* ---- amc::uninitialized_relocate_n with throwing moves (El<2>) -------------------------------------------------------------------------------
   StaticVectorBase::move_construct, SmallVectorBase::move_construct / SwapDynamicBuffer and swap_deep call amc::uninitialized_relocate_n
   directly, whatever the element (RelocateToNewBuffer does not: see below).  A move construction that throws: uninitialized_move_n
   destroys what it built and rethrows; destroy_n (first, count) is not reached: the sources are all still alive, the ones already
   moved are moved-from (their values are gone: BASIC guarantee).  The destination range is all Raw again. *)
Theorem uninit_relocate_n_mt_basic m th bs n caps bd capd :
  Rng m bs n caps -> Rng m bd 0 capd -> Disj bs caps bd capd -> n <= capd ->
  match uninit_relocate_n true m th bs n bd with
  | Done m' _ => Relocated m m' bs n caps bd capd
  | Threw m' => Rng m' bd 0 capd /\ (forall k, k < n -> alive (m' (bs + k)) = true) /\ (forall k, n <= k < caps -> m' (bs + k) = Raw) /\
                (forall j, ~ (bs <= j < bs + n) -> m' j = m j)
  | Err _ => False end.
Proof.
  intros RS RD HD Hfit. pose proof RS as (A1 & A2 & A3). pose proof RD as (_ & _ & B3). unfold Disj in HD.
  unfold uninit_relocate_n, uninit_move_n. rewrite uninit_move_loop_mt.
  assert (Al : forall k, k < n -> alive (m (bs + k)) = true) by (intros k Hk; apply live_alive, A2, Hk).
  assert (Rw : forall k, k < n -> m (bd + k) = Raw) by (intros k Hk; apply B3; lia).
  pose proof (ThrowMove.uninit_move_loop_spec n m th bs bd bd ltac:(lia) ltac:(lia) ltac:(intros; lia) Rw Al) as S.
  destruct (ThrowMove.uninit_move_loop m th bs bd bd n) as [m1 th1|m1|x]; [| |exact S].
  - destruct (mv_uninit_n_spec n m bs bd ltac:(lia) Al Rw) as [m1' (E1 & P1 & P2 & P3)]. rewrite S in E1. injection E1 as <-.
    destruct (destroy_n_alive n m1 bs) as [m2 (E2 & Q1 & Q2)]; [intros k Hk; rewrite P2 by lia; reflexivity|].
    rewrite E2. cbn [lift ThrowMove.lift]. apply Relocated_intro; try assumption.
    + intros k Hk. rewrite Q2 by lia. apply P1; exact Hk.
    + intros k Hk. apply Q1. lia.
    + intros j H1 H2. rewrite Q2 by lia. apply P3; lia.
  - destruct S as (_ & S2 & S3). split; [|split; [|split]].
    + split; [lia|]. split; [intros; lia|]. intros i Hi. rewrite S3 by lia. apply B3. lia.
    + intros k Hk. apply S2. lia.
    + intros k Hk. rewrite S3 by lia. apply A3. lia.
    + intros j Hj. apply S3; lia.
Qed.
(* conservation: n objects alive in the two ranges in BOTH outcomes (after a throw: the n sources, nothing in the destination) *)
Theorem uninit_relocate_n_mt_conserves m th bs n caps bd capd :
  Rng m bs n caps -> Rng m bd 0 capd -> Disj bs caps bd capd -> n <= capd ->
  match uninit_relocate_n true m th bs n bd with
  | Done m' _ => count_live m' bs caps = 0 /\ count_live m' bd capd = n
  | Threw m' => count_live m' bs caps = n /\ count_live m' bd capd = 0
  | Err _ => False end.
Proof.
  intros RS RD HD Hfit. pose proof (uninit_relocate_n_mt_basic m th bs n caps bd capd RS RD HD Hfit) as S.
  destruct (uninit_relocate_n true m th bs n bd) as [m' th'|m'|x]; [exact (Relocated_count _ _ _ _ _ _ _ S)| |exact S].
  destruct S as (S1 & S2 & S3 & _). split; [|exact (Rng_count _ _ _ _ S1)].
  apply count_live_rng; [exact (proj1 RS)|exact S2|]. intros i Hi. rewrite S3 by exact Hi. reflexivity.
Qed.
(* [10, 11, 12] into 4 raw slots: the 3rd move construction throws (event 2): slots 0 and 1 are moved-from, the destination is raw *)
Example uninit_relocate_n_mt_basic_ex :
  (Rng (init2 3 3 0 4) 0 3 3 /\ Rng (init2 3 3 0 4) 6 0 4 /\ Disj 0 3 6 4 /\ 3 <= 4) /\
  show (uninit_relocate_n true (init2 3 3 0 4) (Some 2) 0 3 6) 11 = Some (true, [Moved; Moved; Live 12; Out; Raw; Out; Raw; Raw; Raw; Raw; Out]%Z) /\
  show (uninit_relocate_n true (init2 3 3 0 4) (Some 3) 0 3 6) 11
    = Some (false, [Raw; Raw; Raw; Out; Raw; Out; Live 10; Live 11; Live 12; Raw; Out]%Z).
Proof.
  destruct (init2_pre 3 3 0 4 ltac:(lia) ltac:(lia)) as (H1 & H2 & H3 & _).
  split; [repeat (split; [first [assumption|lia]|]); lia|]. repeat split; vm_compute; reflexivity.
Qed.
Example uninit_relocate_n_mt_conserves_ex :
  match uninit_relocate_n true (init2 3 3 0 4) (Some 2) 0 3 6 with Threw m' => count_live m' 0 3 = 3 /\ count_live m' 6 4 = 0 | _ => False end /\
  match uninit_relocate_n true (init2 3 3 0 4) None 0 3 6 with Done m' _ => count_live m' 0 3 = 0 /\ count_live m' 6 4 = 3 | _ => False end.
Proof. vm_compute. repeat split. Qed.

(* ---- vec::RelocateToNewBuffer (src, n, dest) when RelocateByCopy<T> (not trivially relocatable, move constructor may throw, copyable: El<2>) ----
     (void) amc::uninitialized_copy_n (src, n, dest);   amc::destroy_n (src, n);
   uninitialized_copy_n: construct_at (current, first[0]) forward; catch (...) { destroy (dest, current); throw; }.  A copy construction
   reads its source (alive: the copy of a moved-from element is a moved-from element) and is one throwing-capable event, issued before
   the destination is written. *)
Definition copy_construct_from (m : mem) (th : option nat) (dst src : nat) : out :=
  match m src with
  | Out => Err OutOfBlock
  | Raw => Err AssignDead
  | s => match m dst with
         | Raw => let (t, th') := tick th in if t then Threw m else Done (upd m dst s) th'
         | Out => Err OutOfBlock
         | _ => Err ConstructOverLive end
  end.
Fixpoint uninit_copy_loop (m : mem) (th : option nat) (src dst0 cur n : nat) : out :=
  match n with
  | 0 => Done m th
  | S k => match copy_construct_from m th cur src with
           | Done m1 th1 => uninit_copy_loop m1 th1 (S src) dst0 (S cur) k
           | Threw m1 => match destroy_n m1 dst0 (cur - dst0) with inl m2 => Threw m2 | inr e => Err e end
           | Err e => Err e end
  end.
Definition uninit_copy_n (m : mem) (th : option nat) (src n dst : nat) : out := uninit_copy_loop m th src dst dst n.
Definition relocate_by_copy (m : mem) (th : option nat) (src n dst : nat) : out :=
  match uninit_copy_n m th src n dst with Done m1 th1 => lift (destroy_n m1 src n) th1 | o => o end.

Lemma copy_construct_from_ok m th dst src : alive (m src) = true -> m dst = Raw ->
  copy_construct_from m th dst src = if fst (tick th) then Threw m else Done (upd m dst (m src)) (snd (tick th)).
Proof.
  intros Hs Hd. unfold copy_construct_from. rewrite Hd. destruct (m src); try discriminate; destruct (tick th) as [[|] th']; reflexivity.
Qed.
(* [dst0, cur) is what the loop has built so far.  Completion: the n destinations hold copies, nothing else changed (the sources
   included); a throw: [dst0, cur) is Raw again and EVERY other slot is as before *)
Lemma uninit_copy_loop_spec : forall n m th src dst0 cur,
  dst0 <= cur -> (src + n <= dst0 \/ cur + n <= src) ->
  (forall j, dst0 <= j < cur -> alive (m j) = true) -> (forall k, k < n -> m (cur + k) = Raw) ->
  (forall k, k < n -> alive (m (src + k)) = true) ->
  match uninit_copy_loop m th src dst0 cur n with
  | Done m' _ => (forall k, k < n -> m' (cur + k) = m (src + k)) /\ (forall j, ~ (cur <= j < cur + n) -> m' j = m j)
  | Threw m' => (forall j, dst0 <= j < cur -> m' j = Raw) /\ (forall j, ~ (dst0 <= j < cur) -> m' j = m j)
  | Err _ => False end.
Proof.
  induction n as [|n IH]; intros m th src dst0 cur Hdc Hdis Hb Hr Ha; cbn [uninit_copy_loop].
  - split; [intros; lia|reflexivity].
  - pose proof (Ha 0 ltac:(lia)) as A0. pose proof (Hr 0 ltac:(lia)) as R0. rewrite Nat.add_0_r in A0, R0.
    rewrite (copy_construct_from_ok m th cur src A0 R0). destruct (tick th) as [[|] th1]; cbn [fst snd].
    + destruct (destroy_n_alive (cur - dst0) m dst0) as [m2 (E & P1 & P2)]; [intros k Hk; apply Hb; lia|].
      rewrite E. split; [intros j Hj; apply P1; lia|intros j Hj; apply P2; lia].
    + specialize (IH (upd m cur (m src)) th1 (S src) dst0 (S cur) ltac:(lia) ltac:(lia)).
      assert (B1 : forall j, dst0 <= j < S cur -> alive (upd m cur (m src) j) = true).
      { intros j Hj. destruct (Nat.eq_dec j cur) as [->|Hne]; [updsimp; exact A0|]. pose proof (Hb j ltac:(lia)) as W. updsimp; exact W. }
      assert (R1 : forall k, k < n -> upd m cur (m src) (S cur + k) = Raw).
      { intros k Hk. pose proof (Hr (S k) ltac:(lia)) as W. replace (cur + S k) with (S cur + k) in W by lia. updsimp; exact W. }
      assert (A1 : forall k, k < n -> alive (upd m cur (m src) (S src + k)) = true).
      { intros k Hk. pose proof (Ha (S k) ltac:(lia)) as W. replace (src + S k) with (S src + k) in W by lia. updsimp; exact W. }
      specialize (IH B1 R1 A1).
      destruct (uninit_copy_loop (upd m cur (m src)) th1 (S src) dst0 (S cur) n) as [m' th2|m'|x]; [| |exact IH].
      * destruct IH as (P1 & P2). split.
        -- intros k Hk. destruct k as [|k].
           ++ rewrite !Nat.add_0_r. rewrite P2 by lia. updsimp.
           ++ replace (cur + S k) with (S cur + k) by lia. replace (src + S k) with (S src + k) by lia. rewrite P1 by lia. updsimp.
        -- intros j Hj. rewrite P2 by lia. updsimp.
      * destruct IH as (P1 & P2). split; [intros j Hj; apply P1; lia|].
        intros j Hj. destruct (Nat.eq_dec j cur) as [->|Hne]; [rewrite P1 by lia; symmetry; exact R0|]. rewrite P2 by lia. updsimp.
Qed.

(* the relocation of a vector whose element's move constructor may throw into a new (raw) block, for EVERY throw index: never a
   lifetime error; completion: the new block holds the old contents, the old block is all Raw; a throwing copy: EVERY slot of the
   memory is exactly as before - the old block intact, the new block all Raw (STRONG guarantee: what lets Reallocate / grow /
   resetToSmall just give the new block back) *)
Theorem relocate_by_copy_strong m th bs n caps bd capd :
  Rng m bs n caps -> Rng m bd 0 capd -> Disj bs caps bd capd -> n <= capd ->
  match relocate_by_copy m th bs n bd with
  | Done m' _ => Relocated m m' bs n caps bd capd
  | Threw m' => forall j, m' j = m j
  | Err _ => False end.
Proof.
  intros RS RD HD Hfit. pose proof RS as (A1 & A2 & A3). pose proof RD as (_ & _ & B3). unfold Disj in HD.
  unfold relocate_by_copy, uninit_copy_n.
  assert (Al : forall k, k < n -> alive (m (bs + k)) = true) by (intros k Hk; apply live_alive, A2, Hk).
  assert (Rw : forall k, k < n -> m (bd + k) = Raw) by (intros k Hk; apply B3; lia).
  pose proof (uninit_copy_loop_spec n m th bs bd bd ltac:(lia) ltac:(lia) ltac:(intros; lia) Rw Al) as S.
  destruct (uninit_copy_loop m th bs bd bd n) as [m1 th1|m1|x]; [| |exact S].
  - destruct S as (P1 & P2).
    destruct (destroy_n_alive n m1 bs) as [m2 (E2 & Q1 & Q2)]; [intros k Hk; rewrite P2 by lia; apply Al, Hk|].
    rewrite E2. cbn [lift ThrowMove.lift]. apply Relocated_intro; try assumption.
    + intros k Hk. rewrite Q2 by lia. apply P1; exact Hk.
    + intros k Hk. apply Q1. lia.
    + intros j H1 H2. rewrite Q2 by lia. apply P2; lia.
  - destruct S as (_ & S2). intros j. apply S2. lia.
Qed.
(* conservation: n objects alive in the two ranges in both outcomes: a throw destroys exactly the copies it made *)
Theorem relocate_by_copy_conserves m th bs n caps bd capd :
  Rng m bs n caps -> Rng m bd 0 capd -> Disj bs caps bd capd -> n <= capd ->
  match relocate_by_copy m th bs n bd with
  | Done m' _ => count_live m' bs caps = 0 /\ count_live m' bd capd = n
  | Threw m' => count_live m' bs caps = n /\ count_live m' bd capd = 0
  | Err _ => False end.
Proof.
  intros RS RD HD Hfit. pose proof (relocate_by_copy_strong m th bs n caps bd capd RS RD HD Hfit) as S.
  destruct (relocate_by_copy m th bs n bd) as [m' th'|m'|x]; [exact (Relocated_count _ _ _ _ _ _ _ S)| |exact S].
  rewrite (count_live_ext caps m m' bs), (count_live_ext capd m m' bd) by (intros; apply S).
  rewrite (Rng_count _ _ _ _ RS), (Rng_count _ _ _ _ RD). split; reflexivity.
Qed.
(* the copy is the event: the oracle decides; with n elements the indices 0 .. n - 1 throw, any other completes *)
Lemma relocate_by_copy_no_fault m bs n caps bd capd :
  Rng m bs n caps -> Rng m bd 0 capd -> Disj bs caps bd capd -> n <= capd -> exists m', relocate_by_copy m None bs n bd = Done m' None.
Proof.
  intros RS RD HD Hfit. pose proof (relocate_by_copy_strong m None bs n caps bd capd RS RD HD Hfit) as S.
  assert (N : forall k m0 src dst0 cur, match uninit_copy_loop m0 None src dst0 cur k with Done _ t => t = None | Threw _ => False | Err _ => True end).
  { induction k as [|k IH]; intros m0 src dst0 cur; cbn [uninit_copy_loop]; [reflexivity|].
    unfold copy_construct_from. destruct (m0 src); try exact I; destruct (m0 cur); try exact I; cbn [tick]; apply IH. }
  unfold relocate_by_copy, uninit_copy_n in *. specialize (N n m bs bd bd).
  destruct (uninit_copy_loop m None bs bd bd n) as [m1 th1|m1|x]; [|contradiction|contradiction].
  subst th1. destruct (destroy_n m1 bs n) as [m2|x]; cbn [lift ThrowMove.lift] in *; [exists m2; reflexivity|contradiction].
Qed.
(* [10, 11, 12] into 4 raw slots: the 3rd copy throws (event 2): every slot as before; event 3 does not exist: completion *)
Example relocate_by_copy_strong_ex :
  (Rng (init2 3 3 0 4) 0 3 3 /\ Rng (init2 3 3 0 4) 6 0 4 /\ Disj 0 3 6 4 /\ 3 <= 4) /\
  show (relocate_by_copy (init2 3 3 0 4) (Some 2) 0 3 6) 11 = Some (true, map (init2 3 3 0 4) (seq 0 11)) /\
  show (relocate_by_copy (init2 3 3 0 4) (Some 2) 0 3 6) 11
    = Some (true, [Live 10; Live 11; Live 12; Out; Raw; Out; Raw; Raw; Raw; Raw; Out]%Z) /\
  show (relocate_by_copy (init2 3 3 0 4) (Some 3) 0 3 6) 11
    = Some (false, [Raw; Raw; Raw; Out; Raw; Out; Live 10; Live 11; Live 12; Raw; Out]%Z).
Proof.
  destruct (init2_pre 3 3 0 4 ltac:(lia) ltac:(lia)) as (H1 & H2 & H3 & _).
  split; [repeat (split; [first [assumption|lia]|]); lia|]. repeat split; vm_compute; reflexivity.
Qed.
Example relocate_by_copy_conserves_ex :
  match relocate_by_copy (init2 3 3 0 4) (Some 1) 0 3 6 with Threw m' => count_live m' 0 3 = 3 /\ count_live m' 6 4 = 0 | _ => False end /\
  match relocate_by_copy (init2 3 3 0 4) None 0 3 6 with Done m' _ => count_live m' 0 3 = 0 /\ count_live m' 6 4 = 3 | _ => False end.
Proof. vm_compute. repeat split. Qed.

(* ---- vec::erase_at (first, count): erase (position) ---------------------------------------------------------------------------------------------
   not trivially relocatable:  amc::destroy_at (std::move (first + 1, first + 1 + count, first));
   trivially relocatable:      amc::destroy_at (first);  uninitialized_relocate_n (first + 1, count, first);
   erase (position) calls it with count = size - pos - 1, then decrSize ().  Both are erase_n for one element. *)
Definition erase_at (tr : bool) (m : mem) (first count : nat) : mem + err :=
  if tr then m1 <- destroy m first ;; SlotsTR.relocate_n m1 (first + 1) count first
  else m1 <- mv_forward m (first + 1) count first ;; destroy m1 (first + count).
Lemma erase_at_tr_eq m first count : erase_at true m first count = SlotsTR.erase_n m first 1 count.
Proof. unfold erase_at, SlotsTR.erase_n. cbn [destroy_n]. destruct (destroy m first); reflexivity. Qed.
Lemma erase_at_nx_eq m first count : erase_at false m first count = ThrowMove.erase_n_nx m first 1 count.
Proof.
  unfold erase_at, ThrowMove.erase_n_nx. destruct (mv_forward m (first + 1) count first) as [m1|x]; cbn [bindE]; [|reflexivity].
  cbn [destroy_n]. destruct (destroy m1 (first + count)); reflexivity.
Qed.
Lemma Inv_count m size cap : Inv m size cap -> count_live m 0 cap = size.
Proof.
  intros (H1 & H2 & H3 & _). apply count_live_rng; [exact H1| |]; cbn [Nat.add].
  - intros i Hi. apply live_alive, H2, Hi.
  - intros i Hi. rewrite H3 by lia. reflexivity.
Qed.
(* erase (position) of a vector: never a lifetime error, nothing throws (noexcept moves / memmove); the vector invariant for size - 1,
   the prefix untouched, the suffix one slot lower, the last slot Raw; the sequence is the one of std::vector (Erase.spec_erase) *)
Theorem erase_at_spec tr m th size cap pos :
  Inv m size cap -> pos < size ->
  match lift (erase_at tr m pos (size - pos - 1)) th with
  | Done m' th' => th' = th /\ Inv m' (size - 1) cap /\ (forall j, j < pos -> m' j = m j) /\ (forall j, pos <= j < size - 1 -> m' j = m (j + 1)) /\
                   Slots.abs (ThrowMove.toSm m') (size - 1) = Erase.spec_erase (Slots.abs (ThrowMove.toSm m) size) pos 1
  | Threw _ => False
  | Err _ => False end.
Proof.
  intros HI Hp. destruct tr.
  - rewrite erase_at_tr_eq. destruct (SlotsTR.erase_n_correct m size cap pos 1 HI ltac:(lia)) as [m' (E & S1 & S2 & S3 & S4)].
    rewrite E. cbn [lift ThrowMove.lift]. split; [reflexivity|]. split; [exact S1|]. split; [exact S2|]. split; [exact S3|exact S4].
  - rewrite erase_at_nx_eq. pose proof (ThrowMove.erase_n_basic m None size cap pos 1 HI ltac:(lia) ltac:(lia)) as B.
    pose proof (ThrowMove.erase_n_done_abs m None size cap pos 1) as A. rewrite ThrowMove.erase_n_none in B, A.
    destruct (ThrowMove.erase_n_nx m pos 1 (size - pos - 1)) as [m'|x]; cbn [lift ThrowMove.lift] in *; [|exact B].
    destruct B as (_ & B1 & B2 & B3). split; [reflexivity|]. split; [exact B1|]. split; [exact B2|]. split; [exact B3|].
    exact (A m' None HI ltac:(lia) ltac:(lia) eq_refl).
Qed.
(* conservation: size - 1 objects alive in the block afterwards: exactly one destruction *)
Theorem erase_at_conserves tr m size cap pos m' :
  Inv m size cap -> pos < size -> erase_at tr m pos (size - pos - 1) = inl m' -> count_live m' 0 cap = size - 1 /\ count_live m 0 cap = size.
Proof.
  intros HI Hp E. pose proof (erase_at_spec tr m None size cap pos HI Hp) as S. rewrite E in S. cbn [lift ThrowMove.lift] in S.
  destruct S as (_ & S1 & _). split; [exact (Inv_count _ _ _ S1)|exact (Inv_count _ _ _ HI)].
Qed.
Example erase_at_spec_ex :
  Inv (ThrowMove.init 4 5) 4 5 /\ 1 < 4 /\
  show (lift (erase_at false (ThrowMove.init 4 5) 1 (4 - 1 - 1)) (Some 0)) 6 = Some (false, [Live 10; Live 12; Live 13; Raw; Raw; Out]%Z) /\
  show (lift (erase_at true (ThrowMove.init 4 5) 1 (4 - 1 - 1)) None) 6 = Some (false, [Live 10; Live 12; Live 13; Raw; Raw; Out]%Z) /\
  show (lift (erase_at false (ThrowMove.init 4 5) 3 (4 - 3 - 1)) None) 6 = Some (false, [Live 10; Live 11; Live 12; Raw; Raw; Out]%Z).
Proof. split; [apply ThrowMove.init_inv; lia|]. split; [lia|]. repeat split; vm_compute; reflexivity. Qed.
Example erase_at_conserves_ex :
  exists m', erase_at true (ThrowMove.init 4 5) 1 (4 - 1 - 1) = inl m' /\ count_live m' 0 5 = 4 - 1 /\ count_live (ThrowMove.init 4 5) 0 5 = 4.
Proof. eexists. split; [vm_compute; reflexivity|]. split; vm_compute; reflexivity. Qed.

(* the same with throwing moves (El<2>): the move assignments of std::move are events; a throw skips destroy_at and decrSize: the vector
   keeps its size, every element alive (BASIC: one of them moved-from), nothing destroyed.  It is ThrowMove.erase_n for one element. *)
Definition erase_at_mt (m : mem) (th : option nat) (first count : nat) : out :=
  match ThrowMove.move_forward m th (first + 1) count first with
  | Done m1 th1 => lift (destroy m1 (first + count)) th1
  | o => o end.
Lemma erase_at_mt_eq m th first count : erase_at_mt m th first count = ThrowMove.erase_n m th first 1 count.
Proof.
  unfold erase_at_mt, ThrowMove.erase_n. destruct (ThrowMove.move_forward m th (first + 1) count first) as [m1 th1|m1|x]; [|reflexivity|reflexivity].
  cbn [destroy_n]. destruct (destroy m1 (first + count)); reflexivity.
Qed.
Theorem erase_at_mt_basic m th size cap pos :
  Inv m size cap -> pos < size ->
  match erase_at_mt m th pos (size - pos - 1) with
  | Threw m' => ThrowMove.Basic m' size cap /\ (forall j, j < pos -> m' j = m j) /\ (forall j, size <= j -> m' j = m j) /\ count_live m' 0 cap = size
  | Done m' _ => erase_at false m pos (size - pos - 1) = inl m' /\ Inv m' (size - 1) cap /\ count_live m' 0 cap = size - 1
  | Err _ => False end.
Proof.
  intros HI Hp. rewrite erase_at_mt_eq, erase_at_nx_eq.
  pose proof (ThrowMove.erase_n_basic m th size cap pos 1 HI ltac:(lia) ltac:(lia)) as B.
  destruct (ThrowMove.erase_n m th pos 1 (size - pos - 1)) as [m' th'|m'|x]; [| |exact B].
  - destruct B as (B0 & B1 & _). split; [exact B0|]. split; [exact B1|exact (Inv_count _ _ _ B1)].
  - destruct B as (B0 & B1 & B2). split; [exact B0|]. split; [exact B1|]. split; [exact B2|].
    destruct B0 as (C1 & C2 & C3 & _). apply count_live_rng; [exact C1| |]; cbn [Nat.add]; [exact C2|].
    intros i Hi. rewrite C3 by lia. reflexivity.
Qed.
(* [10, 11, 12, 13]: erase (begin ()): the 2nd move assignment throws: [11, moved-from, 12, 13], size 4 kept *)
Example erase_at_mt_basic_ex :
  Inv (ThrowMove.init 4 4) 4 4 /\ 0 < 4 /\
  show (erase_at_mt (ThrowMove.init 4 4) (Some 1) 0 (4 - 0 - 1)) 5 = Some (true, [Live 11; Moved; Live 12; Live 13; Out]%Z) /\
  show (erase_at_mt (ThrowMove.init 4 4) (Some 3) 0 (4 - 0 - 1)) 5 = Some (false, [Live 11; Live 12; Live 13; Raw; Out]%Z).
Proof. split; [apply ThrowMove.init_inv; lia|]. split; [lia|]. split; vm_compute; reflexivity. Qed.

Print Assumptions mv_forward_disj.
Print Assumptions relocate_any_spec.
Print Assumptions swap_ranges_spec.
Print Assumptions swap_deep_spec.
Print Assumptions swap_deep_conserves.
Print Assumptions move_n_spec.
Print Assumptions move_n_conserves.
Print Assumptions uninit_relocate_n_nx.
Print Assumptions relocate_to_new_buffer_spec.
Print Assumptions relocate_to_new_buffer_conserves.
Print Assumptions uninit_relocate_n_mt_basic.
Print Assumptions uninit_relocate_n_mt_conserves.
Print Assumptions uninit_copy_loop_spec.
Print Assumptions relocate_by_copy_strong.
Print Assumptions relocate_by_copy_conserves.
Print Assumptions relocate_by_copy_no_fault.
Print Assumptions erase_at_spec.
Print Assumptions erase_at_conserves.
Print Assumptions erase_at_mt_basic.
