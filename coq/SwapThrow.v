(* vec::swap_deep with THROWING moves (vf::El<2>: every move construction / move assignment is a throwing-capable event) - the case
   SLOTDRV.md listed as outside the slot-level models.  swap_deep is what swap of two inline storages and the element-wise path of swap2
   run; its callers write the two size words only AFTER it returned, so after an exception both vectors still claim their ORIGINAL sizes.

     std::swap (a, b):   T tmp (std::move (a));  a = std::move (b);  b = std::move (tmp);       each of the three may throw;
                         the temporary is destroyed when the call is left, also by an exception (stack unwinding)
     std::swap_ranges:   the loop of std::swap, lowest index first
     tail:               amc::uninitialized_relocate_n (longer + min, |n1 - n2|, shorter + min)  =  uninitialized_move_n (on a throw: destroys
                         what it built, rethrows) ; destroy_n of the sources

   Theorems (every length, capacity, base address, throw index; no axiom):
     [swap1_spec]            Done: a and b alive, t Raw;  Threw: a and b STILL ALIVE (one of them may be moved-from: its value is in the other
                             slot or was in the destroyed temporary - basic guarantee), t Raw (the temporary never leaks);  never Err;
                             nothing else touched
     [swap_ranges_spec]      the same over n pairs
     [swap_deep_mt_basic]    Done  -> the ranges are vectors of n2 resp. n1 alive elements (sizes exchanged), every other slot of them Raw;
                             Threw -> the ranges are vectors of n1 resp. n2 alive elements - what the untouched size words claim -, every
                                      other slot Raw: no object beyond a size (leak), no raw slot below it (double destruction later);
                             both: t Raw, nothing outside the two ranges and t touched;  never Err
     [swap_deep_mt_conserves] the number of objects alive over both ranges is n1 + n2 in both outcomes
     [swap_deep_mt_none]     with no throw pending the model IS Transfer.swap_deep (so the exact exchange of swap_deep_spec applies)
     [swap_deep_mt_strong_refuted] the strong guarantee does not hold (and C09 does not ask for it: moves that throw): a witness *)
From Coq Require Import ZArith Lia Bool List Arith.
From Amc Require Import Throw EmplaceGrow Transfer.
From Amc Require ThrowMove.
Import ListNotations.

Definition unwind (m : mem) (t : nat) : out := match destroy m t with inl m1 => Threw m1 | inr e => Err e end.

Definition swap1 (m : mem) (th : option nat) (t a b : nat) : out :=
  match ThrowMove.move_construct m th t a with
  | Done m1 th1 =>
      match ThrowMove.move_assign m1 th1 a b with
      | Done m2 th2 =>
          match ThrowMove.move_assign m2 th2 b t with
          | Done m3 th3 => lift (destroy m3 t) th3
          | Threw m' => unwind m' t
          | Err e => Err e end
      | Threw m' => unwind m' t
      | Err e => Err e end
  | o => o end.
Fixpoint swap_ranges (m : mem) (th : option nat) (t a b n : nat) : out :=
  match n with 0 => Done m th
  | S k => match swap1 m th t a b with Done m1 th1 => swap_ranges m1 th1 t (S a) (S b) k | o => o end end.
Definition swap_deep_mt (m : mem) (th : option nat) (t first1 n1 first2 n2 : nat) : out :=
  match swap_ranges m th t first1 first2 (Nat.min n1 n2) with
  | Done m1 th1 =>
      if n1 <? n2 then uninit_relocate_n true m1 th1 (first2 + n1) (n2 - n1) (first1 + n1)
      else uninit_relocate_n true m1 th1 (first1 + n2) (n1 - n2) (first2 + n2)
  | o => o end.

(* what one swap leaves in EVERY outcome that is not a lifetime error *)
Definition Swapped (m m' : mem) (t a b : nat) : Prop :=
  alive (m' a) = true /\ alive (m' b) = true /\ m' t = Raw /\ (forall j, j <> a -> j <> b -> j <> t -> m' j = m j).

Lemma swap1_spec m th t a b : m t = Raw -> alive (m a) = true -> alive (m b) = true -> a <> b -> t <> a -> t <> b ->
  match swap1 m th t a b with Done m' _ => Swapped m m' t a b | Threw m' => Swapped m m' t a b | Err _ => False end.
Proof.
  intros Ht Ha Hb Hab Hta Htb. unfold swap1.
  rewrite (ThrowMove.move_construct_ok m th t a Ht Ha). destruct (tick th) as [[|] th1]; cbn [fst snd].
  { (* the construction of the temporary throws: nothing happened *) repeat split; try assumption. }
  set (m1 := upd (upd m t (m a)) a Moved).
  assert (A1 : alive (m1 a) = true) by (unfold m1; updsimp).
  assert (B1 : alive (m1 b) = true) by (unfold m1; updsimp).
  assert (T1 : alive (m1 t) = true) by (unfold m1; updsimp).
  rewrite (ThrowMove.move_assign_ok m1 th1 a b A1 B1). destruct (tick th1) as [[|] th2]; cbn [fst snd].
  { (* a = std::move (b) throws: a is a moved-from shell, the temporary (holding a's value) is destroyed by the unwinding *)
    unfold unwind. rewrite (destroy_ok m1 t T1). unfold m1. repeat split; try (updsimp; fail). intros j J1 J2 J3. updsimp. }
  set (m2 := upd (upd m1 a (m1 b)) b Moved).
  assert (A2 : alive (m2 a) = true) by (unfold m2; updsimp).
  assert (B2 : alive (m2 b) = true) by (unfold m2; updsimp).
  assert (T2 : alive (m2 t) = true) by (unfold m2; updsimp).
  rewrite (ThrowMove.move_assign_ok m2 th2 b t B2 T2). destruct (tick th2) as [[|] th3]; cbn [fst snd].
  { unfold unwind. rewrite (destroy_ok m2 t T2). unfold m2, m1. repeat split; try (updsimp; fail). intros j J1 J2 J3. updsimp. }
  set (m3 := upd (upd m2 b (m2 t)) t Moved).
  assert (T3 : alive (m3 t) = true) by (unfold m3; updsimp).
  rewrite (destroy_ok m3 t T3). cbn [lift ThrowMove.lift].
  unfold m3, m2, m1. repeat split.
  - pose proof Hb. updsimp.
  - pose proof Ha. updsimp.
  - updsimp.
  - intros j J1 J2 J3. updsimp.
Qed.

(* n pairs: all 2n elements alive, t Raw, nothing else touched - in both outcomes *)
Definition SwappedN (m m' : mem) (t a b n : nat) : Prop :=
  (forall k, k < n -> alive (m' (a + k)) = true) /\ (forall k, k < n -> alive (m' (b + k)) = true) /\ m' t = Raw /\
  (forall j, ~ (a <= j < a + n) -> ~ (b <= j < b + n) -> j <> t -> m' j = m j).
Lemma swap_ranges_spec : forall n m th t a b, (a + n <= b \/ b + n <= a) -> m t = Raw -> ~ (a <= t < a + n) -> ~ (b <= t < b + n) ->
  (forall k, k < n -> alive (m (a + k)) = true) -> (forall k, k < n -> alive (m (b + k)) = true) ->
  match swap_ranges m th t a b n with Done m' _ => SwappedN m m' t a b n | Threw m' => SwappedN m m' t a b n | Err _ => False end.
Proof.
  induction n as [|n IH]; intros m th t a b HD Ht Hta Htb Ha Hb; cbn [swap_ranges].
  - split; [intros; lia|]. split; [intros; lia|]. split; [exact Ht|reflexivity].
  - pose proof (Ha 0 ltac:(lia)) as Ha0. pose proof (Hb 0 ltac:(lia)) as Hb0. rewrite Nat.add_0_r in Ha0, Hb0.
    pose proof (swap1_spec m th t a b Ht Ha0 Hb0 ltac:(lia) ltac:(lia) ltac:(lia)) as Sp.
    assert (Lift : forall m1, Swapped m m1 t a b -> SwappedN m m1 t a b (S n)).
    { intros m1 (P1 & P2 & P3 & P4). split; [|split; [|split; [exact P3|]]].
      - intros k Hk. destruct k as [|k]; [rewrite Nat.add_0_r; exact P1|]. rewrite P4 by lia. apply Ha; exact Hk.
      - intros k Hk. destruct k as [|k]; [rewrite Nat.add_0_r; exact P2|]. rewrite P4 by lia. apply Hb; exact Hk.
      - intros j J1 J2 J3. apply P4; lia. }
    destruct (swap1 m th t a b) as [m1 th1|m1|e]; [|apply Lift; exact Sp|exact Sp].
    destruct Sp as (P1 & P2 & P3 & P4).
    specialize (IH m1 th1 t (S a) (S b) ltac:(lia) P3 ltac:(lia) ltac:(lia)).
    assert (Ha' : forall k, k < n -> alive (m1 (S a + k)) = true).
    { intros k Hk. rewrite P4 by lia. replace (S a + k) with (a + S k) by lia. apply Ha. lia. }
    assert (Hb' : forall k, k < n -> alive (m1 (S b + k)) = true).
    { intros k Hk. rewrite P4 by lia. replace (S b + k) with (b + S k) by lia. apply Hb. lia. }
    specialize (IH Ha' Hb').
    assert (Comp : forall m', SwappedN m1 m' t (S a) (S b) n -> SwappedN m m' t a b (S n)).
    { intros m' (Q1 & Q2 & Q3 & Q4). split; [|split; [|split; [exact Q3|]]].
      - intros k Hk. destruct k as [|k].
        + rewrite Nat.add_0_r. rewrite Q4 by lia. exact P1.
        + replace (a + S k) with (S a + k) by lia. apply Q1. lia.
      - intros k Hk. destruct k as [|k].
        + rewrite Nat.add_0_r. rewrite Q4 by lia. exact P2.
        + replace (b + S k) with (S b + k) by lia. apply Q2. lia.
      - intros j J1 J2 J3. rewrite Q4 by lia. apply P4; lia. }
    destruct (swap_ranges m1 th1 t (S a) (S b) n) as [m' th'|m'|e]; [apply Comp; exact IH|apply Comp; exact IH|exact IH].
Qed.

(* with no throw pending the model is the noexcept one of Transfer.v *)
Lemma swap1_none m t a b : swap1 m None t a b = lift (Transfer.swap1 m t a b) None.
Proof.
  unfold swap1, Transfer.swap1. rewrite ThrowMove.move_construct_none.
  destruct (mv_construct m t a) as [m1|e]; cbn [lift ThrowMove.lift bindE]; [|reflexivity].
  rewrite ThrowMove.move_assign_none. destruct (mv_assign m1 a b) as [m2|e]; cbn [lift ThrowMove.lift bindE]; [|reflexivity].
  rewrite ThrowMove.move_assign_none. destruct (mv_assign m2 b t) as [m3|e]; cbn [lift ThrowMove.lift bindE]; reflexivity.
Qed.
Lemma swap_ranges_none : forall n m t a b, swap_ranges m None t a b n = lift (Transfer.swap_ranges m t a b n) None.
Proof.
  induction n as [|n IH]; intros m t a b; cbn [swap_ranges Transfer.swap_ranges]; [reflexivity|].
  rewrite swap1_none. destruct (Transfer.swap1 m t a b) as [m1|e]; cbn [lift ThrowMove.lift bindE]; [apply IH|reflexivity].
Qed.

(* a vector whose elements are alive but possibly moved-from: what the BASIC guarantee promises of a range *)
Definition ARng (m : mem) (b size cap : nat) : Prop :=
  size <= cap /\ (forall i, i < size -> alive (m (b + i)) = true) /\ (forall i, size <= i < cap -> m (b + i) = Raw).
Lemma Rng_ARng m b size cap : Rng m b size cap -> ARng m b size cap.
Proof. intros (H1 & H2 & H3). split; [exact H1|]. split; [intros i Hi; apply live_alive, H2, Hi|exact H3]. Qed.
Lemma ARng_count m b size cap : ARng m b size cap -> count_live m b cap = size.
Proof. intros (H1 & H2 & H3). apply count_live_rng; [exact H1|exact H2|]. intros i Hi. rewrite H3 by exact Hi. reflexivity. Qed.

Theorem swap_deep_mt_basic m th t b1 n1 cap1 b2 n2 cap2 :
  Rng m b1 n1 cap1 -> Rng m b2 n2 cap2 -> Disj b1 cap1 b2 cap2 -> n2 <= cap1 -> n1 <= cap2 ->
  m t = Raw -> ~ inR b1 cap1 t -> ~ inR b2 cap2 t ->
  match swap_deep_mt m th t b1 n1 b2 n2 with
  | Done m' _ => ARng m' b1 n2 cap1 /\ ARng m' b2 n1 cap2 /\ m' t = Raw /\ (forall j, ~ inR b1 cap1 j -> ~ inR b2 cap2 j -> j <> t -> m' j = m j)
  | Threw m' => ARng m' b1 n1 cap1 /\ ARng m' b2 n2 cap2 /\ m' t = Raw /\ (forall j, ~ inR b1 cap1 j -> ~ inR b2 cap2 j -> j <> t -> m' j = m j)
  | Err _ => False end.
Proof.
  intros R1 R2 HD Hf1 Hf2 Ht Ht1 Ht2. pose proof R1 as (A1 & A2 & A3). pose proof R2 as (B1 & B2 & B3).
  unfold Disj in HD. unfold inR in Ht1, Ht2. unfold swap_deep_mt.
  set (c := Nat.min n1 n2).
  pose proof (swap_ranges_spec c m th t b1 b2 ltac:(unfold c; lia) Ht ltac:(unfold c; lia) ltac:(unfold c; lia)) as Sp.
  assert (Ha : forall k, k < c -> alive (m (b1 + k)) = true) by (intros k Hk; apply live_alive, A2; unfold c in Hk; lia).
  assert (Hb : forall k, k < c -> alive (m (b2 + k)) = true) by (intros k Hk; apply live_alive, B2; unfold c in Hk; lia).
  specialize (Sp Ha Hb).
  (* whatever swap_ranges left: both ranges are still vectors of their ORIGINAL sizes *)
  assert (Keep : forall m1, SwappedN m m1 t b1 b2 c ->
            ARng m1 b1 n1 cap1 /\ ARng m1 b2 n2 cap2 /\ m1 t = Raw /\ (forall j, ~ inR b1 cap1 j -> ~ inR b2 cap2 j -> j <> t -> m1 j = m j)).
  { intros m1 (P1 & P2 & P3 & P4). split; [|split; [|split; [exact P3|]]].
    - split; [exact A1|]. split.
      + intros i Hi. destruct (lt_dec i c) as [L|L]; [apply P1; exact L|]. rewrite P4 by lia. apply live_alive, A2, Hi.
      + intros i Hi. rewrite P4 by (unfold c; lia). apply A3, Hi.
    - split; [exact B1|]. split.
      + intros i Hi. destruct (lt_dec i c) as [L|L]; [apply P2; exact L|]. rewrite P4 by lia. apply live_alive, B2, Hi.
      + intros i Hi. rewrite P4 by (unfold c; lia). apply B3, Hi.
    - intros j J1 J2 J3. unfold inR in J1, J2. apply P4; unfold c; lia. }
  destruct (swap_ranges m th t b1 b2 c) as [m1 th1|m1|e]; [|apply Keep; exact Sp|exact Sp].
  destruct Sp as (P1 & P2 & P3 & P4).
  destruct (Nat.ltb_spec n1 n2) as [Hlt|Hge].
  - (* range 1 is the shorter one: the tail of range 2 is relocated behind it *)
    assert (Ec : c = n1) by (unfold c; lia). rewrite Ec in P1, P2, P4.
    assert (RS : Rng m1 (b2 + n1) (n2 - n1) (cap2 - n1)).
    { split; [lia|]. split; intros i Hi.
      - rewrite P4 by lia. replace (b2 + n1 + i) with (b2 + (n1 + i)) by lia. apply B2. lia.
      - rewrite P4 by lia. replace (b2 + n1 + i) with (b2 + (n1 + i)) by lia. apply B3. lia. }
    assert (RD : Rng m1 (b1 + n1) 0 (cap1 - n1)).
    { split; [lia|]. split; intros i Hi; [lia|]. rewrite P4 by lia. replace (b1 + n1 + i) with (b1 + (n1 + i)) by lia. apply A3. lia. }
    pose proof (uninit_relocate_n_mt_basic m1 th1 (b2 + n1) (n2 - n1) (cap2 - n1) (b1 + n1) (cap1 - n1) RS RD ltac:(unfold Disj; lia) ltac:(lia)) as Sp.
    destruct (uninit_relocate_n true m1 th1 (b2 + n1) (n2 - n1) (b1 + n1)) as [m2 th2|m2|e]; [| |exact Sp].
    + destruct Sp as (K1 & (K2a & K2b & K2c) & (K3a & K3b & K3c) & K4). split; [|split; [|split]].
      * split; [exact Hf1|]. split; intros i Hi.
        -- destruct (lt_dec i n1) as [L|L]; [rewrite K4 by (unfold inR; lia); apply P1; exact L|].
           replace (b1 + i) with (b1 + n1 + (i - n1)) by lia. apply live_alive, K2b. lia.
        -- replace (b1 + i) with (b1 + n1 + (i - n1)) by lia. apply K2c. lia.
      * split; [exact Hf2|]. split; intros i Hi.
        -- rewrite K4 by (unfold inR; lia). apply P2; exact Hi.
        -- destruct (lt_dec i cap2) as [L|L]; [|lia]. replace (b2 + i) with (b2 + n1 + (i - n1)) by lia. apply K3c. lia.
      * rewrite K4 by (unfold inR; lia). exact P3.
      * intros j J1 J2 J3. unfold inR in J1, J2. rewrite K4 by (unfold inR; lia). apply P4; lia.
    + destruct Sp as ((_ & _ & K1) & K2 & K3 & K4). split; [|split; [|split]].
      * split; [exact A1|]. split; intros i Hi.
        -- rewrite K4 by lia. apply P1; exact Hi.
        -- replace (b1 + i) with (b1 + n1 + (i - n1)) by lia. apply K1. lia.
      * split; [exact B1|]. split; intros i Hi.
        -- destruct (lt_dec i n1) as [L|L]; [rewrite K4 by lia; apply P2; exact L|].
           replace (b2 + i) with (b2 + n1 + (i - n1)) by lia. apply K2. lia.
        -- replace (b2 + i) with (b2 + n1 + (i - n1)) by lia. apply K3. lia.
      * rewrite K4 by lia. exact P3.
      * intros j J1 J2 J3. unfold inR in J1, J2. rewrite K4 by lia. apply P4; lia.
  - (* range 2 is the shorter one (or equal lengths) *)
    assert (Ec : c = n2) by (unfold c; lia). rewrite Ec in P1, P2, P4.
    assert (RS : Rng m1 (b1 + n2) (n1 - n2) (cap1 - n2)).
    { split; [lia|]. split; intros i Hi.
      - rewrite P4 by lia. replace (b1 + n2 + i) with (b1 + (n2 + i)) by lia. apply A2. lia.
      - rewrite P4 by lia. replace (b1 + n2 + i) with (b1 + (n2 + i)) by lia. apply A3. lia. }
    assert (RD : Rng m1 (b2 + n2) 0 (cap2 - n2)).
    { split; [lia|]. split; intros i Hi; [lia|]. rewrite P4 by lia. replace (b2 + n2 + i) with (b2 + (n2 + i)) by lia. apply B3. lia. }
    pose proof (uninit_relocate_n_mt_basic m1 th1 (b1 + n2) (n1 - n2) (cap1 - n2) (b2 + n2) (cap2 - n2) RS RD ltac:(unfold Disj; lia) ltac:(lia)) as Sp.
    destruct (uninit_relocate_n true m1 th1 (b1 + n2) (n1 - n2) (b2 + n2)) as [m2 th2|m2|e]; [| |exact Sp].
    + destruct Sp as (K1 & (K2a & K2b & K2c) & (K3a & K3b & K3c) & K4). split; [|split; [|split]].
      * split; [exact Hf1|]. split; intros i Hi.
        -- rewrite K4 by (unfold inR; lia). apply P1; exact Hi.
        -- destruct (lt_dec i cap1) as [L|L]; [|lia]. replace (b1 + i) with (b1 + n2 + (i - n2)) by lia. apply K3c. lia.
      * split; [exact Hf2|]. split; intros i Hi.
        -- destruct (lt_dec i n2) as [L|L]; [rewrite K4 by (unfold inR; lia); apply P2; exact L|].
           replace (b2 + i) with (b2 + n2 + (i - n2)) by lia. apply live_alive, K2b. lia.
        -- replace (b2 + i) with (b2 + n2 + (i - n2)) by lia. apply K2c. lia.
      * rewrite K4 by (unfold inR; lia). exact P3.
      * intros j J1 J2 J3. unfold inR in J1, J2. rewrite K4 by (unfold inR; lia). apply P4; lia.
    + destruct Sp as ((_ & _ & K1) & K2 & K3 & K4). split; [|split; [|split]].
      * split; [exact A1|]. split; intros i Hi.
        -- destruct (lt_dec i n2) as [L|L]; [rewrite K4 by lia; apply P1; exact L|].
           replace (b1 + i) with (b1 + n2 + (i - n2)) by lia. apply K2. lia.
        -- replace (b1 + i) with (b1 + n2 + (i - n2)) by lia. apply K3. lia.
      * split; [exact B1|]. split; intros i Hi.
        -- rewrite K4 by lia. apply P2; exact Hi.
        -- replace (b2 + i) with (b2 + n2 + (i - n2)) by lia. apply K1. lia.
      * rewrite K4 by lia. exact P3.
      * intros j J1 J2 J3. unfold inR in J1, J2. rewrite K4 by lia. apply P4; lia.
Qed.

(* conservation in both outcomes: n1 + n2 objects alive over the two ranges, none in the temporary *)
Theorem swap_deep_mt_conserves m th t b1 n1 cap1 b2 n2 cap2 :
  Rng m b1 n1 cap1 -> Rng m b2 n2 cap2 -> Disj b1 cap1 b2 cap2 -> n2 <= cap1 -> n1 <= cap2 ->
  m t = Raw -> ~ inR b1 cap1 t -> ~ inR b2 cap2 t ->
  match swap_deep_mt m th t b1 n1 b2 n2 with
  | Done m' _ | Threw m' => count_live m' b1 cap1 + count_live m' b2 cap2 = n1 + n2 /\ count_live m' t 1 = 0
  | Err _ => False end.
Proof.
  intros R1 R2 HD Hf1 Hf2 Ht Ht1 Ht2. pose proof (swap_deep_mt_basic m th t b1 n1 cap1 b2 n2 cap2 R1 R2 HD Hf1 Hf2 Ht Ht1 Ht2) as Sp.
  destruct (swap_deep_mt m th t b1 n1 b2 n2) as [m' th'|m'|e]; [| |exact Sp]; destruct Sp as (S1 & S2 & S3 & _);
    rewrite (ARng_count _ _ _ _ S1), (ARng_count _ _ _ _ S2); (split; [lia|cbn [count_live]; rewrite S3; reflexivity]).
Qed.

Theorem swap_deep_mt_none m t b1 n1 b2 n2 : swap_deep_mt m None t b1 n1 b2 n2 = lift (Transfer.swap_deep false m t b1 n1 b2 n2) None.
Proof.
  unfold swap_deep_mt, Transfer.swap_deep. rewrite swap_ranges_none.
  destruct (Transfer.swap_ranges m t b1 b2 (Nat.min n1 n2)) as [m1|e]; cbn [lift ThrowMove.lift bindE]; [|reflexivity].
  destruct (n1 <? n2); cbn [relocate_any]; rewrite <- uninit_relocate_n_nx; unfold uninit_relocate_n, uninit_move_n;
    rewrite uninit_move_loop_mt, uninit_move_loop_nx; rewrite ThrowMove.uninit_move_loop_none; reflexivity.
Qed.

(* ---- non-vacuity and the limit of the guarantee -------------------------------------------------------------------------------------- *)
(* [10, 11, 12, raw] x [20, raw, raw] (Transfer.init2 3 4 1 3: t = 5, range 2 at 7): throw index 1 = the assignment a = std::move (b) of the
   first pair throws: slot 0 is a moved-from shell (its value 10 died with the temporary), every object still alive, sizes 3 and 1 *)
Example swap_deep_mt_ex :
  show (swap_deep_mt (init2 3 4 1 3) (Some 1) 5 0 3 7 1) 11
    = Some (true, [Moved; Live 11; Live 12; Raw; Out; Raw; Out; Live 20; Raw; Raw; Out]%Z) /\
  show (swap_deep_mt (init2 3 4 1 3) (Some 4) 5 0 3 7 1) 11         (* the relocation of the tail throws at its second move *)
    = Some (true, [Live 20; Moved; Live 12; Raw; Out; Raw; Out; Live 10; Raw; Raw; Out]%Z) /\
  show (swap_deep_mt (init2 3 4 1 3) (Some 5) 5 0 3 7 1) 11
    = Some (false, [Live 20; Raw; Raw; Raw; Out; Raw; Out; Live 10; Live 11; Live 12; Out]%Z).
Proof. repeat split; vm_compute; reflexivity. Qed.
Lemma swap_deep_mt_strong_refuted : exists m', swap_deep_mt (init2 3 4 1 3) (Some 1) 5 0 3 7 1 = Threw m' /\ m' 0 = Moved /\ init2 3 4 1 3 0 = Live 10%Z.
Proof. eexists. split; [vm_compute; reflexivity|]. split; vm_compute; reflexivity. Qed.

Print Assumptions swap_deep_mt_basic.
Print Assumptions swap_deep_mt_conserves.
Print Assumptions swap_deep_mt_none.
