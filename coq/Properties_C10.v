(* C10 - arguments that refer to the vector's own elements are handled as if copied first.
   - [C10_insert_own_element_slot_level] (Alias.v): insert(pos, v) where v refers to element i of the same vector, for the
     element types that run assignments (not trivially relocatable), modelled slot by slot with the reference as an INDEX
     that is read when the code reads it: the result is the std::vector result  firstn pos l ++ [l[i]] ++ skipn pos l
     for EVERY size, position and source index (before, at, after the insertion point), with no lifetime error;
     [insert_own_old_refuted] shows the pre-repair order (reference read after the shift) fails for i >= pos.
   - [C10_model_*]: in the operation-level model an own-element argument (AOwn i) and the external value l[i] (AExt) give
     the same step - for push_back, insert, insert(count), emplace, emplace_back, resize(n,v), assign(n,v), append(n,v), with
     or without growth: the model reads the argument before anything moves, and the model is what the lock-step
     correspondence compares with the implementation on the complete aliasing grid (every size <= 5 (6), position, source
     index, count <= 3, with and without spare capacity, lvalue and rvalue forms, all configurations), std::vector doing the
     same call as direct oracle under ASan. *)
From Coq Require Import ZArith List Bool.
From Amc Require Import GenPrelude Words VecModel VecProofs Slots Alias.
Import ListNotations.
Local Open Scope Z_scope.

Theorem C10_insert_own_element_slot_level :
  forall m size cap pos i, Inv m size cap -> (pos <= size)%nat -> (i < size)%nat -> (size + 1 <= cap)%nat ->
    exists m', insert_own m size pos i = inr m' /\ Inv m' (size + 1) cap /\
               abs m' (size + 1) = spec_insert (abs m size) pos 1 (nth i (abs m size) 0).
Proof. exact insert_own_correct. Qed.

Theorem C10_model_own_argument_as_if_copied :
  forall c p a v i, get p a = Some v -> (i < length (els v))%nat ->
  step c p (PushBack a (AOwn i)) = step c p (PushBack a (AExt (nth i (els v) 0))) /\
  (forall q, step c p (Insert a q (AOwn i)) = step c p (Insert a q (AExt (nth i (els v) 0)))) /\
  (forall q n, step c p (InsertN a q n (AOwn i)) = step c p (InsertN a q n (AExt (nth i (els v) 0)))) /\
  (forall q, step c p (Emplace a q (AOwn i)) = step c p (Emplace a q (AExt (nth i (els v) 0)))) /\
  step c p (EmplaceBack a (AOwn i)) = step c p (EmplaceBack a (AExt (nth i (els v) 0))) /\
  (forall n, step c p (ResizeV a n (AOwn i)) = step c p (ResizeV a n (AExt (nth i (els v) 0)))) /\
  (forall n, step c p (AssignN a n (AOwn i)) = step c p (AssignN a n (AExt (nth i (els v) 0)))) /\
  (forall n, step c p (AppendNV a n (AOwn i)) = step c p (AppendNV a n (AExt (nth i (els v) 0)))).
Proof. exact own_as_ext. Qed.
