(* C10 - arguments that refer to the vector's own elements are handled as if copied first.
   - [C10_insert_own_element_slot_level] (Alias.v): insert(pos, v) where v refers to element i of the same vector, for the
     element types that run assignments (not trivially relocatable), modelled slot by slot with the reference as an INDEX
     that is read when the code reads it: the result is the std::vector result  firstn pos l ++ [l[i]] ++ skipn pos l
     for EVERY size, position and source index (before, at, after the insertion point), with no lifetime error;
     [insert_own_old_refuted] shows the pre-repair order (reference read after the shift) fails for i >= pos.
   - [C10_model_*]: in the operation-level model an own-element argument (AOwn i) and the external value l[i] (AExt) give
     the same step - for push_back, insert, insert(count), emplace, emplace_back, resize(n,v), assign(n,v), append(n,v), with
     or without growth: the model reads the argument before anything moves, and the model is what the lock-step
     correspondence compares with the implementation on the complete aliasing grid (every size <= 5 (6), position, source
     index, count <= 3, with and without spare capacity, lvalue and rvalue forms, all configurations), std::vector doing the
     same call as direct oracle under ASan.
   - [C10_own_element_*] (AliasThrow.v): the member functions insert(pos, v), insert(pos, n, v), push_back(v) with v an own
     element, for both element flavours, WITH the throw oracle and WITH growth (the reference is a slot index read when the code
     reads it - reading a vacated slot is an error of the model; old block, new block and the two temporaries are slots of one
     memory): never a lifetime error; on completion the list std::vector gives (the value v had before the call), in the old
     block within capacity and in the new one otherwise; a throw within capacity leaves every slot as before.  When the vector has
     to grow first, the copy is made after the reallocation: a throwing copy then leaves the CONTENTS intact but in the new block
     ([C10_own_element_push_back_grow_slots_refuted]: the strong guarantee holds on the value interface only - capacity and
     addresses have changed, which std::vector avoids; this is how C09 reads "left exactly as it was", DESIGN section 9). *)
From Coq Require Import ZArith List Bool.
From Amc Require Import GenPrelude Words VecModel VecProofs Slots Alias.
From Amc Require Throw EmplaceGrow AliasThrow.
Import ListNotations.
Local Open Scope Z_scope.

Theorem C10_insert_own_element_slot_level :
  forall m size cap pos i, Inv m size cap -> (pos <= size)%nat -> (i < size)%nat -> (size + 1 <= cap)%nat ->
    exists m', insert_own m size pos i = inr m' /\ Inv m' (size + 1) cap /\
               abs m' (size + 1) = spec_insert (abs m size) pos 1 (nth i (abs m size) 0).
Proof. exact insert_own_correct. Qed.

Theorem C10_model_own_argument_as_if_copied :
  forall c p a v i, get p a = Some v -> (i < length (els v))%nat ->
  step c p (PushBack a (AOwn i)) = step c p (PushBack a (AExt (nth i (els v) 0))) /\
  (forall q, step c p (Insert a q (AOwn i)) = step c p (Insert a q (AExt (nth i (els v) 0)))) /\
  (forall q n, step c p (InsertN a q n (AOwn i)) = step c p (InsertN a q n (AExt (nth i (els v) 0)))) /\
  (forall q, step c p (Emplace a q (AOwn i)) = step c p (Emplace a q (AExt (nth i (els v) 0)))) /\
  step c p (EmplaceBack a (AOwn i)) = step c p (EmplaceBack a (AExt (nth i (els v) 0))) /\
  (forall n, step c p (ResizeV a n (AOwn i)) = step c p (ResizeV a n (AExt (nth i (els v) 0)))) /\
  (forall n, step c p (AssignN a n (AOwn i)) = step c p (AssignN a n (AExt (nth i (els v) 0)))) /\
  (forall n, step c p (AppendNV a n (AOwn i)) = step c p (AppendNV a n (AExt (nth i (els v) 0)))).
Proof. exact own_as_ext. Qed.

(* ---- own-element arguments through the member functions, with throws and growth (both element flavours) ---- *)
Local Close Scope Z_scope.
Theorem C10_own_element_insert :
  forall tr m th size cap pos src e t nb,
  AliasThrow.OwnPre m size cap e t nb -> pos <= size -> src < size ->
  match AliasThrow.insert_own tr m th size cap pos src e t nb with
  | Throw.Done m' _ => exists b' c', AliasThrow.After m m' cap e t nb b' c' (size + 1) /\ (b' = 0 <-> size < cap) /\ (size = cap -> c' = EmplaceGrow.next_cap size) /\
                   AliasThrow.vals m' b' (size + 1) = Slots.spec_insert (AliasThrow.vals m 0 size) pos 1 (nth src (AliasThrow.vals m 0 size) 0%Z)
  | Throw.Threw m' => (forall j, m' j = m j) \/
                (size = cap /\ src < pos /\ AliasThrow.After m m' cap e t nb nb (EmplaceGrow.next_cap size) size /\ AliasThrow.vals m' nb size = AliasThrow.vals m 0 size)
  | Throw.Err _ => False end.
Proof. exact AliasThrow.insert_own_spec. Qed.

Theorem C10_own_element_insert_within_capacity_strong :
  forall tr m th size cap pos src e t nb m',
  AliasThrow.OwnPre m size cap e t nb -> pos <= size -> src < size -> size < cap ->
  AliasThrow.insert_own tr m th size cap pos src e t nb = Throw.Threw m' -> forall j, m' j = m j.
Proof. exact AliasThrow.insert_own_strong_incap. Qed.

Theorem C10_own_element_insert_count_within_capacity_strong :
  forall tr m th size cap pos count src e t nb m',
  AliasThrow.OwnPre m size cap e t nb -> pos <= size -> src < size -> size + count <= cap ->
  AliasThrow.insert_cnt_own tr m th size cap pos count src t nb = Throw.Threw m' -> forall j, m' j = m j.
Proof. exact AliasThrow.insert_cnt_own_strong_incap. Qed.

Theorem C10_own_element_push_back_within_capacity_strong :
  forall tr m th size cap src e t nb m',
  AliasThrow.OwnPre m size cap e t nb -> src < size -> size < cap ->
  AliasThrow.push_back_own tr m th size cap src nb = Throw.Threw m' -> forall j, m' j = m j.
Proof. exact AliasThrow.push_back_own_strong_incap. Qed.

Theorem C10_own_element_push_back_grow_slots_refuted :
  forall tr, exists m th size cap src e t nb m',
  AliasThrow.OwnPre m size cap e t nb /\ src < size /\ AliasThrow.push_back_own tr m th size cap src nb = Throw.Threw m' /\
  m 0 = Throw.Live 10%Z /\ m' 0 = Throw.Out /\ m' nb = Throw.Live 10%Z /\ ~ (forall j, m' j = m j).
Proof. exact AliasThrow.push_back_own_grow_slots_refuted. Qed.
