(* L0, hand model: the integer bookkeeping of the three storage bases (vectorcommon.hpp) and the growth policy
   (smallvector.hpp, fixedcapacityvector.hpp), generic in the size_type maximum M and in the conversion function
   [wrap] applied by the C++ arithmetic.  The regenerated definitions (Gen/L0_<S>.v) are proved equal to these in
   TV_<S>.v, for every in-range input. *)
From Coq Require Import ZArith Lia Bool.
Require Import ZifyBool.
From Amc Require Export GenPrelude.
Local Open Scope Z_scope.

Section W.
Variable M : Z.                 (* numeric_limits<SizeType>::max() *)
Variable wrap : Z -> Z.         (* conversion to SizeType *)

(* --- SmallVectorBase: inline <-> the two words are swapped; size == N is marked by _size = M *)
Definition isSmall (s : words) : bool := capa_ s <? size_ s.
Definition size (s : words) : Z := if isSmall s then capa_ s else size_ s.
Definition capacity (s : words) : Z := if isSmall s && negb (size_ s =? M) then size_ s else capa_ s.
Definition incrSize (s : words) : words :=
  if isSmall s then
    let c := wrap (capa_ s + 1) in
    if c =? size_ s then {| capa_ := c; size_ := M |} else {| capa_ := c; size_ := size_ s |}
  else {| capa_ := capa_ s; size_ := wrap (size_ s + 1) |}.
Definition decrSize (s : words) : words :=
  if isSmall s then
    let s1 := if size_ s =? M then {| capa_ := capa_ s; size_ := capa_ s |} else s in
    {| capa_ := wrap (capa_ s1 - 1); size_ := size_ s1 |}
  else {| capa_ := capa_ s; size_ := wrap (size_ s - 1) |}.
Definition setSize (s : words) (n : Z) : words :=
  if isSmall s then
    let s1 := if size_ s =? M then (if negb (n =? capa_ s) then {| capa_ := capa_ s; size_ := capa_ s |} else s)
              else if n =? size_ s then {| capa_ := capa_ s; size_ := M |} else s in
    {| capa_ := n; size_ := size_ s1 |}
  else {| capa_ := capa_ s; size_ := n |}.
Definition init (N : Z) : words := {| capa_ := 0; size_ := N |}.

(* --- StdVectorBase / StaticVectorBase: plain members *)
Definition p_size (s : words) : Z := size_ s.
Definition p_capacity (s : words) : Z := capa_ s.
Definition p_incrSize (s : words) : words := {| capa_ := capa_ s; size_ := wrap (size_ s + 1) |}.
Definition p_decrSize (s : words) : words := {| capa_ := capa_ s; size_ := wrap (size_ s - 1) |}.
Definition p_setSize (s : words) (n : Z) : words := {| capa_ := capa_ s; size_ := n |}.

(* --- growth policy: None = the exception (overflow_error / out_of_range) *)
Definition safe_next (oldCapa newSize : Z) (exact : bool) : option Z :=
  if exact then Some (wrap newSize)
  else let c := Z.min (Z.max ((3 * oldCapa + 1) / 2) newSize) M in
       if c <? newSize then None else Some (wrap c).
Definition exc_check (capacity maxCapacity : Z) : option unit :=
  if maxCapacity <? capacity then None else Some tt.

(* ------------------------------------------------------------------------------------------------------------ *)
Variable N : Z.                 (* inline capacity *)
Hypothesis HN : 0 < N < M.
Hypothesis wrap_id : forall x, 0 <= x <= M -> wrap x = x.

(* the representation invariant of SmallVectorBase's two words *)
Definition WInv (s : words) : Prop :=
  0 <= capa_ s <= M /\ 0 <= size_ s <= M /\
  ((capa_ s < N /\ size_ s = N) \/ (capa_ s = N /\ size_ s = M) \/ (size_ s <= capa_ s /\ N <= capa_ s) \/ (size_ s <= capa_ s /\ size_ s <> M)).

(* The last two disjuncts are the heap states: a SmallVector's heap capacity is normally larger than N; an adopted
   amc::vector buffer may be smaller (SmallVector(vector&&)), in which case the words are only required to be ordered. *)

Ltac wcase := repeat match goal with
  | |- context [wrap ?x] => let H := fresh "Hw" in pose proof (wrap_id x) as H; revert H; generalize (wrap x); intros ? H
  end.
Ltac bcase := repeat match goal with
  | |- context [Z.ltb ?a ?b] => destruct (Z.ltb a b) eqn:?; cbn [andb negb capa_ size_] in *
  | |- context [Z.eqb ?a ?b] => destruct (Z.eqb a b) eqn:?; cbn [andb negb capa_ size_] in *
  end.

Lemma init_ok : WInv (init N) /\ size (init N) = 0 /\ capacity (init N) = N /\ isSmall (init N) = true.
Proof. unfold WInv, init, size, capacity, isSmall; cbn [capa_ size_]. bcase; lia. Qed.

Lemma inline_view s : WInv s -> isSmall s = true -> size s = capa_ s /\ capacity s = N /\ size s <= N.
Proof. destruct s as [c z]; unfold WInv, size, capacity, isSmall; cbn [capa_ size_]. bcase; intros; cbn [capa_ size_] in *; try discriminate; lia. Qed.

Lemma heap_view s : WInv s -> isSmall s = false -> size s = size_ s /\ capacity s = capa_ s /\ size s <= capacity s.
Proof. destruct s as [c z]; unfold WInv, size, capacity, isSmall; cbn [capa_ size_]. bcase; intros; cbn [capa_ size_] in *; try discriminate; lia. Qed.

Lemma size_le_capacity s : WInv s -> 0 <= size s <= capacity s /\ capacity s <= M.
Proof. destruct s as [c z]; unfold WInv, size, capacity, isSmall; cbn [capa_ size_]. bcase; intros; cbn [capa_ size_] in *; lia. Qed.

Lemma incr_ok s : WInv s -> size s < capacity s ->
  WInv (incrSize s) /\ size (incrSize s) = size s + 1 /\ capacity (incrSize s) = capacity s /\ isSmall (incrSize s) = isSmall s.
Proof. destruct s as [c z]; unfold WInv, incrSize, size, capacity, isSmall; cbn [capa_ size_]. wcase. bcase; intros; cbn [negb andb capa_ size_] in *; lia. Qed.

Lemma decr_ok s : WInv s -> 0 < size s ->
  WInv (decrSize s) /\ size (decrSize s) = size s - 1 /\ capacity (decrSize s) = capacity s /\ isSmall (decrSize s) = isSmall s.
Proof. destruct s as [c z]; unfold WInv, decrSize, size, capacity, isSmall; cbn [capa_ size_]. wcase. bcase; intros; cbn [negb andb capa_ size_] in *; lia. Qed.

Lemma setSize_ok s n : WInv s -> 0 <= n <= capacity s ->
  WInv (setSize s n) /\ size (setSize s n) = n /\ capacity (setSize s n) = capacity s /\ isSmall (setSize s n) = isSmall s.
Proof. destruct s as [c z]; unfold WInv, setSize, size, capacity, isSmall; cbn [capa_ size_]. bcase; intros; cbn [negb andb capa_ size_] in *; lia. Qed.

End W.

Section G.
Variable M : Z.
Variable wrap : Z -> Z.
Hypothesis wrap_id : forall x, 0 <= x <= M -> wrap x = x.
(* growth policy *)
Lemma safe_next_spec oldCapa newSize :
  0 <= oldCapa <= M -> 0 <= newSize ->
  match safe_next M wrap oldCapa newSize false with
  | None => M < newSize
  | Some c => newSize <= c <= M /\ c = Z.min (Z.max ((3 * oldCapa + 1) / 2) newSize) M
  end.
Proof.
  intros Ho Hn. unfold safe_next.
  set (c := Z.min (Z.max ((3 * oldCapa + 1) / 2) newSize) M).
  assert (Hc : 0 <= c <= M) by (unfold c; pose proof (Z.div_pos (3 * oldCapa + 1) 2); lia).
  destruct (c <? newSize) eqn:E.
  - unfold c in *. lia.
  - rewrite (wrap_id c Hc). unfold c in *. lia.
Qed.

Lemma safe_next_exact n : 0 <= n <= M -> safe_next M wrap 0 n true = Some n.
Proof. intros H. unfold safe_next. rewrite wrap_id by assumption. reflexivity. Qed.

Lemma exc_check_spec c m : exc_check c m = if m <? c then None else Some tt.
Proof. reflexivity. Qed.
End G.

