(* Translation validation of the regenerated SmallSet insertion (Gen/SsetGen.v) against the hand model (SetModel.ss_insert). *)
From Coq Require Import ZArith Arith Lia List Bool.
From Amc Require Import Hint SetModel SsetPrims.
From Amc.Gen Require Import SsetGen.
Import ListNotations.
Local Open Scope Z_scope.

Definition out (r : sset * nat * bool) : list Z * list Z * Z * bool :=
  let '(s, i, b) := r in (svec s, sset_ s, Z.of_nat i, b).
Lemma eqb_nat a b : (Z.of_nat a =? Z.of_nat b) = Nat.eqb a b.
Proof. destruct (Nat.eqb_spec a b) as [->|H]; [apply Z.eqb_refl|]. apply Z.eqb_neq. lia. Qed.
Lemma isSmall_tv s : isSmall_gen (sset_ s) = ss_small s.
Proof. unfold isSmall_gen, ss_small. destruct (sset_ s); reflexivity. Qed.

(* insertion in the inline state, including the transition to the large state at exactly N elements *)
Theorem insert_small_tv cmp N s v : ss_small s = true ->
  insert_small_gen cmp (Z.of_nat N) (svec s) (sset_ s) v = out (ss_insert cmp N s v).
Proof. intros Hs. unfold insert_small_gen, isSmallContFull_gen, ss_insert, find_small_z. rewrite Hs. cbv zeta. rewrite !eqb_nat.
  assert (Es : sset_ s = []) by (unfold ss_small in Hs; destruct (sset_ s); [reflexivity|discriminate]).
  destruct (Nat.eqb (find_small cmp (svec s) v) (length (svec s))) eqn:Ef.
  - destruct (Nat.eqb (length (svec s)) N).
    + unfold grow_p, set_ins. rewrite Es. cbn [fold_left]. fold (set_of cmp (svec s)).
      destruct (set_insert cmp (set_of cmp (svec s)) v) as [[l j] b]. reflexivity.
    + unfold out. cbn [svec sset_]. rewrite Es. reflexivity.
  - unfold out. destruct s; reflexivity.
Qed.

(* insert(const T&) in any state *)
Theorem insert_tv cmp N s v : insert_gen cmp (Z.of_nat N) (svec s) (sset_ s) v = out (ss_insert cmp N s v).
Proof. unfold insert_gen. rewrite isSmall_tv. destruct (ss_small s) eqn:Hs; [apply insert_small_tv; assumption|].
  unfold insert_set_gen, set_ins, ss_insert. rewrite Hs. destruct (set_insert cmp (sset_ s) v) as [[l j] b]. reflexivity. Qed.

(* lookups and erasure by key *)
Theorem find_tv cmp s k : find_gen cmp (svec s) (sset_ s) k = Z.of_nat (ss_find cmp s k).
Proof. unfold find_gen, ss_find. rewrite isSmall_tv. destruct (ss_small s); reflexivity. Qed.
Theorem contains_tv cmp s k : contains_gen cmp (svec s) (sset_ s) k = negb (Nat.eqb (ss_find cmp s k) (ss_size s)).
Proof. unfold contains_gen, ss_find, ss_size, ss_elems, find_small_z, set_contains, fs_contains. rewrite isSmall_tv. cbv zeta.
  destruct (ss_small s); [rewrite eqb_nat|]; reflexivity. Qed.
Theorem erase_key_tv cmp s v :
  erase_key_gen cmp (svec s) (sset_ s) v =
  (svec (fst (ss_erase_key cmp s v)), sset_ (fst (ss_erase_key cmp s v)), Z.of_nat (snd (ss_erase_key cmp s v))).
Proof. unfold erase_key_gen, ss_erase_key, ss_find, ss_size, ss_elems, ss_erase_at. rewrite isSmall_tv. cbv zeta.
  destruct (ss_small s) eqn:Hs; cbn [negb].
  - unfold find_small_z. rewrite eqb_nat. destruct (Nat.eqb (find_small cmp (svec s) v) (length (svec s))); [reflexivity|].
    unfold vec_erase. rewrite Nat2Z.id. cbn [fst snd svec sset_].
    assert (Es : sset_ s = []) by (unfold ss_small in Hs; destruct (sset_ s); [reflexivity|discriminate]). rewrite Es. reflexivity.
  - unfold set_erase_key, fs_erase_key. destruct (Nat.eqb (fs_find cmp (sset_ s) v) (length (sset_ s))); reflexivity.
Qed.

(* copy assignment: the regenerated operator=(const SmallSet&); after an exception (whatever the two containers were left with)
   both containers are emptied *)
Theorem copy_assign_tv vec set ovec oset self :
  copy_assign_gen vec set ovec oset self None = inl (if self then (vec, set) else (ovec, oset)).
Proof. unfold copy_assign_gen. destruct self; reflexivity. Qed.
Theorem copy_assign_thrown vec set ovec oset left : copy_assign_gen vec set ovec oset false (Some left) = inr ([], []).
Proof. unfold copy_assign_gen. destruct left; reflexivity. Qed.
