(* Slot-level model of erase(first, last) for element types that are not trivially relocatable (vectorcommon.hpp erase_n:
   std::move(first + n, first + n + count, first) then destroy the n trailing slots), with the lifetime errors of Slots.v.
   Moving an element onto itself is what an instrumented element reports as "self-move-assign": it is left moved-from. *)
From Coq Require Import ZArith Lia Bool List Arith.
Require Import ZifyBool.
From Amc Require Import Slots.
Import ListNotations.

Fixpoint move_fwd (m : mem) (src dst k : nat) : R :=
  match k with 0 => inr m | S k' => bind (move_assign m dst src) (fun m1 => move_fwd m1 (S src) (S dst) k') end.
Definition destroy1 (m : mem) (i : nat) : R :=
  match m i with Live _ | Moved => inr (upd m i Raw) | Raw => inl DestroyDead | Out => inl OutOfBlock end.
Fixpoint destroy_n (m : mem) (first n : nat) : R :=
  match n with 0 => inr m | S k => bind (destroy1 m first) (fun m1 => destroy_n m1 (S first) k) end.
Definition erase_n (m : mem) (first n count : nat) : R :=
  bind (move_fwd m (first + n) first count) (fun m1 => destroy_n m1 (first + count) n).

Lemma move_fwd_spec : forall k m dst n, 0 < n ->
  (forall j, j < k -> is_live (m (dst + n + j)) = true) -> (forall j, j < k -> alive (m (dst + j)) = true) ->
  exists m', move_fwd m (dst + n) dst k = inr m' /\
    (forall j, dst <= j < dst + k -> m' j = m (j + n)) /\
    (forall j, dst + k <= j < dst + n + k -> dst + n <= j -> m' j = Moved) /\
    (forall j, dst + k <= j < dst + n -> m' j = m j) /\
    (forall j, ~ (dst <= j < dst + n + k) -> m' j = m j).
Proof.
  induction k as [|k IH]; intros m dst n Hn Hs Hd; cbn [move_fwd].
  - exists m. repeat split; intros; try lia; reflexivity.
  - pose proof (Hs 0 ltac:(lia)) as Hs0. pose proof (Hd 0 ltac:(lia)) as Hd0. rewrite Nat.add_0_r in Hs0, Hd0.
    unfold move_assign. destruct (m (dst + n)) as [| |v|] eqn:Es; try discriminate.
    destruct (m dst) eqn:Ed; try discriminate; cbn [bind].
    all: match goal with |- context [move_fwd ?m1 _ _ _] =>
      replace (S (dst + n)) with (S dst + n) by lia;
      destruct (IH m1 (S dst) n Hn) as [m' (E & P1 & P2 & P3 & P4)];
      [ intros j Hj; pose proof (Hs (S j) ltac:(lia)) as Hw; replace (dst + n + S j) with (S dst + n + j) in Hw by lia;
        unfold upd; destruct (Nat.eqb_spec (dst + n) (S dst + n + j)); [lia|]; destruct (Nat.eqb_spec dst (S dst + n + j)); [lia|assumption]
      | intros j Hj; pose proof (Hd (S j) ltac:(lia)) as Hw; replace (dst + S j) with (S dst + j) in Hw by lia;
        unfold upd; destruct (Nat.eqb_spec (dst + n) (S dst + j)); [reflexivity|]; destruct (Nat.eqb_spec dst (S dst + j)); [lia|assumption]
      | exists m'; split; [exact E|]; split; [|split; [|split]] ] end.
    all: try (intros j Hj; destruct (Nat.eq_dec j dst) as [->|Hne];
              [ rewrite P4 by lia; unfold upd; destruct (Nat.eqb_spec (dst + n) dst); [lia|]; rewrite Nat.eqb_refl; rewrite Es; reflexivity
              | rewrite P1 by lia; unfold upd; destruct (Nat.eqb_spec (dst + n) (j + n)); [lia|]; destruct (Nat.eqb_spec dst (j + n)); [lia|reflexivity] ]).
    all: try (intros j Hj Hj2; destruct (Nat.eq_dec j (dst + n)) as [->|Hne];
              [ rewrite P3 by lia; unfold upd; rewrite Nat.eqb_refl; reflexivity | apply P2; lia ]).
    all: try (intros j Hj; rewrite P3 by lia; unfold upd; destruct (Nat.eqb_spec (dst + n) j); [lia|]; destruct (Nat.eqb_spec dst j); [lia|reflexivity]).
    all: try (intros j Hj; rewrite P4 by lia; unfold upd; destruct (Nat.eqb_spec (dst + n) j); [lia|]; destruct (Nat.eqb_spec dst j); [lia|reflexivity]).
Qed.

Lemma destroy_n_spec : forall n m first, (forall k, k < n -> alive (m (first + k)) = true) ->
  exists m', destroy_n m first n = inr m' /\ (forall j, first <= j < first + n -> m' j = Raw) /\ (forall j, ~ (first <= j < first + n) -> m' j = m j).
Proof. induction n as [|n IH]; intros m first H; cbn [destroy_n].
  - exists m. repeat split; intros; try lia; reflexivity.
  - pose proof (H 0 ltac:(lia)) as H0. rewrite Nat.add_0_r in H0. unfold destroy1. destruct (m first) eqn:E; try discriminate; cbn [bind].
    all: destruct (IH (upd m first Raw) (S first)) as [m' (E' & P1 & P2)];
      [ intros k Hk; pose proof (H (S k) ltac:(lia)) as Hw; replace (first + S k) with (S first + k) in Hw by lia; unfold upd;
        destruct (Nat.eqb_spec first (S first + k)); [lia|assumption]
      | exists m'; split; [exact E'|]; split;
        [ intros j Hj; destruct (Nat.eq_dec j first) as [->|]; [rewrite P2 by lia; unfold upd; rewrite Nat.eqb_refl; reflexivity|apply P1; lia]
        | intros j Hj; rewrite P2 by lia; unfold upd; destruct (Nat.eqb_spec first j); [lia|reflexivity] ] ]. Qed.

Definition spec_erase (l : list Z) (pos n : nat) : list Z := firstn pos l ++ skipn (pos + n) l.
Lemma spec_erase_nth l pos n i : pos + n <= length l ->
  nth i (spec_erase l pos n) 0%Z = if i <? pos then nth i l 0%Z else nth (i + n) l 0%Z.
Proof. intros H. unfold spec_erase. assert (Hf : length (firstn pos l) = pos) by (rewrite firstn_length; lia).
  destruct (Nat.ltb_spec i pos).
  - rewrite app_nth1 by lia. apply nth_firstn'. assumption.
  - rewrite app_nth2 by lia. rewrite Hf, nth_skipn'. f_equal. lia. Qed.

(* erase(first, last) of a non-empty range: no lifetime error, every element destroyed or kept exactly once, result as std::vector *)
Theorem erase_n_correct m size cap pos n :
  Inv m size cap -> 0 < n -> pos + n <= size ->
  exists m', erase_n m pos n (size - pos - n) = inr m' /\ Inv m' (size - n) cap /\ abs m' (size - n) = spec_erase (abs m size) pos n.
Proof.
  intros (Hsc & Hlive & Hraw & Hout) Hn Hp. unfold erase_n. set (cnt := size - pos - n).
  destruct (move_fwd_spec cnt m pos n Hn) as [m1 (E1 & A1 & A2 & A3 & A4)].
  { intros j Hj. apply Hlive. lia. } { intros j Hj. apply alive_of_live. apply Hlive. lia. }
  rewrite E1. cbn [bind].
  destruct (destroy_n_spec n m1 (pos + cnt)) as [m2 (E2 & B1 & B2)].
  { intros k Hk. destruct (le_lt_dec (pos + n) (pos + cnt + k)) as [Hge|Hlt].
    - rewrite A2 by lia. reflexivity.
    - rewrite A3 by lia. apply alive_of_live. apply Hlive. lia. }
  exists m2. split; [exact E2|]. split.
  - repeat split; [lia| | |].
    + intros i Hi. rewrite B2 by lia. destruct (le_lt_dec pos i) as [Hge|Hlt].
      * rewrite A1 by lia. apply Hlive. lia.
      * rewrite A4 by lia. apply Hlive. lia.
    + intros i Hi Hic. destruct (le_lt_dec size i) as [Hge|Hlt].
      * rewrite B2 by lia. rewrite A4 by lia. apply Hraw; lia.
      * apply B1. lia.
    + intros i Hi. rewrite B2 by lia. rewrite A4 by lia. apply Hout. lia.
  - apply list_ext.
    + unfold spec_erase. rewrite app_length, firstn_length, skipn_length, !abs_length. lia.
    + rewrite abs_length. intros i Hi. rewrite abs_nth by lia. rewrite spec_erase_nth by (rewrite abs_length; lia).
      rewrite B2 by lia. destruct (Nat.ltb_spec i pos).
      * rewrite abs_nth by lia. rewrite A4 by lia. reflexivity.
      * rewrite abs_nth by lia. rewrite A1 by lia. reflexivity.
Qed.

(* the historic defect: an empty range made erase_n move every following element onto itself *)
Definition m1 : mem := fun j => match j with 0 => Live 10%Z | 1 => Live 11%Z | 2 => Live 12%Z | 3 => Raw | _ => Out end.
Lemma erase_n_empty_range_self_moves :
  Inv m1 3 4 /\ exists m', erase_n m1 1 0 2 = inr m' /\ m' 1 = Moved /\ m' 2 = Moved.
Proof. split.
  - unfold Inv, m1. repeat split; try lia; intros [|[|[|[|k]]]]; cbn; intros; try lia; reflexivity.
  - eexists. split; [reflexivity|]. split; reflexivity. Qed.
