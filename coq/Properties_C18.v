(* C18 - growth is geometric.
   g c = max (ceil (3c/2)) (c+1) is what SafeNextCapacity (smallvector.hpp) returns for a push_back at size = capacity = c
   (not exact, below the size_type clamp); Gen/L0_<S>.v regenerates SafeNextCapacity from the source and TV_<S>.v proves
   it equal to Words.safe_next, whose value [safe_next_spec] states.  [pushes n size cap grows] is the bookkeeping of n
   successive push_backs.  [C18_reallocs]: appending n elements one by one to an empty vector performs at most
   2*ceil(log2 n) + 4 reallocations, for every n; [C18_two_steps]: two successive growths at least double the capacity;
   [C18_any_start]: starting from a larger capacity never needs more growths. *)
From Coq Require Import Arith Lia PeanoNat ZArith.
From Amc Require Import Growth.

Theorem C18_two_steps : forall c, 2 * c + 1 <= g (g c).
Proof. exact two_steps. Qed.

Theorem C18_reallocs :
  forall n, 0 < n -> let '(_, _, grows) := pushes n 0 0 0 in grows <= 2 * Nat.log2_up n + 4.
Proof. exact reallocs_bound. Qed.

Theorem C18_growth_is_safe_next :
  forall (M c : Z), (0 <= c)%Z -> (Z.of_nat (g (Z.to_nat c)) <= M)%Z ->
    Amc.Words.safe_next M (fun x => x) c (c + 1)%Z false = Some (Z.of_nat (g (Z.to_nat c))).
Proof. exact g_is_safe_next. Qed.

Example C18_example : pushes 100 0 0 0 = (100, 140, 12).
Proof. reflexivity. Qed.
