(* L1a - executable bookkeeping model of the three vector flavours (amc::vector, SmallVector, FixedCapacityVector).

   A container is its two SizeType words (interpreted by the L0 functions of Words.v, which are proved equal to the
   definitions regenerated from the source) and its element sequence.  Where begin() points (inside the object, heap
   block, nullptr), size(), capacity() are all *computed from the words*, exactly as the C++ does; the allocator
   requests of every operation are produced as an event list.  Every public operation of VectorImpl / Vector is a
   function on this state following the control flow of vectorcommon.hpp / smallvector.hpp (which size is tested, when
   grow / shrink / resetToSmall run, how the words are updated by move / swap / swap2).  The element-level work of the
   shifting helpers is abstracted to list operations here; it is modelled slot by slot in Slots.v / Throw.v.

   The model is extracted to OCaml and run in lock-step with the C++ driver (harness/cpp/vecdrv.cpp). *)
From Coq Require Import ZArith List Bool Lia.
From Amc Require Import GenPrelude Words.
Import ListNotations.
Local Open Scope Z_scope.

Inductive flavour := FVec | FSV | FFCV.
Inductive ecat := TC | TR | NTR.
Inductive akind := ANone | AAmc | ALed | ALedR.   (* no allocator | amc::allocator over a basic allocator | std-like | std-like + reallocate *)
Record vcfg := { fl : flavour; cN : Z; cM : Z; csigned : bool; ccat : ecat; calloc : akind }.

Definition mk_wrap (c : vcfg) (x : Z) : Z :=
  if csigned c then (x + (cM c + 1)) mod (2 * (cM c + 1)) - (cM c + 1) else x mod (cM c + 1).

Inductive aevent := EAlloc (n : Z) | EDealloc (n : Z) | ERealloc (old new live : Z).
Inductive exn := OutOfRange | OverflowError.
Inductive store := SInl | SHeap | SNull.

Record vec := { w : words; els : list Z }.

Section Cfg.
Variable c : vcfg.
Let M := cM c.
Let N := cN c.
Let wrap := mk_wrap c.

(* ---- base interface: StaticVectorBase / StdVectorBase / SmallVectorBase -------------------------------------- *)
Definition b_size (x : words) : Z := match fl c with FSV => Words.size x | _ => p_size x end.
Definition b_capacity (x : words) : Z := match fl c with FSV => Words.capacity M x | _ => p_capacity x end.
Definition b_setSize (x : words) (n : Z) : words := match fl c with FSV => Words.setSize M x n | _ => p_setSize x n end.
Definition b_incrSize (x : words) : words := match fl c with FSV => Words.incrSize M wrap x | _ => p_incrSize wrap x end.
Definition b_decrSize (x : words) : words := match fl c with FSV => Words.decrSize M wrap x | _ => p_decrSize wrap x end.
Definition b_init : words :=
  match fl c with FSV => Words.init N | FVec => {| capa_ := 0; size_ := 0 |} | FFCV => {| capa_ := N; size_ := 0 |} end.
Definition b_store (x : words) : store :=
  match fl c with
  | FFCV => SInl
  | FVec => if capa_ x =? 0 then SNull else SHeap
  | FSV => if Words.isSmall x then SInl else SHeap
  end.
Definition b_heap (x : words) : bool := match b_store x with SHeap => true | _ => false end.

Definition is_tr : bool := match ccat c with NTR => false | _ => true end.
Definition has_realloc : bool := match calloc c with AAmc | ALedR => true | _ => false end.
(* vec::Reallocate (smallvector.hpp): allocator's reallocate iff CanReallocate, else allocate + relocate + deallocate *)
Definition realloc_events (old new live : Z) : list aevent :=
  if is_tr && has_realloc then [ERealloc old new live] else [EAlloc new; EDealloc old].

(* grow(minSize, exact): None = overflow_error from SafeNextCapacity *)
Definition b_grow (x : words) (minSize : Z) (exact : bool) : option (words * list aevent) :=
  match fl c with
  | FFCV => None
  | FVec =>
      match safe_next M wrap (capa_ x) minSize exact with
      | None => None
      | Some nc => Some ({| capa_ := nc; size_ := size_ x |}, realloc_events (capa_ x) nc (size_ x))
      end
  | FSV =>
      if Words.isSmall x then
        let oldCapa := if size_ x =? M then capa_ x else size_ x in
        match safe_next M wrap oldCapa minSize exact with
        | None => None
        | Some nc => Some ({| capa_ := nc; size_ := capa_ x |}, [EAlloc nc])
        end
      else
        match safe_next M wrap (capa_ x) minSize exact with
        | None => None
        | Some nc => Some ({| capa_ := nc; size_ := size_ x |}, realloc_events (capa_ x) nc (size_ x))
        end
  end.

(* adjustCapacity(needed): the growing policy of the flavour *)
Definition adjust (x : words) (needed : Z) : (words * list aevent) + exn :=
  match fl c with
  | FFCV => match exc_check needed (b_capacity x) with None => inr OutOfRange | Some _ => inl (x, []) end
  | _ => if b_capacity x <? needed
         then match b_grow x needed false with Some r => inl r | None => inr OverflowError end
         else inl (x, [])
  end.
(* the test of emplace / emplace_back: size() == capacity() (dynamic), Check(size()+1, capacity()) (static) *)
Definition adjust_one (x : words) : (words * list aevent) + exn :=
  match fl c with
  | FFCV => match exc_check (b_size x + 1) (b_capacity x) with None => inr OutOfRange | Some _ => inl (x, []) end
  | _ => if b_size x =? b_capacity x
         then match b_grow x (b_size x + 1) false with Some r => inl r | None => inr OverflowError end
         else inl (x, [])
  end.

(* destructor of the storage base *)
Definition b_free (x : words) : list aevent := if b_heap x then [EDealloc (capa_ x)] else [].

(* shrink_impl(N) *)
Definition b_shrink (x : words) : words * list aevent :=
  match fl c with
  | FFCV => (x, [])
  | FVec =>
      if negb (size_ x =? capa_ x) then
        if size_ x =? 0 then ({| capa_ := 0; size_ := 0 |}, [EDealloc (capa_ x)])
        else ({| capa_ := size_ x; size_ := size_ x |}, realloc_events (capa_ x) (size_ x) (size_ x))
      else (x, [])
  | FSV =>
      if negb (Words.isSmall x) then
        if size_ x <=? N then   (* resetToSmall *)
          ({| capa_ := size_ x; size_ := if size_ x =? N then M else N |}, [EDealloc (capa_ x)])
        else if negb (size_ x =? capa_ x) then
          ({| capa_ := size_ x; size_ := size_ x |}, realloc_events (capa_ x) (size_ x) (size_ x))
        else (x, [])
      else (x, [])
  end.

(* move_construct(o, N): returns (new words of this, new words of o) *)
Definition b_move_construct (o : words) : words * words :=
  match fl c with
  | FFCV => ({| capa_ := N; size_ := size_ o |}, {| capa_ := capa_ o; size_ := 0 |})
  | FVec => (o, {| capa_ := 0; size_ := 0 |})
  | FSV => (o, {| capa_ := 0; size_ := N |})
  end.

(* move_assign(o, N): (this', o', events) *)
Definition b_move_assign (t o : words) : words * words * list aevent :=
  match fl c with
  | FFCV => ({| capa_ := capa_ t; size_ := size_ o |}, {| capa_ := capa_ o; size_ := 0 |}, [])
  | FVec => (o, {| capa_ := 0; size_ := 0 |}, if capa_ t =? 0 then [] else [EDealloc (capa_ t)])
  | FSV =>
      if Words.isSmall o then
        let oSize := capa_ o in
        let '(t1, ev) := if negb (Words.isSmall t) && (capa_ t <? oSize)
                         then ({| capa_ := 0; size_ := N |}, [EDealloc (capa_ t)]) else (t, []) in
        (Words.setSize M t1 oSize, Words.setSize M o 0, ev)
      else
        (o, {| capa_ := 0; size_ := N |}, if Words.isSmall t then [] else [EDealloc (capa_ t)])
  end.

(* swap_impl (same type): words exchanged (the buffers follow) *)
Definition b_swap (t o : words) : words * words :=
  match fl c with
  | FFCV => ({| capa_ := capa_ t; size_ := size_ o |}, {| capa_ := capa_ o; size_ := size_ t |})
  | _ => (o, t)
  end.

(* swap2 between two vectors of the same type: adjustEachOtherCapacity + swap2_impl *)
Definition can_swap_dyn (t o : words) : bool :=
  match fl c with
  | FFCV => false
  | FVec => true
  | FSV => negb (Words.isSmall t) && negb (Words.isSmall o)
  end.
Definition b_swap2 (t o : words) : (words * words * list aevent) + exn :=
  let adjusted :=
    if can_swap_dyn t o then inl (t, o, [])
    else match adjust t (b_size o) with
         | inr e => inr e
         | inl (t1, ev1) =>
             match adjust o (b_size t1) with
             | inr e => inr e   (* this has possibly grown already *)
             | inl (o1, ev2) => inl (t1, o1, ev1 ++ ev2)
             end
         end in
  match adjusted with
  | inr e => inr e
  | inl (t1, o1, ev) =>
      (* swap2_impl tests canSwapDynStorage again: after the adjustment both operands may own a dynamic buffer *)
      if can_swap_dyn t1 o1 then inl (o1, t1, ev)
      else inl (b_setSize t1 (b_size o1), b_setSize o1 (b_size t1), ev)
  end.
End Cfg.

(* ---- operations ----------------------------------------------------------------------------------------------- *)
Inductive arg := AExt (v : Z) | AOwn (i : nat).
Inductive rcat := RFwd | RInp.
Inductive op :=
  | CtorDefault (a : nat) | CtorN (a : nat) (n : Z) | CtorNV (a : nat) (n : Z) (v : Z)
  | CtorRange (a : nat) (k : rcat) (vs : list Z) | CtorCopy (a b : nat) | CtorMove (a b : nat)
  | Adopt (a : nat) (vs : list Z) (cap : Z) | Dtor (a : nat)
  | PushBack (a : nat) (g : arg) | PushBackRv (a : nat) (g : arg) | EmplaceBack (a : nat) (g : arg)
  | Insert (a : nat) (p : Z) (g : arg) | InsertRv (a : nat) (p : Z) (g : arg) | Emplace (a : nat) (p : Z) (g : arg)
  | InsertN (a : nat) (p n : Z) (g : arg) | InsertRange (a : nat) (p : Z) (k : rcat) (vs : list Z)
  | Erase (a : nat) (p : Z) | EraseRange (a : nat) (p q : Z) | PopBack (a : nat) | PopBackVal (a : nat) | Clear (a : nat)
  | Resize (a : nat) (n : Z) | ResizeV (a : nat) (n : Z) (g : arg)
  | AssignN (a : nat) (n : Z) (g : arg) | AssignRange (a : nat) (k : rcat) (vs : list Z)
  | Reserve (a : nat) (n : Z) | Shrink (a : nat)
  | AppendN (a : nat) (n : Z) | AppendNV (a : nat) (n : Z) (g : arg) | AppendRange (a : nat) (k : rcat) (vs : list Z)
  | CopyAssign (a b : nat) | MoveAssign (a b : nat) | Swap (a b : nat) | Swap2 (a b : nat)
  | At (a : nat) (i : Z) | Cmp (a b : nat) | Relocate (a b : nat).

Inductive res :=
  | ROk | RIdx (i : Z) | RVal (v : Z) | RCmp (bits : list bool) | RThrew (e : exn) | RSkip.

Definition pool := list (option vec).
Definition get (p : pool) (k : nat) : option vec := nth k p None.
Fixpoint set (p : pool) (k : nat) (v : option vec) : pool :=
  match p, k with
  | [], _ => []
  | _ :: t, O => v :: t
  | x :: t, S k' => x :: set t k' v
  end.

Definition len (l : list Z) : Z := Z.of_nat (length l).
Definition take (n : Z) (l : list Z) := firstn (Z.to_nat n) l.
Definition drop (n : Z) (l : list Z) := skipn (Z.to_nat n) l.
Definition insert_list (p : Z) (xs l : list Z) := take p l ++ xs ++ drop p l.
Definition rep (n : Z) (v : Z) := repeat v (Z.to_nat n).
Definition argval (l : list Z) (g : arg) : Z := match g with AExt v => v | AOwn i => nth i l 0 end.
(* an rvalue reference to an own element: the element is left moved-from (the instrumented types show -7; trivially
   copyable types keep their value) *)
Definition moved_val : Z := -7.
Fixpoint set_nth (l : list Z) (i : nat) (x : Z) : list Z :=
  match l, i with
  | [], _ => []
  | _ :: t, O => x :: t
  | y :: t, S i' => y :: set_nth t i' x
  end.
Definition after_move (tc : bool) (l : list Z) (g : arg) : list Z :=
  match g with AOwn i => if tc then l else set_nth l i moved_val | AExt _ => l end.
Definition arg_ok (l : list Z) (g : arg) : bool := match g with AExt _ => true | AOwn i => Nat.ltb i (length l) end.

Fixpoint list_ltb (a b : list Z) : bool :=
  match a, b with
  | _, [] => false
  | [], _ :: _ => true
  | x :: a', y :: b' => if x <? y then true else if y <? x then false else list_ltb a' b'
  end.
Fixpoint list_eqb (a b : list Z) : bool :=
  match a, b with
  | [], [] => true
  | x :: a', y :: b' => (x =? y) && list_eqb a' b'
  | _, _ => false
  end.

Section Step.
Variable c : vcfg.

Definition fresh : vec := {| w := b_init c; els := [] |}.
Definition is_tc : bool := match ccat c with TC => true | _ => false end.
(* amc::is_trivially_relocatable<V> of the container type itself *)
Definition container_tr : bool := match fl c with FVec => true | _ => is_tr c end.

(* result of an operation on one container: new container + events, or an exception (container as left behind) *)
Definition R := ((vec * list aevent) + (exn * vec * list aevent))%type.

(* adjustCapacity(needed) when [cond], then the new contents and setSize *)
Definition grow_set (v : vec) (cond : bool) (newsize : Z) (els' : list Z) : R :=
  if cond then
    match adjust c (w v) newsize with
    | inr e => inr (e, v, [])
    | inl (w1, ev) => inl ({| w := b_setSize c w1 newsize; els := els' |}, ev)
    end
  else inl ({| w := b_setSize c (w v) newsize; els := els' |}, []).
Definition grow_incr (v : vec) (els' : list Z) : R :=
  match adjust c (w v) (b_size c (w v) + 1) with
  | inr e => inr (e, v, [])
  | inl (w1, ev) => inl ({| w := b_incrSize c w1; els := els' |}, ev)
  end.
(* emplace / emplace_back *)
Definition one_incr (v : vec) (els' : list Z) : R :=
  match adjust_one c (w v) with
  | inr e => inr (e, v, [])
  | inl (w1, ev) => inl ({| w := b_incrSize c w1; els := els' |}, ev)
  end.
(* single-pass ranges: emplace_back one by one; on failure the appended elements are removed (size restored), the
   capacity reached so far is kept *)
Fixpoint append_input (rollback : bool) (v0 v : vec) (ev : list aevent) (vs : list Z) : R :=
  match vs with
  | [] => inl (v, ev)
  | x :: t =>
      match one_incr v (els v ++ [x]) with
      | inr (e, _, _) => inr (e, if rollback then {| w := b_setSize c (w v) (b_size c (w v0)); els := els v0 |} else v, ev)
      | inl (v1, ev1) => append_input rollback v0 v1 (ev ++ ev1) t
      end
  end.
Definition append_range (v : vec) (k : rcat) (vs : list Z) : R :=
  match k with
  | RFwd => grow_set v true (b_size c (w v) + len vs) (els v ++ vs)
  | RInp => append_input true v v [] vs
  end.
Definition assign_range (v : vec) (k : rcat) (vs : list Z) : R :=
  match k with
  | RFwd => grow_set v (b_size c (w v) <? len vs) (len vs) vs
  | RInp =>
      let v0 := {| w := b_setSize c (w v) 0; els := [] |} in     (* clear() *)
      append_input false v0 v0 [] vs   (* assign: plain loop, basic guarantee only *)
  end.

Definition cmp_bits (a b : list Z) : list bool :=
  let eq := list_eqb a b in let lt := list_ltb a b in let gt := list_ltb b a in
  [eq; negb eq; lt; negb gt; gt; negb lt].

Definition finish (p : pool) (a : nat) (r : R) (ok : res) : pool * res * list aevent :=
  match r with
  | inl (v', ev) => (set p a (Some v'), ok, ev)
  | inr (e, v', ev) => (set p a (Some v'), RThrew e, ev)
  end.
(* a constructor that throws leaves no object (the storage base releases what had been allocated) *)
Definition finish_ctor (p : pool) (a : nat) (pre : list aevent) (r : R) : pool * res * list aevent :=
  match r with
  | inl (v', ev) => (set p a (Some v'), ROk, pre ++ ev)
  | inr (e, v', ev) => (set p a None, RThrew e, pre ++ ev ++ b_free c (w v'))
  end.
Definition dtor_events (p : pool) (a : nat) : list aevent := match get p a with Some v => b_free c (w v) | None => [] end.
Definition on (p : pool) (a : nat) (f : vec -> pool * res * list aevent) : pool * res * list aevent :=
  match get p a with Some v => f v | None => (p, RSkip, []) end.

Definition step (p : pool) (o : op) : pool * res * list aevent :=
  let skip := (p, RSkip, []) in
  let finish := finish p in
  let finish_ctor := finish_ctor p in
  let dtor_events := dtor_events p in
  let on := on p in
  match o with
  | CtorDefault a => (set p a (Some fresh), ROk, dtor_events a)
  | CtorN a n => if (0 <=? n) && (n <=? cM c) then finish_ctor a (dtor_events a) (grow_set fresh true n (rep n 0)) else skip
  | CtorNV a n x => if (0 <=? n) && (n <=? cM c) then finish_ctor a (dtor_events a) (grow_set fresh true n (rep n x)) else skip
  | CtorRange a k vs => finish_ctor a (dtor_events a) (append_range fresh k vs)
  | CtorCopy a b =>
      if Nat.eqb a b then skip else
      match get p b with
      | None => skip
      | Some vb => finish_ctor a (dtor_events a) (append_range fresh RFwd (els vb))
      end
  | CtorMove a b =>
      if Nat.eqb a b then skip else
      match get p b with
      | None => skip
      | Some vb =>
          let '(wt, wo) := b_move_construct c (w vb) in
          (set (set p a (Some {| w := wt; els := els vb |})) b (Some {| w := wo; els := [] |}), ROk, dtor_events a)
      end
  | Adopt a vs cap =>
      match fl c with
      | FSV =>
          let n := len vs in
          let srccap := if cap <=? n then n else cap in
          let wa := if srccap =? 0 then b_init c else {| capa_ := srccap; size_ := n |} in
          if srccap <=? cM c then (set p a (Some {| w := wa; els := vs |}), ROk, []) else skip
      | _ => skip
      end
  | Dtor a => on a (fun v => (set p a None, ROk, b_free c (w v)))
  | PushBack a g => on a (fun v => if arg_ok (els v) g then finish a (grow_incr v (els v ++ [argval (els v) g])) ROk else skip)
  | PushBackRv a g =>
      on a (fun v => if arg_ok (els v) g then finish a (one_incr v (after_move is_tc (els v) g ++ [argval (els v) g])) ROk else skip)
  | EmplaceBack a g =>
      on a (fun v => if arg_ok (els v) g then finish a (one_incr v (els v ++ [argval (els v) g])) ROk else skip)
  | Insert a q g =>
      on a (fun v => if (0 <=? q) && (q <=? len (els v)) && arg_ok (els v) g
                     then finish a (grow_incr v (insert_list q [argval (els v) g] (els v))) (RIdx q) else skip)
  | InsertRv a q g =>
      on a (fun v => if (0 <=? q) && (q <=? len (els v)) && arg_ok (els v) g
                     then finish a (one_incr v (insert_list q [argval (els v) g] (after_move is_tc (els v) g))) (RIdx q) else skip)
  | Emplace a q g =>
      on a (fun v => if (0 <=? q) && (q <=? len (els v)) && arg_ok (els v) g
                     then finish a (one_incr v (insert_list q [argval (els v) g] (els v))) (RIdx q) else skip)
  | InsertN a q n g =>
      on a (fun v => if (0 <=? q) && (q <=? len (els v)) && (0 <=? n) && (n <=? cM c) && arg_ok (els v) g
                     then finish a (if 0 <? n
                                    then grow_set v true (b_size c (w v) + n) (insert_list q (rep n (argval (els v) g)) (els v))
                                    else inl (v, [])) (RIdx q)
                     else skip)
  | InsertRange a q k vs =>
      on a (fun v => if (0 <=? q) && (q <=? len (els v)) then
                       match k with
                       | RFwd => finish a (if 0 <? len vs
                                           then grow_set v true (b_size c (w v) + len vs) (insert_list q vs (els v))
                                           else inl (v, [])) (RIdx q)
                       | RInp => (* append, then rotate into place *)
                           match append_input true v v [] vs with
                           | inl (v1, ev) => (set p a (Some {| w := w v1; els := insert_list q vs (els v) |}), RIdx q, ev)
                           | inr (e, v1, ev) => (set p a (Some v1), RThrew e, ev)
                           end
                       end
                     else skip)
  | Erase a q =>
      on a (fun v => if (0 <=? q) && (q <? len (els v))
                     then (set p a (Some {| w := b_decrSize c (w v); els := take q (els v) ++ drop (q + 1) (els v) |}), RIdx q, [])
                     else skip)
  | EraseRange a q r =>
      on a (fun v => if (0 <=? q) && (q <=? r) && (r <=? len (els v))
                     then (set p a (Some (if r - q =? 0 then v
                                          else {| w := b_setSize c (w v) (b_size c (w v) - (r - q)); els := take q (els v) ++ drop r (els v) |})),
                           RIdx q, [])
                     else skip)
  | PopBack a =>
      on a (fun v => if 0 <? len (els v)
                     then (set p a (Some {| w := b_decrSize c (w v); els := removelast (els v) |}), ROk, []) else skip)
  | PopBackVal a =>
      on a (fun v => if 0 <? len (els v)
                     then (set p a (Some {| w := b_decrSize c (w v); els := removelast (els v) |}), RVal (last (els v) 0), []) else skip)
  | Clear a => on a (fun v => (set p a (Some {| w := b_setSize c (w v) 0; els := [] |}), ROk, []))
  | Resize a n =>
      on a (fun v => if (0 <=? n) && (n <=? cM c)
                     then finish a (grow_set v (b_size c (w v) <? n) n (take n (els v) ++ rep (n - len (els v)) 0)) ROk else skip)
  | ResizeV a n g =>
      on a (fun v => if (0 <=? n) && (n <=? cM c) && arg_ok (els v) g
                     then finish a (grow_set v (b_size c (w v) <? n) n (take n (els v) ++ rep (n - len (els v)) (argval (els v) g))) ROk
                     else skip)
  | AssignN a n g =>
      on a (fun v => if (0 <=? n) && (n <=? cM c) && arg_ok (els v) g
                     then finish a (grow_set v (b_size c (w v) <? n) n (rep n (argval (els v) g))) ROk else skip)
  | AssignRange a k vs => on a (fun v => finish a (assign_range v k vs) ROk)
  | Reserve a n =>
      on a (fun v => if (0 <=? n) && (n <=? cM c) then
                       match fl c with
                       | FFCV => match exc_check n (b_capacity c (w v)) with
                                 | None => (p, RThrew OutOfRange, []) | Some _ => (p, ROk, []) end
                       | _ => if b_capacity c (w v) <? n then
                                match b_grow c (w v) n true with
                                | Some (w1, ev) => (set p a (Some {| w := w1; els := els v |}), ROk, ev)
                                | None => (p, RThrew OverflowError, [])
                                end
                              else (p, ROk, [])
                       end
                     else skip)
  | Shrink a => on a (fun v => let '(w1, ev) := b_shrink c (w v) in (set p a (Some {| w := w1; els := els v |}), ROk, ev))
  | AppendN a n =>
      on a (fun v => if (0 <=? n) && (n <=? cM c) then finish a (grow_set v true (b_size c (w v) + n) (els v ++ rep n 0)) ROk else skip)
  | AppendNV a n g =>
      on a (fun v => if (0 <=? n) && (n <=? cM c) && arg_ok (els v) g
                     then finish a (grow_set v true (b_size c (w v) + n) (els v ++ rep n (argval (els v) g))) ROk else skip)
  | AppendRange a k vs => on a (fun v => finish a (append_range v k vs) ROk)
  | CopyAssign a b =>
      on a (fun v => match get p b with
                     | None => skip
                     | Some vb => if Nat.eqb a b then (p, ROk, []) else finish a (assign_range v RFwd (els vb)) ROk
                     end)
  | MoveAssign a b =>
      if Nat.eqb a b then skip else
      on a (fun v => match get p b with
                     | None => skip
                     | Some vb =>
                         let '(wt, wo, ev) := b_move_assign c (w v) (w vb) in
                         (set (set p a (Some {| w := wt; els := els vb |})) b (Some {| w := wo; els := [] |}), ROk, ev)
                     end)
  | Swap a b =>
      on a (fun v => match get p b with
                     | None => skip
                     | Some vb =>
                         if Nat.eqb a b then (p, ROk, []) else
                         let '(wt, wo) := b_swap c (w v) (w vb) in
                         (set (set p a (Some {| w := wt; els := els vb |})) b (Some {| w := wo; els := els v |}), ROk, [])
                     end)
  | Swap2 a b =>
      if Nat.eqb a b then skip else
      on a (fun v => match get p b with
                     | None => skip
                     | Some vb =>
                         match b_swap2 c (w v) (w vb) with
                         | inl (wt, wo, ev) =>
                             (set (set p a (Some {| w := wt; els := els vb |})) b (Some {| w := wo; els := els v |}), ROk, ev)
                         | inr e =>
                             (* the first operand may already have grown when the second one fails *)
                             match adjust c (w v) (b_size c (w vb)) with
                             | inl (w1, ev) => (set p a (Some {| w := w1; els := els v |}), RThrew e, ev)
                             | inr _ => (p, RThrew e, [])
                             end
                         end
                     end)
  | At a i =>
      on a (fun v => if (0 <=? i) && (i <=? cM c)
                     then if i <? b_size c (w v) then (p, RVal (nth (Z.to_nat i) (els v) 0), []) else (p, RThrew OutOfRange, [])
                     else skip)
  | Cmp a b =>
      on a (fun v => match get p b with None => skip | Some vb => (p, RCmp (cmp_bits (els v) (els vb)), []) end)
  | Relocate a b =>
      if Nat.eqb a b then skip else
      on a (fun v => match get p b with
                     | Some _ => skip
                     | None => if container_tr then (set (set p b (Some v)) a None, ROk, []) else skip
                     end)
  end.
End Step.

(* what the driver prints for one container: size;capacity;store;_capa;_size;contents *)
Definition describe (c : vcfg) (v : vec) : Z * Z * store * Z * Z * list Z :=
  (b_size c (w v), b_capacity c (w v), b_store c (w v), capa_ (w v), size_ (w v), els v).

Definition init_pool : pool := [None; None; None].
