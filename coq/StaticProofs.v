(* C17 - static contract: proofs about the model of Static.v (no axioms; Z arithmetic by lia). *)
From Coq Require Import ZArith Lia List Bool.
Import ListNotations.
From Amc Require Import Static.
Open Scope Z_scope.

(* ------------------------------------------------------------------------------------------------------------ *)
(* is_trivially_relocatable *)

Lemma trait_eq : forall d, is_tr d = match decl d with Some b => b | None => tc d end.
Proof. intros d. unfold is_tr, primary, is_tr_impl, has_trivially_relocatable, is_same_true_type.
  destruct (decl d); reflexivity. Qed.

Lemma trait_iff : forall d,
  is_tr d = true <-> (decl d = Some true \/ (decl d = None /\ tc d = true)).
Proof. intros d. rewrite trait_eq. destruct (decl d) as [[|]|]; split; intros H.
  - left; reflexivity.
  - reflexivity.
  - discriminate.
  - destruct H as [H|[H _]]; discriminate.
  - right; split; [reflexivity|assumption].
  - destruct H as [H|[_ H]]; [discriminate|assumption].
Qed.

Lemma optout : forall d, decl d = Some false -> is_tr d = false.
Proof. intros d H. rewrite trait_eq, H. reflexivity. Qed.

Lemma pair_rule : forall t u, is_tr_ty (Pair t u) = is_tr_ty t && is_tr_ty u.
Proof. reflexivity. Qed.

Lemma pair_iff : forall t u, is_tr_ty (Pair t u) = true <-> (is_tr_ty t = true /\ is_tr_ty u = true).
Proof. intros. rewrite pair_rule. apply andb_true_iff. Qed.

Theorem trait_all :
  (forall d, is_tr d = match decl d with Some b => b | None => tc d end) /\
  (forall d, is_tr d = true <-> (decl d = Some true \/ (decl d = None /\ tc d = true))) /\
  (forall d, is_tr_ty (Cls d) = is_tr d) /\
  (forall t u, is_tr_ty (Pair t u) = is_tr_ty t && is_tr_ty u).
Proof. repeat split; try apply trait_iff; try apply trait_eq. Qed.

(* ------------------------------------------------------------------------------------------------------------ *)
(* SmallestSizeType *)

Lemma pow8 : 2 ^ 8 = 256. Proof. reflexivity. Qed.
Lemma pow16 : 2 ^ 16 = 65536. Proof. reflexivity. Qed.
Lemma pow32 : 2 ^ 32 = 4294967296. Proof. reflexivity. Qed.
Lemma pow64 : 2 ^ 64 = 18446744073709551616. Proof. reflexivity. Qed.

Theorem smallest_least : forall N, 0 <= N < 2 ^ 64 ->
  In (smallest_size_type N) widths /\
  N <= max_of_width (smallest_size_type N) /\
  (forall w, In w widths -> N <= max_of_width w -> smallest_size_type N <= w).
Proof.
  intros N [H0 H1]. rewrite pow64 in H1. unfold smallest_size_type, widths, max_of_width.
  destruct (Z.leb_spec N 255); [|destruct (Z.leb_spec N 65535); [|destruct (Z.leb_spec N 4294967295)]].
  - split; [simpl; tauto|]. split; [rewrite pow8; lia|].
    intros w Hw _. simpl in Hw. lia.
  - split; [simpl; tauto|]. split; [rewrite pow16; lia|].
    intros w Hw Hm. simpl in Hw.
    destruct Hw as [<-|[<-|[<-|[<-|[]]]]]; rewrite ?pow8, ?pow16, ?pow32, ?pow64 in Hm; lia.
  - split; [simpl; tauto|]. split; [rewrite pow32; lia|].
    intros w Hw Hm. simpl in Hw.
    destruct Hw as [<-|[<-|[<-|[<-|[]]]]]; rewrite ?pow8, ?pow16, ?pow32, ?pow64 in Hm; lia.
  - split; [simpl; tauto|]. split; [rewrite pow64; lia|].
    intros w Hw Hm. simpl in Hw.
    destruct Hw as [<-|[<-|[<-|[<-|[]]]]]; rewrite ?pow8, ?pow16, ?pow32, ?pow64 in Hm; lia.
Qed.

(* ------------------------------------------------------------------------------------------------------------ *)
(* Layout *)

(* well formed (sizeof, alignof, sizeof(size_type)) *)
Definition wf (s a w : Z) : Prop :=
  0 < s /\ In a [1; 2; 4; 8; 16] /\ s mod a = 0 /\ In w [1; 2; 4; 8].

(* fold the closed Z.max / Z.div sub-terms so that every divisor is a literal *)
Ltac pconst p := match p with xH => idtac | xO ?q => pconst q | xI ?q => pconst q end.
Ltac zconst x := match x with Z0 => idtac | Zpos ?p => pconst p | Zneg ?p => pconst p end.
Ltac fold_consts :=
  repeat match goal with
  | |- context [Z.max ?x ?y] => zconst x; zconst y; let v := eval vm_compute in (Z.max x y) in change (Z.max x y) with v
  | |- context [Z.div ?x ?y] => zconst x; zconst y; let v := eval vm_compute in (Z.div x y) in change (Z.div x y) with v
  | |- context [Z.mul ?x ?y] => zconst x; zconst y; let v := eval vm_compute in (Z.mul x y) in change (Z.mul x y) with v
  | |- context [Z.add ?x ?y] => zconst x; zconst y; let v := eval vm_compute in (Z.add x y) in change (Z.add x y) with v
  | |- context [Z.sub ?x ?y] => zconst x; zconst y; let v := eval vm_compute in (Z.sub x y) in change (Z.sub x y) with v
  | |- context [Z.leb ?x ?y] => zconst x; zconst y; let v := eval vm_compute in (Z.leb x y) in change (Z.leb x y) with v
  | |- context [Z.eqb ?x ?y] => zconst x; zconst y; let v := eval vm_compute in (Z.eqb x y) in change (Z.eqb x y) with v
  end.
Ltac unfold_layout :=
  unfold sizeof_sv, sizeof_fcv, sizeof_vec, sizeof_lay, lay_sv, lay_fcv, lay_svbase, lay_fcvbase, lay_vec, field, lay0,
         ewps_size, ewps_align, no_inline_sv, no_inline_fcv, k_slots, up, ptr;
  cbn [dsize lalign].
Ltac arith := fold_consts; Z.div_mod_to_equations; lia.

Lemma sizeof_vec_closed : forall w, In w [1; 2; 4; 8] -> sizeof_vec w = if w =? 8 then 24 else 16.
Proof. intros w Hw. simpl in Hw. destruct Hw as [<-|[<-|[<-|[<-|[]]]]]; reflexivity. Qed.

(* SmallVector<T,N> when N elements fit in a pointer: exactly the size of amc::vector *)
Theorem layout_small : forall s a w N, wf s a w -> 0 <= N -> N * s <= ptr ->
  sizeof_sv s a w N = sizeof_vec w.
Proof.
  intros s a w N (Hs & Ha & Hm & Hw) HN Hfit. unfold ptr in Hfit.
  destruct (Z.eq_dec N 0) as [->|HN0]; [reflexivity|].
  assert (Hs8 : 1 <= s <= 8) by nia. assert (HN8 : 1 <= N <= 8) by nia.
  assert (Es : s = 1 \/ s = 2 \/ s = 3 \/ s = 4 \/ s = 5 \/ s = 6 \/ s = 7 \/ s = 8) by lia.
  assert (EN : N = 1 \/ N = 2 \/ N = 3 \/ N = 4 \/ N = 5 \/ N = 6 \/ N = 7 \/ N = 8) by lia.
  simpl in Ha, Hw.
  destruct Ha as [<-|[<-|[<-|[<-|[<-|[]]]]]]; destruct Hw as [<-|[<-|[<-|[<-|[]]]]];
    destruct Es as [-> | [-> | [-> | [-> | [-> | [-> | [-> | ->]]]]]]]; try (exfalso; vm_compute in Hm; discriminate);
    destruct EN as [-> | [-> | [-> | [-> | [-> | [-> | [-> | ->]]]]]]]; try (exfalso; lia); reflexivity.
Qed.

(* otherwise: at most the N element slots, plus less than one pointer of padding (the bound 6 is reached:
   sizeof T = 9, alignof T = 1, uint8_t size_type, N = 2), and never less than the two counters plus the N slots *)
Theorem layout_large : forall s a w N, wf s a w -> 0 <= N -> ptr < N * s ->
  sizeof_sv s a w N <= sizeof_vec w + N * s + 6.
Proof.
  intros s a w N (Hs & Ha & Hm & Hw) HN Hbig. unfold ptr in Hbig.
  assert (HN1 : 1 <= N) by nia.
  unfold sizeof_sv. destruct (Z.eqb_spec N 0) as [E|_]; [lia|].
  destruct (Z_le_gt_dec s 8) as [Hs8|Hs9].
  - (* small elements: enumerate sizeof T *)
    assert (Es : s = 1 \/ s = 2 \/ s = 3 \/ s = 4 \/ s = 5 \/ s = 6 \/ s = 7 \/ s = 8) by lia.
    simpl in Ha, Hw.
    destruct Ha as [<-|[<-|[<-|[<-|[<-|[]]]]]]; destruct Hw as [<-|[<-|[<-|[<-|[]]]]];
      destruct Es as [-> | [-> | [-> | [-> | [-> | [-> | [-> | ->]]]]]]]; try (exfalso; vm_compute in Hm; discriminate);
      unfold_layout; fold_consts;
      match goal with |- context [(N <=? ?k) || (N =? 0) || (N =? 1)] =>
        destruct (Z.leb_spec N k); destruct (Z.eqb_spec N 0); destruct (Z.eqb_spec N 1); cbn [orb dsize lalign] end;
      try lia; arith.
  - (* sizeof T > sizeof(void * ): one slot *)
    unfold_layout. rewrite (Z.div_small 8 s) by lia. change (Z.max 0 1) with 1.
    rewrite (Z.max_l s 8) by lia.
    assert (Hq : exists q, s = a * q).
    { exists (s / a). pose proof (Z.div_mod s a). simpl in Ha. lia. }
    destruct Hq as [q Hq].
    destruct (Z.leb_spec N 1); destruct (Z.eqb_spec N 0); destruct (Z.eqb_spec N 1); cbn [orb dsize lalign]; try lia.
    + (* N = 1 *)
      subst N. simpl in Ha, Hw.
      destruct Ha as [<-|[<-|[<-|[<-|[<-|[]]]]]]; destruct Hw as [<-|[<-|[<-|[<-|[]]]]]; arith.
    + (* N >= 2 *)
      replace ((N - 1) * s) with (N * s - s) by ring.
      assert (Hm2 : 2 * s <= N * s) by nia.
      assert (Hm3 : N * s = a * (N * q)) by (rewrite Hq; ring).
      remember (N * q) as r eqn:Er. clear Er. remember (N * s) as m eqn:Em. clear Em.
      simpl in Ha, Hw.
      destruct Ha as [<-|[<-|[<-|[<-|[<-|[]]]]]]; destruct Hw as [<-|[<-|[<-|[<-|[]]]]]; arith.
Qed.

Theorem layout_holds_elements : forall s a w N, wf s a w -> 1 <= N ->
  2 * w + N * s <= sizeof_sv s a w N.
Proof.
  intros s a w N (Hs & Ha & Hm & Hw) HN.
  unfold sizeof_sv. destruct (Z.eqb_spec N 0) as [E|_]; [lia|].
  destruct (Z_le_gt_dec s 8) as [Hs8|Hs9].
  - assert (Es : s = 1 \/ s = 2 \/ s = 3 \/ s = 4 \/ s = 5 \/ s = 6 \/ s = 7 \/ s = 8) by lia.
    simpl in Ha, Hw.
    destruct Ha as [<-|[<-|[<-|[<-|[<-|[]]]]]]; destruct Hw as [<-|[<-|[<-|[<-|[]]]]];
      destruct Es as [-> | [-> | [-> | [-> | [-> | [-> | [-> | ->]]]]]]]; try (exfalso; vm_compute in Hm; discriminate);
      unfold_layout; fold_consts;
      match goal with |- context [(N <=? ?k) || (N =? 0) || (N =? 1)] =>
        destruct (Z.leb_spec N k); destruct (Z.eqb_spec N 0); destruct (Z.eqb_spec N 1); cbn [orb dsize lalign] end;
      try lia; arith.
  - unfold_layout. rewrite (Z.div_small 8 s) by lia. change (Z.max 0 1) with 1.
    rewrite (Z.max_l s 8) by lia.
    destruct (Z.leb_spec N 1); destruct (Z.eqb_spec N 0); destruct (Z.eqb_spec N 1); cbn [orb dsize lalign]; try lia.
    + subst N. simpl in Ha, Hw.
      destruct Ha as [<-|[<-|[<-|[<-|[<-|[]]]]]]; destruct Hw as [<-|[<-|[<-|[<-|[]]]]]; arith.
    + replace ((N - 1) * s) with (N * s - s) by ring.
      assert (Hm2 : 2 * s <= N * s) by nia. remember (N * s) as m eqn:Em. clear Em.
      simpl in Ha, Hw.
      destruct Ha as [<-|[<-|[<-|[<-|[<-|[]]]]]]; destruct Hw as [<-|[<-|[<-|[<-|[]]]]]; arith.
Qed.

(* the bound of the property text, "N element slots plus alignment padding" with padding = max(alignof T, pointer) *)
Corollary layout_large_weak : forall s a w N, wf s a w -> 0 <= N -> ptr < N * s ->
  sizeof_sv s a w N < sizeof_vec w + N * s + Z.max a ptr.
Proof. intros s a w N H HN Hb. pose proof (layout_large s a w N H HN Hb). unfold ptr in *. lia. Qed.

Theorem layout_all : forall s a w N, wf s a w -> 0 <= N ->
  (N * s <= ptr -> sizeof_sv s a w N = sizeof_vec w) /\
  (ptr < N * s -> sizeof_sv s a w N <= sizeof_vec w + N * s + 6 /\ 6 < Z.max a ptr) /\
  (1 <= N -> 2 * w + N * s <= sizeof_sv s a w N).
Proof.
  intros s a w N H HN. split; [apply layout_small; assumption|]. split.
  - intros Hb. split; [apply layout_large; assumption|]. unfold ptr. lia.
  - apply layout_holds_elements; assumption.
Qed.

(* FixedCapacityVector: the N slots, the two counters, and less than two alignments of padding *)
Theorem layout_fcv : forall s a N, wf s a 1 -> 1 <= N < 2 ^ 64 ->
  let w := fcv_size_type_bytes N in
  2 * w + N * s <= sizeof_fcv_default s a N <= 2 * w + N * s + 2 * Z.max a w.
Proof.
  intros s a N (Hs & Ha & Hm & _) [HN1 HN2] w. subst w. rewrite pow64 in HN2.
  assert (Hq : exists q, s = a * q).
  { exists (s / a). pose proof (Z.div_mod s a). simpl in Ha. lia. }
  destruct Hq as [q Hq].
  unfold sizeof_fcv_default, fcv_size_type_bytes, smallest_size_type.
  destruct (Z.leb_spec N 255); [|destruct (Z.leb_spec N 65535); [|destruct (Z.leb_spec N 4294967295)]];
    fold_consts; unfold_layout;
    (destruct (Z.eqb_spec N 0); [lia|]); destruct (Z.eqb_spec N 1); cbn [orb dsize lalign];
    try replace ((N - 1) * s) with (N * s - s) by ring;
    try (subst N; rewrite Z.mul_1_l);
    try (assert (Hm2 : 2 * s <= N * s) by nia; assert (Hm3 : N * s = a * (N * q)) by (rewrite Hq; ring);
         remember (N * q) as r eqn:Er; clear Er; remember (N * s) as m eqn:Em; clear Em);
    simpl in Ha; destruct Ha as [<-|[<-|[<-|[<-|[<-|[]]]]]]; arith.
Qed.

(* ------------------------------------------------------------------------------------------------------------ *)
(* FixedCapacityVector is trivially destructible exactly when T is *)

Theorem fcv_triv_dtor_iff : forall d, fcv_triv_dtor d = triv_dtor d.
Proof. intros d. unfold fcv_triv_dtor, define_destructor. apply negb_involutive. Qed.

(* amc::vector (no inline elements) always defines its destructor *)
Lemma vector_defines_destructor : forall d, define_destructor d false = true.
Proof. reflexivity. Qed.

(* ------------------------------------------------------------------------------------------------------------ *)
(* Each container's typedef is the conjunction of its parts' *)

Lemma primary_decl : forall b t, primary (Some b) t = b.
Proof. reflexivity. Qed.

Theorem container_tr :
  (forall t, is_tr_ty (Vec t) = true) /\
  (forall t n, n <> 0 -> is_tr_ty (SVec t n) = is_tr_ty t) /\
  (forall t, is_tr_ty (SVec t 0) = true) /\
  (forall t n, is_tr_ty (FCV t n) = is_tr_ty t) /\
  (forall c v, is_tr_ty (FlatSet c v) = is_tr_ty c && is_tr_ty v) /\
  (forall v s, is_tr_ty (SmallSet v s) = is_tr_ty v && is_tr_ty s).
Proof.
  repeat split; try reflexivity.
  intros t n Hn. cbn [is_tr_ty]. destruct (Z.eqb_spec n 0); [contradiction|reflexivity].
Qed.

(* consequences used by the documentation: FlatSet<T> over amc::vector only depends on the comparator,
   SmallSet over std::set is never relocatable, SmallSet over FlatSet iff T and the comparator are *)
Corollary flatset_default : forall c t, is_tr_ty (FlatSet c (Vec t)) = is_tr_ty c.
Proof. intros. cbn [is_tr_ty]. rewrite !primary_decl. apply andb_true_r. Qed.

Corollary smallset_flat : forall t n c u,
  is_tr_ty (SmallSet (FCV t n) (FlatSet c (Vec u))) = is_tr_ty t && is_tr_ty c.
Proof. intros. cbn [is_tr_ty]. rewrite !primary_decl. rewrite andb_true_r. reflexivity. Qed.

Corollary smallset_std : forall t n d, decl d = None -> tc d = false ->
  is_tr_ty (SmallSet (FCV t n) (Cls d)) = false.
Proof. intros t n d H1 H2. cbn [is_tr_ty]. rewrite primary_decl, trait_eq, H1, H2. apply andb_false_r. Qed.

(* ------------------------------------------------------------------------------------------------------------ *)
(* noexcept *)

Theorem noexcept_rules : forall N d,
  (move_ctor_noexcept N d = true <-> (N = 0 \/ is_tr d = true \/ nt_mc d = true)) /\
  (move_assign_noexcept N d = true <-> (N = 0 \/ is_tr d = true \/ (nt_mc d = true /\ nt_ma d = true))) /\
  (swap_noexcept N d = true <-> (N = 0 \/ (nt_mc d = true /\ nt_sw d = true))).
Proof.
  intros N d. unfold move_ctor_noexcept, move_assign_noexcept, swap_noexcept, is_move_construct_nothrow,
    is_shift_nothrow, is_swap_noexcept.
  rewrite !orb_true_iff, !andb_true_iff, Z.eqb_eq. tauto.
Qed.

(* amc::vector: always noexcept; relocatable T: move construction and assignment never throw;
   nothrow-movable and nothrow-swappable T: everything is noexcept for every N *)
Theorem noexcept_consequences : forall N d,
  (move_ctor_noexcept 0 d = true /\ move_assign_noexcept 0 d = true /\ swap_noexcept 0 d = true) /\
  (is_tr d = true -> move_ctor_noexcept N d = true /\ move_assign_noexcept N d = true) /\
  (nt_mc d = true -> nt_ma d = true -> nt_sw d = true ->
     move_ctor_noexcept N d = true /\ move_assign_noexcept N d = true /\ swap_noexcept N d = true) /\
  (N <> 0 -> is_tr d = false -> nt_mc d = false ->
     move_ctor_noexcept N d = false /\ move_assign_noexcept N d = false /\ swap_noexcept N d = false).
Proof.
  intros N d. unfold move_ctor_noexcept, move_assign_noexcept, swap_noexcept, is_move_construct_nothrow,
    is_shift_nothrow, is_swap_noexcept.
  split; [repeat split|]. split; [intros ->; rewrite !orb_true_r; split; reflexivity|].
  split; [intros -> -> ->; rewrite !orb_true_r; repeat split|].
  intros HN -> ->. destruct (Z.eqb_spec N 0); [contradiction|]. repeat split.
Qed.

(* ------------------------------------------------------------------------------------------------------------ *)
(* Non-vacuity: concrete instances, computed *)

Definition d_char : desc := mkDesc 1 1 true None true true true true.
Definition d_str : desc := mkDesc 24 8 false (Some true) false true true true.  (* a relocatable string-like class *)

Example static_examples :
  wf 1 1 4 /\ wf 9 1 1 /\
  sizeof_vec 4 = 16 /\ sizeof_sv 1 1 4 8 = 16 /\ sizeof_sv 1 1 4 9 = 24 /\
  sizeof_sv 9 1 1 2 = sizeof_vec 1 + 2 * 9 + 6 /\
  sizeof_fcv_default 1 1 16 = 18 /\ fcv_size_type_bytes 255 = 1 /\ fcv_size_type_bytes 256 = 2 /\
  is_tr d_char = true /\ is_tr d_str = true /\ is_tr d_NT = false /\
  is_tr_ty (Pair (Cls d_char) (Cls d_NT)) = false /\
  is_tr_ty (FlatSet (Cls d_cmpN) (Vec (Cls d_char))) = false /\
  fcv_triv_dtor d_str = false /\ fcv_triv_dtor d_char = true /\
  move_ctor_noexcept 4 (mkDesc 4 4 false None true false false false) = false.
Proof. vm_compute. repeat split; auto; try discriminate; intuition discriminate. Qed.
