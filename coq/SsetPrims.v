(* Primitives in which the program regenerated from SmallSet (Gen/SsetGen.v) is expressed: the inline vector and the backing
   set are two lists, iterators of the inline vector are Z offsets. *)
From Coq Require Import ZArith Arith List Bool.
From Amc Require Import Hint SetModel.
Import ListNotations.
Local Open Scope Z_scope.
Definition is_nil (l : list Z) : bool := match l with [] => true | _ => false end.
(* std::find_if(_vec.begin(), _vec.end(), FindFunctor(key_comp(), k)) *)
Definition find_small_z (cmp : Z -> Z -> bool) (vec : list Z) (v : Z) : Z := Z.of_nat (find_small cmp vec v).
(* grow(): every inline element is inserted into the backing set, the vector is cleared *)
Definition grow_p (cmp : Z -> Z -> bool) (vec set : list Z) : list Z * list Z :=
  ([], fold_left (fun acc x => fst (insert_val cmp acc x)) vec set).
(* _set.insert(v): position and "inserted" flag *)
Definition set_ins (cmp : Z -> Z -> bool) (vec set : list Z) (v : Z) : list Z * list Z * Z * bool :=
  let '(l, j, b) := set_insert cmp set v in (vec, l, Z.of_nat j, b).
(* _set.find(k) as a position, _set.count(k) as a boolean, _set.erase(k), _vec.erase(it) *)
Definition set_find (cmp : Z -> Z -> bool) (set : list Z) (k : Z) : Z := Z.of_nat (fs_find cmp set k).
Definition set_contains (cmp : Z -> Z -> bool) (set : list Z) (k : Z) : bool := fs_contains cmp set k.
Definition set_erase_key (cmp : Z -> Z -> bool) (vec set : list Z) (v : Z) : list Z * list Z * Z :=
  let '(l, n) := fs_erase_key cmp set v in (vec, l, Z.of_nat n).
Definition vec_erase (vec : list Z) (i : Z) : list Z := remove_at (Z.to_nat i) vec.
