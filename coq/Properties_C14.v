(* C14 - containers honour their own trivially_relocatable declaration.  PARTIAL.
   In the models a container is its size words and its element sequence (vectors: VecModel.v; sets: SetModel.v): no field
   holds an address - begin() is recomputed from `this` (inline) or read from the stored heap pointer on every call - so
   moving the object by a raw byte copy with the source abandoned is the identity on the state:
   - [C14_relocate_vector_is_identity], [C14_relocate_set_is_identity]: the relocate step of the models moves the state
     unchanged to the new slot (and is refused for a container type that does not claim the trait); every later operation
     is a function of that state only, so all theorems about histories (C01, C03, C04 invariants) continue to apply;
   - [C14_claims_are_conjunctions]: no container claims the trait when one of its parts is not relocatable (Static.v, the
     model the compiler's answers are compared with in C17).
   That the REAL representation has no other address-dependent field is not provable in the model: it is carried by the
   correspondence - at random points of vector and set histories the real object is memcpy'd to fresh storage, the source
   bytes are poisoned and abandoned, and the history continues on the copy, compared step by step with the model and judged
   by all direct oracles (std::vector / std::set, element and allocator ledgers, ASan) - for every container type claiming
   the trait, in inline partial / full, heap, empty and moved-from states. *)
From Coq Require Import ZArith List Bool.
From Amc Require Import GenPrelude Words VecModel VecProofs SetModel SetProofs Static StaticProofs.
Import ListNotations.

Theorem C14_relocate_vector_is_identity :
  forall c p a b v, get p a = Some v -> get p b = None -> a <> b -> VecModel.container_tr c = true ->
    step c p (Relocate a b) = (set (set p b (Some v)) a None, ROk, []).
Proof. exact relocate_step. Qed.

Theorem C14_relocate_refused_without_trait :
  forall c p a b, VecModel.container_tr c = false -> step c p (Relocate a b) = (p, RSkip, []).
Proof. exact relocate_refused. Qed.

Theorem C14_relocate_set_is_identity :
  forall cmp kind p a b s, sget p a = Some s -> sget p b = None -> a <> b ->
    sstep cmp kind p (SRelocate a b) = (sput (sput p b (Some s)) a None, SROk).
Proof. exact set_relocate_step. Qed.

Theorem C14_claims_are_conjunctions :
  (forall t, is_tr_ty (Vec t) = true) /\
  (forall t n, n <> 0%Z -> is_tr_ty (SVec t n) = is_tr_ty t) /\
  (forall t, is_tr_ty (SVec t 0%Z) = true) /\
  (forall t n, is_tr_ty (FCV t n) = is_tr_ty t) /\
  (forall c v, is_tr_ty (FlatSet c v) = is_tr_ty c && is_tr_ty v) /\
  (forall v s, is_tr_ty (SmallSet v s) = is_tr_ty v && is_tr_ty s).
Proof. exact StaticProofs.container_tr. Qed.
