(* C02 - elements are destroyed exactly once and relocated only as their type allows.
   PARTIAL.  Slot-level models (Slots.v, Erase.v, Alias.v, MemAlgos.v): every memory slot is Out | Raw | Live v | Moved, every
   element primitive returns an ERROR VALUE for construct-over-live, assign/destroy/read of a dead slot and access outside the
   block, so "no lifetime error" is a conjunct of each statement; the invariant [Inv m size cap] says slots [0,size) are
   alive and not moved-from, slots [size,cap) are raw (so every created object exists exactly once and nothing is alive
   outside the container).  Proved, for every size, capacity, position, count and value, for the overloads used by element
   types that are NOT trivially relocatable (the ones that run constructors / assignments / destructors):
   - [C02_insert_count]: insert(pos, count, v) = shift_right(count) + fill_after_shift, loop order preserved;
   - [C02_insert_own_element]: insert(pos, v) with v a reference to an own element (both branches of the aliasing test);
   - [C02_erase_range]: erase(first, last) of a non-empty range = forward move + destroy of the tail
     ([erase_n_empty_range_self_moves] in Erase.v records that an empty range would self-move the tail: the guard n != 0);
   - [C02_bitwise_only_when_allowed]: the memory algorithms select a raw byte copy only for element categories that allow it
     (ImplModeFactory; the relocate algorithms themselves are C15's theorems).
   Not covered by a theorem: the trivially-relocatable overloads (memmove of raw slots), whole operation histories, sets.
   Those are decided on the implementation by the identity-carrying element types of the drivers (per-object status table,
   self == this check for non-relocatable elements, live count == sum of sizes after every step, 0 at the end) under
   ASan/UBSan, over the same systematic and random histories as C01/C03/C04.
   Trivially relocatable element types (SlotsTR.v): a bitwise relocation leaves its source RAW (no object, no destructor) and is a
   lifetime error of the model on a dead source or a live destination; [C02_tr_*]: the shifting helpers, erase and insertion of
   the trivially relocatable overloads never commit one, destroy every removed object exactly once and give the specified list. *)
From Coq Require Import ZArith List Bool.
From Amc Require Import Slots Erase Alias MemAlgos.
From Amc Require Throw EmplaceGrow ThrowMove SlotsTR.
Import ListNotations.

Theorem C02_insert_count :
  forall m size cap pos count v, Inv m size cap -> pos <= size -> size + count <= cap ->
    exists m', fst (insert_cnt m size pos count v) = inr m' /\ snd (insert_cnt m size pos count v) = size + count /\
      Inv m' (size + count) cap /\ abs m' (size + count) = spec_insert (abs m size) pos count v.
Proof. exact insert_cnt_correct. Qed.

Theorem C02_insert_own_element :
  forall m size cap pos i, Inv m size cap -> pos <= size -> i < size -> size + 1 <= cap ->
    exists m', insert_own m size pos i = inr m' /\ Inv m' (size + 1) cap /\
               abs m' (size + 1) = spec_insert (abs m size) pos 1 (nth i (abs m size) 0%Z).
Proof. exact insert_own_correct. Qed.

Theorem C02_erase_range :
  forall m size cap pos n, Inv m size cap -> 0 < n -> pos + n <= size ->
    exists m', erase_n m pos n (size - pos - n) = inr m' /\ Inv m' (size - n) cap /\
               abs m' (size - n) = spec_erase (abs m size) pos n.
Proof. exact erase_n_correct. Qed.

Theorem C02_bitwise_only_when_allowed : forall b it, allowed b (impl_mode b it) = true.
Proof. exact impl_mode_allowed. Qed.

Example C02_example : exists m', erase_n Erase.m1 0 1 2 = inr m' /\ abs m' 2 = [11; 12]%Z /\ m' 2 = Raw.
Proof. eexists. split; [reflexivity|]. split; reflexivity. Qed.

(* ---- trivially relocatable overloads (bitwise relocation: the source slot holds no object afterwards) ---- *)
Theorem C02_tr_relocate_range :
  forall m src n dst,
    (forall k, k < n -> EmplaceGrow.alive (m (src + k)) = true) ->
    (forall j, dst <= j < dst + n -> ~ (src <= j < src + n) -> m j = Throw.Raw) ->
    exists m', SlotsTR.relocate_n m src n dst = inl m' /\
      (forall k, k < n -> m' (dst + k) = m (src + k)) /\
      (forall j, src <= j < src + n -> ~ (dst <= j < dst + n) -> m' j = Throw.Raw) /\
      (forall j, ~ (dst <= j < dst + n) -> ~ (src <= j < src + n) -> m' j = m j).
Proof. exact SlotsTR.relocate_n_spec. Qed.

Theorem C02_tr_erase_range :
  forall m size cap pos n, Throw.Inv m size cap -> pos + n <= size ->
  exists m', SlotsTR.erase_n m pos n (size - pos - n) = inl m' /\ Throw.Inv m' (size - n) cap /\
    (forall j, j < pos -> m' j = m j) /\ (forall j, pos <= j < size - n -> m' j = m (j + n)) /\
    Slots.abs (ThrowMove.toSm m') (size - n) = Erase.spec_erase (Slots.abs (ThrowMove.toSm m) size) pos n.
Proof. exact SlotsTR.erase_n_correct. Qed.

Theorem C02_tr_shift_right_count :
  forall m size cap pos count, Throw.Inv m size cap -> pos <= size -> size + count <= cap ->
  exists m', SlotsTR.shift_right_cnt m pos (size - pos) count = inl m' /\ (forall j, j < pos -> m' j = m j) /\
    (forall j, pos <= j < pos + count -> m' j = Throw.Raw) /\ (forall j, pos + count <= j < size + count -> m' j = m (j - count)) /\
    (forall j, size + count <= j -> m' j = m j).
Proof. exact SlotsTR.shift_right_cnt_inv. Qed.
