(* C02 - elements are destroyed exactly once and relocated only as their type allows.
   PARTIAL.  Slot-level models (Slots.v, Erase.v, Alias.v, MemAlgos.v): every memory slot is Out | Raw | Live v | Moved, every
   element primitive returns an ERROR VALUE for construct-over-live, assign/destroy/read of a dead slot and access outside the
   block, so "no lifetime error" is a conjunct of each statement; the invariant [Inv m size cap] says slots [0,size) are
   alive and not moved-from, slots [size,cap) are raw (so every created object exists exactly once and nothing is alive
   outside the container).  Proved, for every size, capacity, position, count and value, for the overloads used by element
   types that are NOT trivially relocatable (the ones that run constructors / assignments / destructors):
   - [C02_insert_count]: insert(pos, count, v) = shift_right(count) + fill_after_shift, loop order preserved;
   - [C02_insert_own_element]: insert(pos, v) with v a reference to an own element (both branches of the aliasing test);
   - [C02_erase_range]: erase(first, last) of a non-empty range = forward move + destroy of the tail
     ([erase_n_empty_range_self_moves] in Erase.v records that an empty range would self-move the tail: the guard n != 0);
   - [C02_bitwise_only_when_allowed]: the memory algorithms select a raw byte copy only for element categories that allow it
     (ImplModeFactory; the relocate algorithms themselves are C15's theorems).
   Not covered by a theorem: the trivially-relocatable overloads (memmove of raw slots), whole operation histories, sets.
   Those are decided on the implementation by the identity-carrying element types of the drivers (per-object status table,
   self == this check for non-relocatable elements, live count == sum of sizes after every step, 0 at the end) under
   ASan/UBSan, over the same systematic and random histories as C01/C03/C04.
   Trivially relocatable element types (SlotsTR.v): a bitwise relocation leaves its source RAW (no object, no destructor) and is a
   lifetime error of the model on a dead source or a live destination; [C02_tr_*]: the shifting helpers, erase and insertion of
   the trivially relocatable overloads never commit one, destroy every removed object exactly once and give the specified list.
   Whole-content transfers between two storages (Transfer.v, both flavours): [C02_swap_deep] (swap of inline storages / swap2),
   [C02_move_n] (move assignment between inline storages), [C02_relocate_to_new_buffer] (growth, shrink_to_fit, inline <-> heap) never
   commit a lifetime error, exchange / hand over the contents as lists, leave every vacated slot raw, and conserve the number of
   objects alive ([..._conserves]): nothing is leaked, nothing destroyed twice.  For an element type whose moves throw
   (SwapThrow.v, MoveThrow.v) [C02_swap_deep_throwing_moves_conserves] / [C02_move_n_throwing_moves_conserves]: whatever move throws,
   never a lifetime error and the number of objects alive over both storages is what the two unchanged sizes claim. *)
From Coq Require Import ZArith List Bool.
From Amc Require Import Slots Erase Alias MemAlgos.
From Amc Require Throw EmplaceGrow ThrowMove SlotsTR Transfer SwapThrow MoveThrow.
Import ListNotations.

Theorem C02_insert_count :
  forall m size cap pos count v, Inv m size cap -> pos <= size -> size + count <= cap ->
    exists m', fst (insert_cnt m size pos count v) = inr m' /\ snd (insert_cnt m size pos count v) = size + count /\
      Inv m' (size + count) cap /\ abs m' (size + count) = spec_insert (abs m size) pos count v.
Proof. exact insert_cnt_correct. Qed.

Theorem C02_insert_own_element :
  forall m size cap pos i, Inv m size cap -> pos <= size -> i < size -> size + 1 <= cap ->
    exists m', insert_own m size pos i = inr m' /\ Inv m' (size + 1) cap /\
               abs m' (size + 1) = spec_insert (abs m size) pos 1 (nth i (abs m size) 0%Z).
Proof. exact insert_own_correct. Qed.

Theorem C02_erase_range :
  forall m size cap pos n, Inv m size cap -> 0 < n -> pos + n <= size ->
    exists m', erase_n m pos n (size - pos - n) = inr m' /\ Inv m' (size - n) cap /\
               abs m' (size - n) = spec_erase (abs m size) pos n.
Proof. exact erase_n_correct. Qed.

Theorem C02_bitwise_only_when_allowed : forall b it, allowed b (impl_mode b it) = true.
Proof. exact impl_mode_allowed. Qed.

Example C02_example : exists m', erase_n Erase.m1 0 1 2 = inr m' /\ abs m' 2 = [11; 12]%Z /\ m' 2 = Raw.
Proof. eexists. split; [reflexivity|]. split; reflexivity. Qed.

(* ---- trivially relocatable overloads (bitwise relocation: the source slot holds no object afterwards) ---- *)
Theorem C02_tr_relocate_range :
  forall m src n dst,
    (forall k, k < n -> EmplaceGrow.alive (m (src + k)) = true) ->
    (forall j, dst <= j < dst + n -> ~ (src <= j < src + n) -> m j = Throw.Raw) ->
    exists m', SlotsTR.relocate_n m src n dst = inl m' /\
      (forall k, k < n -> m' (dst + k) = m (src + k)) /\
      (forall j, src <= j < src + n -> ~ (dst <= j < dst + n) -> m' j = Throw.Raw) /\
      (forall j, ~ (dst <= j < dst + n) -> ~ (src <= j < src + n) -> m' j = m j).
Proof. exact SlotsTR.relocate_n_spec. Qed.

Theorem C02_tr_erase_range :
  forall m size cap pos n, Throw.Inv m size cap -> pos + n <= size ->
  exists m', SlotsTR.erase_n m pos n (size - pos - n) = inl m' /\ Throw.Inv m' (size - n) cap /\
    (forall j, j < pos -> m' j = m j) /\ (forall j, pos <= j < size - n -> m' j = m (j + n)) /\
    Slots.abs (ThrowMove.toSm m') (size - n) = Erase.spec_erase (Slots.abs (ThrowMove.toSm m) size) pos n.
Proof. exact SlotsTR.erase_n_correct. Qed.

Theorem C02_tr_shift_right_count :
  forall m size cap pos count, Throw.Inv m size cap -> pos <= size -> size + count <= cap ->
  exists m', SlotsTR.shift_right_cnt m pos (size - pos) count = inl m' /\ (forall j, j < pos -> m' j = m j) /\
    (forall j, pos <= j < pos + count -> m' j = Throw.Raw) /\ (forall j, pos + count <= j < size + count -> m' j = m (j - count)) /\
    (forall j, size + count <= j -> m' j = m j).
Proof. exact SlotsTR.shift_right_cnt_inv. Qed.

(* ---- whole-content transfers between two storages (tr = true: trivially relocatable flavour) ---- *)
Import Transfer.
Theorem C02_swap_deep :
  forall tr m th t b1 n1 cap1 b2 n2 cap2,
  Rng m b1 n1 cap1 -> Rng m b2 n2 cap2 -> Disj b1 cap1 b2 cap2 -> n2 <= cap1 -> n1 <= cap2 ->
  m t = Throw.Raw -> ~ inR b1 cap1 t -> ~ inR b2 cap2 t ->
  match lift (swap_deep tr m t b1 n1 b2 n2) th with
  | Throw.Done m' th' => th' = th /\ content m' b1 n2 = content m b2 n2 /\ content m' b2 n1 = content m b1 n1 /\
                   Rng m' b1 n2 cap1 /\ Rng m' b2 n1 cap2 /\ m' t = Throw.Raw /\
                   (forall j, ~ inR b1 cap1 j -> ~ inR b2 cap2 j -> m' j = m j)
  | Throw.Threw _ => False
  | Throw.Err _ => False end.
Proof. exact swap_deep_spec. Qed.

Theorem C02_swap_deep_conserves :
  forall tr m t b1 n1 cap1 b2 n2 cap2 m',
  Rng m b1 n1 cap1 -> Rng m b2 n2 cap2 -> Disj b1 cap1 b2 cap2 -> n2 <= cap1 -> n1 <= cap2 ->
  m t = Throw.Raw -> ~ inR b1 cap1 t -> ~ inR b2 cap2 t -> swap_deep tr m t b1 n1 b2 n2 = inl m' ->
  count_live m' b1 cap1 + count_live m' b2 cap2 = n1 + n2 /\ count_live m b1 cap1 + count_live m b2 cap2 = n1 + n2 /\
  count_live m' t 1 = 0.
Proof. exact swap_deep_conserves. Qed.

Theorem C02_move_n :
  forall tr m th bs n caps bd dn capd,
  Rng m bs n caps -> Rng m bd dn capd -> Disj bs caps bd capd -> n <= capd ->
  match lift (move_n tr m bs n bd dn) th with
  | Throw.Done m' th' => th' = th /\ content m' bd n = content m bs n /\ Rng m' bd n capd /\ Rng m' bs 0 caps /\
                   (forall j, ~ inR bs caps j -> ~ inR bd capd j -> m' j = m j)
  | Throw.Threw _ => False
  | Throw.Err _ => False end.
Proof. exact move_n_spec. Qed.

Theorem C02_relocate_to_new_buffer :
  forall tr m th bs n caps bd capd,
  Rng m bs n caps -> Rng m bd 0 capd -> Disj bs caps bd capd -> n <= capd ->
  match relocate_to_new_buffer tr m th bs n bd with
  | Throw.Done m' th' => th' = th /\ Relocated m m' bs n caps bd capd
  | Throw.Threw _ => False
  | Throw.Err _ => False end.
Proof. exact relocate_to_new_buffer_spec. Qed.

Theorem C02_erase_one :
  forall tr m th size cap pos, Throw.Inv m size cap -> pos < size ->
  match lift (erase_at tr m pos (size - pos - 1)) th with
  | Throw.Done m' th' => th' = th /\ Throw.Inv m' (size - 1) cap /\ (forall j, j < pos -> m' j = m j) /\ (forall j, pos <= j < size - 1 -> m' j = m (j + 1)) /\
                   Slots.abs (ThrowMove.toSm m') (size - 1) = Erase.spec_erase (Slots.abs (ThrowMove.toSm m) size) pos 1
  | Throw.Threw _ => False
  | Throw.Err _ => False end.
Proof. exact erase_at_spec. Qed.

(* the same two transfers for an element type whose moves THROW (SwapThrow.v, MoveThrow.v): whatever move throws, no lifetime error, and the
   number of objects alive over both ranges is what the two (unchanged) sizes claim: nothing leaked, nothing left to be destroyed twice *)
Theorem C02_swap_deep_throwing_moves_conserves :
  forall m th t b1 n1 cap1 b2 n2 cap2,
  Rng m b1 n1 cap1 -> Rng m b2 n2 cap2 -> Disj b1 cap1 b2 cap2 -> n2 <= cap1 -> n1 <= cap2 ->
  m t = Throw.Raw -> ~ inR b1 cap1 t -> ~ inR b2 cap2 t ->
  match SwapThrow.swap_deep_mt m th t b1 n1 b2 n2 with
  | Throw.Done m' _ | Throw.Threw m' => count_live m' b1 cap1 + count_live m' b2 cap2 = n1 + n2 /\ count_live m' t 1 = 0
  | Throw.Err _ => False end.
Proof. exact SwapThrow.swap_deep_mt_conserves. Qed.

Theorem C02_move_n_throwing_moves_conserves :
  forall m th bs n caps bd dn capd,
  Rng m bs n caps -> Rng m bd dn capd -> Disj bs caps bd capd -> n <= capd ->
  match MoveThrow.move_n_mt m th bs n bd dn with
  | Throw.Done m' _ => count_live m' bs caps + count_live m' bd capd = n
  | Throw.Threw m' => count_live m' bs caps + count_live m' bd capd = n + dn
  | Throw.Err _ => False end.
Proof. exact MoveThrow.move_n_mt_conserves. Qed.
