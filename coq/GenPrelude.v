(* Prelude of the regenerated L0 definitions (Gen/L0_<S>.v): the two SizeType members of a vector base, in declaration
   order, and the wrap-around functions that clang's implicit conversions are translated to. *)
From Coq Require Import ZArith Bool.
Local Open Scope Z_scope.

Record words := { capa_ : Z; size_ : Z }.
Definition set_capa_ (s : words) (v : Z) : words := {| capa_ := v; size_ := size_ s |}.
Definition set_size_ (s : words) (v : Z) : words := {| capa_ := capa_ s; size_ := v |}.

Definition wrap_u8 (x : Z) : Z := x mod 256.
Definition wrap_s8 (x : Z) : Z := (x + 128) mod 256 - 128.
Definition wrap_u16 (x : Z) : Z := x mod 65536.
Definition wrap_s16 (x : Z) : Z := (x + 32768) mod 65536 - 32768.
Definition wrap_u32 (x : Z) : Z := x mod 4294967296.
Definition wrap_s32 (x : Z) : Z := (x + 2147483648) mod 4294967296 - 2147483648.
Definition wrap_u64 (x : Z) : Z := x mod 18446744073709551616.
Definition wrap_s64 (x : Z) : Z := (x + 9223372036854775808) mod 18446744073709551616 - 9223372036854775808.

(* Stage-3 translation (Gen/Base_<S>.v): calls that touch elements, buffers or the allocator are recorded, in order, with
   their integer arguments; `if (_storage)` of StdVectorBase is rendered by [ptr_nonnull] - the pointer of a StdVectorBase is
   non-null exactly when its capacity word is non-zero (an invariant of that class observed by the drivers: a vector with
   null storage and a capacity, or the converse, is reported as corrupted). *)
From Coq Require Import String List.
Inductive eff := Eff (name : string) (args : list Z).
Definition ptr_nonnull (s : words) : bool := negb (capa_ s =? 0).
