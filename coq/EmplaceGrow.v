(* Slot level models, with the throw oracle of Throw.v, of the paths of include/amc/vectorcommon.hpp that build the new
   element in a temporary BEFORE touching the block, for a non trivially relocatable element with noexcept moves (El<0>):

     amc::vec::emplace_n (pos, n, args...)                      -> [emplace_n]
     amc::vec::insert_n (pos, n, const T&) and its catch branch -> [insert_n]      (the only reachable call of shift_left)
     amc::vec::shift_left (first, n)                            -> [shift_left]
     DynamicVector::emplace (position, args...), size == capacity     -> [emplace_grow]
     DynamicVector::emplace_back (args...),      size == capacity     -> [emplace_back_grow]
     StdVectorBase::grow / vec::Reallocate (smallvector.hpp)          -> [grow]
     vec::give_back_arg (commit "fix: a failed push_back(T&&) / insert(pos, T&&) gives its value back to the argument")

   ONE memory [mem = nat -> slot] (Throw.v) holds everything the operation touches:

     emplace_n / insert_n:   [0, cap)  the block | cap  Out (guard) | e  the temporary ElemStorage | a  the argument
     growth path:            [0, size) the OLD block (full: size == capacity) | e | a | [nb, nb + next_cap size) the NEW block

   [e], [a] and [nb] are parameters of the models.  The theorems take them anywhere outside the block(s) (and distinct);
   the correspondence check (lib/slotcorr.py) and the Examples use the fixed layout [init_lay]: e = cap + 1, a = cap + 2,
   cap and cap + 3 stay Out (guards), nb = cap + 4.  The argument may also be an element of the block itself
   (a < size: `v.emplace(pos, v[i])`, `v.emplace(pos, std::move(v[i]))`): the models run on it (and are compared with the
   code on it), the theorems below are about an external argument, except [emplace_grow_throw_strong].

   Allocation: the new block is Out (does not exist) before `allocate`, Raw after it; `deallocate` of the old block makes
   its slots Out (freed memory is not Raw storage any more: any later access is an OutOfBlock error of the model, as it
   is an ASan report for the code).  `allocate` is one throwing-capable event, a copy construction is one, a move is none.

   Moves here ([mv_construct], [mv_assign]) accept a moved-from source (the result is moved-from as well): with an own
   element passed as an rvalue the block holds a moved-from element while it is relocated / shifted.  They agree with
   Throw.move_construct / Throw.move_assign on a Live source ([mv_construct_eq], [mv_assign_eq]). *)
From Coq Require Import ZArith Lia Bool List Arith.
From Amc Require Import Throw.
Import ListNotations.

Definition alive (s : slot) : bool := match s with Live _ | Moved => true | _ => false end.

(* ---- moves (noexcept) ------------------------------------------------------------------------------------------------ *)
Definition mv_construct (m : mem) (dst src : nat) : mem + err :=
  match m dst with
  | Out => inr OutOfBlock
  | Raw => match m src with Out => inr OutOfBlock | Raw => inr AssignDead | s => inl (upd (upd m dst s) src Moved) end
  | _ => match m src with Out => inr OutOfBlock | _ => inr ConstructOverLive end
  end.
Definition mv_assign (m : mem) (dst src : nat) : mem + err :=
  match m dst with
  | Out => inr OutOfBlock
  | Raw => match m src with Out => inr OutOfBlock | _ => inr AssignDead end
  | _ => match m src with Out => inr OutOfBlock | Raw => inr AssignDead | s => inl (upd (upd m dst s) src Moved) end
  end.
Lemma mv_construct_eq m dst src v : m src = Live v -> mv_construct m dst src = move_construct m dst src.
Proof. intros H. unfold mv_construct, move_construct. rewrite H. destruct (m dst); reflexivity. Qed.
Lemma mv_assign_eq m dst src v : m src = Live v -> mv_assign m dst src = move_assign m dst src.
Proof. intros H. unfold mv_assign, move_assign. rewrite H. destruct (m dst); reflexivity. Qed.
Lemma mv_construct_ok m dst src : m dst = Raw -> alive (m src) = true ->
  mv_construct m dst src = inl (upd (upd m dst (m src)) src Moved).
Proof. intros Hd Hs. unfold mv_construct. rewrite Hd. destruct (m src); try discriminate; reflexivity. Qed.
Lemma mv_assign_ok m dst src : alive (m dst) = true -> alive (m src) = true ->
  mv_assign m dst src = inl (upd (upd m dst (m src)) src Moved).
Proof. intros Hd Hs. unfold mv_assign. destruct (m dst); try discriminate; destruct (m src); try discriminate; reflexivity. Qed.
Lemma destroy_ok m i : alive (m i) = true -> destroy m i = inl (upd m i Raw).
Proof. intros H. unfold destroy. destruct (m i); try discriminate; reflexivity. Qed.
Lemma live_alive s : is_live s = true -> alive s = true.
Proof. destruct s; cbn; congruence. Qed.

(* amc::uninitialized_move_n (src, n, dst) *)
Fixpoint mv_uninit_n (m : mem) (src n dst : nat) : mem + err :=
  match n with 0 => inl m
  | S k => match mv_construct m dst src with inl m1 => mv_uninit_n m1 (S src) k (S dst) | inr e => inr e end end.
(* std::move_backward (first, first + n, dlast) *)
Fixpoint mv_backward (m : mem) (first n dlast : nat) : mem + err :=
  match n with 0 => inl m
  | S k => match mv_assign m (dlast - 1) (first + k) with inl m1 => mv_backward m1 first k (dlast - 1) | inr e => inr e end end.
(* std::move (src, src + n, dst), dst < src *)
Fixpoint mv_forward (m : mem) (src n dst : nat) : mem + err :=
  match n with 0 => inl m
  | S k => match mv_assign m dst src with inl m1 => mv_forward m1 (S src) k (S dst) | inr e => inr e end end.

(* shift_right (first, n), n != 0:   T *last = first + n; construct_at (last, move (last[-1])); move_backward (first, last - 1, last)
   (the `catch (...) { destroy_at (last); throw; }` around move_backward is dead code for an element whose moves are noexcept) *)
Definition shift_right1 (m : mem) (first n : nat) : mem + err :=
  match mv_construct m (first + n) (first + n - 1) with
  | inl m1 => mv_backward m1 first (n - 1) (first + n)
  | inr e => inr e end.
(* shift_left (first, n), n != 0:   first[-1] = move (first[0]); destroy_at (std::move (first + 1, first + n, first)) *)
Definition shift_left (m : mem) (first n : nat) : mem + err :=
  match mv_assign m (first - 1) first with
  | inl m1 => match mv_forward m1 (first + 1) (n - 1) first with inl m2 => destroy m2 (first + n - 1) | inr e => inr e end
  | inr e => inr e end.

Lemma mv_uninit_n_spec : forall n m src dst, (src + n <= dst \/ dst + n <= src) ->
  (forall k, k < n -> alive (m (src + k)) = true) -> (forall k, k < n -> m (dst + k) = Raw) ->
  exists m', mv_uninit_n m src n dst = inl m' /\ (forall k, k < n -> m' (dst + k) = m (src + k)) /\
    (forall k, k < n -> m' (src + k) = Moved) /\ (forall j, ~ (src <= j < src + n) -> ~ (dst <= j < dst + n) -> m' j = m j).
Proof.
  induction n as [|n IH]; intros m src dst Hd Ha Hr; cbn [mv_uninit_n].
  - exists m. repeat split; intros; try lia; reflexivity.
  - pose proof (Ha 0 ltac:(lia)) as A0. pose proof (Hr 0 ltac:(lia)) as R0. rewrite Nat.add_0_r in A0, R0.
    rewrite (mv_construct_ok m dst src R0 A0).
    destruct (IH (upd (upd m dst (m src)) src Moved) (S src) (S dst)) as [m' (E & P1 & P2 & P3)]; [lia| | |].
    + intros k Hk. pose proof (Ha (S k) ltac:(lia)) as W. replace (src + S k) with (S src + k) in W by lia. updsimp; exact W.
    + intros k Hk. pose proof (Hr (S k) ltac:(lia)) as W. replace (dst + S k) with (S dst + k) in W by lia. updsimp; exact W.
    + exists m'. split; [exact E|]. split; [|split].
      * intros k Hk. destruct k as [|k].
        -- rewrite !Nat.add_0_r. rewrite P3 by lia. updsimp.
        -- replace (dst + S k) with (S dst + k) by lia. replace (src + S k) with (S src + k) by lia. rewrite P1 by lia. updsimp.
      * intros k Hk. destruct k as [|k].
        -- rewrite Nat.add_0_r. rewrite P3 by lia. updsimp.
        -- replace (src + S k) with (S src + k) by lia. apply P2. lia.
      * intros j H1 H2. rewrite P3 by lia. updsimp.
Qed.

Lemma destroy_n_alive : forall n m first, (forall k, k < n -> alive (m (first + k)) = true) ->
  exists m', destroy_n m first n = inl m' /\ (forall j, first <= j < first + n -> m' j = Raw) /\ (forall j, ~ (first <= j < first + n) -> m' j = m j).
Proof.
  induction n as [|n IH]; intros m first H; cbn [destroy_n].
  - exists m. repeat split; intros; try lia; reflexivity.
  - pose proof (H 0 ltac:(lia)) as H0. rewrite Nat.add_0_r in H0. rewrite (destroy_ok m first H0).
    destruct (IH (upd m first Raw) (S first)) as [m' (E' & P1 & P2)].
    + intros k Hk. pose proof (H (S k) ltac:(lia)) as W. replace (first + S k) with (S first + k) in W by lia. updsimp; exact W.
    + exists m'. split; [exact E'|]. split.
      * intros j Hj. destruct (Nat.eq_dec j first) as [->|]; [rewrite P2 by lia; updsimp|apply P1; lia].
      * intros j Hj. rewrite P2 by lia. updsimp.
Qed.

(* the c elements of [first, first + c) move one slot up, the highest first; slot first + c is alive (assigned to) *)
Lemma mv_backward_spec : forall c m first, (forall j, first <= j <= first + c -> alive (m j) = true) ->
  exists m', mv_backward m first c (first + c + 1) = inl m' /\ m' first = (if c =? 0 then m first else Moved) /\
    (forall j, first < j <= first + c -> m' j = m (j - 1)) /\ (forall j, j < first \/ first + c < j -> m' j = m j).
Proof.
  induction c as [|c IH]; intros m first Ha; cbn [mv_backward].
  - exists m. cbn [Nat.eqb]. repeat split; intros; try lia; reflexivity.
  - replace (first + S c + 1 - 1) with (first + c + 1) by lia.
    rewrite (mv_assign_ok m (first + c + 1) (first + c)) by (apply Ha; lia).
    destruct (IH (upd (upd m (first + c + 1) (m (first + c))) (first + c) Moved) first) as [m' (E & P0 & P1 & P2)].
    + intros j Hj. pose proof (Ha j ltac:(lia)) as W. updsimp; exact W.
    + exists m'. split; [exact E|]. cbn [Nat.eqb]. split; [|split].
      * rewrite P0. destruct (Nat.eqb_spec c 0) as [Hc|Hc]; [|reflexivity]. subst c. rewrite Nat.add_0_r. updsimp.
      * intros j Hj. destruct (Nat.eq_dec j (first + c + 1)) as [->|Hne].
        -- rewrite P2 by lia. replace (first + c + 1 - 1) with (first + c) by lia. updsimp.
        -- rewrite P1 by lia. updsimp.
      * intros j Hj. rewrite P2 by lia. updsimp.
Qed.

Lemma shift_right1_spec m first n : 1 <= n -> (forall j, first <= j < first + n -> alive (m j) = true) -> m (first + n) = Raw ->
  exists m', shift_right1 m first n = inl m' /\ m' first = Moved /\
    (forall j, first < j <= first + n -> m' j = m (j - 1)) /\ (forall j, j < first \/ first + n < j -> m' j = m j).
Proof.
  intros Hn Ha Hr. unfold shift_right1. rewrite (mv_construct_ok m (first + n) (first + n - 1) Hr) by (apply Ha; lia).
  destruct (mv_backward_spec (n - 1) (upd (upd m (first + n) (m (first + n - 1))) (first + n - 1) Moved) first) as [m' (E & P0 & P1 & P2)].
  - intros j Hj. pose proof (Ha j ltac:(lia)) as W. updsimp; exact W.
  - replace (first + (n - 1) + 1) with (first + n) in E by lia. exists m'. split; [exact E|]. split; [|split].
    + rewrite P0. destruct (Nat.eqb_spec (n - 1) 0) as [Hz|Hz]; [|reflexivity]. updsimp.
    + intros j Hj. destruct (Nat.eq_dec j (first + n)) as [->|Hne].
      * rewrite P2 by lia. updsimp.
      * rewrite P1 by lia. updsimp.
    + intros j Hj. rewrite P2 by lia. updsimp.
Qed.

(* the c elements of [src, src + c) move one slot down, the lowest first *)
Lemma mv_forward_spec : forall c m src, 1 <= src -> (forall j, src - 1 <= j < src + c -> alive (m j) = true) ->
  exists m', mv_forward m src c (src - 1) = inl m' /\ (forall j, src - 1 <= j < src - 1 + c -> m' j = m (j + 1)) /\
    m' (src - 1 + c) = (if c =? 0 then m (src - 1) else Moved) /\ (forall j, j < src - 1 \/ src - 1 + c < j -> m' j = m j).
Proof.
  induction c as [|c IH]; intros m src Hs Ha; cbn [mv_forward].
  - exists m. cbn [Nat.eqb]. rewrite Nat.add_0_r. repeat split; intros; try lia; reflexivity.
  - rewrite (mv_assign_ok m (src - 1) src) by (apply Ha; lia).
    replace (S (src - 1)) with (S src - 1) by lia.
    destruct (IH (upd (upd m (src - 1) (m src)) src Moved) (S src)) as [m' (E & P1 & P0 & P2)]; [lia| |].
    + intros j Hj. pose proof (Ha j ltac:(lia)) as W. updsimp; exact W.
    + exists m'. split; [exact E|]. cbn [Nat.eqb]. split; [|split].
      * intros j Hj. destruct (Nat.eq_dec j (src - 1)) as [->|Hne].
        -- rewrite P2 by lia. replace (src - 1 + 1) with src by lia. updsimp.
        -- rewrite P1 by lia. updsimp.
      * replace (src - 1 + S c) with (S src - 1 + c) by lia. rewrite P0.
        destruct (Nat.eqb_spec c 0) as [Hc|Hc]; [|reflexivity]. subst c. updsimp.
      * intros j Hj. rewrite P2 by lia. updsimp.
Qed.

(* shift_left (pos + 1, n) on what shift_right (pos, n) left ([pos, pos + n] alive): the n elements of (pos, pos + n] move
   back to [pos, pos + n) and slot pos + n is destroyed *)
Lemma shift_left_spec m pos n : 1 <= n -> (forall j, pos <= j <= pos + n -> alive (m j) = true) ->
  exists m', shift_left m (pos + 1) n = inl m' /\ (forall j, pos <= j < pos + n -> m' j = m (j + 1)) /\ m' (pos + n) = Raw /\
    (forall j, j < pos \/ pos + n < j -> m' j = m j).
Proof.
  intros Hn Ha. unfold shift_left.
  destruct (mv_forward_spec n m (pos + 1) ltac:(lia)) as [m2 (E & P1 & P0 & P2)].
  { intros j Hj. apply Ha. lia. }
  assert (E' : match mv_assign m (pos + 1 - 1) (pos + 1) with
               | inl m1 => mv_forward m1 (pos + 1 + 1) (n - 1) (pos + 1) | inr e => inr e end = inl m2).
  { destruct n as [|n]; [lia|]. cbn [mv_forward] in E. replace (S n - 1) with n by lia.
    replace (pos + 1 + 1) with (S (pos + 1)) by lia. replace (S (pos + 1 - 1)) with (pos + 1) in E by lia. exact E. }
  destruct (mv_assign m (pos + 1 - 1) (pos + 1)) as [m1|x]; [|discriminate]. rewrite E'.
  replace (pos + 1 + n - 1) with (pos + 1 - 1 + n) by lia.
  rewrite destroy_ok by (rewrite P0; destruct (Nat.eqb_spec n 0); [lia|reflexivity]).
  eexists. split; [reflexivity|]. split; [|split].
  - intros j Hj. rewrite <- P1 by lia. updsimp.
  - replace (pos + n) with (pos + 1 - 1 + n) by lia. updsimp.
  - intros j Hj. rewrite <- P2 by lia. updsimp.
Qed.

(* ---- building the new element from the argument ---------------------------------------------------------------------- *)
(* Rvalue: construct_at (dst, std::move (arg)) - no throwing event; Lvalue: construct_at (dst, arg), arg a const T& - one event *)
Inductive argkind := Lvalue | Rvalue.
Definition construct_arg (m : mem) (th : option nat) (dst a : nat) (k : argkind) : out :=
  match k with
  | Rvalue => match mv_construct m dst a with inl m1 => Done m1 th | inr x => Err x end
  | Lvalue => match m a with
              | Live v => copy_construct m th dst v
              | Out => Err OutOfBlock
              | _ => Err AssignDead          (* a copy of a dead or moved-from argument: does not happen below *)
              end
  end.
Definition arg_after (k : argkind) (va : Z) : slot := match k with Rvalue => Moved | Lvalue => Live va end.

Lemma construct_arg_spec m th dst a k va : m dst = Raw -> m a = Live va ->
  match construct_arg m th dst a k with
  | Done m1 th1 => m1 dst = Live va /\ m1 a = arg_after k va /\ (forall j, j <> dst -> j <> a -> m1 j = m j) /\
                   th1 = (match k with Rvalue => th | Lvalue => snd (tick th) end) /\ (k = Lvalue -> fst (tick th) = false)
  | Threw m1 => k = Lvalue /\ th = Some 0 /\ m1 = m
  | Err _ => False end.
Proof.
  intros Hd Ha. assert (Hne : dst <> a) by congruence. unfold construct_arg. destruct k.
  - rewrite Ha. unfold copy_construct. rewrite Hd. destruct th as [[|t]|]; cbn [tick fst snd].
    + repeat split.
    + repeat split; try (intros; updsimp). cbn [arg_after]. rewrite <- Ha. updsimp.
    + repeat split; try (intros; updsimp). cbn [arg_after]. rewrite <- Ha. updsimp.
  - rewrite (mv_construct_ok m dst a Hd) by (rewrite Ha; reflexivity). rewrite Ha.
    repeat split; try (intros; updsimp).
Qed.

(* relocate_after_shift (e, dest):  *dest = std::move (e[0]); destroy_at (e)  - written as a step that could throw, as the code
   wraps it in try / catch; with noexcept moves it never does ([relocate_after_shift_no_throw]) *)
Definition relocate_after_shift (m : mem) (th : option nat) (e dst : nat) : out :=
  match mv_assign m dst e with
  | inl m1 => match destroy m1 e with inl m2 => Done m2 th | inr x => Err x end
  | inr x => Err x end.
(* relocate_at (e, dest):  construct_at (dest, std::move (e[0])); destroy_at (e) *)
Definition relocate_at (m : mem) (e dst : nat) : mem + err :=
  match mv_construct m dst e with inl m1 => destroy m1 e | inr x => inr x end.
(* try { shift_right (pos, n); } catch (...) { destroy_at (e); throw; }          - shift_right is noexcept here: no catch
   try { relocate_after_shift (e, pos); } catch (...) { shift_left (pos + 1, n); destroy_at (e); throw; } *)
Definition shift_relocate (m : mem) (th : option nat) (pos n e : nat) : out :=
  match shift_right1 m pos n with
  | inr x => Err x
  | inl m2 => match relocate_after_shift m2 th e pos with
              | Threw m3 => match shift_left m3 (pos + 1) n with
                            | inl m4 => match destroy m4 e with inl m5 => Threw m5 | inr x => Err x end
                            | inr x => Err x end
              | o => o end
  end.
Lemma relocate_after_shift_no_throw m th e dst m' : relocate_after_shift m th e dst <> Threw m'.
Proof. unfold relocate_after_shift. destruct (mv_assign m dst e) as [m1|x]; [destruct (destroy m1 e)|]; discriminate. Qed.
Lemma shift_relocate_no_throw m th pos n e m' : shift_relocate m th pos n e <> Threw m'.
Proof.
  unfold shift_relocate. destruct (shift_right1 m pos n) as [m2|x]; [|discriminate].
  pose proof (relocate_after_shift_no_throw m2 th e pos) as H.
  destruct (relocate_after_shift m2 th e pos) as [m3 t3|m3|x]; [discriminate| |discriminate]. exfalso. exact (H m3 eq_refl).
Qed.

Lemma shift_relocate_spec m th pos n e : 1 <= n -> (forall j, pos <= j < pos + n -> alive (m j) = true) -> m (pos + n) = Raw ->
  alive (m e) = true -> (e < pos \/ pos + n < e) ->
  exists m', shift_relocate m th pos n e = Done m' th /\ m' pos = m e /\ (forall j, pos < j <= pos + n -> m' j = m (j - 1)) /\
    m' e = Raw /\ (forall j, j < pos \/ pos + n < j -> j <> e -> m' j = m j).
Proof.
  intros Hn Ha Hr He Hsep. unfold shift_relocate.
  destruct (shift_right1_spec m pos n Hn Ha Hr) as [m2 (E & P0 & P1 & P2)]. rewrite E.
  unfold relocate_after_shift. rewrite (mv_assign_ok m2 pos e) by (rewrite ?P0, ?P2 by lia; auto).
  rewrite destroy_ok by updsimp. eexists. split; [reflexivity|]. split; [|split; [|split]].
  - rewrite (P2 e) by lia. updsimp.
  - intros j Hj. rewrite <- P1 by lia. updsimp.
  - updsimp.
  - intros j Hj Hne. rewrite <- P2 by lia. updsimp.
Qed.

(* ---- amc::vec::emplace_n (pos, n, args...) ---------------------------------------------------------------------------- *)
Definition emplace_n (m : mem) (th : option nat) (pos n e a : nat) (k : argkind) : out :=
  if n =? 0 then construct_arg m th pos a k                            (* construct_at (pos, args...) *)
  else match construct_arg m th e a k with                              (* ElemStorage e; construct_at (e.ptr (), args...) *)
       | Done m1 th1 => shift_relocate m1 th1 pos n e
       | o => o end.

Definition blockview (m : mem) (base cap : nat) : mem := fun i => if i <? cap then m (base + i) else Out.
Lemma blockview_inv m base size cap :
  Inv (blockview m base cap) size cap <->
  size <= cap /\ (forall i, i < size -> is_live (m (base + i)) = true) /\ (forall i, size <= i -> i < cap -> m (base + i) = Raw).
Proof.
  unfold Inv, blockview. split.
  - intros (H1 & H2 & H3 & _). split; [exact H1|]. split.
    + intros i Hi. specialize (H2 i Hi). destruct (Nat.ltb_spec i cap); [exact H2|lia].
    + intros i Ha Hb. specialize (H3 i Ha Hb). destruct (Nat.ltb_spec i cap); [exact H3|lia].
  - intros (H1 & H2 & H3). split; [exact H1|]. split; [|split].
    + intros i Hi. destruct (Nat.ltb_spec i cap); [apply H2; exact Hi|lia].
    + intros i Ha Hb. destruct (Nat.ltb_spec i cap); [apply H3; assumption|lia].
    + intros i Hi. destruct (Nat.ltb_spec i cap); [lia|reflexivity].
Qed.

(* the block [0, cap) satisfies the vector invariant with room for one more element; pos is a position of the vector;
   the temporary e (raw) and the argument a (live, value va) are two different slots outside the block *)
Definition EmplaceNPre (m : mem) (size cap pos e a : nat) (va : Z) : Prop :=
  Inv (blockview m 0 cap) size cap /\ size < cap /\ pos <= size /\ cap <= e /\ cap <= a /\ e <> a /\ m e = Raw /\ m a = Live va.

(* If emplace_n throws (only the copy of an lvalue argument can: the first event), EVERY slot is as before: the block, the
   argument, and e is Raw (strong guarantee, no leak).  If it completes: old prefix, the new value at pos, the old suffix one
   slot further, e is Raw again, the argument is moved-from (rvalue) / untouched (lvalue), the invariant holds for size + 1,
   nothing else changed. *)
Theorem emplace_n_spec m th size cap pos e a k va :
  EmplaceNPre m size cap pos e a va ->
  match emplace_n m th pos (size - pos) e a k with
  | Threw m' => k = Lvalue /\ th = Some 0 /\ (forall j, m' j = m j)
  | Done m' _ => (forall j, j < pos -> m' j = m j) /\ m' pos = Live va /\ (forall j, pos <= j < size -> m' (S j) = m j) /\
                 m' e = Raw /\ m' a = arg_after k va /\ Inv (blockview m' 0 cap) (size + 1) cap /\
                 (forall j, size < j -> j <> e -> j <> a -> m' j = m j)
  | Err _ => False end.
Proof.
  intros (HI & Hroom & Hpos & Hec & Hac & Hea & He & Ha). apply blockview_inv in HI. destruct HI as (_ & Hl & Hr). cbn [Nat.add] in Hl, Hr.
  unfold emplace_n. destruct (Nat.eqb_spec (size - pos) 0) as [Hz|Hnz].
  - assert (pos = size) by lia. subst pos.
    pose proof (construct_arg_spec m th size a k va (Hr size ltac:(lia) Hroom) Ha) as C.
    destruct (construct_arg m th size a k) as [m1 th1|m1|x]; [|destruct C as (C1 & C2 & ->); auto|exact C].
    destruct C as (C1 & C2 & C3 & _). split; [|split; [|split; [|split; [|split; [|split]]]]].
    + intros j Hj. apply C3; lia.
    + exact C1.
    + intros j Hj. lia.
    + rewrite C3 by lia. exact He.
    + exact C2.
    + apply blockview_inv. cbn [Nat.add]. split; [lia|]. split.
      * intros i Hi. destruct (Nat.eq_dec i size) as [->|]; [rewrite C1; reflexivity|rewrite C3 by lia; apply Hl; lia].
      * intros i Hi1 Hi2. rewrite C3 by lia. apply Hr; lia.
    + intros j H1 H2 H3. apply C3; lia.
  - pose proof (construct_arg_spec m th e a k va He Ha) as C.
    destruct (construct_arg m th e a k) as [m1 th1|m1|x]; [|destruct C as (C1 & C2 & ->); auto|exact C].
    destruct C as (C1 & C2 & C3 & _).
    destruct (shift_relocate_spec m1 th1 pos (size - pos) e) as [m' (E & Q0 & Q1 & Q2 & Q3)]; [lia| | | |lia|].
    + intros j Hj. rewrite C3 by lia. apply live_alive, Hl. lia.
    + rewrite C3 by lia. apply Hr; lia.
    + rewrite C1. reflexivity.
    + rewrite E. assert (F : forall j, pos < j <= size -> m' j = m (j - 1)).
      { intros j Hj. rewrite Q1 by lia. apply C3; lia. }
      split; [|split; [|split; [|split; [|split; [|split]]]]].
      * intros j Hj. rewrite Q3 by lia. apply C3; lia.
      * rewrite Q0. exact C1.
      * intros j Hj. rewrite F by lia. f_equal. lia.
      * exact Q2.
      * rewrite Q3 by lia. exact C2.
      * apply blockview_inv. cbn [Nat.add]. split; [lia|]. split.
        -- intros i Hi. destruct (le_lt_dec i pos) as [H1|H1]; [destruct (Nat.eq_dec i pos) as [->|]|].
           ++ rewrite Q0, C1. reflexivity.
           ++ rewrite Q3 by lia. rewrite C3 by lia. apply Hl; lia.
           ++ rewrite F by lia. apply Hl; lia.
        -- intros i Hi1 Hi2. rewrite Q3 by lia. rewrite C3 by lia. apply Hr; lia.
      * intros j H1 H2 H3. rewrite Q3 by lia. apply C3; lia.
Qed.

(* ---- amc::vec::insert_n (pos, n, const T &v), v not an element of the block ---------------------------------------------- *)
(* n == 0: construct_at (pos, v);  else shift_right (pos, n); try { *pos = v; } catch (...) { shift_left (pos + 1, n); throw; } *)
Definition insert_n (m : mem) (th : option nat) (pos n : nat) (v : Z) : out :=
  if n =? 0 then copy_construct m th pos v
  else match shift_right1 m pos n with
       | inr x => Err x
       | inl m1 => match copy_assign_alive m1 th pos v with
                   | Threw m2 => match shift_left m2 (pos + 1) n with inl m3 => Threw m3 | inr x => Err x end
                   | o => o end
       end.

(* strong guarantee of insert (pos, const T&) within capacity: the copy assignment onto the moved-from slot throws, the catch
   branch shifts everything back and destroys the extra slot: every slot is as before *)
Theorem insert_n_strong m th size cap pos v :
  Inv m size cap -> size < cap -> pos <= size ->
  match insert_n m th pos (size - pos) v with
  | Threw m' => th = Some 0 /\ (forall j, m' j = m j)
  | Done m' _ => (forall j, j < pos -> m' j = m j) /\ m' pos = Live v /\ (forall j, pos <= j < size -> m' (S j) = m j) /\
                 Inv m' (size + 1) cap
  | Err _ => False end.
Proof.
  intros (_ & Hl & Hr & Ho) Hroom Hpos. unfold insert_n. destruct (Nat.eqb_spec (size - pos) 0) as [Hz|Hnz].
  - assert (pos = size) by lia. subst pos. unfold copy_construct. rewrite (Hr size) by lia.
    assert (D : (forall j, j < size -> upd m size (Live v) j = m j) /\ upd m size (Live v) size = Live v /\
                (forall j, size <= j < size -> upd m size (Live v) (S j) = m j) /\ Inv (upd m size (Live v)) (size + 1) cap).
    { split; [intros; updsimp|]. split; [updsimp|]. split; [intros; lia|]. repeat split; [lia| | |].
      - intros i Hi. destruct (Nat.eq_dec i size) as [->|]; [updsimp|]. pose proof (Hl i ltac:(lia)) as W. updsimp; exact W.
      - intros i H1 H2. pose proof (Hr i ltac:(lia) H2) as W. updsimp; exact W.
      - intros i Hi. pose proof (Ho i Hi) as W. updsimp; exact W. }
    destruct th as [[|t]|]; cbn [tick]; [split; reflexivity|exact D|exact D].
  - destruct (shift_right1_spec m pos (size - pos)) as [m1 (E & P0 & P1 & P2)]; [lia| | |].
    { intros j Hj. apply live_alive, Hl. lia. }
    { apply Hr; lia. }
    rewrite E. unfold copy_assign_alive. rewrite P0.
    assert (F : forall j, pos < j <= size -> m1 j = m (j - 1)) by (intros j Hj; apply P1; lia).
    assert (D : (forall j, j < pos -> upd m1 pos (Live v) j = m j) /\ upd m1 pos (Live v) pos = Live v /\
                (forall j, pos <= j < size -> upd m1 pos (Live v) (S j) = m j) /\ Inv (upd m1 pos (Live v)) (size + 1) cap).
    { split; [intros j Hj; rewrite <- P2 by lia; updsimp|]. split; [updsimp|]. split.
      - intros j Hj. pose proof (F (S j) ltac:(lia)) as W. replace (S j - 1) with j in W by lia. rewrite <- W. updsimp.
      - repeat split; [lia| | |].
        + intros i Hi. destruct (Nat.eq_dec i pos) as [->|]; [updsimp|]. destruct (le_lt_dec i pos).
          * pose proof (Hl i ltac:(lia)) as W. rewrite <- P2 in W by lia. updsimp; exact W.
          * pose proof (Hl (i - 1) ltac:(lia)) as W. rewrite <- F in W by lia. updsimp; exact W.
        + intros i H1 H2. pose proof (Hr i ltac:(lia) H2) as W. rewrite <- P2 in W by lia. updsimp; exact W.
        + intros i Hi. pose proof (Ho i Hi) as W. rewrite <- P2 in W by lia. updsimp; exact W. }
    destruct th as [[|t]|]; cbn [tick]; [|exact D|exact D].
    (* the assignment throws: shift_left *)
    destruct (shift_left_spec m1 pos (size - pos)) as [m3 (E3 & Q1 & Q0 & Q2)]; [lia| |].
    { intros j Hj. destruct (Nat.eq_dec j pos) as [->|]; [rewrite P0; reflexivity|]. rewrite P1 by lia. apply live_alive, Hl. lia. }
    rewrite E3. split; [reflexivity|]. intros j.
    destruct (le_lt_dec pos j) as [H1|H1]; [destruct (le_lt_dec (pos + (size - pos)) j) as [H2|H2]|].
    + destruct (Nat.eq_dec j (pos + (size - pos))) as [->|]; [rewrite Q0; symmetry; apply Hr; lia|].
      rewrite Q2 by lia. apply P2. lia.
    + rewrite Q1 by lia. rewrite P1 by lia. f_equal. lia.
    + rewrite Q2 by lia. apply P2. lia.
Qed.

(* ---- growth: SafeNextCapacity, vec::Reallocate (allocate, uninitialized_relocate_n = uninitialized_move_n + destroy_n, deallocate) -- *)
(* SafeNextCapacity (oldCapa, oldCapa + 1, false) below the limit of size_type: max ((3 * oldCapa + 1) / 2, oldCapa + 1) *)
Definition next_cap (cap : nat) : nat := Nat.max ((3 * cap + 1) / 2) (cap + 1).
Definition fill_range (m : mem) (first n : nat) (s : slot) : mem :=
  fun j => if (first <=? j) && (j <? first + n) then s else m j.
Ltac frsimp := unfold fill_range;
  repeat match goal with
         | |- context [Nat.leb ?a ?b] => destruct (Nat.leb_spec a b)
         | |- context [Nat.ltb ?a ?b] => destruct (Nat.ltb_spec a b) end;
  cbn [andb]; try lia; try reflexivity; try congruence.

(* grow of a vector whose block [0, cap) holds size elements; the new block is [nb, nb + newcap).
   T *newPtr = alloc.allocate (newCapa)               one throwing-capable event; nothing happened if it throws
   uninitialized_relocate_n (p, size, newPtr)         = uninitialized_move_n then destroy_n of the sources (noexcept moves)
   alloc.deallocate (p, oldCapa)                      the old block does not exist any more: Out *)
Definition grow (m : mem) (th : option nat) (size cap nb newcap : nat) : out :=
  let (t, th') := tick th in
  if t then Threw m
  else match mv_uninit_n (fill_range m nb newcap Raw) 0 size nb with
       | inr x => Err x
       | inl m2 => match destroy_n m2 0 size with
                   | inr x => Err x
                   | inl m3 => Done (fill_range m3 0 cap Out) th' end
       end.

Lemma tick_true th th' : tick th = (true, th') -> th = Some 0.
Proof. destruct th as [[|t]|]; cbn [tick]; congruence. Qed.
Lemma grow_spec m th size cap nb newcap :
  (forall j, j < size -> alive (m j) = true) -> size <= cap -> cap <= nb -> size <= newcap ->
  match grow m th size cap nb newcap with
  | Threw m' => th = Some 0 /\ m' = m
  | Done m' th' => th' = snd (tick th) /\ fst (tick th) = false /\ (forall j, j < size -> m' (nb + j) = m j) /\
                   (forall j, size <= j < newcap -> m' (nb + j) = Raw) /\ (forall j, j < cap -> m' j = Out) /\
                   (forall j, cap <= j -> ~ (nb <= j < nb + newcap) -> m' j = m j)
  | Err _ => False end.
Proof.
  intros Ha Hsc Hnb Hnc. unfold grow. destruct (tick th) as [[|] th'] eqn:Et; cbn [fst snd].
  - split; [exact (tick_true th th' Et)|reflexivity].
  - destruct (mv_uninit_n_spec size (fill_range m nb newcap Raw) 0 nb) as [m2 (E2 & P1 & P2 & P3)]; [lia| | |].
    { intros k Hk. cbn [Nat.add]. pose proof (Ha k Hk) as W. frsimp; exact W. }
    { intros k Hk. frsimp. }
    rewrite E2. cbn [Nat.add] in P1, P2.
    destruct (destroy_n_alive size m2 0) as [m3 (E3 & Q1 & Q2)]; [intros k Hk; cbn [Nat.add]; rewrite P2 by lia; reflexivity|].
    rewrite E3. split; [reflexivity|]. split; [reflexivity|]. split; [|split; [|split]].
    + intros j Hj. unfold fill_range at 1. destruct (Nat.leb_spec 0 (nb + j)); [|lia]. destruct (Nat.ltb_spec (nb + j) (0 + cap)); [lia|].
      cbn [andb]. rewrite Q2 by lia. rewrite P1 by lia. frsimp.
    + intros j Hj. unfold fill_range at 1. destruct (Nat.leb_spec 0 (nb + j)); [|lia]. destruct (Nat.ltb_spec (nb + j) (0 + cap)); [lia|].
      cbn [andb]. rewrite Q2 by lia. rewrite P3 by lia. frsimp.
    + intros j Hj. frsimp.
    + intros j H1 H2. unfold fill_range at 1. destruct (Nat.leb_spec 0 j); [|lia]. destruct (Nat.ltb_spec j (0 + cap)); [lia|].
      cbn [andb]. rewrite Q2 by lia. rewrite P3 by lia. frsimp.
Qed.

(* ---- DynamicVector::emplace / emplace_back, the branch `size () == capacity ()` ------------------------------------------- *)
(* give_back_arg (e.ptr (), std::forward<Args> (args)...):  an rvalue of T gets its value back (arg = std::move (e[0]));
   any other argument list: nothing *)
Definition give_back (m : mem) (e a : nat) (k : argkind) : mem + err :=
  match k with Rvalue => mv_assign m a e | Lvalue => inl m end.
(* catch (...) { give_back_arg (...); destroy_at (e.ptr ()); throw; }     gb = false: the code BEFORE the fix (no give-back) *)
Definition catch_grow (gb : bool) (m : mem) (e a : nat) (k : argkind) : out :=
  match (if gb then give_back m e a k else inl m) with
  | inl m3 => match destroy m3 e with inl m4 => Threw m4 | inr x => Err x end
  | inr x => Err x end.

(* The vector is full: old block [0, size), size == capacity (the pre-check of the size_type limit is outside the slot model).
     ElemStorage e; construct_at (e.ptr (), args...);                        (the only place that reads the arguments)
     try { grow (size + 1); } catch (...) { give_back_arg; destroy_at (e); throw; }
     pos = begin () + idx;
     n == 0:  relocate_at (e.ptr (), pos)           n != 0:  shift_right (pos, n); relocate_after_shift (e.ptr (), pos) *)
Definition emplace_grow (gb : bool) (m : mem) (th : option nat) (size pos e a : nat) (k : argkind) (nb : nat) : out :=
  match construct_arg m th e a k with
  | Done m1 th1 =>
      match grow m1 th1 size size nb (next_cap size) with
      | Threw m2 => catch_grow gb m2 e a k
      | Done m2 th2 =>
          let n := size - pos in
          if n =? 0 then match relocate_at m2 e (nb + pos) with inl m3 => Done m3 th2 | inr x => Err x end
          else shift_relocate m2 th2 (nb + pos) n e
      | Err x => Err x end
  | o => o end.
(* emplace_back: the same without the shift branch; endIt = dynStorage () + size () *)
Definition emplace_back_grow (gb : bool) (m : mem) (th : option nat) (size e a : nat) (k : argkind) (nb : nat) : out :=
  match construct_arg m th e a k with
  | Done m1 th1 =>
      match grow m1 th1 size size nb (next_cap size) with
      | Threw m2 => catch_grow gb m2 e a k
      | Done m2 th2 => match relocate_at m2 e (nb + size) with inl m3 => Done m3 th2 | inr x => Err x end
      | Err x => Err x end
  | o => o end.
Lemma emplace_back_grow_eq gb m th size e a k nb :
  emplace_back_grow gb m th size e a k nb = emplace_grow gb m th size size e a k nb.
Proof. unfold emplace_back_grow, emplace_grow. rewrite Nat.sub_diag. reflexivity. Qed.

(* the old block [0, size) is full; e (raw) and a (live, value va) are two different slots outside both blocks; the new block
   [nb, nb + next_cap size) lies beyond the old one and does not exist yet *)
Definition GrowPre (m : mem) (size pos e a nb : nat) (va : Z) : Prop :=
  Inv (blockview m 0 size) size size /\ pos <= size /\ size <= e /\ size <= a /\ e <> a /\ m e = Raw /\ m a = Live va /\
  size <= nb /\ ~ (nb <= e < nb + next_cap size) /\ ~ (nb <= a < nb + next_cap size) /\
  (forall j, nb <= j < nb + next_cap size -> m j = Out).

Lemma next_cap_gt size : size + 1 <= next_cap size.
Proof. unfold next_cap. apply Nat.le_max_r. Qed.

Lemma catch_grow_spec m1 e a k va : m1 e = Live va -> m1 a = arg_after k va -> e <> a ->
  exists m4, catch_grow true m1 e a k = Threw m4 /\ m4 e = Raw /\ m4 a = Live va /\ (forall j, j <> e -> j <> a -> m4 j = m1 j).
Proof.
  intros C1 C2 Hne. unfold catch_grow, give_back. destruct k; cbn [arg_after] in C2.
  - rewrite destroy_ok by (rewrite C1; reflexivity). eexists. split; [reflexivity|]. split; [updsimp|]. split; [rewrite <- C2; updsimp|].
    intros j H1 H2. updsimp.
  - rewrite (mv_assign_ok m1 a e) by (rewrite ?C1, ?C2; reflexivity). rewrite destroy_ok by updsimp.
    eexists. split; [reflexivity|]. split; [updsimp|]. split; [rewrite <- C1; updsimp|]. intros j H1 H2. updsimp.
Qed.

(* A throw of the growing emplace leaves EVERY slot as it was, wherever the argument lives (outside the vector or one of its
   own elements): the argument has its value back, e is raw, the old block is untouched, no new block exists.
   It throws at the allocation (event 0 for an rvalue, event 1 for an lvalue) or at the copy of an lvalue (event 0). *)
Lemma emplace_grow_throw_strong m th size pos e a k nb va m' :
  m e = Raw -> m a = Live va -> emplace_grow true m th size pos e a k nb = Threw m' ->
  (forall j, m' j = m j) /\ (th = Some 0 \/ (k = Lvalue /\ th = Some 1)).
Proof.
  intros He Ha. assert (Hne : e <> a) by congruence. unfold emplace_grow.
  pose proof (construct_arg_spec m th e a k va He Ha) as C.
  destruct (construct_arg m th e a k) as [m1 th1|m1|x]; [|intros [= <-]; destruct C as (_ & -> & ->); auto|discriminate].
  destruct C as (C1 & C2 & C3 & C4 & C5). unfold grow.
  destruct (tick th1) as [[|] th2] eqn:Et.
  - apply tick_true in Et. destruct (catch_grow_spec m1 e a k va C1 C2 Hne) as [m4 (E4 & Q1 & Q2 & Q3)]. rewrite E4. intros [= <-]. split.
    + intros j. destruct (Nat.eq_dec j e) as [->|]; [congruence|]. destruct (Nat.eq_dec j a) as [->|]; [congruence|].
      rewrite Q3 by assumption. apply C3; assumption.
    + destruct k; [right; split; [reflexivity|]|left; congruence].
      subst th1. specialize (C5 eq_refl). destruct th as [[|[|t]]|]; cbn [tick fst snd] in *; congruence.
  - destruct (mv_uninit_n _ 0 size nb) as [m2|x]; [|discriminate]. destruct (destroy_n m2 0 size) as [m3|x]; [|discriminate].
    destruct (size - pos =? 0).
    + destruct (relocate_at _ e (nb + pos)); discriminate.
    + intros H. exfalso. exact (shift_relocate_no_throw _ _ _ _ _ _ H).
Qed.

(* DynamicVector::emplace (position, args...) on a full vector, external argument.
   Throw: every slot is as before.  Completion: the NEW block holds the old prefix, the new value at pos, the old suffix one
   slot further, raw slots up to the new capacity (the invariant for size + 1); the OLD block is gone (no live slot); e is raw;
   the argument is moved-from (rvalue) / untouched (lvalue); nothing else changed. *)
Theorem emplace_grow_spec m th size pos e a k nb va :
  GrowPre m size pos e a nb va ->
  match emplace_grow true m th size pos e a k nb with
  | Threw m' => (forall j, m' j = m j) /\ (th = Some 0 \/ (k = Lvalue /\ th = Some 1))
  | Done m' _ => (forall j, j < pos -> m' (nb + j) = m j) /\ m' (nb + pos) = Live va /\
                 (forall j, pos <= j < size -> m' (nb + S j) = m j) /\
                 Inv (blockview m' nb (next_cap size)) (size + 1) (next_cap size) /\
                 (forall j, j < size -> m' j = Out) /\ m' e = Raw /\ m' a = arg_after k va /\
                 (forall j, size <= j -> ~ (nb <= j < nb + next_cap size) -> j <> e -> j <> a -> m' j = m j)
  | Err _ => False end.
Proof.
  intros (HI & Hpos & Hes & Has & Hea & He & Ha & Hnb & Hen & Han & Hnew).
  apply blockview_inv in HI. destruct HI as (_ & Hl & _). cbn [Nat.add] in Hl.
  pose proof (next_cap_gt size) as Hnc.
  pose proof (emplace_grow_throw_strong m th size pos e a k nb va) as TS. revert TS.
  unfold emplace_grow. pose proof (construct_arg_spec m th e a k va He Ha) as C.
  destruct (construct_arg m th e a k) as [m1 th1|m1|x1]; [|intros TS; exact (TS m1 He Ha eq_refl)|contradiction].
  destruct C as (C1 & C2 & C3 & _).
  assert (Hal : forall j, j < size -> alive (m1 j) = true) by (intros j Hj; rewrite C3 by lia; apply live_alive, Hl; exact Hj).
  pose proof (grow_spec m1 th1 size size nb (next_cap size) Hal ltac:(lia) ltac:(lia) ltac:(lia)) as G.
  destruct (grow m1 th1 size size nb (next_cap size)) as [m2 th2|m2|x2]; [| |contradiction].
  2: { destruct G as (_ & ->). destruct (catch_grow_spec m1 e a k va C1 C2 Hea) as [m4 (E4 & _)]. rewrite E4.
       intros TS. exact (TS m4 He Ha eq_refl). }
  intros _. destruct G as (_ & _ & G1 & G2 & G3 & G4).
  assert (He2 : m2 e = Live va) by (rewrite G4 by lia; exact C1).
  assert (Ha2 : m2 a = arg_after k va) by (rewrite G4 by lia; exact C2).
  assert (Hfin : forall m3, m3 (nb + pos) = Live va -> (forall j, pos < j <= size -> m3 (nb + j) = m2 (nb + (j - 1))) -> m3 e = Raw ->
            (forall j, ~ (nb + pos <= j <= nb + size) -> j <> e -> m3 j = m2 j) ->
            (forall j, j < pos -> m3 (nb + j) = m j) /\ m3 (nb + pos) = Live va /\
            (forall j, pos <= j < size -> m3 (nb + S j) = m j) /\
            Inv (blockview m3 nb (next_cap size)) (size + 1) (next_cap size) /\
            (forall j, j < size -> m3 j = Out) /\ m3 e = Raw /\ m3 a = arg_after k va /\
            (forall j, size <= j -> ~ (nb <= j < nb + next_cap size) -> j <> e -> j <> a -> m3 j = m j)).
  { intros m3 F0 F1 F2 F3.
    assert (Hold : forall j, j < size -> m2 (nb + j) = m j) by (intros j Hj; rewrite G1 by lia; apply C3; lia).
    split; [intros j Hj; rewrite F3 by lia; apply Hold; lia|]. split; [exact F0|]. split.
    { intros j Hj. rewrite F1 by lia. replace (S j - 1) with j by lia. apply Hold; lia. }
    split.
    { apply blockview_inv. split; [lia|]. split.
      - intros i Hi. destruct (le_lt_dec i pos) as [H1|H1]; [destruct (Nat.eq_dec i pos) as [->|]|].
        + rewrite F0. reflexivity.
        + rewrite F3 by lia. rewrite Hold by lia. apply Hl; lia.
        + rewrite F1 by lia. rewrite Hold by lia. apply Hl; lia.
      - intros i H1 H2. rewrite F3 by lia. apply G2. lia. }
    split; [intros j Hj; rewrite F3 by lia; apply G3; lia|]. split; [exact F2|].
    split; [rewrite F3 by lia; exact Ha2|].
    intros j H1 H2 H3 H4. rewrite F3 by lia. rewrite G4 by lia. apply C3; lia. }
  cbv zeta. destruct (Nat.eqb_spec (size - pos) 0) as [Hz|Hnz].
  - assert (pos = size) by lia. subst pos. unfold relocate_at.
    rewrite (mv_construct_ok m2 (nb + size) e) by (rewrite ?He2; auto; apply G2; lia).
    rewrite destroy_ok by updsimp. apply Hfin.
    + rewrite He2. updsimp.
    + intros j Hj. lia.
    + updsimp.
    + intros j H1 H2. updsimp.
  - destruct (shift_relocate_spec m2 th2 (nb + pos) (size - pos) e) as [m3 (E & Q0 & Q1 & Q2 & Q3)]; [lia| | | |lia|].
    + intros j Hj. replace j with (nb + (j - nb)) by lia. rewrite G1 by lia. apply Hal. lia.
    + replace (nb + pos + (size - pos)) with (nb + size) by lia. apply G2. lia.
    + rewrite He2. reflexivity.
    + rewrite E. apply Hfin.
      * rewrite Q0. exact He2.
      * intros j Hj. rewrite Q1 by lia. f_equal. lia.
      * exact Q2.
      * intros j H1 H2. apply Q3; lia.
Qed.

(* which throw indices throw: the allocation is event 0 for an rvalue; the copy is event 0 and the allocation event 1 for an lvalue *)
Lemma emplace_grow_rvalue_alloc_throws m size pos e a nb va : m e = Raw -> m a = Live va ->
  exists m', emplace_grow true m (Some 0) size pos e a Rvalue nb = Threw m'.
Proof.
  intros He Ha. assert (Hne : e <> a) by congruence. unfold emplace_grow.
  pose proof (construct_arg_spec m (Some 0) e a Rvalue va He Ha) as C.
  destruct (construct_arg m (Some 0) e a Rvalue) as [m1 th1|m1|x]; [|destruct C as (C & _); discriminate|contradiction].
  destruct C as (C1 & C2 & _ & -> & _). unfold grow. cbn [tick].
  destruct (catch_grow_spec m1 e a Rvalue va C1 C2 Hne) as [m4 (E4 & _)]. exists m4. exact E4.
Qed.
Lemma emplace_grow_lvalue_throws m size pos e a nb va t : m e = Raw -> m a = Live va -> t = 0 \/ t = 1 ->
  exists m', emplace_grow true m (Some t) size pos e a Lvalue nb = Threw m'.
Proof.
  intros He Ha Ht. assert (Hne : e <> a) by congruence. unfold emplace_grow.
  pose proof (construct_arg_spec m (Some t) e a Lvalue va He Ha) as C.
  destruct (construct_arg m (Some t) e a Lvalue) as [m1 th1|m1|x]; [|exists m1; reflexivity|contradiction].
  destruct C as (C1 & C2 & _ & -> & C5). specialize (C5 eq_refl). destruct Ht as [-> | ->]; cbn [tick fst snd] in *; [discriminate|].
  unfold grow. cbn [tick]. destruct (catch_grow_spec m1 e a Lvalue va C1 C2 Hne) as [m4 (E4 & _)]. exists m4. exact E4.
Qed.

(* growth path, RVALUE argument (emplace (pos, std::move (x)), insert (pos, T&&), push_back (T&&) through emplace_back):
   throw (the allocation): the old block and the argument are exactly as before (the argument is Live with its value, not
   moved-from), e is raw, the new block has no live slot;  completion: the new block holds prefix, v, suffix; the old block has
   no live slot; the argument is moved-from; e is raw *)
Theorem emplace_grow_rvalue m th size pos e a nb va :
  GrowPre m size pos e a nb va ->
  match emplace_grow true m th size pos e a Rvalue nb with
  | Threw m' => th = Some 0 /\ (forall j, j < size -> m' j = m j) /\ m' a = Live va /\ m' e = Raw /\
                (forall j, nb <= j < nb + next_cap size -> is_live (m' j) = false)
  | Done m' _ => (forall j, j < pos -> m' (nb + j) = m j) /\ m' (nb + pos) = Live va /\
                 (forall j, pos <= j < size -> m' (nb + S j) = m j) /\
                 Inv (blockview m' nb (next_cap size)) (size + 1) (next_cap size) /\
                 (forall j, j < size -> is_live (m' j) = false) /\ m' a = Moved /\ m' e = Raw
  | Err _ => False end.
Proof.
  intros HP. pose proof (emplace_grow_spec m th size pos e a Rvalue nb va HP) as S.
  destruct HP as (_ & _ & _ & _ & _ & He & Ha & _ & _ & _ & Hnew).
  destruct (emplace_grow true m th size pos e a Rvalue nb) as [m' th'|m'|x]; [| |exact S].
  - destruct S as (S1 & S2 & S3 & S4 & S5 & S6 & S7 & _). split; [exact S1|]. split; [exact S2|]. split; [exact S3|]. split; [exact S4|].
    split; [intros j Hj; rewrite S5 by exact Hj; reflexivity|]. split; [exact S7|exact S6].
  - destruct S as (S1 & [S2|(S2 & _)]); [|discriminate]. split; [exact S2|]. split; [intros; apply S1|]. rewrite !S1.
    split; [exact Ha|]. split; [exact He|]. intros j Hj. rewrite S1, Hnew by exact Hj. reflexivity.
Qed.

(* growth path, LVALUE argument (emplace (pos, x), x a const T&: the copy into e is a throwing-capable event too):
   the argument is untouched in every case *)
Theorem emplace_grow_lvalue m th size pos e a nb va :
  GrowPre m size pos e a nb va ->
  match emplace_grow true m th size pos e a Lvalue nb with
  | Threw m' => (th = Some 0 \/ th = Some 1) /\ (forall j, j < size -> m' j = m j) /\ m' a = Live va /\ m' e = Raw /\
                (forall j, nb <= j < nb + next_cap size -> is_live (m' j) = false)
  | Done m' _ => (forall j, j < pos -> m' (nb + j) = m j) /\ m' (nb + pos) = Live va /\
                 (forall j, pos <= j < size -> m' (nb + S j) = m j) /\
                 Inv (blockview m' nb (next_cap size)) (size + 1) (next_cap size) /\
                 (forall j, j < size -> is_live (m' j) = false) /\ m' a = Live va /\ m' e = Raw
  | Err _ => False end.
Proof.
  intros HP. pose proof (emplace_grow_spec m th size pos e a Lvalue nb va HP) as S.
  destruct HP as (_ & _ & _ & _ & _ & He & Ha & _ & _ & _ & Hnew).
  destruct (emplace_grow true m th size pos e a Lvalue nb) as [m' th'|m'|x]; [| |exact S].
  - destruct S as (S1 & S2 & S3 & S4 & S5 & S6 & S7 & _). split; [exact S1|]. split; [exact S2|]. split; [exact S3|]. split; [exact S4|].
    split; [intros j Hj; rewrite S5 by exact Hj; reflexivity|]. split; [exact S7|exact S6].
  - destruct S as (S1 & S2). split; [destruct S2 as [S2|(_ & S2)]; auto|]. split; [intros; apply S1|]. rewrite !S1.
    split; [exact Ha|]. split; [exact He|]. intros j Hj. rewrite S1, Hnew by exact Hj. reflexivity.
Qed.

(* emplace_back on a full vector: the same statements at pos = size *)
Theorem emplace_back_grow_spec m th size e a k nb va :
  GrowPre m size size e a nb va ->
  match emplace_back_grow true m th size e a k nb with
  | Threw m' => (forall j, m' j = m j) /\ (th = Some 0 \/ (k = Lvalue /\ th = Some 1))
  | Done m' _ => (forall j, j < size -> m' (nb + j) = m j) /\ m' (nb + size) = Live va /\
                 Inv (blockview m' nb (next_cap size)) (size + 1) (next_cap size) /\
                 (forall j, j < size -> m' j = Out) /\ m' e = Raw /\ m' a = arg_after k va /\
                 (forall j, size <= j -> ~ (nb <= j < nb + next_cap size) -> j <> e -> j <> a -> m' j = m j)
  | Err _ => False end.
Proof.
  intros HP. rewrite emplace_back_grow_eq. pose proof (emplace_grow_spec m th size size e a k nb va HP) as S.
  destruct (emplace_grow true m th size size e a k nb) as [m' th'|m'|x]; [|exact S|exact S].
  destruct S as (S1 & S2 & _ & S4 & S5 & S6 & S7 & S8). split; [exact S1|]. split; [exact S2|]. split; [exact S4|]. split; [exact S5|].
  split; [exact S6|]. split; [exact S7|exact S8].
Qed.

(* ---- the fixed layout of the correspondence check and of the examples ---------------------------------------------------- *)
(* block [0, cap) with size elements 10, 11, ... | cap: Out | cap + 1: e (raw) | cap + 2: the external argument (live, va) | Out.
   For the growth path cap = size and the new block is [size + 4, size + 4 + next_cap size). *)
Definition init_lay (size cap : nat) (va : Z) : mem :=
  fun i => if i <? size then Live (Z.of_nat (10 + i)) else if i <? cap then Raw
           else if i =? cap + 1 then Raw else if i =? cap + 2 then Live va else Out.
Ltac laysimp := unfold init_lay, blockview;
  repeat match goal with
         | |- context [Nat.ltb ?a ?b] => destruct (Nat.ltb_spec a b)
         | |- context [Nat.eqb ?a ?b] => destruct (Nat.eqb_spec a b) end;
  try lia; try reflexivity; try congruence.
Lemma init_lay_emplace_n_pre size cap pos va : size < cap -> pos <= size ->
  EmplaceNPre (init_lay size cap va) size cap pos (cap + 1) (cap + 2) va.
Proof.
  intros H1 H2. unfold EmplaceNPre. split.
  { apply blockview_inv. split; [lia|]. cbn [Nat.add]. split; [intros i Hi; laysimp|intros i Ha Hb; laysimp]. }
  repeat split; try lia; laysimp.
Qed.
Lemma init_lay_inv size cap va : size <= cap -> Inv (blockview (init_lay size cap va) 0 cap) size cap.
Proof. intros H. apply blockview_inv. split; [lia|]. cbn [Nat.add]. split; [intros i Hi; laysimp|intros i Ha Hb; laysimp]. Qed.
Lemma init_lay_grow_pre size pos va : pos <= size ->
  GrowPre (init_lay size size va) size pos (size + 1) (size + 2) (size + 4) va.
Proof.
  intros H. unfold GrowPre. split; [apply init_lay_inv; lia|]. pose proof (next_cap_gt size).
  repeat split; try lia; try (intros; laysimp).
Qed.

Definition show (o : out) (n : nat) : option (bool * list slot) :=
  match o with Done m _ => Some (false, map m (seq 0 n)) | Threw m => Some (true, map m (seq 0 n)) | Err _ => None end.
Local Open Scope Z_scope.

(* emplace_n: size 3, capacity 5, position 1; slots 0..4 the block, 6 = e, 7 = the argument *)
Example emplace_n_pre_ex : EmplaceNPre (init_lay 3 5 99) 3 5 1 6 7 99.
Proof. apply (init_lay_emplace_n_pre 3 5 1 99); lia. Qed.
Example emplace_n_ex_lvalue : show (emplace_n (init_lay 3 5 99) None 1 2 6 7 Lvalue) 8
  = Some (false, [Live 10; Live 99; Live 11; Live 12; Raw; Out; Raw; Live 99]).
Proof. vm_compute. reflexivity. Qed.
Example emplace_n_ex_lvalue_throw : show (emplace_n (init_lay 3 5 99) (Some 0%nat) 1 2 6 7 Lvalue) 8
  = Some (true, [Live 10; Live 11; Live 12; Raw; Raw; Out; Raw; Live 99]).
Proof. vm_compute. reflexivity. Qed.
Example emplace_n_ex_rvalue : show (emplace_n (init_lay 3 5 99) (Some 0%nat) 1 2 6 7 Rvalue) 8
  = Some (false, [Live 10; Live 99; Live 11; Live 12; Raw; Out; Raw; Moved]).
Proof. vm_compute. reflexivity. Qed.
(* the argument is an own element given as an rvalue: emplace (begin () + 1, std::move (v[2])) within capacity *)
Example emplace_n_ex_own_rvalue : show (emplace_n (init_lay 3 5 99) None 1 2 6 2 Rvalue) 8
  = Some (false, [Live 10; Live 12; Live 11; Moved; Raw; Out; Raw; Live 99]).
Proof. vm_compute. reflexivity. Qed.
(* insert_n: the copy assignment throws after the shift, shift_left restores the block *)
Example insert_n_pre_ex : Inv (blockview (init_lay 3 5 99) 0 5) 3 5.
Proof. apply init_lay_inv. lia. Qed.
Example insert_n_ex_throw : show (insert_n (blockview (init_lay 3 5 99) 0 5) (Some 0%nat) 1 2 99) 6
  = Some (true, [Live 10; Live 11; Live 12; Raw; Raw; Out]).
Proof. vm_compute. reflexivity. Qed.

(* growth: full vector of size 3, position 1; 4 = e, 5 = the argument, new block [7, 12) (next_cap 3 = 5) *)
Example grow_pre_ex : GrowPre (init_lay 3 3 99) 3 1 4 5 7 99.
Proof. apply (init_lay_grow_pre 3 1 99). lia. Qed.
Example emplace_grow_ex_rvalue : show (emplace_grow true (init_lay 3 3 99) None 3 1 4 5 Rvalue 7) 13
  = Some (false, [Out; Out; Out; Out; Raw; Moved; Out; Live 10; Live 99; Live 11; Live 12; Raw; Out]).
Proof. vm_compute. reflexivity. Qed.
Example emplace_grow_ex_rvalue_throw : show (emplace_grow true (init_lay 3 3 99) (Some 0%nat) 3 1 4 5 Rvalue 7) 13
  = Some (true, [Live 10; Live 11; Live 12; Out; Raw; Live 99; Out; Out; Out; Out; Out; Out; Out]).
Proof. vm_compute. reflexivity. Qed.
Example emplace_grow_ex_lvalue_throw_alloc : show (emplace_grow true (init_lay 3 3 99) (Some 1%nat) 3 1 4 5 Lvalue 7) 13
  = Some (true, [Live 10; Live 11; Live 12; Out; Raw; Live 99; Out; Out; Out; Out; Out; Out; Out]).
Proof. vm_compute. reflexivity. Qed.
Example emplace_grow_ex_lvalue : show (emplace_grow true (init_lay 3 3 99) (Some 2%nat) 3 1 4 5 Lvalue 7) 13
  = Some (false, [Out; Out; Out; Out; Raw; Live 99; Out; Live 10; Live 99; Live 11; Live 12; Raw; Out]).
Proof. vm_compute. reflexivity. Qed.
(* own element as an rvalue, failed allocation: v.emplace (begin () + 1, std::move (v[2])) gives v[2] its value back *)
Example emplace_grow_ex_own_rvalue_throw : show (emplace_grow true (init_lay 3 3 99) (Some 0%nat) 3 1 4 2 Rvalue 7) 13
  = Some (true, [Live 10; Live 11; Live 12; Out; Raw; Live 99; Out; Out; Out; Out; Out; Out; Out]).
Proof. vm_compute. reflexivity. Qed.
Example grow_back_pre_ex : GrowPre (init_lay 3 3 99) 3 3 4 5 7 99.
Proof. apply (init_lay_grow_pre 3 3 99). lia. Qed.
Example emplace_back_grow_ex : show (emplace_back_grow true (init_lay 3 3 99) None 3 4 5 Rvalue 7) 13
  = Some (false, [Out; Out; Out; Out; Raw; Moved; Out; Live 10; Live 11; Live 12; Live 99; Raw; Out]).
Proof. vm_compute. reflexivity. Qed.

(* ---- the code BEFORE the fix (no give_back_arg): a failed allocation leaves the rvalue argument moved-from ------------------- *)
(* the block is unchanged (the vector kept its strong guarantee) but the caller's object lost its value: for push_back (T&&) /
   insert (pos, T&&) std::vector leaves it untouched *)
Lemma emplace_grow_nogb_refuted : exists m th size pos e a nb va m',
  GrowPre m size pos e a nb va /\ emplace_grow false m th size pos e a Rvalue nb = Threw m' /\
  (forall j, (j < size)%nat -> m' j = m j) /\ m' e = Raw /\ m a = Live va /\ m' a = Moved.
Proof.
  exists (init_lay 3 3 99), (Some 0%nat), 3%nat, 1%nat, 4%nat, 5%nat, 7%nat, 99. eexists.
  split; [exact grow_pre_ex|]. split; [vm_compute; reflexivity|]. split; [|repeat split].
  intros j Hj. destruct j as [|[|[|j]]]; [reflexivity|reflexivity|reflexivity|lia].
Qed.
Lemma emplace_back_grow_nogb_refuted : exists m th size e a nb va m',
  GrowPre m size size e a nb va /\ emplace_back_grow false m th size e a Rvalue nb = Threw m' /\
  (forall j, (j < size)%nat -> m' j = m j) /\ m' e = Raw /\ m a = Live va /\ m' a = Moved.
Proof.
  exists (init_lay 3 3 99), (Some 0%nat), 3%nat, 4%nat, 5%nat, 7%nat, 99. eexists.
  split; [apply (init_lay_grow_pre 3 3 99); lia|]. split; [vm_compute; reflexivity|]. split; [|repeat split].
  intros j Hj. destruct j as [|[|[|j]]]; [reflexivity|reflexivity|reflexivity|lia].
Qed.
(* with the give-back the same case restores the argument *)
Example emplace_grow_gb_same_case : exists m', emplace_grow true (init_lay 3 3 99) (Some 0%nat) 3 1 4 5 Rvalue 7 = Threw m' /\ m' 5%nat = Live 99.
Proof. eexists. split; [vm_compute; reflexivity|reflexivity]. Qed.
