(* C13 - swap2 exchanges contents between any two vector flavours, or fails cleanly.
   Model: Swap2.v ([swap2x c1 c2]: the two vectors have DIFFERENT configurations - flavour, inline capacity, size_type
   maximum and signedness, allocator type -, each in any state of its representation invariant BInv: empty, inline partial,
   inline exactly full, heap with size <= N or > N, heap empty, adopted buffer smaller than N).
   [C13_swap2]: for every ordered pair of configurations and every pair of states, swap2 either
   - succeeds: both vectors are well formed afterwards and their sizes are exchanged (the step exchanges the element
     sequences: element-wise through swap_deep, or by handing over the two heap buffers together with size and capacity
     words when both own one and the allocator types agree - re-tested after the capacity adjustment, as the code does), or
   - throws the limit exception of the side that cannot hold the other's elements (out_of_range of a fixed capacity,
     overflow_error of a size_type) - and ONLY when that side's limit is below the other's size, i.e. when the exchange is
     impossible -, in which case both vectors are well formed with their ORIGINAL sizes (contents untouched; the first
     operand may have grown its capacity).
   [C13_possible_exchange_succeeds]: when each size is within the other's limit swap2 succeeds (before the repair
   "swap2 falls back to element-wise swap when a capacity does not fit the other size_type" two heap vectors whose
   CAPACITY did not fit the other size_type threw although the sizes did: the cross-type oracle found it, 344 cases).
   [C13_exchange_checks_ranges]: the raw buffer exchange (two swap_sizetype calls) throws exactly when a capacity does not
   fit the other size_type, compared by the maxima of the types (a uint8_t / int8_t pair used to be exchanged unchecked),
   and never after a word has been written; [C13_exchange_guarded]: under canExchangeDynStorage it never throws.  No element is lost, duplicated, leaked or destroyed twice: decided on the implementation by the identity
   ledger of the cross-type driver over every pair of 8 vector types x operand states x sizes. *)
From Coq Require Import ZArith List Bool.
From Amc Require Import GenPrelude Words VecModel VecProofs Swap2.
Import ListNotations.
Local Open Scope Z_scope.

Theorem C13_swap2 :
  forall c1 c2, cfg_ok c1 -> cfg_ok c2 -> forall t o, BInv c1 t -> BInv c2 o ->
    match swap2x c1 c2 t o with
    | inl (t', o', _, _) => BInv c1 t' /\ BInv c2 o' /\ b_size c1 t' = b_size c2 o /\ b_size c2 o' = b_size c1 t
    | inr (e, t', o', _, _) =>
        BInv c1 t' /\ BInv c2 o' /\ b_size c1 t' = b_size c1 t /\ b_size c2 o' = b_size c2 o /\
        ((e = lim_exn c1 /\ b_limit c1 < b_size c2 o) \/ (e = lim_exn c2 /\ b_limit c2 < b_size c1 t))
    end.
Proof. exact swap2x_ok. Qed.

Theorem C13_possible_exchange_succeeds :
  forall c1 c2, cfg_ok c1 -> cfg_ok c2 -> forall t o, BInv c1 t -> BInv c2 o ->
    b_size c2 o <= b_limit c1 -> b_size c1 t <= b_limit c2 ->
    exists t' o' e1 e2, swap2x c1 c2 t o = inl (t', o', e1, e2).
Proof. exact swap2x_total. Qed.

Theorem C13_exchange_guarded :
  forall c1 c2, cfg_ok c1 -> cfg_ok c2 -> forall t o, BInv c1 t -> BInv c2 o -> can_exchange_x c1 c2 t o = true ->
    exists t' o', exchange_buffers c1 c2 t o = inl (t', o') /\ BInv c1 t' /\ BInv c2 o' /\
                  b_size c1 t' = b_size c2 o /\ b_size c2 o' = b_size c1 t.
Proof. exact exchange_never_throws. Qed.

Theorem C13_exchange_checks_ranges :
  forall c1 c2, cfg_ok c1 -> cfg_ok c2 -> forall t o, BInv c1 t -> BInv c2 o -> can_swap_dyn_x c1 c2 t o = true ->
    match exchange_buffers c1 c2 t o with
    | inl (t', o') => BInv c1 t' /\ BInv c2 o' /\ b_size c1 t' = b_size c2 o /\ b_size c2 o' = b_size c1 t
    | inr e => e = OverflowError /\ (cM c1 < capa_ o \/ cM c2 < capa_ t)
    end.
Proof. exact exchange_ok. Qed.

Theorem C13_guard_is_the_regenerated_one :
  forall c1 c2 t o, exchange_buffers c1 c2 t o =
    match SwapGuardTV.swap_st (cM c1) (cM c2) (capa_ t) (capa_ o), SwapGuardTV.swap_st (cM c1) (cM c2) (size_ t) (size_ o) with
    | Some (ct, co), Some (st, so) => inl ({| capa_ := ct; size_ := st |}, {| capa_ := co; size_ := so |})
    | _, _ => inr OverflowError
    end.
Proof. exact exchange_is_swap_st. Qed.

(* non-vacuity: vector<uint8_t size type> holding 200 elements (capacity 210) x SmallVector<_,2,int8_t size type> on the heap:
   impossible (200 > 127); with 100 elements in a capacity of 210 it is possible although 210 > 127: element-wise *)
Example C13_example :
  let c1 := {| fl := FVec; cN := 0; cM := 255; csigned := false; ccat := TC; calloc := AAmc |} in
  let c2 := {| fl := FSV; cN := 2; cM := 127; csigned := true; ccat := TC; calloc := AAmc |} in
  match swap2x c1 c2 {| capa_ := 210; size_ := 200 |} {| capa_ := 5; size_ := 5 |} with
  | inr (e, _, _, _, _) => e = OverflowError | inl _ => False end /\
  match swap2x c1 c2 {| capa_ := 210; size_ := 100 |} {| capa_ := 5; size_ := 5 |} with
  | inl (t', o', _, _) => b_size c1 t' = 5 /\ b_size c2 o' = 100 /\ capa_ t' = 210 | inr _ => False end.
Proof. vm_compute. repeat split; reflexivity. Qed.
