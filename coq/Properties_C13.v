(* C13 - swap2 exchanges contents between any two vector flavours, or fails cleanly.
   Model: Swap2.v ([swap2x c1 c2]: the two vectors have DIFFERENT configurations - flavour, inline capacity, size_type
   maximum and signedness, allocator type -, each in any state of its representation invariant BInv: empty, inline partial,
   inline exactly full, heap with size <= N or > N, heap empty, adopted buffer smaller than N).
   [C13_swap2]: for every ordered pair of configurations and every pair of states, swap2 either
   - succeeds: both vectors are well formed afterwards and their sizes are exchanged (the step exchanges the element
     sequences: element-wise through swap_deep, or by handing over the two heap buffers together with size and capacity
     words when both own one and the allocator types agree - re-tested after the capacity adjustment, as the code does), or
   - throws the limit exception of the side that cannot hold the other's elements (out_of_range of a fixed capacity,
     overflow_error of a size_type) - and ONLY when that side's limit is below the other's size, i.e. when the exchange is
     impossible -, in which case both vectors are well formed with their ORIGINAL sizes (contents untouched; the first
     operand may have grown its capacity).
   [C13_possible_exchange_succeeds]: when each size is within the other's limit swap2 succeeds (before the repair
   "swap2 falls back to element-wise swap when a capacity does not fit the other size_type" two heap vectors whose
   CAPACITY did not fit the other size_type threw although the sizes did: the cross-type oracle found it, 344 cases).
   [C13_exchange_checks_ranges]: the raw buffer exchange (two swap_sizetype calls) throws exactly when a capacity does not
   fit the other size_type, compared by the maxima of the types (a uint8_t / int8_t pair used to be exchanged unchecked),
   and never after a word has been written; [C13_exchange_guarded]: under canExchangeDynStorage it never throws.
   Elements (Swap2Elems.v, slot level, both element flavours with noexcept moves): the element-wise path - adjustCapacity of each
   side (relocation into a new block when the other's size exceeds the capacity) followed by swap_deep on the blocks owned now -
   between two vectors of ARBITRARY, different capacities: [C13_elements_exchanged]: never a lifetime error, nothing throws, the
   block vector 1 owns afterwards holds the old element sequence of vector 2 (values and order) and is a well-formed vector of
   that size, and vice versa; a block left behind is entirely raw (nothing leaked in it, nothing destroyed twice); no slot
   outside the ranges involved changed; [C13_elements_conserved]: the number of objects alive over all four blocks is n1 + n2
   before and after; [C13_at_most_one_side_grows].  swap_deep and the relocation are each tied to the code by the slot
   correspondence (its swap_deep and relocate_new families), their order and the growth decisions by the allocator requests compared in
   the swap2 correspondence.  Over whole histories and for the buffer exchange the identity ledger of the cross-type driver decides
   on the implementation, over every pair of 8 vector types x operand states x sizes, that no element is lost, duplicated, leaked
   or destroyed twice. *)
From Coq Require Import ZArith List Bool.
From Amc Require Import GenPrelude Words VecModel VecProofs Swap2.
From Amc Require Throw EmplaceGrow ThrowMove Transfer Swap2Elems.
Import ListNotations.
Local Open Scope Z_scope.

Theorem C13_swap2 :
  forall c1 c2, cfg_ok c1 -> cfg_ok c2 -> forall t o, BInv c1 t -> BInv c2 o ->
    match swap2x c1 c2 t o with
    | inl (t', o', _, _) => BInv c1 t' /\ BInv c2 o' /\ b_size c1 t' = b_size c2 o /\ b_size c2 o' = b_size c1 t
    | inr (e, t', o', _, _) =>
        BInv c1 t' /\ BInv c2 o' /\ b_size c1 t' = b_size c1 t /\ b_size c2 o' = b_size c2 o /\
        ((e = lim_exn c1 /\ b_limit c1 < b_size c2 o) \/ (e = lim_exn c2 /\ b_limit c2 < b_size c1 t))
    end.
Proof. exact swap2x_ok. Qed.

Theorem C13_possible_exchange_succeeds :
  forall c1 c2, cfg_ok c1 -> cfg_ok c2 -> forall t o, BInv c1 t -> BInv c2 o ->
    b_size c2 o <= b_limit c1 -> b_size c1 t <= b_limit c2 ->
    exists t' o' e1 e2, swap2x c1 c2 t o = inl (t', o', e1, e2).
Proof. exact swap2x_total. Qed.

Theorem C13_exchange_guarded :
  forall c1 c2, cfg_ok c1 -> cfg_ok c2 -> forall t o, BInv c1 t -> BInv c2 o -> can_exchange_x c1 c2 t o = true ->
    exists t' o', exchange_buffers c1 c2 t o = inl (t', o') /\ BInv c1 t' /\ BInv c2 o' /\
                  b_size c1 t' = b_size c2 o /\ b_size c2 o' = b_size c1 t.
Proof. exact exchange_never_throws. Qed.

Theorem C13_exchange_checks_ranges :
  forall c1 c2, cfg_ok c1 -> cfg_ok c2 -> forall t o, BInv c1 t -> BInv c2 o -> can_swap_dyn_x c1 c2 t o = true ->
    match exchange_buffers c1 c2 t o with
    | inl (t', o') => BInv c1 t' /\ BInv c2 o' /\ b_size c1 t' = b_size c2 o /\ b_size c2 o' = b_size c1 t
    | inr e => e = OverflowError /\ (cM c1 < capa_ o \/ cM c2 < capa_ t)
    end.
Proof. exact exchange_ok. Qed.

Theorem C13_guard_is_the_regenerated_one :
  forall c1 c2 t o, exchange_buffers c1 c2 t o =
    match SwapGuardTV.swap_st (cM c1) (cM c2) (capa_ t) (capa_ o), SwapGuardTV.swap_st (cM c1) (cM c2) (size_ t) (size_ o) with
    | Some (ct, co), Some (st, so) => inl ({| capa_ := ct; size_ := st |}, {| capa_ := co; size_ := so |})
    | _, _ => inr OverflowError
    end.
Proof. exact exchange_is_swap_st. Qed.

(* non-vacuity: vector<uint8_t size type> holding 200 elements (capacity 210) x SmallVector<_,2,int8_t size type> on the heap:
   impossible (200 > 127); with 100 elements in a capacity of 210 it is possible although 210 > 127: element-wise *)
Example C13_example :
  let c1 := {| fl := FVec; cN := 0; cM := 255; csigned := false; ccat := TC; calloc := AAmc |} in
  let c2 := {| fl := FSV; cN := 2; cM := 127; csigned := true; ccat := TC; calloc := AAmc |} in
  match swap2x c1 c2 {| capa_ := 210; size_ := 200 |} {| capa_ := 5; size_ := 5 |} with
  | inr (e, _, _, _, _) => e = OverflowError | inl _ => False end /\
  match swap2x c1 c2 {| capa_ := 210; size_ := 100 |} {| capa_ := 5; size_ := 5 |} with
  | inl (t', o', _, _) => b_size c1 t' = 5 /\ b_size c2 o' = 100 /\ capa_ t' = 210 | inr _ => False end.
Proof. vm_compute. repeat split; reflexivity. Qed.

Local Close Scope Z_scope.
(* ---- the elements: the element-wise path of swap2 at slot level, any two capacities ------------------------------------------------------- *)
Theorem C13_elements_exchanged :
  forall tr m th t b1 n1 cap1 d1 capd1 b2 n2 cap2 d2 capd2,
  Swap2Elems.Layout m t b1 n1 cap1 d1 capd1 b2 n2 cap2 d2 capd2 ->
  let g1 := Nat.ltb cap1 n2 in let g2 := Nat.ltb cap2 n1 in
  let B1 := if g1 then d1 else b1 in let C1 := if g1 then capd1 else cap1 in
  let B2 := if g2 then d2 else b2 in let C2 := if g2 then capd2 else cap2 in
  match Transfer.lift (Swap2Elems.swap2_elems tr m t b1 n1 cap1 d1 b2 n2 cap2 d2) th with
  | Throw.Done m' th' =>
      th' = th /\ Transfer.content m' B1 n2 = Transfer.content m b2 n2 /\ Transfer.content m' B2 n1 = Transfer.content m b1 n1 /\
      Transfer.Rng m' B1 n2 C1 /\ Transfer.Rng m' B2 n1 C2 /\
      (g1 = true -> Transfer.Rng m' b1 0 cap1) /\ (g2 = true -> Transfer.Rng m' b2 0 cap2) /\
      (g1 = false -> Transfer.Rng m' d1 0 capd1) /\ (g2 = false -> Transfer.Rng m' d2 0 capd2) /\ m' t = Throw.Raw /\
      (forall j, ~ Transfer.inR b1 cap1 j -> ~ Transfer.inR b2 cap2 j -> ~ Transfer.inR d1 capd1 j -> ~ Transfer.inR d2 capd2 j -> m' j = m j)
  | Throw.Threw _ => False
  | Throw.Err _ => False end.
Proof. exact Swap2Elems.swap2_elems_spec. Qed.

Theorem C13_elements_conserved :
  forall tr m t b1 n1 cap1 d1 capd1 b2 n2 cap2 d2 capd2 m',
  Swap2Elems.Layout m t b1 n1 cap1 d1 capd1 b2 n2 cap2 d2 capd2 -> Swap2Elems.swap2_elems tr m t b1 n1 cap1 d1 b2 n2 cap2 d2 = inl m' ->
  (Transfer.count_live m' b1 cap1 + Transfer.count_live m' b2 cap2 + Transfer.count_live m' d1 capd1 + Transfer.count_live m' d2 capd2 = n1 + n2 /\
   Transfer.count_live m b1 cap1 + Transfer.count_live m b2 cap2 + Transfer.count_live m d1 capd1 + Transfer.count_live m d2 capd2 = n1 + n2 /\
   Transfer.count_live m' t 1 = 0)%nat.
Proof. exact Swap2Elems.swap2_elems_conserves. Qed.

Theorem C13_at_most_one_side_grows : forall n1 cap1 n2 cap2, (n1 <= cap1 -> n2 <= cap2 -> ~ (cap1 < n2 /\ cap2 < n1))%nat.
Proof. exact Swap2Elems.at_most_one_grows. Qed.

(* non-vacuity: a full SmallVector<_, 2> [10, 11] x a heap vector [20, 21, 22, 23] of capacity 5: the first one grows *)
Example C13_elements_example : Swap2Elems.Layout Swap2Elems.init4 3 0 2 2 12 6 5 4 5 20 4.
Proof. exact Swap2Elems.init4_layout. Qed.
