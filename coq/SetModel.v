(* Executable models of amc::FlatSet (flatset.hpp) and amc::SmallSet (smallset.hpp) over element sequences, following the
   control flow of the headers: FlatSet = a vector kept sorted by the comparator, every lookup a binary search
   (modelled by its partition point), bulk paths = append + stable sort of the tail + stable merge + unique;
   SmallSet = an unsorted inline vector of at most N elements, or a backing set once it has grown ("large" is inferred
   from the backing set being non-empty).  The single-element decision code (insert_val / insert_hint) is in Hint.v.
   Extracted to OCaml and run in lock-step with harness/cpp/setdrv.cpp. *)
From Coq Require Import ZArith List Bool Arith Lia.
From Amc Require Import Hint.
Import ListNotations.

Section Cmp.
Variable cmp : Z -> Z -> bool.

Definition eqv (a b : Z) : bool := negb (cmp a b) && negb (cmp b a).
Notation "l @ i" := (nth i l 0%Z) (at level 20).

(* ---- std algorithms used by the bulk paths, modelled by (any) implementation meeting the standard's specification -- *)
(* stable insertion: x goes before the first element that is not less than x *)
Fixpoint sinsert (x : Z) (l : list Z) : list Z :=
  match l with
  | [] => [x]
  | y :: t => if cmp y x then y :: sinsert x t else x :: l
  end.
Definition ssort (l : list Z) : list Z := fold_right sinsert [] l.          (* std::stable_sort *)
(* std::merge / std::inplace_merge: takes from the second range only when its head is strictly less *)
Fixpoint smerge (a : list Z) : list Z -> list Z :=
  fix inner (b : list Z) : list Z :=
    match a, b with
    | [], _ => b
    | _, [] => a
    | x :: a', y :: b' => if cmp y x then y :: inner b' else x :: smerge a' b
    end.
(* std::unique with the equivalence of the comparator: keeps the first element of every run *)
Fixpoint uniq (l : list Z) : list Z :=
  match l with
  | [] => []
  | x :: t => x :: match uniq t with
                   | [] => []
                   | y :: t' => if eqv x y then t' else y :: t'
                   end
  end.
(* upper_bound: number of leading elements x with not (v < x) *)
Fixpoint ub (l : list Z) (v : Z) : nat := match l with [] => 0 | x :: t => if cmp v x then 0 else S (ub t v) end.

(* ---- FlatSet ---------------------------------------------------------------------------------------------------- *)
Definition fs_bulk (l vs : list Z) : list Z := uniq (smerge l (ssort vs)).       (* insert(first,last), ctor, from vector *)
Definition fs_find (l : list Z) (v : Z) : nat :=
  let i := lb cmp l v in if (i =? length l) || cmp v (l @ i) then length l else i.
Definition fs_contains (l : list Z) (v : Z) : bool := negb (fs_find l v =? length l).
Definition remove_at (i : nat) (l : list Z) : list Z := firstn i l ++ skipn (S i) l.
Definition fs_erase_key (l : list Z) (v : Z) : list Z * nat :=
  let i := fs_find l v in if i =? length l then (l, 0) else (remove_at i l, 1).
Definition fs_erase_range (l : list Z) (i j : nat) : list Z := firstn i l ++ skipn j l.
Definition fs_eqr (l : list Z) (v : Z) : nat * nat :=
  let i := fs_find l v in if i =? length l then (i, i) else (i, S i).
(* merge(FlatSet&) with the same comparator: linear walk over both; returns (this, what is left in o) *)
Fixpoint fs_merge (fuel : nat) (a b : list Z) : list Z * list Z :=
  match fuel with
  | O => (a, b)
  | S f =>
      match a, b with
      | _, [] => (a, [])
      | [], _ => (b, [])
      | x :: a', y :: b' =>
          if cmp x y then let (r, o) := fs_merge f a' b in (x :: r, o)
          else if cmp y x then let (r, o) := fs_merge f a b' in (y :: r, o)
          else let (r, o) := fs_merge f a' b' in (x :: r, y :: o)
      end
  end.
(* merge from a set with another comparator: every source element in the source's order, binary search in this *)
Fixpoint fs_merge_other (a b : list Z) : list Z * list Z :=
  match b with
  | [] => (a, [])
  | y :: b' =>
      let i := lb cmp a y in
      if (i =? length a) || cmp y (a @ i)
      then fs_merge_other (insert_at i y a) b'
      else let (r, o) := fs_merge_other a b' in (r, y :: o)
  end.

(* ---- SmallSet: (inline vector, backing set); large <-> the backing set is not empty ------------------------------- *)
Record sset := { svec : list Z; sset_ : list Z }.
Definition ss_small (s : sset) : bool := match sset_ s with [] => true | _ => false end.
Definition ss_elems (s : sset) : list Z := if ss_small s then svec s else sset_ s.
Fixpoint find_small (l : list Z) (v : Z) : nat :=        (* std::find_if with the equivalence functor *)
  match l with [] => 0 | x :: t => if eqv v x then 0 else S (find_small t v) end.
Definition set_insert (l : list Z) (v : Z) : list Z * nat * bool :=       (* backing set insert *)
  let r := insert_val cmp l v in (fst r, snd r, negb (length (fst r) =? length l)).
Definition set_of (l : list Z) : list Z := fold_left (fun acc x => fst (insert_val cmp acc x)) l [].   (* grow() *)
Definition ss_insert (N : nat) (s : sset) (v : Z) : sset * nat * bool :=
  if ss_small s then
    let i := find_small (svec s) v in
    if i =? length (svec s) then
      if length (svec s) =? N then
        let '(l, j, b) := set_insert (set_of (svec s)) v in ({| svec := []; sset_ := l |}, j, b)
      else ({| svec := svec s ++ [v]; sset_ := [] |}, i, true)
    else (s, i, false)
  else let '(l, j, b) := set_insert (sset_ s) v in ({| svec := svec s; sset_ := l |}, j, b).
Fixpoint ss_insert_range (N : nat) (s : sset) (vs : list Z) : sset :=
  match vs with [] => s | v :: t => ss_insert_range N (fst (fst (ss_insert N s v))) t end.
Definition ss_find (s : sset) (v : Z) : nat :=
  if ss_small s then find_small (svec s) v else fs_find (sset_ s) v.
Definition ss_size (s : sset) : nat := length (ss_elems s).
Definition ss_erase_at (s : sset) (i : nat) : sset :=
  if ss_small s then {| svec := remove_at i (svec s); sset_ := [] |} else {| svec := svec s; sset_ := remove_at i (sset_ s) |}.
Definition ss_erase_range (s : sset) (i j : nat) : sset :=
  if ss_small s then {| svec := fs_erase_range (svec s) i j; sset_ := [] |} else {| svec := svec s; sset_ := fs_erase_range (sset_ s) i j |}.
Definition ss_erase_key (s : sset) (v : Z) : sset * nat :=
  let i := ss_find s v in if i =? ss_size s then (s, 0) else (ss_erase_at s i, 1).
Definition ss_clear (s : sset) : sset := if ss_small s then {| svec := []; sset_ := [] |} else {| svec := svec s; sset_ := [] |}.
(* merge(SmallSet& o): returns (this, o) *)
Fixpoint ss_merge_small (N : nat) (t : sset) (ov : list Z) : sset * list Z :=
  match ov with
  | [] => (t, [])
  | y :: ov' =>
      let '(t1, _, ins) := ss_insert N t y in
      if ins then ss_merge_small N t1 ov' else let (t2, rest) := ss_merge_small N t ov' in (t2, y :: rest)
  end.
Definition ss_grow (s : sset) : sset := if ss_small s then {| svec := []; sset_ := set_of (svec s) |} else s.
Definition ss_merge (N : nat) (t o : sset) : sset * sset :=
  if ss_small o then
    let (t', rest) := ss_merge_small N t (svec o) in (t', {| svec := rest; sset_ := [] |})
  else
    let t1 := ss_grow t in
    let (r, left) := fs_merge_other (sset_ t1) (sset_ o) in
    ({| svec := svec t1; sset_ := r |}, {| svec := svec o; sset_ := left |}).

(* comparison operators: == (element equality), < (lexicographic over the sequences in comparator order) *)
Fixpoint lex_lt (a b : list Z) : bool :=
  match a, b with
  | _, [] => false
  | [], _ :: _ => true
  | x :: a', y :: b' => if (x <? y)%Z then true else if (y <? x)%Z then false else lex_lt a' b'
  end.
Fixpoint list_eq (a b : list Z) : bool :=
  match a, b with
  | [], [] => true
  | x :: a', y :: b' => (x =? y)%Z && list_eq a' b'
  | _, _ => false
  end.
Fixpoint remove_one (x : Z) (l : list Z) : option (list Z) :=
  match l with
  | [] => None
  | y :: t => if (x =? y)%Z then Some t else match remove_one x t with Some r => Some (y :: r) | None => None end
  end.
Fixpoint is_perm (a b : list Z) : bool :=
  match a with
  | [] => match b with [] => true | _ => false end
  | x :: a' => match remove_one x b with Some b' => is_perm a' b' | None => false end
  end.
Definition sorted_view (s : sset) : list Z := if ss_small s then ssort (svec s) else sset_ s.
Definition ss_eq (s o : sset) : bool :=
  if negb (ss_size s =? ss_size o) then false
  else if negb (ss_small s) && negb (ss_small o) then list_eq (sset_ s) (sset_ o)
  else is_perm (ss_elems s) (ss_elems o).
End Cmp.

(* ---- the operation scripts of harness/cpp/setdrv.cpp --------------------------------------------------------------- *)
Inductive skind := KFlat | KSmall (N : nat).
Inductive sop :=
  | SCtorDefault (a : nat) | SCtorRange (a : nat) (vs : list Z) | SCtorCopy (a b : nat) | SCtorMove (a b : nat) | SDtor (a : nat)
  | SFromVector (a : nat) (vs : list Z) | SStealVector (a : nat) | SAssignIl (a : nat) (vs : list Z)
  | SInsert (a : nat) (v : Z) | SInsertHint (a : nat) (h : nat) (v : Z) | SInsertRange (a : nat) (vs : list Z)
  | SExtractKey (a : nat) (v : Z) | SExtractPos (a : nat) (h : nat) | SInsertNode (a b : nat) | SInsertNodeHint (a b : nat) (h : nat)
  | SEraseKey (a : nat) (v : Z) | SErasePos (a : nat) (h : nat) | SEraseRange (a : nat) (h1 h2 : nat)
  | SClear (a : nat) | SSwap (a b : nat) | SCopyAssign (a b : nat) | SMoveAssign (a b : nat)
  | SFind (a : nat) (v : Z) | SCount (a : nat) (v : Z) | SContains (a : nat) (v : Z) | SLb (a : nat) (v : Z) | SUb (a : nat) (v : Z)
  | SEqr (a : nat) (v : Z) | SMerge (a b : nat) | SCmp (a b : nat) | SWalk (a : nat) | SRevWalk (a : nat) | SEraseLoop (a : nat) (k : Z) | SRelocate (a b : nat).
Inductive sres :=
  | SROk | SRIns (i : nat) (b : bool) | SRIdx (i : nat) | SRNode (n : option Z) | SRNIns (i : nat) (b : bool) (n : option Z)
  | SRNIdx (i : nat) (n : option Z) | SRN (n : nat) | SRB (b : bool) | SRRng (i j : nat) | SRCmp (bits : list bool)
  | SRWalk (vals : list Z) | SRLoop (iters erased : nat) | SRVals (vals : list Z) | SRSkip.

Record spool := { sets : list (option sset); nodes : list (option Z) }.
Definition sinit : spool := {| sets := [None; None; None]; nodes := [None; None; None] |}.

Section SStep.
Variable cmp : Z -> Z -> bool.
Variable kind : skind.

Definition is_flat : bool := match kind with KFlat => true | _ => false end.
Definition capN : nat := match kind with KSmall n => n | KFlat => 0 end.
(* a FlatSet is represented as an sset whose elements live in sset_ and which is never "small" for dispatch purposes *)
Definition elems (s : sset) : list Z := if is_flat then sset_ s else ss_elems s.
Definition mk_flat (l : list Z) : sset := {| svec := []; sset_ := l |}.
Definition empty_set : sset := {| svec := []; sset_ := [] |}.
Definition from_range (vs : list Z) : sset :=
  if is_flat then mk_flat (fs_bulk cmp [] vs) else ss_insert_range cmp capN empty_set vs.
Definition insert1 (s : sset) (v : Z) : sset * nat * bool :=
  if is_flat then let r := insert_val cmp (sset_ s) v in (mk_flat (fst r), snd r, negb (length (fst r) =? length (sset_ s)))
  else ss_insert cmp capN s v.
Definition insert_hinted (s : sset) (h : nat) (v : Z) : sset * nat :=
  if is_flat then let r := insert_hint cmp (sset_ s) h v in (mk_flat (fst r), snd r)
  else let '(s', i, _) := ss_insert cmp capN s v in (s', i).
Definition find1 (s : sset) (v : Z) : nat := if is_flat then fs_find cmp (sset_ s) v else ss_find cmp s v.
Definition size1 (s : sset) : nat := length (elems s).
Definition erase_at1 (s : sset) (i : nat) : sset := if is_flat then mk_flat (remove_at i (sset_ s)) else ss_erase_at s i.
Definition erase_range1 (s : sset) (i j : nat) : sset := if is_flat then mk_flat (fs_erase_range (sset_ s) i j) else ss_erase_range s i j.
Definition clear1 (s : sset) : sset := if is_flat then empty_set else ss_clear s.
Definition insert_range1 (s : sset) (vs : list Z) : sset :=
  if is_flat then mk_flat (fs_bulk cmp (sset_ s) vs) else ss_insert_range cmp capN s vs.
Definition merge1 (t o : sset) : sset * sset :=
  if is_flat then let (r, l) := fs_merge cmp (length (sset_ t) + length (sset_ o) + 1) (sset_ t) (sset_ o) in (mk_flat r, mk_flat l)
  else ss_merge cmp capN t o.
Definition cmp_bits1 (s o : sset) : list bool :=
  let eq := if is_flat then list_eq (sset_ s) (sset_ o) else ss_eq s o in
  let a := if is_flat then sset_ s else sorted_view cmp s in
  let b := if is_flat then sset_ o else sorted_view cmp o in
  let lt := lex_lt a b in let gt := lex_lt b a in
  [eq; negb eq; lt; negb gt; gt; negb lt].
(* the standard erase-while-iterating loop: erase every element divisible by k *)
Fixpoint erase_loop (fuel : nat) (s : sset) (i iters erased : nat) (k : Z) : sset * nat * nat :=
  match fuel with
  | O => (s, iters, erased)
  | S f =>
      if i <? size1 s then
        if (Z.rem (nth i (elems s) 0%Z) k =? 0)%Z then erase_loop f (erase_at1 s i) i (S iters) (S erased) k
        else erase_loop f s (S i) (S iters) erased k
      else (s, iters, erased)
  end.

Definition sget (p : spool) (k : nat) : option sset := nth k (sets p) None.
Fixpoint lset {A} (l : list A) (k : nat) (x : A) : list A :=
  match l, k with [], _ => [] | _ :: t, O => x :: t | y :: t, S k' => y :: lset t k' x end.
Definition sput (p : spool) (k : nat) (s : option sset) : spool := {| sets := lset (sets p) k s; nodes := nodes p |}.
Definition nget (p : spool) (k : nat) : option Z := nth k (nodes p) None.
Definition nput (p : spool) (k : nat) (n : option Z) : spool := {| sets := sets p; nodes := lset (nodes p) k n |}.

Definition sstep (p : spool) (o : sop) : spool * sres :=
  let skip := (p, SRSkip) in
  let on (a : nat) (f : sset -> spool * sres) := match sget p a with Some s => f s | None => skip end in
  match o with
  | SCtorDefault a => (sput p a (Some empty_set), SROk)
  | SCtorRange a vs => (sput p a (Some (from_range vs)), SROk)
  | SCtorCopy a b => if Nat.eqb a b then skip else match sget p b with Some sb => (sput p a (Some sb), SROk) | None => skip end
  | SCtorMove a b => if Nat.eqb a b then skip else
      match sget p b with Some sb => (sput (sput p a (Some sb)) b (Some empty_set), SROk) | None => skip end
  | SDtor a => on a (fun _ => (sput p a None, SROk))
  | SFromVector a vs => if is_flat then (sput p a (Some (from_range vs)), SROk) else skip
  | SStealVector a => if is_flat then on a (fun s => (sput p a (Some empty_set), SRVals (sset_ s))) else skip
  | SAssignIl a vs => on a (fun s => (sput p a (Some (insert_range1 (clear1 s) vs)), SROk))
  | SInsert a v => on a (fun s => let '(s', i, b) := insert1 s v in (sput p a (Some s'), SRIns i b))
  | SInsertHint a h v => on a (fun s => if h <=? size1 s then let (s', i) := insert_hinted s h v in (sput p a (Some s'), SRIdx i) else skip)
  | SInsertRange a vs => on a (fun s => (sput p a (Some (insert_range1 s vs)), SROk))
  | SExtractKey a v =>
      on a (fun s => let i := find1 s v in
                     if i =? size1 s then (nput p a None, SRNode None)
                     else let x := nth i (elems s) 0%Z in (nput (sput p a (Some (erase_at1 s i))) a (Some x), SRNode (Some x)))
  | SExtractPos a h =>
      on a (fun s => if h <? size1 s
                     then let x := nth h (elems s) 0%Z in (nput (sput p a (Some (erase_at1 s h))) a (Some x), SRNode (Some x))
                     else skip)
  | SInsertNode a b =>
      on a (fun s => match nget p b with
                     | None => (p, SRNIns (size1 s) false None)
                     | Some x => let '(s', i, ins) := insert1 s x in
                                 (nput (sput p a (Some s')) b (if ins then None else Some x), SRNIns i ins (if ins then None else Some x))
                     end)
  | SInsertNodeHint a b h =>
      on a (fun s => if h <=? size1 s then
                       match nget p b with
                       | None => (p, SRNIdx (size1 s) None)
                       | Some x => let (s', i) := insert_hinted s h x in
                                   let ins := negb (size1 s' =? size1 s) in
                                   (nput (sput p a (Some s')) b (if ins then None else Some x), SRNIdx i (if ins then None else Some x))
                       end
                     else skip)
  | SEraseKey a v => on a (fun s => let i := find1 s v in if i =? size1 s then (p, SRN 0) else (sput p a (Some (erase_at1 s i)), SRN 1))
  | SErasePos a h => on a (fun s => if h <? size1 s then (sput p a (Some (erase_at1 s h)), SRIdx h) else skip)
  | SEraseRange a h1 h2 => on a (fun s => if (h1 <=? h2) && (h2 <=? size1 s) then (sput p a (Some (erase_range1 s h1 h2)), SRIdx h1) else skip)
  | SClear a => on a (fun s => (sput p a (Some (clear1 s)), SROk))
  | SSwap a b => on a (fun s => match sget p b with Some sb => (sput (sput p a (Some sb)) b (Some s), SROk) | None => skip end)
  | SCopyAssign a b => on a (fun s => match sget p b with Some sb => (sput p a (Some sb), SROk) | None => skip end)
  | SMoveAssign a b => if Nat.eqb a b then skip else
      on a (fun s => match sget p b with Some sb => (sput (sput p a (Some sb)) b (Some empty_set), SROk) | None => skip end)
  | SFind a v => on a (fun s => (p, SRIdx (find1 s v)))
  | SCount a v => on a (fun s => (p, SRN (if find1 s v =? size1 s then 0 else 1)))
  | SContains a v => on a (fun s => (p, SRB (negb (find1 s v =? size1 s))))
  | SLb a v => if is_flat then on a (fun s => (p, SRIdx (lb cmp (sset_ s) v))) else skip
  | SUb a v => if is_flat then on a (fun s => (p, SRIdx (ub cmp (sset_ s) v))) else skip
  | SEqr a v => if is_flat then on a (fun s => let (i, j) := fs_eqr cmp (sset_ s) v in (p, SRRng i j)) else skip
  | SMerge a b => if Nat.eqb a b then skip else
      on a (fun s => match sget p b with
                     | Some sb => let (t', o') := merge1 s sb in (sput (sput p a (Some t')) b (Some o'), SROk)
                     | None => skip end)
  | SCmp a b => on a (fun s => match sget p b with Some sb => (p, SRCmp (cmp_bits1 s sb)) | None => skip end)
  | SWalk a => on a (fun s => (p, SRWalk (elems s)))
  | SRevWalk a => on a (fun s => (p, SRWalk (rev (elems s))))
  | SRelocate a b => if Nat.eqb a b then skip else
      on a (fun s => match sget p b with Some _ => skip | None => (sput (sput p b (Some s)) a None, SROk) end)
  | SEraseLoop a k => on a (fun s => if (k =? 0)%Z then skip else
                                     let '(s', it, er) := erase_loop (2 * size1 s + 2) s 0 0 0 k in (sput p a (Some s'), SRLoop it er))
  end.

(* what the driver prints of one set: size; flat|small|large; elements in iteration order *)
Definition sdescribe (s : sset) : nat * nat * list Z :=
  (size1 s, if is_flat then 0 else if ss_small s then 1 else 2, elems s).
End SStep.

(* the comparators of the driver's configurations *)
Inductive ckind := CKLess | CKGreater | CKCoarse | CKMod (m : Z).
Definition cmp_of (k : ckind) (a b : Z) : bool :=
  match k with
  | CKLess => (a <? b)%Z
  | CKGreater => (b <? a)%Z
  | CKCoarse => (a / 3 <? b / 3)%Z
  | CKMod m => (a mod m <? b mod m)%Z
  end.
