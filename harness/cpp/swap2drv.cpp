// swap2 driver (property C13): exercises VectorImpl::swap2 between two vectors of DIFFERENT types of the library
// (amc::vector / SmallVector / FixedCapacityVector, any inline capacity, size_type, allocator), each operand prepared in
// a chosen storage state, and checks that the contents are exchanged exactly or that the call fails cleanly.
//
// Script   : `H <hid>` then `case <T:NTR|TR> <A> <modeA> <sizeA> <B> <modeB> <sizeB>` (one case per history).
// Transcript (one line per case):
//   X <hid> | <case line> | preA=<_capa>,<_size>,<store>,<capacity()>,<size()> | preB=... | res=<...> |
//     postA=<_capa>,<_size>,<store>,<capacity()>,<size()>,<vals> | postB=... | al=<allocator events of swap2> | after=<ok|...>
//   ORACLE <hid> 1 C13:<class>; <detail>          (zero or more, after the X line)
//   P <hid> | preA=... | preB=...                  (before the call: what is left of a case that crashes in swap2)
//   Q <hid> | res=... | postA=<words> | postB=<words>   (after the call, before any element is read)
// `vals` abbreviates runs of consecutive values as lo..hi; `?` = not read because the words are inconsistent.
// The pair table is split over translation units by -DGROUP=k (k = index of the type of the first operand).
#include <algorithm>
#include <cstdint>
#include <limits>
#include <memory>
#include <vector>

#include "common.hpp"

#ifndef AMC_NONSTD_FEATURES
#define AMC_NONSTD_FEATURES
#endif
#define private public
#define protected public
#include <amc/fixedcapacityvector.hpp>
#include <amc/smallvector.hpp>
#include <amc/vector.hpp>
#undef private
#undef protected

namespace vf {
template <class T, bool W>
bool LedgerAlloc<T, W>::amc_is_tr() {
  return amc::is_trivially_relocatable<T>::value;
}

enum Flavour { kVec = 0, kSV = 1, kFCV = 2 };
static const int kNbTypes = 8;
static const char *const kTypeNames[kNbTypes] = {"Vu32", "Vu8", "S3u32", "S5u8", "S2s8", "S3alt", "F4", "F7"};

template <class S>
inline std::string numstr(S x) {
  return std::is_signed<S>::value ? std::to_string(static_cast<long long>(x)) : std::to_string(static_cast<unsigned long long>(x));
}

// ---------------------------------------------------------------------------------------------
// The 8 vector types
template <class T, int K>
struct VT;

template <class T, long N_, bool Realloc, class S>
struct VTDyn {
  using Alloc = LedgerAlloc<T, Realloc>;
  using V = amc::SmallVector<T, N_, Alloc, S>;
  using Src = amc::vector<T, Alloc, S>;  // what a SmallVector can adopt the buffer of
  static const long N = N_;
  static const int flavour = N_ == 0 ? kVec : kSV;
  static long limit() { return static_cast<long>(std::numeric_limits<S>::max()); }  // the widest is uint32_t
};
template <class T, long N_>
struct VTFix {
  using V = amc::FixedCapacityVector<T, N_>;
  using Src = V;
  static const long N = N_;
  static const int flavour = kFCV;
  static long limit() { return N_; }
};
template <class T> struct VT<T, 0> : VTDyn<T, 0, false, uint32_t> {};
template <class T> struct VT<T, 1> : VTDyn<T, 0, false, uint8_t> {};
template <class T> struct VT<T, 2> : VTDyn<T, 3, false, uint32_t> {};
template <class T> struct VT<T, 3> : VTDyn<T, 5, false, uint8_t> {};
template <class T> struct VT<T, 4> : VTDyn<T, 2, false, int8_t> {};
template <class T> struct VT<T, 5> : VTDyn<T, 3, true, uint32_t> {};
template <class T> struct VT<T, 6> : VTFix<T, 4> {};
template <class T> struct VT<T, 7> : VTFix<T, 7> {};

// ---------------------------------------------------------------------------------------------
// Operand construction.  make() returns false when the (mode, size) is impossible for the type (nothing constructed).
template <class X>
struct Builder {
  using V = typename X::V;
  using T = typename V::value_type;

  static std::vector<int> seq(long n, int base) {
    std::vector<int> v;
    for (long i = 0; i < n; ++i) v.push_back(base + static_cast<int>(i));
    return v;
  }
  static bool adopt(void *, const std::vector<int> &, std::false_type) { return false; }
  static bool adopt(void *raw, const std::vector<int> &vals, std::true_type) {
    typename X::Src src(vals.begin(), vals.end());
    src.shrink_to_fit();  // capacity exactly size: possibly a heap buffer smaller than N
    new (raw) V(std::move(src));
    return true;
  }
  static bool make(void *raw, const std::string &mode, long size, int base, std::vector<int> &ref) {
    const long lim = X::limit();
    const bool fix = X::flavour == kFCV;
    const long NN = X::N;  // a copy: std::min/max take references (no out-of-class definition before C++17)
    if (size < 0 || size > lim) return false;
    ref = seq(size, base);
    if (mode == "fresh") {
      new (raw) V(ref.begin(), ref.end());
    } else if (mode == "grown") {
      V *v = new (raw) V();
      for (long i = 0; i < size; ++i) v->push_back(T(ref[i]));
    } else if (mode == "shrunk") {
      long n0 = fix ? std::min(size + 4, NN) : std::max(size + 4, NN + 2);
      if (n0 > lim) return false;
      std::vector<int> big = seq(n0, base);
      V *v = new (raw) V(big.begin(), big.end());
      v->erase(v->begin() + size, v->end());
    } else if (mode == "reserved") {
      if (size + 3 > lim) return false;
      V *v = new (raw) V(ref.begin(), ref.end());
      v->reserve(static_cast<typename V::size_type>(size + 3));
    } else if (mode == "cleared") {
      long n0 = fix ? NN : NN + 3;
      if (n0 > lim) return false;
      std::vector<int> big = seq(n0, base + 5000);
      V *v = new (raw) V(big.begin(), big.end());
      v->clear();
      for (long i = 0; i < size; ++i) v->push_back(T(ref[i]));
    } else if (mode == "adopted") {
      if (X::flavour != kSV || size == 0) return false;
      return adopt(raw, ref, std::integral_constant<bool, X::flavour == kSV>());
    } else {
      return false;
    }
    return true;
  }
};

// ---------------------------------------------------------------------------------------------
// Observation of an operand
struct Obs {
  std::string wcapa, wsize, store, cap, size;
  long long capLL, sizeLL;
  bool sane;
  std::string why;
  std::vector<int> vals;
};
template <class V>
static std::string storeOf(const V &x) {
  const char *p = reinterpret_cast<const char *>(x.data());
  const char *o = reinterpret_cast<const char *>(&x);
  if (p == nullptr) return "null";
  if (p >= o && p < o + sizeof(V)) return "inl";
  return "heap";
}
// consecutive runs a,a+1,...,b (4 or more) are written a..b
inline std::string compressInts(const std::vector<int> &v) {
  if (v.empty()) return "-";
  std::string s;
  size_t i = 0;
  while (i < v.size()) {
    size_t j = i;
    while (j + 1 < v.size() && v[j + 1] == v[j] + 1) ++j;
    if (!s.empty()) s += ",";
    if (j - i >= 3) {
      s += std::to_string(v[i]) + ".." + std::to_string(v[j]);
      i = j + 1;
    } else {
      s += std::to_string(v[i]);
      ++i;
    }
  }
  return s;
}
template <class X>
Obs observe(const typename X::V &v, bool readVals) {
  Obs o;
  o.wcapa = numstr(v._capa);
  o.wsize = numstr(v._size);
  o.store = storeOf(v);
  o.cap = numstr(v.capacity());
  o.size = numstr(v.size());
  o.capLL = std::is_signed<typename X::V::size_type>::value ? static_cast<long long>(v.capacity())
                                                            : static_cast<long long>(static_cast<unsigned long long>(v.capacity()));
  o.sizeLL = std::is_signed<typename X::V::size_type>::value ? static_cast<long long>(v.size())
                                                             : static_cast<long long>(static_cast<unsigned long long>(v.size()));
  o.sane = true;
  if (o.sizeLL < 0 || o.capLL < 0) {
    o.sane = false;
    o.why = "negative size or capacity";
  } else if (o.sizeLL > o.capLL) {
    o.sane = false;
    o.why = "size above capacity";
  } else if (o.sizeLL > 0 && o.store == "null") {
    o.sane = false;
    o.why = "null storage with elements";
  } else if (o.store == "inl" && o.capLL != static_cast<long long>(X::N)) {
    o.sane = false;
    o.why = "inline storage with capacity != N";
  } else if (o.store == "null" && o.capLL != 0) {
    o.sane = false;
    o.why = "null storage with a capacity";
  } else if (o.store == "heap" && X::flavour == kFCV) {
    o.sane = false;
    o.why = "FixedCapacityVector pointing outside itself";
  } else if (o.store == "heap") {
    // the storage must be a live block of the ledger allocator, of exactly capacity() elements: checked before any
    // element is read, so that a wild pointer is an oracle failure with the words printed rather than a crash
    std::map<void *, size_t>::const_iterator it = G().blocks.find(const_cast<void *>(static_cast<const void *>(v.data())));
    if (it == G().blocks.end()) {
      o.sane = false;
      o.why = "storage pointer is not a live allocator block";
    } else if (static_cast<long long>(it->second) != o.capLL) {
      o.sane = false;
      o.why = "capacity differs from the allocator block size " + std::to_string(it->second);
    }
  }
  if (readVals && o.sane) {
    for (long long i = 0; i < o.sizeLL; ++i) o.vals.push_back(v.begin()[i].value());
  }
  return o;
}
inline std::string pre(const Obs &o) { return o.wcapa + "," + o.wsize + "," + o.store + "," + o.cap + "," + o.size; }
inline std::string post(const Obs &o) { return pre(o) + "," + (o.sane ? compressInts(o.vals) : std::string("?")); }

static std::string classify() {
  try {
    throw;
  } catch (const std::out_of_range &) {
    return "out_of_range";
  } catch (const std::overflow_error &) {
    return "overflow_error";
  } catch (...) {
    return "other";
  }
}

// ---------------------------------------------------------------------------------------------
template <class T, int KA, int KB>
void runCase(const std::string &hid, const std::string &line, const std::string &mA, long sA, const std::string &mB, long sB) {
  using XA = VT<T, KA>;
  using XB = VT<T, KB>;
  using VA = typename XA::V;
  using VB = typename XB::V;
  std::vector<std::string> oracle;
  auto fail = [&](const std::string &cls, const std::string &detail) { oracle.push_back("C13:" + cls + "; " + detail); };
  auto emit = [&](const std::string &body) {
    std::printf("X %s | %s | %s\n", hid.c_str(), line.c_str(), body.c_str());
    for (size_t i = 0; i < oracle.size(); ++i) std::printf("ORACLE %s 1 %s\n", hid.c_str(), oracle[i].c_str());
  };
  const std::string skipBody = "preA=- | preB=- | res=skip | postA=- | postB=- | al=- | after=-";

  typename std::aligned_storage<sizeof(VA), alignof(VA)>::type rawA;
  typename std::aligned_storage<sizeof(VB), alignof(VB)>::type rawB;
  std::vector<int> ra, rb;
  const bool wide = sA > 100 || sB > 100;  // keep the two value ranges disjoint
  const int baseA = wide ? 1000 : 100, baseB = wide ? 2000 : 200;
  bool okA = false, okB = false;
  try {
    okA = Builder<XA>::make(&rawA, mA, sA, baseA, ra);
    if (okA) okB = Builder<XB>::make(&rawB, mB, sB, baseB, rb);
  } catch (...) {
    fail("setup threw", classify());
    emit("preA=- | preB=- | res=skip:setup-exception | postA=- | postB=- | al=- | after=-");
    return;
  }
  VA &a = *reinterpret_cast<VA *>(&rawA);
  VB &b = *reinterpret_cast<VB *>(&rawB);
  if (!okA || !okB) {
    if (okA) a.~VA();
    emit(skipBody);
    return;
  }
  Obs preA = observe<XA>(a, true), preB = observe<XB>(b, true);
  if (!preA.sane || !preB.sane || preA.vals != ra || preB.vals != rb || G().nErrors) {
    fail("setup wrong", "A=" + post(preA) + " B=" + post(preB) + (G().nErrors ? " ledger:" + G().errors[0] : ""));
  }
  const long limA = XA::limit(), limB = XB::limit();
  const bool fitsA = sB <= limA, fitsB = sA <= limB;  // B's elements fit in A / A's elements fit in B
  const bool possible = fitsA && fitsB;
  const long liveBefore = G().live;
  const long errBefore = G().nErrors;
  G().allocEvents.clear();
  // the state before the call survives a crash of the call (stdout is line buffered in the child)
  std::printf("P %s | preA=%s | preB=%s\n", hid.c_str(), pre(preA).c_str(), pre(preB).c_str());

  std::string res = "ok";
  bool threw = false;
  try {
    a.swap2(b);
  } catch (...) {
    threw = true;
    res = "threw:" + classify();
  }
  const std::string al = joinStr(G().allocEvents);
  Obs postA = observe<XA>(a, false), postB = observe<XB>(b, false);
  std::printf("Q %s | res=%s | postA=%s | postB=%s\n", hid.c_str(), res.c_str(), pre(postA).c_str(), pre(postB).c_str());
  postA = observe<XA>(a, true);
  postB = observe<XB>(b, true);

  // ---- oracles on the call itself
  if (!postA.sane) fail("corrupted words", std::string(kTypeNames[KA]) + " (first operand) " + pre(postA) + ": " + postA.why);
  if (!postB.sane) fail("corrupted words", std::string(kTypeNames[KB]) + " (second operand) " + pre(postB) + ": " + postB.why);
  const std::vector<int> &wantA = threw ? ra : rb;
  const std::vector<int> &wantB = threw ? rb : ra;
  if (threw) {
    if (possible) fail("threw although possible", res.substr(6) + " with sizes " + std::to_string(sA) + "," + std::to_string(sB) + " capacities " + preA.cap + "," + preB.cap);
    std::string want1 = !fitsA ? (XA::flavour == kFCV ? "out_of_range" : "overflow_error") : "";
    std::string want2 = !fitsB ? (XB::flavour == kFCV ? "out_of_range" : "overflow_error") : "";
    std::string got = res.substr(6);
    if (!possible && got != want1 && got != want2) fail("wrong exception type", got + " expected " + (want1.empty() ? want2 : want1));
    if (possible && got == "other") fail("wrong exception type", got);
    if (postA.sane && postA.vals != wantA) fail("contents changed by a failed swap2", "first operand has " + compressInts(postA.vals) + " had " + compressInts(wantA));
    if (postB.sane && postB.vals != wantB) fail("contents changed by a failed swap2", "second operand has " + compressInts(postB.vals) + " had " + compressInts(wantB));
  } else {
    if (!possible) fail("no throw although impossible", "sizes " + std::to_string(sA) + "," + std::to_string(sB) + " limits " + std::to_string(limA) + "," + std::to_string(limB));
    if (postA.sane && postA.vals != wantA) fail("contents not exchanged", "first operand has " + compressInts(postA.vals) + " want " + compressInts(wantA));
    if (postB.sane && postB.vals != wantB) fail("contents not exchanged", "second operand has " + compressInts(postB.vals) + " want " + compressInts(wantB));
  }
  if (G().nErrors != errBefore) fail("ledger error during swap2", G().errors.empty() ? "?" : G().errors[0]);
  if (G().live != liveBefore) fail("live element count changed", std::to_string(liveBefore) + " -> " + std::to_string(G().live));

  // ---- afterwards: both operands stay usable, then everything is released
  std::vector<std::string> after;
  const long errMid = G().nErrors;
  auto useIt = [&](auto &v, auto xtag, const Obs &po, const char *nm) {
    using XX = decltype(xtag);
    using VV = typename XX::V;
    if (!po.sane) {
      after.push_back(std::string(nm) + ":abandoned-corrupt");
      return false;
    }
    try {
      if (po.sizeLL < XX::limit()) {
        std::vector<int> want = po.vals;
        want.push_back(777);
        v.push_back(T(777));
        Obs o2 = observe<XX>(v, true);
        if (!o2.sane || o2.vals != want) {
          after.push_back(std::string(nm) + ":push_back-wrong");
          fail("unusable after swap2", std::string(nm) + " after push_back: " + post(o2) + " want " + compressInts(want));
          if (!o2.sane) return false;
        }
      }
      v.clear();
      Obs o3 = observe<XX>(v, true);
      if (!o3.sane || o3.sizeLL != 0) {
        after.push_back(std::string(nm) + ":clear-wrong");
        fail("unusable after swap2", std::string(nm) + " after clear: " + pre(o3));
        if (!o3.sane) return false;
      }
    } catch (...) {
      after.push_back(std::string(nm) + ":threw-" + classify());
      fail("unusable after swap2", std::string(nm) + " push_back/clear threw " + classify());
    }
    v.~VV();
    return true;
  };
  bool doneA = useIt(a, XA(), postA, "A");
  bool doneB = useIt(b, XB(), postB, "B");
  if (doneA && doneB) {
    if (G().live != 0) {
      after.push_back("live=" + std::to_string(G().live));
      fail("elements alive after destruction", std::to_string(G().live));
    }
    if (!G().blocks.empty()) {
      std::string sizes;
      for (std::map<void *, size_t>::const_iterator it = G().blocks.begin(); it != G().blocks.end(); ++it) sizes += (sizes.empty() ? "" : ",") + std::to_string(it->second);
      after.push_back("blocks=" + sizes);
      fail("allocator blocks outstanding after destruction", sizes);
    }
  }
  if (G().nErrors != errMid) {
    std::string e = G().errors.empty() ? "?" : G().errors.back();
    after.push_back("err=" + e);
    fail("ledger error after swap2", e);
  }
  emit("preA=" + pre(preA) + " | preB=" + pre(preB) + " | res=" + res + " | postA=" + post(postA) + " | postB=" + post(postB) + " | al=" + al +
       " | after=" + (after.empty() ? std::string("ok") : joinStr(after, ";")));
}

typedef void (*CaseFn)(const std::string &, const std::string &, const std::string &, long, const std::string &, long);
#define S2_ROW(TT, KA)                                                                                                   \
  {                                                                                                                      \
    &runCase<TT, KA, 0>, &runCase<TT, KA, 1>, &runCase<TT, KA, 2>, &runCase<TT, KA, 3>, &runCase<TT, KA, 4>,             \
        &runCase<TT, KA, 5>, &runCase<TT, KA, 6>, &runCase<TT, KA, 7>                                                    \
  }
#define S2_GROUP(KA)                     \
  {                                      \
    S2_ROW(El<0>, KA), S2_ROW(El<1>, KA) \
  }
#define S2_NONE                                                                          \
  {                                                                                      \
    {nullptr, nullptr, nullptr, nullptr, nullptr, nullptr, nullptr, nullptr}, {          \
      nullptr, nullptr, nullptr, nullptr, nullptr, nullptr, nullptr, nullptr             \
    }                                                                                    \
  }
}  // namespace vf

using namespace vf;
// kFns[first operand type][element type][second operand type]; with -DGROUP=k only row k is compiled.
#ifdef GROUP
static const CaseFn kFns[kNbTypes][2][kNbTypes] = {
#if GROUP == 0
    S2_GROUP(0),
#else
    S2_NONE,
#endif
#if GROUP == 1
    S2_GROUP(1),
#else
    S2_NONE,
#endif
#if GROUP == 2
    S2_GROUP(2),
#else
    S2_NONE,
#endif
#if GROUP == 3
    S2_GROUP(3),
#else
    S2_NONE,
#endif
#if GROUP == 4
    S2_GROUP(4),
#else
    S2_NONE,
#endif
#if GROUP == 5
    S2_GROUP(5),
#else
    S2_NONE,
#endif
#if GROUP == 6
    S2_GROUP(6),
#else
    S2_NONE,
#endif
#if GROUP == 7
    S2_GROUP(7),
#else
    S2_NONE,
#endif
};
#else
static const CaseFn kFns[kNbTypes][2][kNbTypes] = {S2_GROUP(0), S2_GROUP(1), S2_GROUP(2), S2_GROUP(3),
                                                   S2_GROUP(4), S2_GROUP(5), S2_GROUP(6), S2_GROUP(7)};
#endif

static int typeIndex(const std::string &s) {
  for (int i = 0; i < kNbTypes; ++i)
    if (s == kTypeNames[i]) return i;
  return -1;
}

static void runHistory(const History &h) {
  std::fprintf(stderr, "@@ %s\n", h.id.c_str());  // lets the runner attribute sanitizer reports to a case
  for (size_t i = 0; i < h.lines.size(); ++i) {
    G() = Globals();
    const std::string &line = h.lines[i];
    std::vector<std::string> tk = split(line);
    if (tk.size() != 8 || tk[0] != "case") {
      std::printf("X %s | %s | res=skip:syntax\n", h.id.c_str(), line.c_str());
      continue;
    }
    int t = tk[1] == "NTR" ? 0 : tk[1] == "TR" ? 1 : -1;
    int ka = typeIndex(tk[2]), kb = typeIndex(tk[5]);
    if (t < 0 || ka < 0 || kb < 0 || kFns[ka][t][kb] == nullptr) {
      std::printf("X %s | %s | res=skip:not-in-this-binary\n", h.id.c_str(), line.c_str());
      continue;
    }
    kFns[ka][t][kb](h.id, line, tk[3], std::atol(tk[4].c_str()), tk[6], std::atol(tk[7].c_str()));
  }
}

int main(int argc, char **argv) {
  if (argc > 1 && std::string(argv[1]) == "--types") {
    for (int i = 0; i < kNbTypes; ++i) std::printf("%s\n", kTypeNames[i]);
    return 0;
  }
  FILE *in = argc > 1 ? std::fopen(argv[1], "r") : stdin;
  if (!in) return 2;
  std::vector<History> hs = readHistories(in);
  int crashes = runHistoriesForked(hs, &runHistory);
  std::printf("END crashes=%d\n", crashes);
  return 0;
}
