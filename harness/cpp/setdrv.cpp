// Set correspondence driver: executes operation scripts on the real amc::FlatSet / amc::SmallSet (headers of the
// tree designated by AMC_REPO, /repo by default) side by side with a real std::set<int, SameComparator> constructed
// with the same comparator state, prints one transcript line per operation and evaluates the direct oracles of
// C03 (FlatSet = std::set), C04 (SmallSet = std::set), C11 (SmallSet iterator contract), C12 (hint = plain insert),
// C19 (comparator call bounds) and the ledgers of C02 / C06.  Needs C++17 (SmallSet, node handles).
//
// Script syntax (one operation per line, `H <id>` starts a history, a first token `!k` arms the throw countdown):
//   a, b = pool index 0..2; V = int; VALS = `1,2,3` or `-`; H, H1, H2 = position in iteration order, 0..size (size = end())
//   ctor_default a | ctor_range a VALS | ctor_il a VALS | ctor_copy a b | ctor_move a b | dtor a
//   from_vector a VALS | assign_vector a VALS | steal_vector a            (FlatSet only, otherwise skip:na)
//   assign_il a VALS
//   insert a V | insert_rv a V | emplace a V                              -> ins:<idx>:<0|1>
//   insert_hint a H V | emplace_hint a H V                                -> idx:<idx>
//   insert_range a VALS | insert_il a VALS                                -> ok
//   extract_key a V | extract_pos a H                                     -> node:<value>|node:empty  (kept in node slot a)
//   insert_node a b                                                       -> nins:<idx>:<0|1>:<node-after: empty|value>
//   insert_node_hint a b H                                                -> nidx:<idx>:<node-after>
//   erase_key a V -> n:<count> | erase_pos a H -> idx:<idx> | erase_range a H1 H2 -> idx:<idx>
//   clear a | swap a b | copy_assign a b | move_assign a b
//   find a V -> idx:<idx> | count a V -> n:<n> | contains a V -> b:<0|1> | lb a V | ub a V -> idx:<idx> | eqr a V -> rng:<i>:<j>
//   find_het a V -> het:<find idx>:<count>:<contains>:<lb>:<ub>           (transparent configuration only)
//   merge a b | merge_other a VALS -> left:<what stays in the temporary set of the other type>
//   cmp a b -> cmp:<==><!=><<><<=><>><>=>
//   walk a -> walk:<n>:<vals> | rwalk a -> walk:<n>:<vals>
//   erase_loop a K -> loop:<iterations>:<erased>
// An index <idx> is the position of the returned iterator in the iteration order of the set AFTER the call (raw order
// of the inline storage for an inline SmallSet); size() stands for end(); -1 = the iterator is neither end() nor an
// element.  Preconditions not met => `skip:<reason>` and no effect.
//
// Transcript (stdout), fields separated by " | ":
//   B <hid>
//   T <hid> <step> | <script line> | <res> | <set0> | <set1> | <set2> | cmp=<n> | al=<alloc events or -> | ev=<7 deltas> te=<n>
//       <setk> = dead | <size>;<flat|small|large>;<vals in iteration order or ->
//       cmp    = comparator calls made by the amc operation itself (the counter is switched off for the reference)
//       ev     = value-ctor, default-ctor, copy-ctor, move-ctor, copy-assign, move-assign, dtor of instrumented elements
//   ORACLE <hid> <step|end> <PROP>:<message>
//   M <hid> hintmax=<max comparator calls seen for an insertion with a correct hint, -1 if none>
//   E <hid> | live=<n> blocks=<n>
//   CRASH hist=<hid> status=...            (from runHistoriesForked)
// lib/setrun.py parses exactly this (cmp= is its own field: parts[3:6] are the sets, parts[6] cmp, parts[-2] al, parts[-1] ev/te).
#include <algorithm>
#include <cassert>
#include <cstddef>
#include <cstdint>
#include <functional>
#include <initializer_list>
#include <iterator>
#include <limits>
#include <memory>
#include <optional>
#include <set>
#include <tuple>
#include <utility>
#include <variant>
#include <vector>

#include "common.hpp"

#ifndef AMC_NONSTD_FEATURES
#define AMC_NONSTD_FEATURES
#endif
#define private public
#define protected public
#include <amc/fixedcapacityvector.hpp>
#include <amc/flatset.hpp>
#include <amc/smallset.hpp>
#include <amc/smallvector.hpp>
#include <amc/vector.hpp>
#undef private
#undef protected

namespace vf {
template <class T, bool W>
bool LedgerAlloc<T, W>::amc_is_tr() {
  return amc::is_trivially_relocatable<T>::value;
}

// ---------------------------------------------------------------------------------------------
// Counting comparators.  The counter only runs while the amc operation executes (cmpOn).
inline long &cmpCalls() {
  static long n = 0;
  return n;
}
inline bool &cmpOn() {
  static bool b = false;
  return b;
}
inline void tickCmp() {
  if (cmpOn()) ++cmpCalls();
}
inline int cv(int x) { return x; }
template <int C>
int cv(const El<C> &e) {
  e.chk("compare");
  return e.v;
}
inline int valOf(int x) { return x; }
template <int C>
int valOf(const El<C> &e) {
  return e.value();
}

struct CLess {
  template <class A, class B>
  bool operator()(const A &a, const B &b) const {
    tickCmp();
    return cv(a) < cv(b);
  }
};
struct CGreater {
  template <class A, class B>
  bool operator()(const A &a, const B &b) const {
    tickCmp();
    return cv(a) > cv(b);
  }
};
// equivalence classes of 3 consecutive ints
struct Coarse {
  template <class A, class B>
  bool operator()(const A &a, const B &b) const {
    tickCmp();
    return cv(a) / 3 < cv(b) / 3;
  }
};
// stateful: a default constructed object behaves like less on small ints, the driver uses ModLess(5)
struct ModLess {
  int k;
  ModLess() : k(1000003) {}
  explicit ModLess(int k_) : k(k_) {}
  template <class A, class B>
  bool operator()(const A &a, const B &b) const {
    tickCmp();
    return (cv(a) % k) < (cv(b) % k);
  }
};
// transparent, like std::less<>
struct TLess {
  using is_transparent = void;
  template <class A, class B>
  bool operator()(const A &a, const B &b) const {
    tickCmp();
    return a < b;
  }
};
struct IntKey {
  int v;
};
inline bool operator<(const IntKey &a, int b) { return a.v < b; }
inline bool operator<(int a, const IntKey &b) { return a < b.v; }

template <class C>
struct CmpTraits {
  static const bool stateful = false;
  static const bool transp = false;
  static C make() { return C(); }
};
template <>
struct CmpTraits<ModLess> {
  static const bool stateful = true;
  static const bool transp = false;
  static ModLess make() { return ModLess(5); }
};
template <>
struct CmpTraits<TLess> {
  static const bool stateful = false;
  static const bool transp = true;
  static TLess make() { return TLess(); }
};

template <class T, class F>
bool withIL(const std::vector<int> &v, F &&f) {
  switch (v.size()) {
    case 0: f(std::initializer_list<T>{}); return true;
    case 1: f(std::initializer_list<T>{T(v[0])}); return true;
    case 2: f(std::initializer_list<T>{T(v[0]), T(v[1])}); return true;
    case 3: f(std::initializer_list<T>{T(v[0]), T(v[1]), T(v[2])}); return true;
    case 4: f(std::initializer_list<T>{T(v[0]), T(v[1]), T(v[2]), T(v[3])}); return true;
    case 5: f(std::initializer_list<T>{T(v[0]), T(v[1]), T(v[2]), T(v[3]), T(v[4])}); return true;
    case 6: f(std::initializer_list<T>{T(v[0]), T(v[1]), T(v[2]), T(v[3]), T(v[4]), T(v[5])}); return true;
    case 7: f(std::initializer_list<T>{T(v[0]), T(v[1]), T(v[2]), T(v[3]), T(v[4]), T(v[5]), T(v[6])}); return true;
    case 8:
      f(std::initializer_list<T>{T(v[0]), T(v[1]), T(v[2]), T(v[3]), T(v[4]), T(v[5]), T(v[6]), T(v[7])});
      return true;
    default: return false;
  }
}

inline long clog2(long n) {  // smallest c with 2^c >= n
  long c = 0;
  while ((1L << c) < n) ++c;
  return c;
}

// ---------------------------------------------------------------------------------------------
template <class Cfg>
struct Driver {
  using S = typename Cfg::S;
  using T = typename S::value_type;
  using Cmp = typename Cfg::Cmp;
  using CT = CmpTraits<Cmp>;
  using R = std::set<int, Cmp>;
  using It = typename S::const_iterator;
  using RIt = typename R::const_iterator;
  using Node = typename S::node_type;
  using RNode = typename R::node_type;
  static constexpr int K = 3;
  static constexpr bool inst = ElInfo<T>::instrumented;
  static constexpr bool isFlat = Cfg::isFlat;
  static const char *base() { return isFlat ? "C03" : "C04"; }
  static const char *iterProp() { return isFlat ? "C03" : "C11"; }

  typename std::aligned_storage<sizeof(S), alignof(S)>::type raw[K];
  bool alive[K];
  bool broken[K];  // contents left in an unspecified (basic guarantee) state by an injected exception
  R ref[K];
  Node node[K];
  RNode rnode[K];
  long tempsAlive;
  long hintMax;
  bool injectedSeen;  // an injected / allocation exception happened in this history
  bool movedSeen;     // a moved-from element has been visible (reported once: it then travels between sets)
  bool withinN;       // C05 ghost: no set of this history has held more than N elements so far
  std::vector<std::string> oracle;
  std::string hid;
  int step;

  S &v(int k) { return *reinterpret_cast<S *>(&raw[k]); }
  static Cmp mkCmp() { return CT::make(); }
  static R mkRef() { return R(mkCmp()); }
  static R mkRef(const std::vector<int> &vals) {
    R r(mkCmp());
    r.insert(vals.begin(), vals.end());
    return r;
  }

  Driver() : tempsAlive(0), hintMax(-1), injectedSeen(false), movedSeen(false), withinN(true), step(0) {
    for (int k = 0; k < K; ++k) {
      alive[k] = false;
      broken[k] = false;
      ref[k] = mkRef();
    }
  }

  void fail(const char *prop, const std::string &msg) { oracle.push_back(std::string(prop) + ":" + msg); }

  // ---- walking a set defensively
  static bool walkF(const S &s, std::vector<int> &out, std::string &why) {
    out.clear();
    try {
      long guard = static_cast<long>(s.size()) + 8, n = 0;
      for (It it = s.begin(); it != s.end(); ++it) {
        if (++n > guard) {
          why = "walking from begin() does not reach end() within size()+8 steps";
          return false;
        }
        out.push_back(valOf(*it));
      }
    } catch (const std::bad_variant_access &) {
      why = "bad_variant_access while iterating";
      return false;
    } catch (const std::exception &e) {
      why = std::string("exception while iterating: ") + e.what();
      return false;
    }
    return true;
  }
  static bool walkR(const S &s, std::vector<int> &out, std::string &why) {
    out.clear();
    try {
      long guard = static_cast<long>(s.size()) + 8, n = 0;
      for (typename S::const_reverse_iterator it = s.rbegin(); it != s.rend(); ++it) {
        if (++n > guard) {
          why = "walking from rbegin() does not reach rend() within size()+8 steps";
          return false;
        }
        out.push_back(valOf(*it));
      }
    } catch (const std::bad_variant_access &) {
      why = "bad_variant_access while iterating backwards";
      return false;
    } catch (const std::exception &e) {
      why = std::string("exception while iterating backwards: ") + e.what();
      return false;
    }
    return true;
  }
  // position of an iterator in iteration order; size() for end(); -1 when it is neither
  static long locate(const S &s, const It &it) {
    long i = 0, guard = static_cast<long>(s.size()) + 8;
    for (It j = s.begin(); j != s.end() && i <= guard; ++j, ++i)
      if (j == it) return i;
    if (it == s.end()) return static_cast<long>(s.size());
    return -1;
  }
  static It iterAt(const S &s, long h) {
    It it = s.begin();
    while (h-- > 0) ++it;
    return it;
  }
  static RIt refAt(const R &r, long h) {
    RIt it = r.begin();
    while (h-- > 0 && it != r.end()) ++it;
    return it;
  }
  static long refIdx(const R &r, RIt it) { return static_cast<long>(std::distance(r.begin(), it)); }
  static bool equiv(int x, int y) {
    Cmp c = mkCmp();
    return !c(x, y) && !c(y, x);
  }

  std::string describe(int k) {
    if (!alive[k]) return "dead";
    S &x = v(k);
    std::vector<int> c;
    std::string why;
    std::ostringstream os;
    os << static_cast<long>(x.size()) << ";" << Cfg::state(x) << ";";
    if (walkF(x, c, why))
      os << joinInts(c);
    else
      os << "?";
    return os.str();
  }

  struct Snap {
    bool alive, ok, small;
    long size;
    std::vector<int> vals;
  };
  Snap snap(int k) {
    Snap s;
    s.alive = alive[k];
    s.ok = false;
    s.small = false;
    s.size = 0;
    if (!alive[k]) return s;
    std::string why;
    s.ok = walkF(v(k), s.vals, why);
    s.small = Cfg::small(v(k));
    s.size = static_cast<long>(v(k).size());
    return s;
  }

  struct Ev {
    long valC, defC, copyC, moveC, copyA, moveA, dtor;
  };
  static Ev evNow() {
    Ev e = {G().nValC, G().nDefC, G().nCopyC, G().nMoveC, G().nCopyA, G().nMoveA, G().nDtor};
    return e;
  }

  static std::string classify() {
    try {
      throw;
    } catch (const std::bad_variant_access &) {
      return "bad_variant_access";
    } catch (const std::bad_optional_access &) {
      return "bad_optional_access";
    } catch (const std::out_of_range &) {
      return "out_of_range";
    } catch (const std::overflow_error &) {
      return "overflow_error";
    } catch (const std::bad_alloc &) {
      return "bad_alloc";
    } catch (const std::runtime_error &e) {
      return std::strncmp(e.what(), "injected", 8) == 0 ? "injected" : "runtime_error";
    } catch (...) {
      return "other";
    }
  }

  void destroySlot(int k) {
    if (alive[k]) {
      v(k).~S();
      alive[k] = false;
    }
    ref[k] = mkRef();
    broken[k] = false;
  }
  std::string nodeStr(int k) { return node[k].empty() ? std::string("empty") : std::to_string(valOf(node[k].value())); }
  void resyncNode(int k) {
    rnode[k] = RNode();
    if (!node[k].empty()) {
      R t = mkRef();
      t.insert(valOf(node[k].value()));
      rnode[k] = t.extract(t.begin());
    }
  }
  void checkNode(int k, const char *what) {
    bool e = node[k].empty(), re = rnode[k].empty();
    if (e != re) {
      fail(base(), std::string(what) + ": node is " + (e ? "empty" : "holding " + nodeStr(k)) + " where std::set's node is " +
                       (re ? std::string("empty") : "holding " + std::to_string(rnode[k].value())));
      resyncNode(k);
    } else if (!e && valOf(node[k].value()) != rnode[k].value()) {
      fail(base(), std::string(what) + ": node holds " + nodeStr(k) + " where std::set's node holds " + std::to_string(rnode[k].value()));
      resyncNode(k);
    }
  }

  // Run one script line; prints the transcript line.
  void runLine(const std::string &line) {
    std::vector<std::string> tk = split(line);
    if (tk.empty()) return;
    long inject = -1;
    size_t t0 = 0;
    if (tk[0][0] == '!') {
      inject = std::atol(tk[0].c_str() + 1);
      t0 = 1;
      if (tk.size() < 2) return;
    }
    const std::string op = tk[t0];
    auto A = [&](size_t i) -> const std::string & {
      static const std::string zero = "0";
      return t0 + i < tk.size() ? tk[t0 + i] : zero;
    };
    auto I = [&](size_t i) -> long { return std::atol(A(i).c_str()); };
    int a = static_cast<int>(I(1));
    if (a < 0 || a >= K) a = 0;
    oracle.clear();
    G().allocEvents.clear();
    ++step;

    Snap before[K];
    for (int k = 0; k < K; ++k) before[k] = snap(k);
    long errBefore = G().nErrors;
    std::string res = "ok";
    bool threw = false, skipped = false;
    std::string exn;
    long cmpN = 0, teN = 0;
    bool armed = false;
    const bool hintOp = op == "insert_hint" || op == "emplace_hint";
    const char *cprop = hintOp ? "C12" : base();  // property blamed for a content difference caused by this operation

    std::unique_ptr<T> tmp;
    std::vector<T> srcT;
    std::vector<int> srcI;
    Ev ev0 = evNow(), ev1 = ev0;
    auto mkTmp = [&](int val) {
      tmp.reset(new T(val));
      ++tempsAlive;
    };
    auto mkSrc = [&]() {
      srcT.reserve(srcI.size());
      for (size_t i = 0; i < srcI.size(); ++i) srcT.emplace_back(srcI[i]);
      tempsAlive += static_cast<long>(srcT.size());
    };
    auto arm = [&]() {
      armed = true;
      ev0 = evNow();
      G().throwingEvents = 0;
      G().countdown = inject;
      cmpCalls() = 0;
      cmpOn() = true;
    };
    auto disarm = [&]() {
      if (!armed) return;
      armed = false;
      cmpOn() = false;
      G().countdown = -1;
      cmpN = cmpCalls();
      teN = G().throwingEvents;
      ev1 = evNow();
    };
    R &r = ref[a];
    const long sz = before[a].alive ? before[a].size : 0;
    const bool wasSmall = before[a].alive && before[a].small;
    const long N = Cfg::N;

    // C19 bounds
    auto c19lookup = [&](const char *what) {
      if (isFlat || (Cfg::flatBacked && !wasSmall)) {
        long bound = 2 * clog2(sz + 1) + 4;
        if (cmpN > bound)
          fail("C19", std::string(what) + " on " + std::to_string(sz) + " elements made " + std::to_string(cmpN) + " comparator calls, bound " + std::to_string(bound));
      } else if (wasSmall) {
        long bound = 2 * N + 2;
        if (cmpN > bound)
          fail("C19", std::string(what) + " on an inline set of " + std::to_string(sz) + " elements made " + std::to_string(cmpN) + " comparator calls, bound 2N+2 = " + std::to_string(bound));
      }
    };
    // an iterator that must designate an element equivalent to `val`
    auto checkElemIter = [&](const char *prop, const It &it, long idx, int val, const std::string &what) {
      long n = static_cast<long>(v(a).size());
      if (idx < 0) {
        fail(prop, what + " returned an iterator that is neither end() nor an element of the set");
      } else if (idx >= n) {
        fail(prop, what + " returned end() although an element equivalent to " + std::to_string(val) + " is expected");
      } else {
        int got = valOf(*it);
        if (!equiv(got, val)) fail(prop, what + " returned an iterator to " + std::to_string(got) + ", not equivalent to " + std::to_string(val));
      }
    };
    // an iterator returned by a lookup: compared with the reference iterator
    auto checkLookupIter = [&](const It &it, long idx, RIt rit, const std::string &what) {
      long n = static_cast<long>(v(a).size());
      bool rEnd = rit == r.end();
      if (idx < 0) {
        fail(iterProp(), what + " returned an iterator that is neither end() nor an element of the set");
      } else if (rEnd != (idx >= n)) {
        fail(base(), what + (rEnd ? " returned an element where std::set returns end()" : " returned end() where std::set returns an element"));
      } else if (!rEnd) {
        int got = valOf(*it);
        if (got != *rit) fail(base(), what + " designates " + std::to_string(got) + ", std::set designates " + std::to_string(*rit));
        if (!Cfg::small(v(a)) && idx != refIdx(r, rit))
          fail(base(), what + " returned position " + std::to_string(idx) + ", std::set " + std::to_string(refIdx(r, rit)));
      }
    };

#define NEED(cond, why)                  \
  if (!(cond)) {                         \
    skipped = true;                      \
    res = std::string("skip:") + (why);  \
    return;                              \
  }
#define NEED_ALIVE(k) NEED(alive[k], "dead")
#define NEED_POOL(b) NEED((b) >= 0 && (b) < K, "pre")

    auto body = [&]() {
      if (op == "ctor_default") {
        destroySlot(a);
        arm();
        if constexpr (CT::stateful) {
          new (&raw[a]) S(mkCmp());
        } else {
          new (&raw[a]) S();
        }
        disarm();
        alive[a] = true;
      } else if (op == "ctor_range") {
        srcI = parseInts(A(2));
        mkSrc();
        destroySlot(a);
        arm();
        if constexpr (CT::stateful) {
          new (&raw[a]) S(srcT.begin(), srcT.end(), mkCmp());
        } else {
          new (&raw[a]) S(srcT.begin(), srcT.end());
        }
        disarm();
        alive[a] = true;
        ref[a].insert(srcI.begin(), srcI.end());
      } else if (op == "ctor_il") {
        srcI = parseInts(A(2));
        NEED(srcI.size() <= 8, "il-size");
        destroySlot(a);
        withIL<T>(srcI, [&](std::initializer_list<T> il) {
          arm();
          if constexpr (CT::stateful) {
            new (&raw[a]) S(il, mkCmp());
          } else {
            new (&raw[a]) S(il);
          }
          disarm();
        });
        alive[a] = true;
        ref[a].insert(srcI.begin(), srcI.end());
      } else if (op == "ctor_copy") {
        int b = static_cast<int>(I(2));
        NEED(b >= 0 && b < K && b != a, "pre");
        NEED_ALIVE(b);
        destroySlot(a);
        arm();
        new (&raw[a]) S(v(b));
        disarm();
        alive[a] = true;
        ref[a] = ref[b];
        broken[a] = broken[b];
      } else if (op == "ctor_move") {
        int b = static_cast<int>(I(2));
        NEED(b >= 0 && b < K && b != a, "pre");
        NEED_ALIVE(b);
        destroySlot(a);
        arm();
        new (&raw[a]) S(std::move(v(b)));
        disarm();
        alive[a] = true;
        ref[a] = std::move(ref[b]);
        ref[b] = mkRef();
        broken[a] = broken[b];
        broken[b] = false;
        if (!v(b).empty()) {
          std::vector<int> c;
          std::string why;
          walkF(v(b), c, why);
          fail(base(), "moved-from set not empty after move construction: [" + joinInts(c) + "]");
          ref[b] = mkRef(c);
        }
      } else if (op == "dtor") {
        NEED_ALIVE(a);
        arm();
        v(a).~S();
        alive[a] = false;
        disarm();
        destroySlot(a);
      } else if (op == "from_vector" || op == "assign_vector") {
        if constexpr (isFlat) {
          using VT = typename S::vector_type;
          srcI = parseInts(A(2));
          NEED(Cfg::cap == 0 || static_cast<long>(srcI.size()) <= Cfg::cap, "cap");
          if (op == "from_vector") {
            destroySlot(a);
            VT vt;
            for (size_t i = 0; i < srcI.size(); ++i) vt.emplace_back(srcI[i]);
            arm();
            if constexpr (CT::stateful) {
              new (&raw[a]) S(std::move(vt), mkCmp());
            } else {
              new (&raw[a]) S(std::move(vt));
            }
            disarm();
            alive[a] = true;
          } else {
            NEED_ALIVE(a);
            VT vt;
            for (size_t i = 0; i < srcI.size(); ++i) vt.emplace_back(srcI[i]);
            arm();
            v(a) = std::move(vt);
            disarm();
            r.clear();
            broken[a] = false;
          }
          ref[a].insert(srcI.begin(), srcI.end());
        } else {
          NEED(false, "na");
        }
      } else if (op == "steal_vector") {
        if constexpr (isFlat) {
          using VT = typename S::vector_type;
          NEED_ALIVE(a);
          std::vector<int> got;
          arm();
          {
            VT vt = v(a).steal_vector();
            disarm();
            for (auto it = vt.begin(); it != vt.end(); ++it) got.push_back(valOf(*it));
          }
          r.clear();
          res = "vals:" + joinInts(got);
          if (before[a].ok && got != before[a].vals && !broken[a])
            fail(base(), "steal_vector returned [" + joinInts(got) + "], the set held [" + joinInts(before[a].vals) + "]");
          broken[a] = false;
        } else {
          NEED(false, "na");
        }
      } else if (op == "assign_il") {
        NEED_ALIVE(a);
        srcI = parseInts(A(2));
        NEED(srcI.size() <= 8, "il-size");
        withIL<T>(srcI, [&](std::initializer_list<T> il) {
          arm();
          v(a) = il;
          disarm();
        });
        r.clear();
        r.insert(srcI.begin(), srcI.end());
        broken[a] = false;
      } else if (op == "insert" || op == "insert_rv" || op == "emplace") {
        NEED_ALIVE(a);
        int val = static_cast<int>(I(2));
        if (op != "emplace") mkTmp(val);
        arm();
        std::pair<It, bool> pr = op == "insert"      ? v(a).insert(static_cast<const T &>(*tmp))
                                 : op == "insert_rv" ? v(a).insert(std::move(*tmp))
                                                     : v(a).emplace(val);
        disarm();
        std::pair<RIt, bool> rr = r.insert(val);
        long idx = locate(v(a), pr.first);
        res = "ins:" + std::to_string(idx) + ":" + (pr.second ? "1" : "0");
        if (!broken[a]) {
          checkElemIter(iterProp(), pr.first, idx, val, op);
          if (pr.second != rr.second)
            fail(base(), op + " reported inserted=" + std::to_string(pr.second) + ", std::set " + std::to_string(rr.second));
          if (idx >= 0 && idx < static_cast<long>(v(a).size())) {
            int got = valOf(*pr.first);
            if (got != *rr.first) fail(base(), op + " returned an iterator to " + std::to_string(got) + ", std::set to " + std::to_string(*rr.first));
            if (!Cfg::small(v(a)) && idx != refIdx(r, rr.first))
              fail(base(), op + " returned position " + std::to_string(idx) + ", std::set " + std::to_string(refIdx(r, rr.first)));
          }
          if (isFlat || !wasSmall) c19lookup(op.c_str());  // an inline insertion may grow into the large state
        }
      } else if (hintOp) {
        NEED_ALIVE(a);
        long h = I(2);
        int val = static_cast<int>(I(3));
        NEED(h >= 0 && h <= sz, "pre");
        // a correct hint: the lower bound position of the value (which is the equivalent element when present)
        bool correct = !wasSmall && h == refIdx(r, r.lower_bound(val));
        if (op == "insert_hint") mkTmp(val);
        It hint = iterAt(v(a), h);
        arm();
        It it = op == "insert_hint" ? v(a).insert(hint, static_cast<const T &>(*tmp)) : v(a).emplace_hint(hint, val);
        disarm();
        r.insert(val);  // C12: same as the plain insertion
        long idx = locate(v(a), it);
        res = "idx:" + std::to_string(idx);
        if (!broken[a]) {
          checkElemIter("C12", it, idx, val, op);
          RIt rit = r.find(val);
          if (idx >= 0 && idx < static_cast<long>(v(a).size()) && rit != r.end()) {
            int got = valOf(*it);
            if (got != *rit) fail("C12", op + " returned an iterator to " + std::to_string(got) + ", plain insertion gives " + std::to_string(*rit));
            if (!Cfg::small(v(a)) && idx != refIdx(r, rit))
              fail("C12", op + " returned position " + std::to_string(idx) + ", expected " + std::to_string(refIdx(r, rit)));
          }
          if (isFlat) {
            if (correct) {
              if (cmpN > hintMax) hintMax = cmpN;
              if (cmpN > 6)
                fail("C19", op + " with a correct hint on " + std::to_string(sz) + " elements made " + std::to_string(cmpN) + " comparator calls, bound 6");
            } else {
              c19lookup(op.c_str());
            }
          }
        }
      } else if (op == "insert_range" || op == "insert_il") {
        NEED_ALIVE(a);
        srcI = parseInts(A(2));
        if (op == "insert_range") {
          mkSrc();
          arm();
          v(a).insert(srcT.begin(), srcT.end());
          disarm();
        } else {
          NEED(srcI.size() <= 8, "il-size");
          withIL<T>(srcI, [&](std::initializer_list<T> il) {
            arm();
            v(a).insert(il);
            disarm();
          });
        }
        r.insert(srcI.begin(), srcI.end());
      } else if (op == "extract_key") {
        NEED_ALIVE(a);
        int val = static_cast<int>(I(2));
        mkTmp(val);
        node[a] = Node();
        rnode[a] = RNode();
        arm();
        Node nd = v(a).extract(static_cast<const T &>(*tmp));
        disarm();
        node[a] = std::move(nd);
        rnode[a] = r.extract(val);
        res = "node:" + nodeStr(a);
        if (!broken[a]) {
          checkNode(a, "extract(key)");
          c19lookup("extract(key)");
        } else {
          resyncNode(a);
        }
      } else if (op == "extract_pos") {
        if constexpr (Cfg::hasExtractPos) {
          NEED_ALIVE(a);
          long h = I(2);
          NEED(h >= 0 && h < sz && before[a].ok, "pre");
          int x = before[a].vals[h];
          node[a] = Node();
          rnode[a] = RNode();
          It pos = iterAt(v(a), h);
          arm();
          Node nd = v(a).extract(pos);
          disarm();
          node[a] = std::move(nd);
          RIt rit = r.find(x);
          if (rit != r.end() && *rit == x) rnode[a] = r.extract(rit);
          res = "node:" + nodeStr(a);
          if (!broken[a]) {
            checkNode(a, "extract(position)");
          } else {
            resyncNode(a);
          }
        } else {
          NEED(false, "na");
        }
      } else if (op == "insert_node") {
        NEED_ALIVE(a);
        int b = static_cast<int>(I(2));
        NEED_POOL(b);
        bool had = !node[b].empty();
        int val = had ? valOf(node[b].value()) : 0;
        arm();
        auto irt = v(a).insert(std::move(node[b]));
        disarm();
        long idx = locate(v(a), irt.position);
        bool ins = irt.inserted;
        node[b] = std::move(irt.node);
        auto rr = r.insert(std::move(rnode[b]));
        rnode[b] = std::move(rr.node);
        res = "nins:" + std::to_string(idx) + ":" + (ins ? "1" : "0") + ":" + nodeStr(b);
        if (!broken[a]) {
          if (had) {
            checkElemIter(iterProp(), irt.position, idx, val, "insert(node)");
            if (!Cfg::small(v(a)) && idx >= 0 && idx != refIdx(r, rr.position))
              fail(base(), "insert(node) returned position " + std::to_string(idx) + ", std::set " + std::to_string(refIdx(r, rr.position)));
          } else if (idx != static_cast<long>(v(a).size())) {
            fail(iterProp(), "insert(empty node) did not return end()");
          }
          if (ins != rr.inserted)
            fail(base(), "insert(node) reported inserted=" + std::to_string(ins) + ", std::set " + std::to_string(rr.inserted));
          checkNode(b, "after insert(node)");
        } else {
          resyncNode(b);
        }
      } else if (op == "insert_node_hint") {
        NEED_ALIVE(a);
        int b = static_cast<int>(I(2));
        long h = I(3);
        NEED_POOL(b);
        NEED(h >= 0 && h <= sz, "pre");
        bool had = !node[b].empty();
        int val = had ? valOf(node[b].value()) : 0;
        It hint = iterAt(v(a), h);
        arm();
        It it = v(a).insert(hint, std::move(node[b]));
        disarm();
        long idx = locate(v(a), it);
        RIt rhint = wasSmall ? r.end() : refAt(r, h);
        RIt rit = r.insert(rhint, std::move(rnode[b]));
        res = "nidx:" + std::to_string(idx) + ":" + nodeStr(b);
        if (!broken[a]) {
          if (had) {
            checkElemIter("C12", it, idx, val, "insert(hint, node)");
            if (!Cfg::small(v(a)) && idx >= 0 && idx != refIdx(r, rit))
              fail("C12", "insert(hint, node) returned position " + std::to_string(idx) + ", std::set " + std::to_string(refIdx(r, rit)));
          } else if (idx != static_cast<long>(v(a).size())) {
            fail(iterProp(), "insert(hint, empty node) did not return end()");
          }
          checkNode(b, "after insert(hint, node)");
        } else {
          resyncNode(b);
        }
      } else if (op == "erase_key") {
        NEED_ALIVE(a);
        int val = static_cast<int>(I(2));
        mkTmp(val);
        arm();
        long n = static_cast<long>(v(a).erase(static_cast<const T &>(*tmp)));
        disarm();
        long rn = static_cast<long>(r.erase(val));
        res = "n:" + std::to_string(n);
        if (!broken[a]) {
          if (n != rn) fail(base(), "erase(key) returned " + std::to_string(n) + ", std::set " + std::to_string(rn));
          c19lookup("erase(key)");
        }
      } else if (op == "erase_pos") {
        NEED_ALIVE(a);
        long h = I(2);
        NEED(h >= 0 && h < sz && before[a].ok, "pre");
        int x = before[a].vals[h];
        It pos = iterAt(v(a), h);
        arm();
        It it = v(a).erase(pos);
        disarm();
        {
          RIt rit = r.find(x);
          if (rit != r.end() && *rit == x) r.erase(rit);
        }
        long idx = locate(v(a), it);
        res = "idx:" + std::to_string(idx);
        if (!broken[a]) {
          if (idx < 0) {
            fail(iterProp(), "erase(position) returned an iterator that is neither end() nor an element of the set");
          } else if (!wasSmall) {
            // the element that followed the erased one
            if (idx != h) {
              fail(iterProp(), "erase(position " + std::to_string(h) + ") returned position " + std::to_string(idx) + ", expected the following element");
            } else if (h + 1 < sz && valOf(*it) != before[a].vals[h + 1]) {
              fail(iterProp(), "erase(position) returned an iterator to " + std::to_string(valOf(*it)) + ", the following element was " + std::to_string(before[a].vals[h + 1]));
            }
          }
        }
      } else if (op == "erase_range") {
        NEED_ALIVE(a);
        long h1 = I(2), h2 = I(3);
        NEED(h1 >= 0 && h1 <= h2 && h2 <= sz && before[a].ok, "pre");
        It p1 = iterAt(v(a), h1), p2 = iterAt(v(a), h2);
        arm();
        It it = v(a).erase(p1, p2);
        disarm();
        for (long i = h1; i < h2; ++i) {
          RIt rit = r.find(before[a].vals[i]);
          if (rit != r.end() && *rit == before[a].vals[i]) r.erase(rit);
        }
        long idx = locate(v(a), it);
        res = "idx:" + std::to_string(idx);
        if (!broken[a]) {
          if (idx < 0) {
            fail(iterProp(), "erase(range) returned an iterator that is neither end() nor an element of the set");
          } else if (!wasSmall && idx != h1) {
            fail(iterProp(), "erase(range " + std::to_string(h1) + "," + std::to_string(h2) + ") returned position " + std::to_string(idx));
          }
        }
      } else if (op == "clear") {
        NEED_ALIVE(a);
        arm();
        v(a).clear();
        disarm();
        r.clear();
        broken[a] = false;
      } else if (op == "relocate") {
        // C14: a set type that declares itself trivially relocatable is moved to another address by a raw byte copy,
        // the source bytes are abandoned (poisoned) without running a destructor; the history continues on the copy
        int b = static_cast<int>(I(2));
        NEED_POOL(b);
        NEED_ALIVE(a);
        NEED(b != a && !alive[b], "pre");
        NEED(amc::is_trivially_relocatable<S>::value, "notTR");
        arm();
        std::memcpy(static_cast<void *>(&raw[b]), static_cast<const void *>(&raw[a]), sizeof(S));
        std::memset(static_cast<void *>(&raw[a]), 0xDD, sizeof(S));
        disarm();
        alive[b] = true;
        alive[a] = false;
        ref[b] = std::move(ref[a]);
        ref[a].clear();
        broken[b] = broken[a];
        broken[a] = false;
      } else if (op == "swap") {
        int b = static_cast<int>(I(2));
        NEED_POOL(b);
        NEED_ALIVE(a);
        NEED_ALIVE(b);
        arm();
        v(a).swap(v(b));
        disarm();
        if (a != b) {
          ref[a].swap(ref[b]);
          std::swap(broken[a], broken[b]);
        }
      } else if (op == "copy_assign") {
        int b = static_cast<int>(I(2));
        NEED_POOL(b);
        NEED_ALIVE(a);
        NEED_ALIVE(b);
        arm();
        v(a) = v(b);
        disarm();
        if (a != b) {
          r = ref[b];
          broken[a] = broken[b];
        }
      } else if (op == "move_assign") {
        int b = static_cast<int>(I(2));
        NEED(b >= 0 && b < K && b != a, "pre");
        NEED_ALIVE(a);
        NEED_ALIVE(b);
        arm();
        v(a) = std::move(v(b));
        disarm();
        r = std::move(ref[b]);
        ref[b] = mkRef();
        broken[a] = broken[b];
        broken[b] = false;
        if (!v(b).empty()) {
          std::vector<int> c;
          std::string why;
          walkF(v(b), c, why);
          fail(base(), "moved-from set not empty after move assignment: [" + joinInts(c) + "]");
          ref[b] = mkRef(c);
        }
      } else if (op == "find") {
        NEED_ALIVE(a);
        int val = static_cast<int>(I(2));
        mkTmp(val);
        arm();
        It it = v(a).find(static_cast<const T &>(*tmp));
        disarm();
        long idx = locate(v(a), it);
        res = "idx:" + std::to_string(idx);
        if (!broken[a]) {
          checkLookupIter(it, idx, r.find(val), "find");
          c19lookup("find");
        }
      } else if (op == "count" || op == "contains") {
        NEED_ALIVE(a);
        int val = static_cast<int>(I(2));
        mkTmp(val);
        long n;
        arm();
        if (op == "count") {
          n = static_cast<long>(v(a).count(static_cast<const T &>(*tmp)));
        } else {
          n = v(a).contains(static_cast<const T &>(*tmp)) ? 1 : 0;
        }
        disarm();
        long rn = static_cast<long>(r.count(val));
        res = (op == "count" ? "n:" : "b:") + std::to_string(n);
        if (!broken[a]) {
          if (n != rn) fail(base(), op + " returned " + std::to_string(n) + ", std::set " + std::to_string(rn));
          c19lookup(op.c_str());
        }
      } else if (op == "lb" || op == "ub") {
        if constexpr (isFlat) {
          NEED_ALIVE(a);
          int val = static_cast<int>(I(2));
          mkTmp(val);
          arm();
          It it = op == "lb" ? v(a).lower_bound(static_cast<const T &>(*tmp)) : v(a).upper_bound(static_cast<const T &>(*tmp));
          disarm();
          long idx = locate(v(a), it);
          res = "idx:" + std::to_string(idx);
          if (!broken[a]) {
            checkLookupIter(it, idx, op == "lb" ? r.lower_bound(val) : r.upper_bound(val), op == "lb" ? "lower_bound" : "upper_bound");
            c19lookup(op == "lb" ? "lower_bound" : "upper_bound");
          }
        } else {
          NEED(false, "na");
        }
      } else if (op == "eqr") {
        if constexpr (isFlat) {
          NEED_ALIVE(a);
          int val = static_cast<int>(I(2));
          mkTmp(val);
          arm();
          std::pair<It, It> pr = v(a).equal_range(static_cast<const T &>(*tmp));
          disarm();
          long i = locate(v(a), pr.first), j = locate(v(a), pr.second);
          res = "rng:" + std::to_string(i) + ":" + std::to_string(j);
          if (!broken[a]) {
            std::pair<RIt, RIt> rr = r.equal_range(val);
            long ri = refIdx(r, rr.first), rj = refIdx(r, rr.second);
            // an empty run is delimited by two equal iterators; std::set places it at the lower bound
            bool same = (ri == rj) ? (i == j && i >= 0) : (i == ri && j == rj);
            if (!same)
              fail(base(), "equal_range delimits [" + std::to_string(i) + "," + std::to_string(j) + "), std::set [" + std::to_string(ri) + "," + std::to_string(rj) + ")");
            c19lookup("equal_range");
          }
        } else {
          NEED(false, "na");
        }
      } else if (op == "find_het") {
        if constexpr (CT::transp && isFlat) {
          NEED_ALIVE(a);
          IntKey key = {static_cast<int>(I(2))};
          arm();
          It f = v(a).find(key);
          long c = static_cast<long>(v(a).count(key));
          bool ct = v(a).contains(key);
          It lb = v(a).lower_bound(key);
          It ub = v(a).upper_bound(key);
          disarm();
          long fi = locate(v(a), f), li = locate(v(a), lb), ui = locate(v(a), ub);
          res = "het:" + std::to_string(fi) + ":" + std::to_string(c) + ":" + (ct ? "1" : "0") + ":" + std::to_string(li) + ":" + std::to_string(ui);
          long rf = refIdx(r, r.find(key)), rc = static_cast<long>(r.count(key)), rl = refIdx(r, r.lower_bound(key)), ru = refIdx(r, r.upper_bound(key));
          if (fi != rf || c != rc || (ct ? 1 : 0) != rc || li != rl || ui != ru)
            fail(base(), "heterogeneous lookups give " + res + ", std::set het:" + std::to_string(rf) + ":" + std::to_string(rc) + ":" + std::to_string(rc) + ":" +
                             std::to_string(rl) + ":" + std::to_string(ru));
          long bound = 5 * (2 * clog2(sz + 1) + 4);
          if (cmpN > bound) fail("C19", "five heterogeneous lookups made " + std::to_string(cmpN) + " comparator calls, bound " + std::to_string(bound));
        } else {
          NEED(false, "na");
        }
      } else if (op == "merge") {
        int b = static_cast<int>(I(2));
        NEED(b >= 0 && b < K && b != a, "pre");
        NEED_ALIVE(a);
        NEED_ALIVE(b);
        arm();
        v(a).merge(v(b));
        disarm();
        r.merge(ref[b]);
      } else if (op == "merge_other") {
        NEED_ALIVE(a);
        using O = typename Cfg::Other;
        using OC = typename Cfg::OCmp;
        srcI = parseInts(A(2));
        NEED(Cfg::cap == 0 || static_cast<long>(srcI.size()) <= Cfg::cap, "cap");
        mkSrc();
        std::vector<int> left, order;
        {
          O o(srcT.begin(), srcT.end(), CmpTraits<OC>::make());
          for (auto it = o.begin(); it != o.end(); ++it) order.push_back(valOf(*it));
          arm();
          v(a).merge(o);
          disarm();
          for (auto it = o.begin(); it != o.end(); ++it) left.push_back(valOf(*it));
        }
        // The source must hold what a std::set ordered by the other comparator holds.  The order in which merge
        // offers the source elements is unspecified (an inline SmallSet iterates in insertion order), and it decides
        // which of several source elements equivalent for the target is transferred: the reference offers them in the
        // order the source iterates.
        std::set<int, OC> ro(CmpTraits<OC>::make());
        ro.insert(srcI.begin(), srcI.end());
        {
          std::vector<int> o2 = order, r2(ro.begin(), ro.end());
          std::sort(o2.begin(), o2.end());
          std::sort(r2.begin(), r2.end());
          if (o2 != r2 || (isFlat && order != std::vector<int>(ro.begin(), ro.end())))
            fail(base(), "a set of the other type built from the range holds [" + joinInts(order) + "], std::set [" + joinInts(std::vector<int>(ro.begin(), ro.end())) + "]");
        }
        std::vector<int> rleft;
        for (size_t i = 0; i < order.size(); ++i)
          if (!r.insert(order[i]).second) rleft.push_back(order[i]);
        res = "left:" + joinInts(left);
        if (!broken[a]) {
          std::vector<int> l2 = left, r2 = rleft;
          std::sort(l2.begin(), l2.end());
          std::sort(r2.begin(), r2.end());
          if (l2 != r2 || (isFlat && left != rleft))
            fail(base(), "merge from a set of another type leaves [" + joinInts(left) + "] in the source, std::set [" + joinInts(rleft) + "]");
        }
      } else if (op == "cmp") {
        int b = static_cast<int>(I(2));
        NEED_POOL(b);
        NEED_ALIVE(a);
        NEED_ALIVE(b);
        arm();
        const S &x = v(a), &y = v(b);
        char buf[8] = {x == y ? '1' : '0', x != y ? '1' : '0', x<y ? '1' : '0', x <= y ? '1' : '0', x> y ? '1' : '0',
                       x >= y ? '1' : '0', 0};
        disarm();
        const R &rx = ref[a], &ry = ref[b];
        char want[8] = {rx == ry ? '1' : '0', rx != ry ? '1' : '0', rx<ry ? '1' : '0', rx <= ry ? '1' : '0',
                        rx> ry ? '1' : '0', rx >= ry ? '1' : '0', 0};
        if (std::strcmp(buf, want) != 0 && !broken[a] && !broken[b])
          fail(base(), std::string("comparison operators ") + buf + " expected " + want);
        res = std::string("cmp:") + buf;
      } else if (op == "walk" || op == "rwalk") {
        NEED_ALIVE(a);
        std::vector<int> got;
        std::string why;
        arm();
        bool ok = op == "walk" ? walkF(v(a), got, why) : walkR(v(a), got, why);
        disarm();
        res = "walk:" + std::to_string(got.size()) + ":" + joinInts(got);
        if (!ok) {
          fail(iterProp(), why);
        } else if (!broken[a]) {
          if (static_cast<long>(got.size()) != static_cast<long>(v(a).size()))
            fail(iterProp(), op + " visited " + std::to_string(got.size()) + " elements, size() is " + std::to_string(v(a).size()));
          std::vector<int> want(r.begin(), r.end());
          if (op == "rwalk") {
            std::vector<int> fwd;
            if (walkF(v(a), fwd, why)) {
              std::reverse(fwd.begin(), fwd.end());
              if (fwd != got) fail(iterProp(), "rbegin()..rend() visits [" + joinInts(got) + "], not the reverse of begin()..end()");
            }
            std::reverse(want.begin(), want.end());
          }
          std::vector<int> g2 = got, w2 = want;
          if (Cfg::small(v(a))) {
            std::sort(g2.begin(), g2.end());
            std::sort(w2.begin(), w2.end());
          }
          if (g2 != w2) fail(iterProp(), op + " visited [" + joinInts(got) + "], std::set holds [" + joinInts(want) + "]");
        }
      } else if (op == "erase_loop") {
        NEED_ALIVE(a);
        long kdiv = I(2);
        NEED(kdiv >= 1, "pre");
        long iters = 0, erased = 0;
        const long guard = 4 * sz + 8;
        bool bad = false;
        arm();
        {
          S &s = v(a);
          for (It it = s.begin(); it != s.end();) {
            if (++iters > guard) {
              fail("C11", "erase loop does not terminate (more than 4*size+8 iterations)");
              bad = true;
              break;
            }
            if (locate(s, it) < 0) {
              fail(iterProp(), "erase loop: the iterator (returned by erase) is neither end() nor an element of the set");
              bad = true;
              break;
            }
            if (valOf(*it) % kdiv == 0) {
              it = s.erase(it);
              ++erased;
            } else {
              ++it;
            }
          }
        }
        disarm();
        for (RIt rit = r.begin(); rit != r.end();) {
          if (*rit % kdiv == 0) {
            rit = r.erase(rit);
          } else {
            ++rit;
          }
        }
        res = "loop:" + std::to_string(iters) + ":" + std::to_string(erased);
        if (!bad && !broken[a]) {
          if (iters != sz) fail(iterProp(), "erase loop ran " + std::to_string(iters) + " iterations over " + std::to_string(sz) + " elements");
          std::vector<int> now;
          std::string why;
          if (walkF(v(a), now, why)) {
            for (size_t i = 0; i < now.size(); ++i)
              if (now[i] % kdiv == 0) {
                fail(iterProp(), "erase loop left " + std::to_string(now[i]) + ", divisible by " + std::to_string(kdiv));
                break;
              }
          }
        }
      } else {
        skipped = true;
        res = "skip:unknown-op";
      }
    };
#undef NEED
#undef NEED_ALIVE
#undef NEED_POOL

    try {
      body();
    } catch (...) {
      threw = true;
      exn = classify();
      res = "threw:" + exn;
    }
    disarm();
    if (tmp) {
      tmp.reset();
      --tempsAlive;
    }
    tempsAlive -= static_cast<long>(srcT.size());
    srcT.clear();

    // -------- oracles on the implementation
    if (!skipped) {
      if (threw) {
        if (op.compare(0, 5, "ctor_") == 0 || op == "from_vector") alive[a] = false;
        bool limitErr = exn == "out_of_range";
        bool expected = exn == "injected" || exn == "bad_alloc" || (limitErr && Cfg::cap != 0);
        if (!expected) fail(exn == "bad_variant_access" || !isFlat ? "C11" : base(), op + " threw " + exn);
        if (!limitErr) injectedSeen = true;
        // resynchronise the references with what is left
        for (int k = 0; k < K; ++k) {
          if (!alive[k]) continue;
          std::vector<int> now;
          std::string why;
          if (!walkF(v(k), now, why)) {
            fail(iterProp(), "after " + exn + ": " + why);
            broken[k] = true;
            continue;
          }
          ref[k] = mkRef(now);
          std::vector<int> chk(ref[k].begin(), ref[k].end());
          std::vector<int> n2 = now;
          if (Cfg::small(v(k))) {
            std::sort(n2.begin(), n2.end());
            std::sort(chk.begin(), chk.end());
          }
          if (n2 != chk) {
            // the basic guarantee keeps the invariant of the class: what is left is a set (sorted under the comparator, no two
            // equivalent elements), whatever its elements are
            fail(limitErr ? base() : "C09", "after " + exn + " in " + op + " the set is not sorted and duplicate-free: [" + joinInts(now) + "] (set " + std::to_string(k) + ")");
            broken[k] = true;  // reported once: the following steps check memory safety and the ledgers
          }
          if (limitErr && before[k].alive && before[k].ok && now != before[k].vals && k != a && op != "merge")
            fail(base(), "a set not involved in the failed operation changed");
        }
        for (int k = 0; k < K; ++k) resyncNode(k);
      } else {
        for (int k = 0; k < K; ++k) {
          if (!alive[k]) continue;
          S &x = v(k);
          std::vector<int> now;
          std::string why;
          if (!walkF(x, now, why)) {
            fail(iterProp(), why + " (set " + std::to_string(k) + ")");
            broken[k] = true;
            continue;
          }
          if (broken[k]) {
            // judged again once what the set holds is a valid set content
            ref[k] = mkRef(now);
            std::vector<int> chk(ref[k].begin(), ref[k].end()), n2 = now;
            if (Cfg::small(x)) {
              std::sort(n2.begin(), n2.end());
              std::sort(chk.begin(), chk.end());
            }
            if (n2 == chk && static_cast<size_t>(x.size()) == now.size()) broken[k] = false;
            continue;
          }
          std::vector<int> want(ref[k].begin(), ref[k].end());
          bool bad = false;
          if (static_cast<long>(now.size()) != static_cast<long>(x.size())) {
            fail(iterProp(), "begin()..end() visits " + std::to_string(now.size()) + " elements, size() is " + std::to_string(x.size()) + " (set " + std::to_string(k) + ")");
            bad = true;
          }
          if (static_cast<size_t>(x.size()) != want.size() || x.empty() != want.empty()) {
            fail(cprop, "size()/empty() = " + std::to_string(x.size()) + "/" + std::to_string(x.empty()) + ", std::set " + std::to_string(want.size()) + "/" +
                            std::to_string(want.empty()) + " (set " + std::to_string(k) + ")");
            bad = true;
          }
          bool small = Cfg::small(x);
          std::vector<int> n2 = now, w2 = want;
          if (small) {
            std::sort(n2.begin(), n2.end());
            std::sort(w2.begin(), w2.end());
          }
          if (n2 != w2) {
            fail(cprop, "contents differ from std::set: got [" + joinInts(now) + "] expected [" + joinInts(want) + "] (set " + std::to_string(k) + ")");
            bad = true;
          }
          // invariant of the representation under the set's comparator
          Cmp c = mkCmp();
          if (!small) {
            for (size_t i = 0; i + 1 < now.size(); ++i)
              if (!c(now[i], now[i + 1])) {
                fail(cprop, "elements not strictly increasing under the comparator: [" + joinInts(now) + "] (set " + std::to_string(k) + ")");
                bad = true;
                break;
              }
          } else {
            bool dup = false;
            for (size_t i = 0; i < now.size() && !dup; ++i)
              for (size_t j = i + 1; j < now.size() && !dup; ++j)
                if (!c(now[i], now[j]) && !c(now[j], now[i])) dup = true;
            if (dup) {
              fail(cprop, "two equivalent elements in an inline set: [" + joinInts(now) + "] (set " + std::to_string(k) + ")");
              bad = true;
            }
            if (static_cast<long>(now.size()) > N) {
              fail(base(), "inline state with more than N elements (set " + std::to_string(k) + ")");
              bad = true;
            }
          }
          if (bad) {  // reported once: later steps are judged from what the set really holds
            ref[k] = mkRef(now);
            if (ref[k].size() != now.size()) broken[k] = true;  // not even a set: nothing to compare with until it is one again
          }
        }
      }
      // C02 / C06: ledgers
      if (G().nErrors != errBefore) {
        for (size_t i = 0; i < G().errors.size(); ++i) {
          const std::string &e = G().errors[i];
          fail(e.find("alloc") != std::string::npos ? "C06" : "C02", e);
        }
        G().errors.clear();
      }
      if (inst) {
        long expect = tempsAlive;
        for (int k = 0; k < K; ++k) {
          if (alive[k]) expect += static_cast<long>(v(k).size());
          if (!node[k].empty()) ++expect;
        }
        if (G().live != expect) {
          fail("C02", "live elements " + std::to_string(G().live) + " but sets and nodes hold " + std::to_string(expect) + (threw ? " (after an exception)" : ""));
          tempsAlive += G().live - expect;  // reported once
        }
        // the failed operation itself leaves no moved-from element visible (afterwards such an element travels between sets)
        if (threw && !movedSeen) {
          for (int k = 0; k < K && !movedSeen; ++k) {
            if (!alive[k]) continue;
            std::vector<int> now;
            std::string why;
            if (!walkF(v(k), now, why)) continue;
            for (size_t i = 0; i < now.size(); ++i)
              if (now[i] == kMoved) {
                fail("C09", "after " + exn + " in " + op + " visible element " + std::to_string(i) + " of set " + std::to_string(k) + " is moved-from: [" + joinInts(now) + "]");
                movedSeen = true;
                break;
              }
          }
          for (int k = 0; k < K && !movedSeen; ++k)
            if (!node[k].empty() && valOf(node[k].value()) == kMoved) {
              fail("C09", "after " + exn + " in " + op + " node " + std::to_string(k) + " holds a moved-from element");
              movedSeen = true;
            }
        }
        if (!threw && !injectedSeen) {
          for (int k = 0; k < K; ++k) {
            if (!alive[k] || broken[k]) continue;
            std::vector<int> now;
            std::string why;
            if (!walkF(v(k), now, why)) continue;
            for (size_t i = 0; i < now.size(); ++i)
              if (now[i] == kMoved) {
                fail("C02", "visible element " + std::to_string(i) + " is moved-from (set " + std::to_string(k) + ")");
                break;
              }
          }
          for (int k = 0; k < K; ++k)
            if (!node[k].empty() && valOf(node[k].value()) == kMoved) fail("C02", "node " + std::to_string(k) + " holds a moved-from element");
        }
      }
      // C05: while no set of this history has held more than N elements, every SmallSet stays in its inline state
      if (!isFlat) {
        if (op == "merge_other" || threw || injectedSeen) withinN = false;  // outside the promise's quantifier (conservative)
        for (int k = 0; k < K; ++k)
          if (alive[k] && static_cast<long>(v(k).size()) > N) withinN = false;
        if (withinN)
          for (int k = 0; k < K; ++k)
            if (alive[k] && !Cfg::small(v(k))) {
              fail("C05", "set " + std::to_string(k) + " left the inline state although no set of this history has held more than N elements");
              withinN = false;  // reported once
            }
      }
      // inline sets never allocate
      if (!isFlat && !threw && !G().allocEvents.empty()) {
        bool anyLarge = false;
        for (int k = 0; k < K; ++k)
          if ((before[k].alive && !before[k].small) || (alive[k] && !Cfg::small(v(k)))) anyLarge = true;
        // (a drained set may still give back the buffer of its backing set: only requests count)
        bool request = false;
        for (size_t i = 0; i < G().allocEvents.size(); ++i)
          if (G().allocEvents[i][0] != '-') request = true;
        if (request && !anyLarge && op != "merge_other") fail("C05", "allocator request although every set is and was inline: " + joinStr(G().allocEvents));
      }
    }

    // -------- transcript line
    std::ostringstream os;
    os << "T " << hid << " " << step << " | " << line << " | " << res;
    for (int k = 0; k < K; ++k) os << " | " << describe(k);
    os << " | cmp=" << cmpN;
    os << " | al=" << joinStr(G().allocEvents);
    os << " | ev=" << (ev1.valC - ev0.valC) << "," << (ev1.defC - ev0.defC) << "," << (ev1.copyC - ev0.copyC) << ","
       << (ev1.moveC - ev0.moveC) << "," << (ev1.copyA - ev0.copyA) << "," << (ev1.moveA - ev0.moveA) << ","
       << (ev1.dtor - ev0.dtor) << " te=" << teN;
    std::printf("%s\n", os.str().c_str());
    for (size_t i = 0; i < oracle.size(); ++i) std::printf("ORACLE %s %d %s\n", hid.c_str(), step, oracle[i].c_str());
  }

  void finish() {
    for (int k = 0; k < K; ++k) {
      node[k] = Node();
      rnode[k] = RNode();
    }
    for (int k = 0; k < K; ++k) destroySlot(k);
    oracle.clear();
    if (inst && G().live != tempsAlive) fail("C02", "elements alive after all sets are gone: " + std::to_string(G().live - tempsAlive));
    if (!G().blocks.empty()) fail("C06", "blocks outstanding after all sets are gone: " + std::to_string(G().blocks.size()));
    if (G().nErrors) {
      for (size_t i = 0; i < G().errors.size(); ++i) fail(G().errors[i].find("alloc") != std::string::npos ? "C06" : "C02", G().errors[i]);
    }
    std::printf("M %s hintmax=%ld\n", hid.c_str(), hintMax);
    std::printf("E %s | live=%ld blocks=%zu\n", hid.c_str(), G().live, G().blocks.size());
    for (size_t i = 0; i < oracle.size(); ++i) std::printf("ORACLE %s end %s\n", hid.c_str(), oracle[i].c_str());
  }
};

// ---------------------------------------------------------------------------------------------
// Configurations
template <class T_, class Cmp_, class Alloc_, class Vec_, class OCmp_, long Cap_ = 0, bool ExtractPos_ = true>
struct CfgFS {
  using Cmp = Cmp_;
  using OCmp = OCmp_;
  using S = amc::FlatSet<T_, Cmp_, Alloc_, Vec_>;
  using Other = amc::FlatSet<T_, OCmp_, Alloc_, Vec_>;  // merge from a set ordered differently
  static constexpr bool isFlat = true;
  static constexpr bool flatBacked = true;
  static constexpr bool hasExtractPos = ExtractPos_;
  static constexpr long N = 0;
  static constexpr long cap = Cap_;  // 0 = unlimited
  static bool small(const S &) { return false; }
  static const char *state(const S &) { return "flat"; }
};
template <class T_, long N_, class Cmp_, class Alloc_, class Set_, long N2_, class OCmp_, class OSet_, bool FlatBacked_>
struct CfgSS {
  using Cmp = Cmp_;
  using OCmp = OCmp_;
  using S = amc::SmallSet<T_, N_, Cmp_, Alloc_, Set_>;
  using Other = amc::SmallSet<T_, N2_, OCmp_, Alloc_, OSet_>;  // merge from a set of another N and comparator
  static constexpr bool isFlat = false;
  static constexpr bool flatBacked = FlatBacked_;
  static constexpr bool hasExtractPos = true;
  static constexpr long N = N_;
  static constexpr long cap = 0;
  static bool small(const S &s) { return s.isSmall(); }
  static const char *state(const S &s) { return s.isSmall() ? "small" : "large"; }
};

template <class Cfg>
int runConfig(const std::vector<History> &hs) {
  LedgerBasic::unit() = sizeof(typename Cfg::S::value_type);
  return runHistoriesForked(hs, [](const History &h) {
    G() = Globals();
    cmpCalls() = 0;
    cmpOn() = false;
    {
      Driver<Cfg> *d = new Driver<Cfg>();
      d->hid = h.id;
      std::printf("B %s\n", h.id.c_str());
      for (size_t i = 0; i < h.lines.size(); ++i) d->runLine(h.lines[i]);
      d->finish();
      delete d;
    }
  });
}

using AInt = amc::BasicAllocatorWrapper<int, LedgerBasic>;
using ANTR = amc::BasicAllocatorWrapper<El<0>, LedgerBasic>;
using ATR = amc::BasicAllocatorWrapper<El<1>, LedgerBasic>;
using LInt = LedgerAlloc<int, false>;
using LNTR = LedgerAlloc<El<0>, false>;

template <class T, class C, class Al>
using StdSet = std::set<T, C, Al>;

// FlatSet over amc::vector
template <class T, class C, class OC, class Al>
using FSamc = CfgFS<T, C, Al, amc::vector<T, Al>, OC>;
// SmallSet over std::set
template <class T, long N, class C, class OC, class Al, long N2>
using SSset = CfgSS<T, N, C, Al, std::set<T, C, Al>, N2, OC, std::set<T, OC, Al>, false>;
// SmallSet over FlatSet
template <class T, long N, class C, class OC, class Al, long N2>
using SSflat = CfgSS<T, N, C, Al, amc::FlatSet<T, C, Al>, N2, OC, amc::FlatSet<T, OC, Al>, true>;

struct Entry {
  const char *name;
  int (*run)(const std::vector<History> &);
};
}  // namespace vf

using namespace vf;
// The configuration table is split over translation units by -DGROUP=k to use all cores.
static const Entry kTable[] = {
#if GROUP == 0
    {"FS.amc.less", &runConfig<FSamc<int, CLess, CGreater, AInt> >},
    {"FS.amc.greater", &runConfig<FSamc<int, CGreater, CLess, AInt> >},
    {"FS.amc.transp", &runConfig<FSamc<int, TLess, CGreater, AInt> >},
#elif GROUP == 1
    {"FS.sv4.coarse", &runConfig<CfgFS<int, Coarse, AInt, amc::SmallVector<int, 4, AInt>, CGreater> >},
    {"FS.fcv16.mod", &runConfig<CfgFS<int, ModLess, amc::vec::EmptyAlloc, amc::FixedCapacityVector<int, 16>, CGreater, 16> >},
    // FlatSet::extract(const_iterator) needs a pointer-like vector iterator: not available over std::vector
    {"FS.std.less", &runConfig<CfgFS<int, CLess, LInt, std::vector<int, LInt>, CGreater, 0, true> >},
#elif GROUP == 2
    {"FS.amc.less.NTR", &runConfig<FSamc<El<0>, CLess, CGreater, ANTR> >},
    {"FS.amc.less.TR", &runConfig<FSamc<El<1>, CLess, CGreater, ATR> >},
#elif GROUP == 3
    {"SS.N1.set.less", &runConfig<SSset<int, 1, CLess, CGreater, AInt, 3> >},
    {"SS.N2.set.less", &runConfig<SSset<int, 2, CLess, CGreater, AInt, 4> >},
    {"SS.N3.set.less", &runConfig<SSset<int, 3, CLess, CGreater, AInt, 2> >},
#elif GROUP == 4
    {"SS.N3.set.coarse", &runConfig<SSset<int, 3, Coarse, CGreater, AInt, 2> >},
    {"SS.N4.set.mod", &runConfig<SSset<int, 4, ModLess, CGreater, AInt, 2> >},
    {"SS.N3.set.less.NTR", &runConfig<SSset<El<0>, 3, CLess, CGreater, LNTR, 2> >},
#elif GROUP == 5
    {"SS.N3.flat.less", &runConfig<SSflat<int, 3, CLess, CGreater, AInt, 2> >},
    {"SS.N2.flat.greater", &runConfig<SSflat<int, 2, CGreater, CLess, AInt, 4> >},
#elif GROUP == 6
    // instrumented elements over the other underlying vectors
    {"FS.sv3.less.NTR", &runConfig<CfgFS<El<0>, CLess, ANTR, amc::SmallVector<El<0>, 3, ANTR>, CGreater> >},
    {"FS.fcv16.less.NTR", &runConfig<CfgFS<El<0>, CLess, amc::vec::EmptyAlloc, amc::FixedCapacityVector<El<0>, 16>, CGreater, 16> >},
    {"FS.std.less.NTR", &runConfig<CfgFS<El<0>, CLess, LNTR, std::vector<El<0>, LNTR>, CGreater, 0, true> >},
#elif GROUP == 7
    {"SS.N3.flat.less.NTR", &runConfig<SSflat<El<0>, 3, CLess, CGreater, ANTR, 2> >},
    {"SS.N2.set.less.TR", &runConfig<SSset<El<1>, 2, CLess, CGreater, LedgerAlloc<El<1>, false>, 4> >},
    {"SS.N3.flat.less.TR", &runConfig<SSflat<El<1>, 3, CLess, CGreater, ATR, 2> >},
#endif
};

int main(int argc, char **argv) {
  if (argc < 2) {
    for (size_t i = 0; i < sizeof(kTable) / sizeof(kTable[0]); ++i) std::printf("%s\n", kTable[i].name);
    return 0;
  }
  std::string want = argv[1];
  FILE *in = argc > 2 ? std::fopen(argv[2], "r") : stdin;
  if (!in) return 2;
  std::vector<History> hs = readHistories(in);
  for (size_t i = 0; i < sizeof(kTable) / sizeof(kTable[0]); ++i)
    if (want == kTable[i].name) {
      std::printf("CONFIG %s\n", kTable[i].name);
      int crashes = kTable[i].run(hs);
      std::printf("END %s crashes=%d\n", kTable[i].name, crashes);
      return 0;
    }
  std::fprintf(stderr, "unknown configuration %s\n", want.c_str());
  return 2;
}
