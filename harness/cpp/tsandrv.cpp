// C20 supporting search: reader threads over ONE const container per kind, writers on DISTINCT containers.
//
//   tsandrv <readers> <writers> <seed> <rounds>
//
// Built with -fsanitize=thread (lib/c20.py); any "WARNING: ThreadSanitizer: data race" in the output is a finding.
// Independently of the sanitizer every reader compares every result with the value precomputed sequentially before
// the threads started ("MISMATCH ..." lines).  Output: one line per kind `KIND <name> ops=<n> reads=<n> mismatches=<n>`,
// and a final `DONE reader_ops=<n> writer_ops=<n> mismatches=<n>`.
//
// Only const operations are applied to the shared objects: size, empty, capacity, max_size, iteration (forward,
// reverse, c-iterators), operator[], at, front, back, data, find / contains / count / lower_bound / upper_bound /
// equal_range, ==, !=, <, <=, >, >= (also between a small and a large SmallSet), copy construction from the shared object.
#include <algorithm>
#include <atomic>
#include <cstdint>
#include <cstdio>
#include <cstdlib>
#include <functional>
#include <initializer_list>
#include <set>
#include <string>
#include <thread>
#include <vector>

#ifndef AMC_NONSTD_FEATURES
#define AMC_NONSTD_FEATURES
#endif
#include <amc/fixedcapacityvector.hpp>
#include <amc/flatset.hpp>
#include <amc/smallset.hpp>
#include <amc/smallvector.hpp>
#include <amc/vector.hpp>

namespace {

struct Op {
  std::string name;
  std::function<long()> f;
};

struct Kind {
  std::string name;
  std::vector<Op> ops;
  std::vector<long> expected;
  // byte images of the shared objects the operations read (object representation, then the elements with their addresses):
  // a const operation that changes one of them writes to memory every concurrent reader reads - a sequential witness of a race
  std::vector<std::function<std::string()>> images;
};

template <class C>
std::string imageOf(const C *pc) {
  std::string r(reinterpret_cast<const char *>(pc), sizeof(C));
  for (auto it = pc->begin(); it != pc->end(); ++it) {
    const void *a = static_cast<const void *>(&*it);
    r.append(reinterpret_cast<const char *>(&a), sizeof(a));
    r.append(reinterpret_cast<const char *>(&*it), sizeof(*it));
  }
  return r;
}

template <class It>
long sumRange(It b, It e) {
  long s = 0, i = 1;
  for (; b != e; ++b, ++i) s += static_cast<long>(*b) * i;
  return s;
}

// ---- vector-like
template <class V>
void vectorOps(Kind &k, const V &v, const V &other) {
  const V *pv = &v;
  const V *po = &other;
  k.images.push_back([pv] { return imageOf(pv); });
  k.images.push_back([po] { return imageOf(po); });
  k.ops.push_back({"size", [pv] { return static_cast<long>(pv->size()); }});
  k.ops.push_back({"empty", [pv] { return static_cast<long>(pv->empty()); }});
  k.ops.push_back({"capacity", [pv] { return static_cast<long>(pv->capacity()); }});
  k.ops.push_back({"max_size", [pv] { return static_cast<long>(pv->max_size() > 0); }});
  k.ops.push_back({"iterate", [pv] { return sumRange(pv->begin(), pv->end()); }});
  k.ops.push_back({"citerate", [pv] { return sumRange(pv->cbegin(), pv->cend()); }});
  k.ops.push_back({"riterate", [pv] { return sumRange(pv->rbegin(), pv->rend()); }});
  k.ops.push_back({"criterate", [pv] { return sumRange(pv->crbegin(), pv->crend()); }});
  k.ops.push_back({"index", [pv] {
                     long s = 0;
                     for (typename V::size_type i = 0; i < pv->size(); ++i) s += (*pv)[i] * 3 + pv->at(i);
                     return s;
                   }});
  k.ops.push_back({"front_back", [pv] { return pv->empty() ? -1L : static_cast<long>(pv->front()) * 1000 + pv->back(); }});
  k.ops.push_back({"data", [pv] {
                     long s = 0;
                     const int *d = pv->data();
                     for (typename V::size_type i = 0; i < pv->size(); ++i) s += d[i] ^ static_cast<int>(i);
                     return s;
                   }});
  k.ops.push_back({"at_throw", [pv] {
                     try {
                       return static_cast<long>(pv->at(pv->size()));
                     } catch (const std::out_of_range &) {
                       return -2L;
                     }
                   }});
  k.ops.push_back({"std_find", [pv] { return static_cast<long>(std::find(pv->begin(), pv->end(), 7) - pv->begin()); }});
  k.ops.push_back({"eq_self", [pv] { return static_cast<long>(*pv == *pv) + 2 * static_cast<long>(*pv != *pv); }});
  k.ops.push_back({"cmp_other", [pv, po] {
                     return static_cast<long>(*pv == *po) + 2 * (*pv != *po) + 4 * (*pv < *po) + 8 * (*pv <= *po) + 16 * (*pv > *po) +
                            32 * (*pv >= *po) + 64 * (*po < *pv);
                   }});
  k.ops.push_back({"copy", [pv] {
                     V c(*pv);
                     return sumRange(c.begin(), c.end()) + static_cast<long>(c.size());
                   }});
  k.ops.push_back({"copy_assign", [pv, po] {
                     V c(*po);
                     c = *pv;
                     c.push_back(1);
                     return sumRange(c.begin(), c.end());
                   }});
  k.ops.push_back({"get_allocator", [pv] {
                     auto a = pv->get_allocator();
                     (void)a;
                     return 1L;
                   }});
}

// ---- set-like (common to FlatSet and SmallSet)
template <class S>
void setOps(Kind &k, const S &s, const S &other, int maxKey) {
  const S *ps = &s;
  const S *po = &other;
  k.images.push_back([ps] { return imageOf(ps); });
  k.images.push_back([po] { return imageOf(po); });
  k.ops.push_back({"size", [ps] { return static_cast<long>(ps->size()); }});
  k.ops.push_back({"empty", [ps] { return static_cast<long>(ps->empty()); }});
  k.ops.push_back({"max_size", [ps] { return static_cast<long>(ps->max_size() > 0); }});
  k.ops.push_back({"iterate", [ps] { return sumRange(ps->begin(), ps->end()); }});
  k.ops.push_back({"citerate", [ps] { return sumRange(ps->cbegin(), ps->cend()); }});
  k.ops.push_back({"riterate", [ps] { return sumRange(ps->rbegin(), ps->rend()); }});
  k.ops.push_back({"criterate", [ps] { return sumRange(ps->crbegin(), ps->crend()); }});
  k.ops.push_back({"postinc_iterate", [ps] {
                     long r = 0;
                     for (auto it = ps->begin(); it != ps->end(); it++) r = r * 31 + *it;
                     return r;
                   }});
  k.ops.push_back({"find_all", [ps, maxKey] {
                     long r = 0;
                     for (int key = -1; key <= maxKey + 1; ++key) {
                       auto it = ps->find(key);
                       r = r * 3 + (it == ps->end() ? 0 : 1 + (*it == key));
                     }
                     return r;
                   }});
  k.ops.push_back({"contains_count", [ps, maxKey] {
                     long r = 0;
                     for (int key = -1; key <= maxKey + 1; ++key) r = r * 5 + ps->contains(key) + 2 * static_cast<long>(ps->count(key));
                     return r;
                   }});
  k.ops.push_back({"eq_self", [ps] { return static_cast<long>(*ps == *ps) + 2 * static_cast<long>(*ps != *ps) + 4 * (*ps < *ps); }});
  k.ops.push_back({"cmp_other", [ps, po] {
                     return static_cast<long>(*ps == *po) + 2 * (*ps != *po) + 4 * (*ps < *po) + 8 * (*ps <= *po) + 16 * (*ps > *po) +
                            32 * (*ps >= *po) + 64 * (*po < *ps) + 128 * (*po == *ps);
                   }});
  k.ops.push_back({"copy", [ps] {
                     S c(*ps);
                     return sumRange(c.begin(), c.end()) + static_cast<long>(c.size());
                   }});
  k.ops.push_back({"copy_assign_insert", [ps, po, maxKey] {
                     S c(*po);
                     c = *ps;
                     c.insert(maxKey + 5);
                     c.erase(*ps->begin());
                     return sumRange(c.begin(), c.end());
                   }});
  k.ops.push_back({"key_comp", [ps] { return static_cast<long>(ps->key_comp()(1, 2)) + static_cast<long>(ps->value_comp()(2, 1)); }});
}

template <class S>
void flatSetOps(Kind &k, const S &s, int maxKey) {
  const S *ps = &s;
  k.ops.push_back({"bounds", [ps, maxKey] {
                     long r = 0;
                     for (int key = -1; key <= maxKey + 1; ++key) {
                       r = r * 7 + (ps->lower_bound(key) - ps->begin()) + 3 * (ps->upper_bound(key) - ps->begin());
                       auto er = ps->equal_range(key);
                       r += 11 * (er.second - er.first);
                     }
                     return r;
                   }});
  k.ops.push_back({"index", [ps] {
                     long r = 0;
                     for (typename S::size_type i = 0; i < ps->size(); ++i) r += (*ps)[i] * 3 + ps->at(i) + ps->data()[i];
                     return r + static_cast<long>(ps->capacity() >= ps->size());
                   }});
  k.ops.push_back({"front_back", [ps] { return static_cast<long>(ps->front()) * 1000 + ps->back(); }});
}

template <class S>
void transparentOps(Kind &k, const S &s, int maxKey) {
  const S *ps = &s;
  k.ops.push_back({"find_transparent", [ps, maxKey] {
                     long r = 0;
                     for (long key = -1; key <= maxKey + 1; ++key) {
                       r = r * 3 + (ps->find(key) != ps->end()) + ps->contains(key) + static_cast<long>(ps->count(key));
                     }
                     return r;
                   }});
}

template <class S>
void transparentBounds(Kind &k, const S &s, int maxKey) {
  const S *ps = &s;
  k.ops.push_back({"bounds_transparent", [ps, maxKey] {
                     long r = 0;
                     for (long key = -1; key <= maxKey + 1; ++key) {
                       r = r * 7 + (ps->lower_bound(key) - ps->begin()) + 3 * (ps->upper_bound(key) - ps->begin());
                     }
                     return r;
                   }});
}

template <class C>
C makeVec(int n, int mul) {
  C c;
  for (int i = 0; i < n; ++i) c.push_back((i * mul + 3) % 17);
  return c;
}
template <class C>
C makeSetOf(std::initializer_list<int> keys) {  // insertion order kept by the inline state of SmallSet
  C c;
  for (int k : keys) c.insert(k);
  return c;
}
template <class C>
C makeSet(int n, int mul) {
  C c;
  for (int i = 0; i < n; ++i) c.insert((i * mul + 3) % 23);
  return c;
}

std::atomic<int> gStart(0);
std::atomic<long> gMismatches(0);
std::atomic<long> gReaderOps(0);
std::atomic<long> gWriterOps(0);

uint64_t splitmix(uint64_t &x) {
  uint64_t z = (x += 0x9e3779b97f4a7c15ULL);
  z = (z ^ (z >> 30)) * 0xbf58476d1ce4e5b9ULL;
  z = (z ^ (z >> 27)) * 0x94d049bb133111ebULL;
  return z ^ (z >> 31);
}

void reader(const std::vector<Kind> *kinds, int tid, uint64_t seed, int rounds) {
  uint64_t rng = seed * 1000003ULL + static_cast<uint64_t>(tid) * 7919ULL;
  while (gStart.load(std::memory_order_acquire) == 0) std::this_thread::yield();
  long ops = 0;
  for (int r = 0; r < rounds; ++r) {
    // every thread walks the kinds and the operations from its own offset, in its own stride
    const std::size_t k0 = splitmix(rng) % kinds->size();
    for (std::size_t kk = 0; kk < kinds->size(); ++kk) {
      const Kind &k = (*kinds)[(k0 + kk) % kinds->size()];
      const std::size_t n = k.ops.size();
      const std::size_t o0 = splitmix(rng) % n;
      for (std::size_t j = 0; j < n; ++j) {
        const std::size_t idx = (o0 + j) % n;
        const long got = k.ops[idx].f();
        ++ops;
        if (got != k.expected[idx]) {
          gMismatches.fetch_add(1);
          std::printf("MISMATCH kind=%s op=%s thread=%d round=%d expected=%ld got=%ld\n", k.name.c_str(), k.ops[idx].name.c_str(), tid, r,
                      k.expected[idx], got);
        }
      }
      if ((splitmix(rng) & 3) == 0) std::this_thread::yield();
    }
  }
  gReaderOps.fetch_add(ops);
}

// writers own their containers (distinct objects); they also copy FROM the shared ones (a read of the shared object)
template <class V>
long churnVec(const V &shared, uint64_t &rng, int steps) {
  V mine(shared);
  long s = 0;
  for (int i = 0; i < steps; ++i) {
    switch (splitmix(rng) % 5) {
      case 0:
        if (mine.size() < 8) mine.push_back(static_cast<int>(i));
        break;
      case 1:
        if (!mine.empty()) mine.pop_back();
        break;
      case 2:
        if (mine.size() < 8) mine.insert(mine.begin(), static_cast<int>(i));
        break;
      case 3:
        if (!mine.empty()) mine.erase(mine.begin());
        break;
      default:
        mine = shared;
        break;
    }
    s += static_cast<long>(mine.size());
  }
  return s;
}
template <class S>
long churnSet(const S &shared, uint64_t &rng, int steps) {
  S mine(shared);
  long s = 0;
  for (int i = 0; i < steps; ++i) {
    switch (splitmix(rng) % 4) {
      case 0:
        mine.insert(static_cast<int>(splitmix(rng) % 29));
        break;
      case 1:
        mine.erase(static_cast<int>(splitmix(rng) % 29));
        break;
      case 2:
        s += mine.contains(static_cast<int>(splitmix(rng) % 29));
        break;
      default:
        mine = shared;
        break;
    }
    s += static_cast<long>(mine.size());
  }
  return s;
}

}  // namespace

int main(int argc, char **argv) {
  const int readers = argc > 1 ? std::atoi(argv[1]) : 4;
  const int writers = argc > 2 ? std::atoi(argv[2]) : 2;
  const uint64_t seed = argc > 3 ? std::strtoull(argv[3], nullptr, 10) : 1;
  const int rounds = argc > 4 ? std::atoi(argv[4]) : 20;

  using Vec = amc::vector<int>;
  using SV = amc::SmallVector<int, 4>;
  using FCV = amc::FixedCapacityVector<int, 8>;
  using FS = amc::FlatSet<int>;
  using FST = amc::FlatSet<int, std::less<>>;
  using SS = amc::SmallSet<int, 3>;
  using SST = amc::SmallSet<int, 3, std::less<>>;
  using SSF = amc::SmallSet<int, 3, std::less<int>, amc::allocator<int>, amc::FlatSet<int>>;

  // the shared objects: const from here on
  const Vec vec = makeVec<Vec>(11, 5), vec2 = makeVec<Vec>(11, 7), vecEmpty;
  const SV svInline = makeVec<SV>(3, 5), svHeap = makeVec<SV>(9, 5);
  const FCV fcv = makeVec<FCV>(6, 5), fcv2 = makeVec<FCV>(8, 3);
  const FS fs = makeSet<FS>(12, 5), fs2 = makeSet<FS>(12, 7);
  const FST fst = makeSet<FST>(12, 5), fst2 = makeSet<FST>(5, 7);
  const SS ssSmall = makeSet<SS>(3, 5), ssSmall2 = makeSet<SS>(2, 7), ssLarge = makeSet<SS>(9, 5), ssLarge2 = makeSet<SS>(9, 7);
  const SS ssUnsorted = makeSetOf<SS>({13, 2, 8}), ssUnsorted2 = makeSetOf<SS>({13, 8, 2});
  const SST sstSmall = makeSet<SST>(3, 5), sstLarge = makeSet<SST>(9, 5);
  const SSF ssfSmall = makeSet<SSF>(3, 5), ssfLarge = makeSet<SSF>(9, 5), ssfLarge2 = makeSet<SSF>(7, 7);

  std::vector<Kind> kinds;
  auto addKind = [&kinds](const char *name) -> Kind & {
    kinds.push_back(Kind{name, {}, {}});
    return kinds.back();
  };
  kinds.reserve(40);
  vectorOps(addKind("vector"), vec, vec2);
  vectorOps(addKind("vector_empty"), vecEmpty, vec);
  vectorOps(addKind("SmallVector4_inline"), svInline, svHeap);
  vectorOps(addKind("SmallVector4_heap"), svHeap, svInline);
  vectorOps(addKind("FixedCapacityVector8"), fcv, fcv2);
  {
    Kind &k = addKind("FlatSet");
    setOps(k, fs, fs2, 23);
    flatSetOps(k, fs, 23);
  }
  {
    Kind &k = addKind("FlatSet_transparent");
    setOps(k, fst, fst2, 23);
    flatSetOps(k, fst, 23);
    transparentOps(k, fst, 23);
    transparentBounds(k, fst, 23);
  }
  setOps(addKind("SmallSet3_small"), ssSmall, ssSmall2, 23);
  setOps(addKind("SmallSet3_small_unsorted"), ssUnsorted, ssUnsorted2, 23);
  setOps(addKind("SmallSet3_large_vs_small_unsorted"), ssLarge2, ssUnsorted2, 23);
  setOps(addKind("SmallSet3_small_vs_large"), ssSmall, ssLarge, 23);
  setOps(addKind("SmallSet3_large_vs_small"), ssLarge, ssSmall, 23);
  setOps(addKind("SmallSet3_large"), ssLarge, ssLarge2, 23);
  {
    Kind &k = addKind("SmallSet3_transparent_small");
    setOps(k, sstSmall, sstLarge, 23);
    transparentOps(k, sstSmall, 23);
  }
  {
    Kind &k = addKind("SmallSet3_transparent_large");
    setOps(k, sstLarge, sstSmall, 23);
    transparentOps(k, sstLarge, 23);
  }
  setOps(addKind("SmallSet3Flat_small"), ssfSmall, ssfLarge, 23);
  setOps(addKind("SmallSet3Flat_large"), ssfLarge, ssfLarge2, 23);
  setOps(addKind("SmallSet3Flat_large_vs_small"), ssfLarge, ssfSmall, 23);

  // sequential results
  long nOps = 0;
  for (Kind &k : kinds) {
    for (Op &o : k.ops) {
      std::vector<std::string> before;
      for (auto &im : k.images) before.push_back(im());
      k.expected.push_back(o.f());
      for (std::size_t j = 0; j < k.images.size(); ++j) {
        if (k.images[j]() != before[j]) {
          std::printf("MISMATCH kind=%s op=%s the const operation modified the bytes of the shared %s object\n", k.name.c_str(), o.name.c_str(),
                      j == 0 ? "first" : "second");
          gMismatches.fetch_add(1);
        }
      }
    }
    nOps += static_cast<long>(k.ops.size());
  }
  // and once more: the operations are deterministic functions of the (unchanged) shared state
  for (Kind &k : kinds) {
    for (std::size_t i = 0; i < k.ops.size(); ++i) {
      if (k.ops[i].f() != k.expected[i]) {
        std::printf("MISMATCH kind=%s op=%s sequential rerun differs\n", k.name.c_str(), k.ops[i].name.c_str());
        gMismatches.fetch_add(1);
      }
    }
  }

  const std::vector<Kind> &ckinds = kinds;
  std::vector<std::thread> threads;
  for (int t = 0; t < readers; ++t) threads.emplace_back(reader, &ckinds, t, seed, rounds);
  for (int w = 0; w < writers; ++w) {
    threads.emplace_back([&, w] {
      uint64_t rng = seed * 77 + static_cast<uint64_t>(w) + 1000;
      while (gStart.load(std::memory_order_acquire) == 0) std::this_thread::yield();
      long s = 0;
      const int steps = 40;
      for (int r = 0; r < rounds; ++r) {
        s += churnVec(vec, rng, steps) + churnVec(svInline, rng, steps) + churnVec(svHeap, rng, steps) + churnVec(fcv, rng, steps);
        s += churnSet(fs, rng, steps) + churnSet(ssSmall, rng, steps) + churnSet(ssLarge, rng, steps) + churnSet(ssfSmall, rng, steps) +
             churnSet(ssfLarge, rng, steps);
        gWriterOps.fetch_add(9 * steps);
      }
      if (s == -1) std::printf("unreachable\n");
    });
  }
  gStart.store(1, std::memory_order_release);
  for (std::thread &t : threads) t.join();

  // the shared objects are unchanged
  for (Kind &k : kinds) {
    long bad = 0;
    for (std::size_t i = 0; i < k.ops.size(); ++i) {
      if (k.ops[i].f() != k.expected[i]) {
        ++bad;
        std::printf("MISMATCH kind=%s op=%s after join\n", k.name.c_str(), k.ops[i].name.c_str());
        gMismatches.fetch_add(1);
      }
    }
    std::printf("KIND %s ops=%zu after_join_mismatches=%ld\n", k.name.c_str(), k.ops.size(), bad);
  }
  std::printf("DONE readers=%d writers=%d seed=%llu rounds=%d kinds=%zu distinct_ops=%ld reader_ops=%ld writer_ops=%ld mismatches=%ld\n", readers,
              writers, static_cast<unsigned long long>(seed), rounds, kinds.size(), nOps, gReaderOps.load(), gWriterOps.load(),
              gMismatches.load());
  return gMismatches.load() ? 3 : 0;
}
