// C16 (sets, C++17 and later): one fixed program over the std::set API with class element types (std::string, a pair with a
// transparent comparator), which the script language of setdrv cannot express.  Output must be byte-identical under every build
// of the matrix, and every amc section must equal the section printed by std::set running the same calls.
#include <algorithm>
#include <cstdio>
#include <functional>
#include <set>
#include <string>
#include <utility>
#include <vector>

#include <amc/flatset.hpp>
#include <amc/smallset.hpp>

namespace {

struct Rec {
  int key;
  std::string name;
  Rec(int k, std::string n) : key(k), name(std::move(n)) {}
  Rec(int k, int rep, char c) : key(k), name(static_cast<std::size_t>(rep), c) {}
  bool operator==(const Rec &o) const { return key == o.key && name == o.name; }
};
struct RecLess {
  using is_transparent = void;
  bool operator()(const Rec &a, const Rec &b) const { return a.key < b.key; }
  bool operator()(const Rec &a, int b) const { return a.key < b; }
  bool operator()(int a, const Rec &b) const { return a < b.key; }
};

std::string show(const std::string &s) { return "\"" + s + "\""; }
std::string show(const Rec &r) { return std::to_string(r.key) + ":" + r.name; }

template <class S>
void dump(const char *what, const S &s) {
  std::printf("%s size=%lu empty=%d [", what, static_cast<unsigned long>(s.size()), static_cast<int>(s.empty()));
  // inline SmallSets keep insertion order: print in sorted order through a std::set of pointers
  std::vector<std::string> items;
  for (typename S::const_iterator it = s.begin(); it != s.end(); ++it) items.push_back(show(*it));
  std::sort(items.begin(), items.end());
  for (const std::string &x : items) std::printf(" %s", x.c_str());
  std::printf(" ]\n");
}

template <class S>
void stringOps(const char *name) {
  std::printf("== %s\n", name);
  S s;
  auto r1 = s.insert(std::string("pear"));
  auto r2 = s.insert("apple");
  const std::string fig("fig");
  auto r3 = s.insert(fig);
  auto r4 = s.insert(fig);
  std::printf("insert %d %d %d %d\n", r1.second, r2.second, r3.second, r4.second);
  // (iterators of a FlatSet do not survive the next insertion: each result is used at once)
  auto e1 = s.emplace(3, 'z');
  std::printf("emplace %d -> %s\n", e1.second, show(*e1.first).c_str());
  auto e2 = s.emplace("kiwi-and-more", 4);
  std::printf("emplace %d -> %s\n", e2.second, show(*e2.first).c_str());
  auto e3 = s.emplace(std::string("pear"));
  std::printf("emplace %d -> %s\n", e3.second, show(*e3.first).c_str());
  dump("after-emplace", s);
  auto h = s.emplace_hint(s.begin(), 2, 'a');
  std::printf("hint -> %s\n", show(*h).c_str());
  auto h2 = s.insert(s.end(), std::string("zzzz"));
  std::printf("hint2 -> %s\n", show(*h2).c_str());
  const char *more[] = {"fig", "grape", "apple", "banana", "cherry"};
  s.insert(more, more + 5);
  s.insert({"date", "elder", "fig"});
  dump("after-range", s);
  std::printf("find %d %d count %lu %lu\n", s.find("grape") != s.end(), s.find("nope") != s.end(), static_cast<unsigned long>(s.count("date")),
              static_cast<unsigned long>(s.count("nope")));
  std::printf("erase %lu %lu\n", static_cast<unsigned long>(s.erase("fig")), static_cast<unsigned long>(s.erase("nope")));
  auto it = s.find("grape");
  it = s.erase(it);
  std::printf("erase(it) -> %s\n", it == s.end() ? "end" : "element");
  dump("after-erase", s);
  S t{"apple", "quince", "rowan"};
  S u(t);
  u.merge(s);
  dump("merged.u", u);
  dump("merged.s", s);
  auto nh = u.extract("quince");
  std::printf("node %d %s\n", static_cast<int>(!nh.empty()), nh.empty() ? "-" : show(nh.value()).c_str());
  auto ir = s.insert(std::move(nh));
  std::printf("insert(node) %d\n", static_cast<int>(ir.inserted));
  auto nh2 = u.extract("absent");
  std::printf("node2 %d\n", static_cast<int>(!nh2.empty()));
  dump("after-node.s", s);
  dump("after-node.u", u);
  std::printf("cmp %d %d %d %d\n", s == u, s != u, t == S(t), S() == S());
  using std::swap;
  swap(s, t);
  dump("swapped.s", s);
  dump("swapped.t", t);
  S m(std::move(t));
  dump("moved.m", m);
  s = m;
  s = {"x", "y"};
  dump("assigned", s);
  s.clear();
  dump("cleared", s);
  // drain and refill across the inline limit of the SmallSets
  for (int i = 0; i < 9; ++i) s.insert(std::string(static_cast<std::size_t>(i % 4 + 1), static_cast<char>('a' + i)));
  for (typename S::const_iterator i2 = s.begin(); i2 != s.end();) i2 = (i2->size() % 2 == 0) ? s.erase(i2) : std::next(i2);
  dump("erase-loop", s);
}

template <class S>
void recOps(const char *name) {
  std::printf("== %s\n", name);
  S s;
  s.emplace(5, "five");
  s.emplace(1, 3, 'o');
  s.emplace(9, "nine");
  auto r = s.emplace(5, "FIVE");
  std::printf("emplace-dup %d -> %s\n", static_cast<int>(r.second), show(*r.first).c_str());
  s.insert(Rec(3, "three"));
  s.insert({Rec(7, "seven"), Rec(1, "ONE"), Rec(8, "eight")});
  dump("recs", s);
  std::printf("het find %d %d count %lu\n", s.find(7) != s.end(), s.find(6) != s.end(), static_cast<unsigned long>(s.count(9)));
  auto it = s.find(3);
  std::printf("found %s\n", it == s.end() ? "-" : show(*it).c_str());
  std::printf("erase %lu\n", static_cast<unsigned long>(s.erase(Rec(5, "whatever"))));
  dump("recs2", s);
}

}  // namespace

int main() {
  using Str = std::string;
  stringOps<amc::FlatSet<Str> >("FlatSet<string>");
  stringOps<amc::FlatSet<Str, std::less<Str>, amc::allocator<Str>, amc::SmallVector<Str, 4> > >("FlatSet<string, SmallVector4>");
  stringOps<amc::SmallSet<Str, 3> >("SmallSet<string,3>");
  stringOps<amc::SmallSet<Str, 5, std::less<Str>, amc::allocator<Str>, amc::FlatSet<Str> > >("SmallSet<string,5,FlatSet>");
  stringOps<amc::SmallSet<Str, 16> >("SmallSet<string,16>");
  stringOps<std::set<Str> >("std::set<string> (reference)");
  recOps<amc::FlatSet<Rec, RecLess> >("FlatSet<Rec>");
  recOps<amc::SmallSet<Rec, 2, RecLess> >("SmallSet<Rec,2>");
  recOps<amc::SmallSet<Rec, 8, RecLess> >("SmallSet<Rec,8>");
  recOps<std::set<Rec, RecLess> >("std::set<Rec> (reference)");
  std::printf("END\n");
  return 0;
}
