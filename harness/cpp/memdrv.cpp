// C15 driver: calls the amc:: memory algorithms DIRECTLY on raw buffers of instrumented element types, with every
// source iterator category, every length and every throw index, and prints one canonical line per case.
// When compiled as C++17 or later the same cases are also run through the std:: algorithms (lines `STD ...`).
// Written in the C++11 subset: the same source is built with -std=c++11, c++14, c++17, c++20.
//
//   CASE <algo> <itercat> <elemtype> n=<n> k=<k|-> | ret=<advances> | threw=<0|1> | dst=<slots> | src=<slots> | live=<n> errs=<n>
//
// slots: R raw (never constructed, destroyed, or relocated away), L<v> live with value v, M live but moved-from;
//        a trailing `!` marks an NTR object whose bytes were moved without its constructor.
// Setup of every case: the source holds n + 1 live elements 11, 12, ... (the last one is a guard the algorithm must
// not touch), the destination is n + 1 raw slots (last one = guard).  k = index of the throwing-capable event
// that throws ('-' = none); every k in [0, number of events of the non throwing run) is swept.
#include <algorithm>
#include <cstddef>
#include <forward_list>
#include <iterator>
#include <list>
#include <memory>
#include <string>
#include <cstring>
#include <utility>

#include "common.hpp"

#include <amc/memory.hpp>
#include <amc/fixedcapacityvector.hpp>
#include <amc/smallvector.hpp>
#include <amc/vector.hpp>
#include <initializer_list>

namespace vf {
// element whose MOVE constructor can throw (not relocatable, not trivially copyable)
struct ElTM {
  int v;
  long id;
  const ElTM *self;
  ElTM() : v(0), id(-1), self(this) {
    G().tick("default-construct");
    id = G().newId();
  }
  ElTM(int x) : v(x), id(-1), self(this) {  // NOLINT
    G().tick("value-construct");
    id = G().newId();
  }
  ElTM(const ElTM &o) : v(o.v), id(-1), self(this) {
    o.chk("copy-construct-from");
    G().tick("copy-construct");
    id = G().newId();
  }
  ElTM(ElTM &&o) : v(o.v), id(-1), self(this) {
    o.chk("move-construct-from");
    G().tick("move-construct");
    id = G().newId();
    o.v = kMoved;
  }
  ElTM &operator=(const ElTM &o) {
    chk("copy-assign-to");
    o.chk("copy-assign-from");
    G().tick("copy-assign");
    v = o.v;
    return *this;
  }
  ~ElTM() {
    chk("destroy");
    if (G().isLive(id)) G().kill(id);
  }
  void chk(const char *what) const {
    if (!G().isLive(id)) {
      G().err(std::string(what) + ":outside-lifetime");
      return;
    }
    if (self != this) G().err(std::string(what) + ":bitwise-moved-NTR");
  }
  using trivially_relocatable = std::false_type;
};
struct POD {
  int v;
};
static_assert(std::is_trivial<POD>::value, "POD");
static_assert(!amc::is_trivially_relocatable<ElTM>::value && !amc::is_trivially_relocatable<El<0> >::value &&
                  amc::is_trivially_relocatable<El<1> >::value && amc::is_trivially_relocatable<TC4>::value,
              "categories");
}  // namespace vf

using vf::G;

// ---------------------------------------------------------------------------------------------
// per element type: construction from an int, observation of a slot
template <class T>
struct Tr;
template <class T, bool SelfChecked>
struct InstrTr {
  static void make(void *p, int v) { ::new (p) T(v); }
  static long idOf(const void *p) { return reinterpret_cast<const T *>(p)->id; }
  static bool live(const void *p) { return G().isLive(idOf(p)); }
  static std::string val(const void *p) {
    const T *q = reinterpret_cast<const T *>(p);
    std::string s = q->v == vf::kMoved ? std::string("M") : "L" + std::to_string(q->v);
    if (SelfChecked && q->self != q) s += "!";
    return s;
  }
  static void kill(void *p) { reinterpret_cast<T *>(p)->~T(); }
  template <class L>
  static void pushBack(L &l, int v) { l.emplace_back(v); }
  template <class L>
  static void pushFront(L &l, int v) { l.emplace_front(v); }
};
template <>
struct Tr<vf::El<0> > : InstrTr<vf::El<0>, true> {
  static const char *name() { return "NTR"; }
};
template <>
struct Tr<vf::El<1> > : InstrTr<vf::El<1>, false> {
  static const char *name() { return "TR"; }
};
template <>
struct Tr<vf::ElTM> : InstrTr<vf::ElTM, true> {
  static const char *name() { return "TM"; }
};
static const int kRawInt = static_cast<int>(0xEEEEEEEEu);
template <class T>
struct PlainTr {
  static void make(void *p, int v) {
    T t;
    t.v = v;
    std::memcpy(p, &t, sizeof(T));
  }
  static long idOf(const void *) { return -1; }
  static bool live(const void *p) { return reinterpret_cast<const T *>(p)->v != kRawInt; }  // lifetime is not observable: bits
  static std::string val(const void *p) { return "L" + std::to_string(reinterpret_cast<const T *>(p)->v); }
  static void kill(void *) {}
  template <class L>
  static void pushBack(L &l, int v) {
    l.push_back(T());
    l.back().v = v;
  }
  template <class L>
  static void pushFront(L &l, int v) {
    l.push_front(T());
    l.front().v = v;
  }
};
template <>
struct Tr<vf::TC4> : PlainTr<vf::TC4> {
  static const char *name() { return "TC"; }
};
template <>
struct Tr<vf::POD> : PlainTr<vf::POD> {
  static const char *name() { return "POD"; }
};

// ---------------------------------------------------------------------------------------------
// iterator wrappers over a pointer, one per category
template <class T>
struct FwdIt {
  typedef std::forward_iterator_tag iterator_category;
  typedef T value_type;
  typedef std::ptrdiff_t difference_type;
  typedef T *pointer;
  typedef T &reference;
  T *p;
  FwdIt() : p(nullptr) {}
  explicit FwdIt(T *q) : p(q) {}
  T &operator*() const { return *p; }
  T *operator->() const { return p; }
  FwdIt &operator++() {
    ++p;
    return *this;
  }
  FwdIt operator++(int) {
    FwdIt t(*this);
    ++p;
    return t;
  }
  bool operator==(const FwdIt &o) const { return p == o.p; }
  bool operator!=(const FwdIt &o) const { return p != o.p; }
};
template <class T>
struct BidIt {
  typedef std::bidirectional_iterator_tag iterator_category;
  typedef T value_type;
  typedef std::ptrdiff_t difference_type;
  typedef T *pointer;
  typedef T &reference;
  T *p;
  BidIt() : p(nullptr) {}
  explicit BidIt(T *q) : p(q) {}
  T &operator*() const { return *p; }
  T *operator->() const { return p; }
  BidIt &operator++() {
    ++p;
    return *this;
  }
  BidIt operator++(int) {
    BidIt t(*this);
    ++p;
    return t;
  }
  BidIt &operator--() {
    --p;
    return *this;
  }
  BidIt operator--(int) {
    BidIt t(*this);
    --p;
    return t;
  }
  bool operator==(const BidIt &o) const { return p == o.p; }
  bool operator!=(const BidIt &o) const { return p != o.p; }
};
template <class T>
struct RaIt {
  typedef std::random_access_iterator_tag iterator_category;
  typedef T value_type;
  typedef std::ptrdiff_t difference_type;
  typedef T *pointer;
  typedef T &reference;
  T *p;
  RaIt() : p(nullptr) {}
  explicit RaIt(T *q) : p(q) {}
  T &operator*() const { return *p; }
  T *operator->() const { return p; }
  T &operator[](std::ptrdiff_t i) const { return p[i]; }
  RaIt &operator++() {
    ++p;
    return *this;
  }
  RaIt operator++(int) {
    RaIt t(*this);
    ++p;
    return t;
  }
  RaIt &operator--() {
    --p;
    return *this;
  }
  RaIt operator--(int) {
    RaIt t(*this);
    --p;
    return t;
  }
  RaIt &operator+=(std::ptrdiff_t d) {
    p += d;
    return *this;
  }
  RaIt &operator-=(std::ptrdiff_t d) {
    p -= d;
    return *this;
  }
  RaIt operator+(std::ptrdiff_t d) const { return RaIt(p + d); }
  RaIt operator-(std::ptrdiff_t d) const { return RaIt(p - d); }
  std::ptrdiff_t operator-(const RaIt &o) const { return p - o.p; }
  bool operator==(const RaIt &o) const { return p == o.p; }
  bool operator!=(const RaIt &o) const { return p != o.p; }
  bool operator<(const RaIt &o) const { return p < o.p; }
  bool operator>(const RaIt &o) const { return p > o.p; }
  bool operator<=(const RaIt &o) const { return p <= o.p; }
  bool operator>=(const RaIt &o) const { return p >= o.p; }
};
template <class T>
RaIt<T> operator+(std::ptrdiff_t d, const RaIt<T> &it) {
  return RaIt<T>(it.p + d);
}

// how a T* becomes an iterator of a given kind
template <class T>
struct MkPtr {
  typedef T *It;
  static It mk(T *p) { return p; }
  static T *raw(It it) { return it; }
  static const char *name() { return "ptr"; }
};
template <class T>
struct MkRa {
  typedef RaIt<T> It;
  static It mk(T *p) { return It(p); }
  static T *raw(It it) { return it.p; }
  static const char *name() { return "ra"; }
};
template <class T>
struct MkBid {
  typedef BidIt<T> It;
  static It mk(T *p) { return It(p); }
  static T *raw(It it) { return it.p; }
  static const char *name() { return "bidi"; }
};
template <class T>
struct MkFwd {
  typedef FwdIt<T> It;
  static It mk(T *p) { return It(p); }
  static T *raw(It it) { return it.p; }
  static const char *name() { return "fwd"; }
};
template <class T>
struct MkMv {
  typedef std::move_iterator<T *> It;
  static It mk(T *p) { return It(p); }
  static T *raw(It it) { return it.base(); }
  static const char *name() { return "mvptr"; }
};

// ---------------------------------------------------------------------------------------------
// raw buffer of cnt slots, filled with 0xEE
template <class T>
struct Buf {
  T *data;
  long cnt;
  explicit Buf(long c) : data(static_cast<T *>(std::malloc(static_cast<size_t>(c) * sizeof(T) + 1))), cnt(c) {
    std::memset(static_cast<void *>(data), 0xEE, static_cast<size_t>(c) * sizeof(T));
  }
  ~Buf() { std::free(data); }
  Buf(const Buf &) = delete;
  Buf &operator=(const Buf &) = delete;
};

// slot states of a buffer; `claimed` = ids already shown (an object relocated by a bit copy lives at its new address)
template <class T>
std::string slotStates(const T *base, long cnt, std::vector<long> &claimed) {
  std::vector<std::string> out;
  for (long i = 0; i < cnt; ++i) {
    const void *p = base + i;
    if (!Tr<T>::live(p)) {
      out.push_back("R");
      continue;
    }
    long id = Tr<T>::idOf(p);
    if (id >= 0) {
      if (std::find(claimed.begin(), claimed.end(), id) != claimed.end()) {
        out.push_back("R");
        continue;
      }
      claimed.push_back(id);
    }
    out.push_back(Tr<T>::val(p));
  }
  return vf::joinStr(out);
}
template <class T>
void killAll(T *base, long cnt) {
  for (long i = 0; i < cnt; ++i)
    if (Tr<T>::idOf(base + i) >= 0 && Tr<T>::live(base + i)) Tr<T>::kill(base + i);
}

// sources -----------------------------------------------------------------------------------------------------
template <class T, template <class> class Mk>
struct BufSrc {
  typedef typename Mk<T>::It It;
  Buf<T> b;
  explicit BufSrc(long cnt) : b(cnt) {
    for (long i = 0; i < cnt; ++i) Tr<T>::make(b.data + i, 11 + static_cast<int>(i));
  }
  static const char *name() { return Mk<T>::name(); }
  It begin() { return Mk<T>::mk(b.data); }
  It at(long n) { return Mk<T>::mk(b.data + n); }
  long adv(It it) { return static_cast<long>(Mk<T>::raw(it) - b.data); }
  std::string states(std::vector<long> &claimed) { return slotStates(b.data, b.cnt, claimed); }
  void cleanup() { killAll(b.data, b.cnt); }
};
template <class T>
struct ListSrc {
  typedef typename std::list<T>::iterator It;
  std::list<T> l;
  explicit ListSrc(long cnt) {
    for (long i = 0; i < cnt; ++i) Tr<T>::pushBack(l, 11 + static_cast<int>(i));
  }
  static const char *name() { return "list"; }
  It begin() { return l.begin(); }
  It at(long n) { return std::next(l.begin(), n); }
  long adv(It it) { return static_cast<long>(std::distance(l.begin(), it)); }
  std::string states(std::vector<long> &claimed) {
    std::vector<std::string> out;
    for (It it = l.begin(); it != l.end(); ++it) {
      out.push_back(slotStates(&*it, 1, claimed));
    }
    return vf::joinStr(out);
  }
  void cleanup() { l.clear(); }
};
template <class T>
struct FListSrc {
  typedef typename std::forward_list<T>::iterator It;
  std::forward_list<T> l;
  explicit FListSrc(long cnt) {
    for (long i = cnt; i-- > 0;) Tr<T>::pushFront(l, 11 + static_cast<int>(i));
  }
  static const char *name() { return "flist"; }
  It begin() { return l.begin(); }
  It at(long n) { return std::next(l.begin(), n); }
  long adv(It it) { return static_cast<long>(std::distance(l.begin(), it)); }
  std::string states(std::vector<long> &claimed) {
    std::vector<std::string> out;
    for (It it = l.begin(); it != l.end(); ++it) out.push_back(slotStates(&*it, 1, claimed));
    return vf::joinStr(out);
  }
  void cleanup() { l.clear(); }
};
template <class T>
struct PtrSrc : BufSrc<T, MkPtr> {
  explicit PtrSrc(long c) : BufSrc<T, MkPtr>(c) {}
};
template <class T>
struct RaSrc : BufSrc<T, MkRa> {
  explicit RaSrc(long c) : BufSrc<T, MkRa>(c) {}
};
template <class T>
struct BidSrc : BufSrc<T, MkBid> {
  explicit BidSrc(long c) : BufSrc<T, MkBid>(c) {}
};
template <class T>
struct FwdSrc : BufSrc<T, MkFwd> {
  explicit FwdSrc(long c) : BufSrc<T, MkFwd>(c) {}
};
template <class T>
struct MvSrc : BufSrc<T, MkMv> {
  explicit MvSrc(long c) : BufSrc<T, MkMv>(c) {}
};

// ---------------------------------------------------------------------------------------------
// the two libraries
struct AmcLib {
  static const char *tag() { return "CASE"; }
  template <class I, class O>
  static O copy_n(I f, std::ptrdiff_t n, O d) {
    return amc::uninitialized_copy_n(f, n, d);
  }
  template <class I, class O>
  static O copy(I f, I l, O d) {
    return amc::uninitialized_copy(f, l, d);
  }
  template <class I, class O>
  static std::pair<I, O> move_n(I f, std::ptrdiff_t n, O d) {
    return amc::uninitialized_move_n(f, n, d);
  }
  template <class I, class O>
  static O move(I f, I l, O d) {
    return amc::uninitialized_move(f, l, d);
  }
  template <class I, class O>
  static std::pair<I, O> reloc_n(I f, std::ptrdiff_t n, O d) {
    return amc::uninitialized_relocate_n(f, n, d);
  }
  template <class I, class O>
  static O reloc(I f, I l, O d) {
    return amc::uninitialized_relocate(f, l, d);
  }
  template <class T>
  static T *reloc_at(T *e, T *d) {
    return amc::relocate_at(e, d);
  }
  template <class I>
  static I value_n(I f, std::ptrdiff_t n) {
    return amc::uninitialized_value_construct_n(f, n);
  }
  template <class I>
  static void value(I f, I l) {
    amc::uninitialized_value_construct(f, l);
  }
  template <class I>
  static I default_n(I f, std::ptrdiff_t n) {
    return amc::uninitialized_default_construct_n(f, n);
  }
  template <class I>
  static void default_(I f, I l) {
    amc::uninitialized_default_construct(f, l);
  }
  template <class I>
  static I destroy_n(I f, std::ptrdiff_t n) {
    return amc::destroy_n(f, n);
  }
  template <class I>
  static void destroy(I f, I l) {
    amc::destroy(f, l);
  }
  template <class T>
  static void destroy_at(T *p) {
    amc::destroy_at(p);
  }
  template <class T>
  static T *construct_at(T *p, const T &v) {
    return amc::construct_at(p, v);
  }
};
#if __cplusplus >= 201703L
// the specification: the C++17/20 standard algorithms; relocate = uninitialized_move then destroy of the sources
struct StdLib {
  static const char *tag() { return "STD"; }
  template <class I, class O>
  static O copy_n(I f, std::ptrdiff_t n, O d) {
    return std::uninitialized_copy_n(f, n, d);
  }
  template <class I, class O>
  static O copy(I f, I l, O d) {
    return std::uninitialized_copy(f, l, d);
  }
  template <class I, class O>
  static std::pair<I, O> move_n(I f, std::ptrdiff_t n, O d) {
    return std::uninitialized_move_n(f, n, d);
  }
  template <class I, class O>
  static O move(I f, I l, O d) {
    return std::uninitialized_move(f, l, d);
  }
  template <class I, class O>
  static std::pair<I, O> reloc_n(I f, std::ptrdiff_t n, O d) {
    std::pair<I, O> p = std::uninitialized_move_n(f, n, d);
    std::destroy_n(f, n);
    return p;
  }
  template <class I, class O>
  static O reloc(I f, I l, O d) {
    O r = std::uninitialized_move(f, l, d);
    std::destroy(f, l);
    return r;
  }
  template <class T>
  static T *reloc_at(T *e, T *d) {
    T *r = ::new (static_cast<void *>(d)) T(std::move(*e));
    std::destroy_at(e);
    return r;
  }
  template <class I>
  static I value_n(I f, std::ptrdiff_t n) {
    return std::uninitialized_value_construct_n(f, n);
  }
  template <class I>
  static void value(I f, I l) {
    std::uninitialized_value_construct(f, l);
  }
  template <class I>
  static I default_n(I f, std::ptrdiff_t n) {
    return std::uninitialized_default_construct_n(f, n);
  }
  template <class I>
  static void default_(I f, I l) {
    std::uninitialized_default_construct(f, l);
  }
  template <class I>
  static I destroy_n(I f, std::ptrdiff_t n) {
    return std::destroy_n(f, n);
  }
  template <class I>
  static void destroy(I f, I l) {
    std::destroy(f, l);
  }
  template <class T>
  static void destroy_at(T *p) {
    std::destroy_at(p);
  }
  template <class T>
  static T *construct_at(T *p, const T &v) {
#if __cplusplus >= 202002L
    return std::construct_at(p, v);
#else
    return ::new (static_cast<void *>(p)) T(v);
#endif
  }
};
#endif

// ---------------------------------------------------------------------------------------------
// algorithms under test: call(src, dst buffer, n) -> text of the returned advances
static std::string S(long v) { return std::to_string(v); }
struct ACopyN {
  static const char *name() { return "copy_n"; }
  template <class Lib, class Src, class T>
  static std::string call(Src &s, T *d, long n) {
    T *r = Lib::copy_n(s.begin(), n, d);
    return "d" + S(r - d);
  }
};
struct ACopy {
  static const char *name() { return "copy"; }
  template <class Lib, class Src, class T>
  static std::string call(Src &s, T *d, long n) {
    T *r = Lib::copy(s.begin(), s.at(n), d);
    return "d" + S(r - d);
  }
};
struct AMoveN {
  static const char *name() { return "move_n"; }
  template <class Lib, class Src, class T>
  static std::string call(Src &s, T *d, long n) {
    std::pair<typename Src::It, T *> p = Lib::move_n(s.begin(), n, d);
    return "s" + S(s.adv(p.first)) + ",d" + S(p.second - d);
  }
};
struct AMove {
  static const char *name() { return "move"; }
  template <class Lib, class Src, class T>
  static std::string call(Src &s, T *d, long n) {
    T *r = Lib::move(s.begin(), s.at(n), d);
    return "d" + S(r - d);
  }
};
struct ARelocN {
  static const char *name() { return "relocate_n"; }
  template <class Lib, class Src, class T>
  static std::string call(Src &s, T *d, long n) {
    std::pair<typename Src::It, T *> p = Lib::reloc_n(s.begin(), n, d);
    return "s" + S(s.adv(p.first)) + ",d" + S(p.second - d);
  }
};
struct AReloc {
  static const char *name() { return "relocate"; }
  template <class Lib, class Src, class T>
  static std::string call(Src &s, T *d, long n) {
    T *r = Lib::reloc(s.begin(), s.at(n), d);
    return "d" + S(r - d);
  }
};
struct ARelocAt {  // n is 1
  static const char *name() { return "relocate_at"; }
  template <class Lib, class Src, class T>
  static std::string call(Src &s, T *d, long) {
    T *r = Lib::reloc_at(s.b.data, d);
    return "d" + S(r - d + 1);
  }
};
struct AConstructAt {  // n is 1
  static const char *name() { return "construct_at"; }
  template <class Lib, class Src, class T>
  static std::string call(Src &s, T *d, long) {
    T *r = Lib::construct_at(d, static_cast<const T &>(*s.b.data));
    return "d" + S(r - d + 1);
  }
};
// algorithms on ONE range (destination iterator kind Mk for the constructions, source buffer for the destructions)
struct AValueN {
  static const char *name() { return "value_n"; }
  template <class Lib, class MkT, class T>
  static std::string call(T *d, long n) {
    typename MkT::It r = Lib::value_n(MkT::mk(d), n);
    return "d" + S(MkT::raw(r) - d);
  }
};
struct AValue {
  static const char *name() { return "value"; }
  template <class Lib, class MkT, class T>
  static std::string call(T *d, long n) {
    Lib::value(MkT::mk(d), MkT::mk(d + n));
    return "-";
  }
};
struct ADefaultN {
  static const char *name() { return "default_n"; }
  template <class Lib, class MkT, class T>
  static std::string call(T *d, long n) {
    typename MkT::It r = Lib::default_n(MkT::mk(d), n);
    return "d" + S(MkT::raw(r) - d);
  }
};
struct ADefault {
  static const char *name() { return "default"; }
  template <class Lib, class MkT, class T>
  static std::string call(T *d, long n) {
    Lib::default_(MkT::mk(d), MkT::mk(d + n));
    return "-";
  }
};
struct ADestroyN {
  static const char *name() { return "destroy_n"; }
  template <class Lib, class MkT, class T>
  static std::string call(T *d, long n) {
    typename MkT::It r = Lib::destroy_n(MkT::mk(d), n);
    return "s" + S(MkT::raw(r) - d);
  }
};
struct ADestroy {
  static const char *name() { return "destroy"; }
  template <class Lib, class MkT, class T>
  static std::string call(T *d, long n) {
    Lib::destroy(MkT::mk(d), MkT::mk(d + n));
    return "-";
  }
};
struct ADestroyAt {  // n is 1
  static const char *name() { return "destroy_at"; }
  template <class Lib, class MkT, class T>
  static std::string call(T *d, long) {
    Lib::destroy_at(d);
    return "-";
  }
};

// ---------------------------------------------------------------------------------------------
static void resetLedger() { G() = vf::Globals(); }
static std::string errText() {
  std::string s = " errs=" + S(G().nErrors);
  if (!G().errors.empty()) {
    std::string m = G().errors[0];
    std::replace(m.begin(), m.end(), ' ', '_');
    s += " msg=" + m;
  }
  return s;
}
// the head of the line is written (and flushed) BEFORE the call, so that a crash inside the call names its case
static void printHead(const char *tag, const char *algo, const char *it, const char *el, long n, long k) {
  std::printf("%s %s %s %s n=%ld k=%s |", tag, algo, it, el, n, k < 0 ? "-" : S(k).c_str());
  std::fflush(stdout);
}
static void printTail(const std::string &ret, bool threw, const std::string &dst, const std::string &src) {
  std::printf(" ret=%s | threw=%d | dst=%s | src=%s | live=%ld%s\n", threw ? "-" : ret.c_str(), threw ? 1 : 0, dst.c_str(),
              src.c_str(), G().live, errText().c_str());
}

// one run of a two-range algorithm; returns the number of throwing-capable events seen
template <class Lib, class A, class T, class Src>
long runTwo(long n, long k) {
  resetLedger();
  long events;
  {
    Src src(n + 1);
    Buf<T> dst(n + 1);
    std::string ret;
    bool threw = false;
    printHead(Lib::tag(), A::name(), Src::name(), Tr<T>::name(), n, k);
    G().throwingEvents = 0;
    G().countdown = k;
    try {
      ret = A::template call<Lib>(src, dst.data, n);
    } catch (const std::runtime_error &) {
      threw = true;
    }
    G().countdown = -1;
    events = G().throwingEvents;
    std::vector<long> claimed;
    std::string ds = slotStates(dst.data, dst.cnt, claimed);
    std::string ss = src.states(claimed);
    printTail(ret, threw, ds, ss);
    killAll(dst.data, dst.cnt);
    src.cleanup();
  }
  if (G().live != 0) std::printf("LEAK %s %s %s n=%ld k=%ld live-after-cleanup=%ld\n", Lib::tag(), A::name(), Src::name(), n, k, G().live);
  return events;
}
// one run of a one-range construction algorithm (destination through iterator kind MkT)
template <class Lib, class A, class T, class MkT>
long runCtor(long n, long k) {
  resetLedger();
  long events;
  {
    Buf<T> dst(n + 1);
    std::string ret;
    bool threw = false;
    printHead(Lib::tag(), A::name(), MkT::name(), Tr<T>::name(), n, k);
    G().throwingEvents = 0;
    G().countdown = k;
    try {
      ret = A::template call<Lib, MkT>(dst.data, n);
    } catch (const std::runtime_error &) {
      threw = true;
    }
    G().countdown = -1;
    events = G().throwingEvents;
    std::vector<long> claimed;
    std::string ds = slotStates(dst.data, dst.cnt, claimed);
    printTail(ret, threw, ds, "-");
    killAll(dst.data, dst.cnt);
  }
  if (G().live != 0) std::printf("LEAK %s %s %s n=%ld k=%ld live-after-cleanup=%ld\n", Lib::tag(), A::name(), MkT::name(), n, k, G().live);
  return events;
}
// one run of a destruction algorithm on a live source buffer
template <class Lib, class A, class T, class MkT>
long runDtor(long n, long k) {
  resetLedger();
  long events;
  {
    PtrSrc<T> src(n + 1);
    std::string ret;
    bool threw = false;
    printHead(Lib::tag(), A::name(), MkT::name(), Tr<T>::name(), n, k);
    G().throwingEvents = 0;
    G().countdown = k;
    try {
      ret = A::template call<Lib, MkT>(src.b.data, n);
    } catch (const std::runtime_error &) {
      threw = true;
    }
    G().countdown = -1;
    events = G().throwingEvents;
    std::vector<long> claimed;
    std::string ss = src.states(claimed);
    printTail(ret, threw, "-", ss);
    src.cleanup();
  }
  return events;
}

static int gMaxN = 6;
static int gCrashes = 0;

// runs fn in a child process so that a crash is a verdict for this group only
template <class F>
void forked(const std::string &group, F fn) {
  std::fflush(stdout);
  pid_t pid = fork();
  if (pid == 0) {
    setvbuf(stdout, nullptr, _IOLBF, 1 << 16);
    fn();
    std::fflush(stdout);
    _exit(0);
  }
  int status = 0;
  waitpid(pid, &status, 0);
  if (!(WIFEXITED(status) && WEXITSTATUS(status) == 0)) {
    ++gCrashes;
    std::printf("\nCRASH group=%s status=%s%d\n", group.c_str(), WIFSIGNALED(status) ? "signal" : "exit",
                WIFSIGNALED(status) ? WTERMSIG(status) : WEXITSTATUS(status));
    std::fflush(stdout);
  }
}

enum Kind { TWO, CTOR, DTOR };
template <class Lib, class A, class T, class X>
long runSel(long n, long k, std::integral_constant<int, TWO>) {
  return runTwo<Lib, A, T, X>(n, k);
}
template <class Lib, class A, class T, class X>
long runSel(long n, long k, std::integral_constant<int, CTOR>) {
  return runCtor<Lib, A, T, X>(n, k);
}
template <class Lib, class A, class T, class X>
long runSel(long n, long k, std::integral_constant<int, DTOR>) {
  return runDtor<Lib, A, T, X>(n, k);
}
template <class Lib, class A, class T, class X, int K>
struct SweepFn {
  long nLo, nHi;
  void operator()() const {
    for (long n = nLo; n <= nHi; ++n) {
      long events = runSel<Lib, A, T, X>(n, -1, std::integral_constant<int, K>());
      for (long k = 0; k < events; ++k) runSel<Lib, A, T, X>(n, k, std::integral_constant<int, K>());
    }
  }
};
// X = source type (TWO) or iterator maker (CTOR / DTOR); single = the algorithm works on exactly one element
template <class A, class T, class X, int K>
void sweep(const char *xname, bool single = false) {
  long lo = single ? 1 : 0, hi = single ? 1 : gMaxN;
  {
    SweepFn<AmcLib, A, T, X, K> f = {lo, hi};
    forked(std::string("CASE ") + A::name() + " " + xname + " " + Tr<T>::name(), f);
  }
#if __cplusplus >= 201703L
  {
    SweepFn<StdLib, A, T, X, K> f = {lo, hi};
    forked(std::string("STD ") + A::name() + " " + xname + " " + Tr<T>::name(), f);
  }
#endif
}

template <class T>
void famCopy() {
  // copies: every source kind
  sweep<ACopyN, T, PtrSrc<T>, TWO>("ptr");
  sweep<ACopyN, T, RaSrc<T>, TWO>("ra");
  sweep<ACopyN, T, BidSrc<T>, TWO>("bidi");
  sweep<ACopyN, T, FwdSrc<T>, TWO>("fwd");
  sweep<ACopyN, T, MvSrc<T>, TWO>("mvptr");
  sweep<ACopyN, T, ListSrc<T>, TWO>("list");
  sweep<ACopyN, T, FListSrc<T>, TWO>("flist");
  sweep<ACopy, T, PtrSrc<T>, TWO>("ptr");
  sweep<ACopy, T, RaSrc<T>, TWO>("ra");
  sweep<ACopy, T, BidSrc<T>, TWO>("bidi");
  sweep<ACopy, T, FwdSrc<T>, TWO>("fwd");
  sweep<ACopy, T, MvSrc<T>, TWO>("mvptr");
  sweep<ACopy, T, ListSrc<T>, TWO>("list");
  sweep<ACopy, T, FListSrc<T>, TWO>("flist");
}
template <class T>
void famMove() {
  sweep<AMoveN, T, PtrSrc<T>, TWO>("ptr");
  sweep<AMoveN, T, RaSrc<T>, TWO>("ra");
  sweep<AMoveN, T, BidSrc<T>, TWO>("bidi");
  sweep<AMoveN, T, FwdSrc<T>, TWO>("fwd");
  sweep<AMoveN, T, MvSrc<T>, TWO>("mvptr");
  sweep<AMoveN, T, ListSrc<T>, TWO>("list");
  sweep<AMoveN, T, FListSrc<T>, TWO>("flist");
  sweep<AMove, T, PtrSrc<T>, TWO>("ptr");
  sweep<AMove, T, RaSrc<T>, TWO>("ra");
  sweep<AMove, T, BidSrc<T>, TWO>("bidi");
  sweep<AMove, T, FwdSrc<T>, TWO>("fwd");
  sweep<AMove, T, MvSrc<T>, TWO>("mvptr");
  sweep<AMove, T, ListSrc<T>, TWO>("list");
  sweep<AMove, T, FListSrc<T>, TWO>("flist");
}
template <class T>
void famReloc() {
  // relocations: the sources are destroyed by the algorithm, so they live in a raw buffer (no owning container);
  // move_iterator is not a valid source (destroy_n would take the address of an rvalue)
  sweep<ARelocN, T, PtrSrc<T>, TWO>("ptr");
  sweep<ARelocN, T, RaSrc<T>, TWO>("ra");
  sweep<ARelocN, T, BidSrc<T>, TWO>("bidi");
  sweep<ARelocN, T, FwdSrc<T>, TWO>("fwd");
  sweep<AReloc, T, PtrSrc<T>, TWO>("ptr");
  sweep<AReloc, T, RaSrc<T>, TWO>("ra");
  sweep<AReloc, T, BidSrc<T>, TWO>("bidi");
  sweep<AReloc, T, FwdSrc<T>, TWO>("fwd");
  sweep<ARelocAt, T, PtrSrc<T>, TWO>("ptr", true);
  sweep<AConstructAt, T, PtrSrc<T>, TWO>("ptr", true);
}
template <class T>
void famInPlace() {
  // constructions in place
  sweep<AValueN, T, MkPtr<T>, CTOR>("ptr");
  sweep<AValueN, T, MkRa<T>, CTOR>("ra");
  sweep<AValueN, T, MkBid<T>, CTOR>("bidi");
  sweep<AValueN, T, MkFwd<T>, CTOR>("fwd");
  sweep<AValue, T, MkPtr<T>, CTOR>("ptr");
  sweep<AValue, T, MkRa<T>, CTOR>("ra");
  sweep<AValue, T, MkBid<T>, CTOR>("bidi");
  sweep<AValue, T, MkFwd<T>, CTOR>("fwd");
  sweep<ADefaultN, T, MkPtr<T>, CTOR>("ptr");
  sweep<ADefaultN, T, MkRa<T>, CTOR>("ra");
  sweep<ADefaultN, T, MkBid<T>, CTOR>("bidi");
  sweep<ADefaultN, T, MkFwd<T>, CTOR>("fwd");
  sweep<ADefault, T, MkPtr<T>, CTOR>("ptr");
  sweep<ADefault, T, MkRa<T>, CTOR>("ra");
  sweep<ADefault, T, MkBid<T>, CTOR>("bidi");
  sweep<ADefault, T, MkFwd<T>, CTOR>("fwd");
  // destructions
  sweep<ADestroyN, T, MkPtr<T>, DTOR>("ptr");
  sweep<ADestroyN, T, MkRa<T>, DTOR>("ra");
  sweep<ADestroyN, T, MkBid<T>, DTOR>("bidi");
  sweep<ADestroyN, T, MkFwd<T>, DTOR>("fwd");
  sweep<ADestroy, T, MkPtr<T>, DTOR>("ptr");
  sweep<ADestroy, T, MkRa<T>, DTOR>("ra");
  sweep<ADestroy, T, MkBid<T>, DTOR>("bidi");
  sweep<ADestroy, T, MkFwd<T>, DTOR>("fwd");
  sweep<ADestroyAt, T, MkPtr<T>, DTOR>("ptr", true);
}

// GROUP = 4 * element type + family: the translation unit is split so that the builds run in parallel
template <class T>
void allFor(int fam) {
  if (fam < 0 || fam == 0) famCopy<T>();
  if (fam < 0 || fam == 1) famMove<T>();
  if (fam < 0 || fam == 2) famReloc<T>();
  if (fam < 0 || fam == 3) famInPlace<T>();
}
#ifdef GROUP
template <class T>
void allForGroup() {
#if GROUP % 4 == 0
  famCopy<T>();
#elif GROUP % 4 == 1
  famMove<T>();
#elif GROUP % 4 == 2
  famReloc<T>();
#else
  famInPlace<T>();
#endif
}
#endif

// construct_at (and emplace / emplace_back of the containers, which go through it) must build T(args...) - with
// parentheses, as std::construct_at and std::vector do - whatever the language standard: a type with both a (int, int) and an
// initializer_list constructor tells the two apart.  Only a mismatch prints a line (reported by the check as it stands).
struct ParenOrBrace {
  long tag;
  ParenOrBrace(int a, int b) : tag(100L * a + b) {}
  ParenOrBrace(std::initializer_list<int> l) : tag(-1) {
    for (int x : l) tag -= x;
  }
};
static void probeArgumentForwarding() {
  const long want = ParenOrBrace(2, 7).tag;
  alignas(ParenOrBrace) unsigned char buf[sizeof(ParenOrBrace)];
  ParenOrBrace *p = amc::construct_at(reinterpret_cast<ParenOrBrace *>(buf), 2, 7);
  if (p->tag != want) std::printf("ARGFWD amc::construct_at(p, 2, 7) built tag %ld, T(2, 7) has tag %ld (cplusplus=%ld)\n", p->tag, want, static_cast<long>(__cplusplus));
  amc::vector<ParenOrBrace> v;
  v.emplace_back(2, 7);
  v.emplace(v.begin(), 2, 7);
  amc::SmallVector<ParenOrBrace, 2> sv;
  sv.emplace_back(2, 7);
  amc::FixedCapacityVector<ParenOrBrace, 2> fcv;
  fcv.emplace_back(2, 7);
  fcv.emplace(fcv.begin(), 2, 7);
  if (v[0].tag != want || v[1].tag != want || sv[0].tag != want || fcv[0].tag != want || fcv[1].tag != want)
    std::printf("ARGFWD emplace / emplace_back(2, 7) built tags %ld %ld %ld %ld %ld, T(2, 7) has tag %ld (cplusplus=%ld)\n", v[0].tag, v[1].tag, sv[0].tag,
                fcv[0].tag, fcv[1].tag, want, static_cast<long>(__cplusplus));
}

// Random access does not imply contiguous: std::reverse_iterator<T*> and a strided iterator are random access iterators
// whose elements are not laid out in iteration order.  The bitwise variants (memcpy / memmove of count * sizeof(T) bytes from
// the address of the first element) must not be selected for them.  Only a mismatch prints a line.
template <class T>
struct StrideIt {  // every second element of an array
  typedef std::random_access_iterator_tag iterator_category;
  typedef T value_type;
  typedef std::ptrdiff_t difference_type;
  typedef T *pointer;
  typedef T &reference;
  T *p;
  explicit StrideIt(T *q = nullptr) : p(q) {}
  T &operator*() const { return *p; }
  T *operator->() const { return p; }
  T &operator[](std::ptrdiff_t i) const { return p[2 * i]; }
  StrideIt &operator++() { p += 2; return *this; }
  StrideIt operator++(int) { StrideIt t(*this); p += 2; return t; }
  StrideIt &operator--() { p -= 2; return *this; }
  StrideIt operator--(int) { StrideIt t(*this); p -= 2; return t; }
  StrideIt &operator+=(std::ptrdiff_t d) { p += 2 * d; return *this; }
  StrideIt &operator-=(std::ptrdiff_t d) { p -= 2 * d; return *this; }
  StrideIt operator+(std::ptrdiff_t d) const { return StrideIt(p + 2 * d); }
  StrideIt operator-(std::ptrdiff_t d) const { return StrideIt(p - 2 * d); }
  std::ptrdiff_t operator-(const StrideIt &o) const { return (p - o.p) / 2; }
  bool operator==(const StrideIt &o) const { return p == o.p; }
  bool operator!=(const StrideIt &o) const { return p != o.p; }
  bool operator<(const StrideIt &o) const { return p < o.p; }
  bool operator>(const StrideIt &o) const { return p > o.p; }
  bool operator<=(const StrideIt &o) const { return p <= o.p; }
  bool operator>=(const StrideIt &o) const { return p >= o.p; }
};
struct PlainInt {  // trivially copyable and trivially relocatable
  int v;
};
static void probeNonContiguous() {
  const int n = 4;
  PlainInt src[2 * n + 1];
  for (int i = 0; i < 2 * n + 1; ++i) src[i].v = 100 + i;
  PlainInt dst[2 * n + 1];
  std::string bad;
  auto check = [&](const char *what, const int *want, int cnt) {
    for (int i = 0; i < cnt; ++i)
      if (dst[i].v != want[i]) {
        bad += std::string(bad.empty() ? "" : "; ") + what + " element " + std::to_string(i) + " is " + std::to_string(dst[i].v) + " want " + std::to_string(want[i]);
        break;
      }
  };
  const int revWant[n] = {100 + n - 1, 100 + n - 2, 100 + n - 3, 100 + n - 4};
  const int strWant[n] = {100, 102, 104, 106};
  typedef std::reverse_iterator<PlainInt *> Rev;
  amc::uninitialized_copy_n(Rev(src + n), n, dst);
  check("uninitialized_copy_n(reverse_iterator)", revWant, n);
  amc::uninitialized_copy(Rev(src + n), Rev(src), dst);
  check("uninitialized_copy(reverse_iterator)", revWant, n);
  amc::uninitialized_move_n(Rev(src + n), n, dst);
  check("uninitialized_move_n(reverse_iterator)", revWant, n);
  amc::uninitialized_relocate_n(Rev(src + n), n, dst);
  check("uninitialized_relocate_n(reverse_iterator)", revWant, n);
  amc::uninitialized_relocate(Rev(src + n), Rev(src), dst);
  check("uninitialized_relocate(reverse_iterator)", revWant, n);
  amc::uninitialized_copy_n(StrideIt<PlainInt>(src), n, dst);
  check("uninitialized_copy_n(strided)", strWant, n);
  amc::uninitialized_relocate_n(StrideIt<PlainInt>(src), n, dst);
  check("uninitialized_relocate_n(strided)", strWant, n);
  // destination not contiguous in iteration order
  PlainInt out[2 * n + 1];
  for (int i = 0; i < 2 * n + 1; ++i) out[i].v = -1;
  amc::uninitialized_copy_n(src, n, StrideIt<PlainInt>(out));
  for (int i = 0; i < n; ++i)
    if (out[2 * i].v != 100 + i || out[2 * i + 1].v != -1) {
      bad += std::string(bad.empty() ? "" : "; ") + "uninitialized_copy_n to a strided destination wrote slot " + std::to_string(2 * i) + "=" + std::to_string(out[2 * i].v) + "," + std::to_string(out[2 * i + 1].v);
      break;
    }
  if (!bad.empty()) std::printf("NONCONTIG random access but not contiguous iterators: %s (cplusplus=%ld)\n", bad.c_str(), static_cast<long>(__cplusplus));
}

// Source and destination of different types: each element is CONVERTED (static_cast semantics), never copied as bytes, whatever
// the sizes of the two types.  The object representation of every destination element is compared with the one std's algorithm
// (or a plain loop) produces.  Only a mismatch prints a line.
template <class Src, class Dst>
static void probeConvertingOne(const char *nm, std::string &bad) {
  const Src raw[] = {static_cast<Src>(0), static_cast<Src>(1), static_cast<Src>(2), static_cast<Src>(64), static_cast<Src>(-1), static_cast<Src>(-128),
                     static_cast<Src>(127)};
  const int n = static_cast<int>(sizeof(raw) / sizeof(raw[0]));
  Dst want[n];
  for (int i = 0; i < n; ++i) want[i] = static_cast<Dst>(raw[i]);
  std::list<Src> lst(raw, raw + n);
  for (int form = 0; form < 4; ++form) {
    alignas(Dst) unsigned char buf[sizeof(Dst) * n];
    std::memset(buf, 0xAB, sizeof(buf));
    Dst *dst = reinterpret_cast<Dst *>(buf);
    const char *what = "?";
    switch (form) {
      case 0: what = "uninitialized_copy_n(pointer)"; amc::uninitialized_copy_n(raw, n, dst); break;
      case 1: what = "uninitialized_copy(pointers)"; amc::uninitialized_copy(raw, raw + n, dst); break;
      case 2: what = "uninitialized_copy_n(list)"; amc::uninitialized_copy_n(lst.begin(), n, dst); break;
      default: what = "uninitialized_move_n(pointer)"; { Src tmp[n]; for (int i = 0; i < n; ++i) tmp[i] = raw[i]; amc::uninitialized_move_n(tmp, n, dst); } break;
    }
    if (std::memcmp(static_cast<const void *>(dst), static_cast<const void *>(want), sizeof(Dst) * n) != 0) {
      int i = 0;
      while (std::memcmp(static_cast<const void *>(dst + i), static_cast<const void *>(want + i), sizeof(Dst)) == 0) ++i;
      bad += std::string(bad.empty() ? "" : "; ") + nm + " " + what + ": element " + std::to_string(i) + " has first byte " +
             std::to_string(static_cast<int>(buf[sizeof(Dst) * i])) + ", a converted element has " +
             std::to_string(static_cast<int>(reinterpret_cast<const unsigned char *>(want + i)[0]));
    }
  }
}
static void probeConverting() {
  std::string bad;
  probeConvertingOne<char, bool>("char->bool", bad);
  probeConvertingOne<unsigned char, bool>("unsigned char->bool", bad);
  probeConvertingOne<signed char, unsigned char>("signed char->unsigned char", bad);
  probeConvertingOne<unsigned, int>("unsigned->int", bad);
  probeConvertingOne<int, float>("int->float", bad);
  probeConvertingOne<int, long>("int->long", bad);
  probeConvertingOne<short, unsigned short>("short->unsigned short", bad);
  if (!bad.empty()) std::printf("CONVERT source and destination of different types: %s (cplusplus=%ld)\n", bad.c_str(), static_cast<long>(__cplusplus));
}

int main(int argc, char **argv) {
  if (argc > 1) gMaxN = std::atoi(argv[1]);
  std::printf("MEMDRV cplusplus=%ld maxn=%d\n", static_cast<long>(__cplusplus), gMaxN);
#if !defined(GROUP) || GROUP == 0
  probeArgumentForwarding();
  probeNonContiguous();
  probeConverting();
#endif
#ifdef GROUP
#if GROUP / 4 == 0
  allForGroup<vf::El<0> >();
#elif GROUP / 4 == 1
  allForGroup<vf::El<1> >();
#elif GROUP / 4 == 2
  allForGroup<vf::ElTM>();
#elif GROUP / 4 == 3
  allForGroup<vf::TC4>();
#else
  allForGroup<vf::POD>();
#endif
#else
  allFor<vf::El<0> >(-1);
  allFor<vf::El<1> >(-1);
  allFor<vf::ElTM>(-1);
  allFor<vf::TC4>(-1);
  allFor<vf::POD>(-1);
#endif
  std::printf("END crashes=%d\n", gCrashes);
  return 0;
}
