#!/usr/bin/env python3
"""C17 (static contract): generator of the probe translation units.

Every instance is decided by the compiler: the probe prints, one line per instance
(kind, sizeof T, alignof T, N, size_type), the compiler's constants

  sizeof / alignof / std traits of the element type T, amc::is_trivially_relocatable of T and of pairs built on T,
  sizeof, trait, noexcept(move ctor / move assign / member swap / free swap) of
      amc::vector<T,alloc,S>, amc::SmallVector<T,N,alloc,S>, amc::FixedCapacityVector<T,N>
  sizeof(FixedCapacityVector::size_type), std::is_trivially_destructible<FixedCapacityVector>,
  the trivially_relocatable trait of FlatSet (default / non relocatable comparator / declared comparator /
      SmallVector backing / FixedCapacityVector backing) and of SmallSet (std::set backing, FlatSet backing,
      FlatSet backing with a non relocatable comparator)  [SmallSet: C++17 and later, N <= 64].

A field that is not legal for the instance (SmallVector needs N < max(size_type), FixedCapacityVector N >= 1,
SmallSet 1 <= N <= 64 and C++17) is printed as -1; so are the N-dependent set fields of the instances for which
sets_on() is false (the set templates are the most expensive ones).

Usage as a script:  c17probe_gen.py <outdir> [quick|thorough] [nshards]   (writes c17probe_<i>.cpp, prints JSON)
"""
import json
import os
import sys

# ---------------------------------------------------------------------------------------------------------------
# element kinds: name -> intended descriptor  (tc, decl, triv_dtor, nothrow move ctor, nothrow move assign,
# nothrow swappable).  decl: None = no declaration, True = `using trivially_relocatable = std::true_type`,
# False = declares something that is not std::true_type (std::false_type, or a class derived from std::true_type).
KINDS = [
    ("triv",        dict(tc=1, decl=None,  td=1, nmc=1, nma=1, nsw=1)),
    ("trdecl",      dict(tc=0, decl=True,  td=1, nmc=1, nma=1, nsw=1)),
    ("ntr",         dict(tc=0, decl=None,  td=1, nmc=1, nma=1, nsw=1)),
    ("optout",      dict(tc=1, decl=False, td=1, nmc=1, nma=1, nsw=1)),
    ("throwmove",   dict(tc=0, decl=None,  td=1, nmc=0, nma=0, nsw=0)),
    ("ntdtor",      dict(tc=0, decl=None,  td=0, nmc=1, nma=1, nsw=1)),
    ("trthrow",     dict(tc=0, decl=True,  td=1, nmc=0, nma=0, nsw=0)),
    ("throwswapok", dict(tc=0, decl=None,  td=1, nmc=0, nma=0, nsw=1)),
    ("nmconly",     dict(tc=0, decl=None,  td=1, nmc=1, nma=0, nsw=0)),
    ("trntdtor",    dict(tc=0, decl=True,  td=0, nmc=1, nma=1, nsw=1)),
    ("declother",   dict(tc=1, decl=False, td=1, nmc=1, nma=1, nsw=1)),
    ("swapthrow",   dict(tc=0, decl=None,  td=1, nmc=1, nma=1, nsw=0)),
]
KIND_INDEX = {k: i for i, (k, _) in enumerate(KINDS)}
KIND_DESC = dict(KINDS)

SIZE_TYPES = [("u8", "std::uint8_t", 1, 255), ("u16", "std::uint16_t", 2, 65535),
              ("u32", "std::uint32_t", 4, 2**32 - 1), ("u64", "std::uint64_t", 8, 2**64 - 1)]
ST = {t[0]: t for t in SIZE_TYPES}

ALIGNS = [1, 2, 4, 8, 16]
SHAPES = [(s, a) for a in ALIGNS for s in range(1, 25) if s % a == 0]          # 46 (size, align) pairs
N_ALL = list(range(0, 41)) + [255, 256, 65535, 65536]
N_EDGE = [0, 1, 2, 3, 4, 7, 8, 9, 16, 17, 254, 255, 256, 65534, 65535, 65536]
N_KIND = [0, 1, 2, 5, 8, 9, 40, 64, 65]
SHAPES_KIND = [(1, 1), (3, 1), (5, 1), (2, 2), (4, 4), (12, 4), (8, 8), (24, 8), (16, 16)]

# field names, in the order the probe prints them
T_FIELDS = ["t_size", "t_align", "t_tc", "t_td", "t_nmc", "t_nma", "t_nsw", "t_tr",
            "p_TT", "p_Ti", "p_Tn", "p_Td", "p_nest", "p_nn"]
V_FIELDS = ["size", "tr", "mc", "ma", "sw", "fsw"]
F_FIELDS = ["size", "stsize", "tr", "td", "mc", "ma", "sw", "fsw"]
FS_FIELDS = ["fs_def", "fs_ncmp", "fs_dcmp", "fs_sv", "fs_sv_ncmp", "fs_fcv", "fs_fcv_ncmp"]
SS_FIELDS = ["ss_std", "ss_fs", "ss_fs_ncmp", "ss_fs_dcmp"]
FIELDS = (["id", "kind", "N", "w"] + T_FIELDS + ["v_" + f for f in V_FIELDS] + ["sv_" + f for f in V_FIELDS]
          + ["f_" + f for f in F_FIELDS] + FS_FIELDS + SS_FIELDS)


def sv_legal(N, st):
    return N < ST[st][3]


def fcv_legal(N):
    return N >= 1


def ss_legal(N):
    return 1 <= N <= 64


def sets_on(key):
    """Whether the N-dependent set instantiations (FlatSet over SmallVector / FixedCapacityVector, SmallSet) are probed
    for this instance: they are the most expensive templates, so only small N with the default size type."""
    kind, s, a, N, st = key
    return (st == "u32" and (N <= 10 or N in (40, 64, 65))) or N <= 2


def matrix(tier="quick"):
    """List of instances (kind, s, a, N, size type tag), without duplicates, in a deterministic order."""
    rows = []
    seen = set()

    def add(kind, s, a, N, st):
        key = (kind, s, a, N, st)
        if key not in seen:
            seen.add(key)
            rows.append(key)

    nk = len(KINDS)
    # G1: every shape x every N with the default size type; the kind rotates with the shape and N
    for i, (s, a) in enumerate(SHAPES):
        for j, N in enumerate(N_ALL):
            add(KINDS[(i + j) % nk][0], s, a, N, "u32")
    # G2: the other size types on the boundaries of N
    for i, (s, a) in enumerate(SHAPES):
        for j, N in enumerate(N_EDGE):
            for k, st in enumerate(("u8", "u16", "u64")):
                add(KINDS[(i + j + k) % nk][0], s, a, N, st)
    # G3: every kind on selected shapes
    for kind, _ in KINDS:
        for (s, a) in SHAPES_KIND:
            for N in N_KIND:
                add(kind, s, a, N, "u32")
            for st in ("u8", "u64"):
                for N in (0, 3, 9):
                    add(kind, s, a, N, st)
    if tier == "thorough":
        # every kind x every shape on a few N, two size types
        for kind, _ in KINDS:
            for (s, a) in SHAPES:
                for N in (0, 1, 2, 3, 8, 9, 33):
                    add(kind, s, a, N, "u32")
                    add(kind, s, a, N, "u16")
    return rows


PRELUDE = r'''// generated by harness/cpp/c17probe_gen.py -- do not edit
#include <cstddef>
#include <cstdint>
#include <cstdio>
#include <functional>
#include <new>
#include <type_traits>
#include <utility>

#include <amc/fixedcapacityvector.hpp>
#include <amc/flatset.hpp>
#include <amc/smallvector.hpp>
#include <amc/type_traits.hpp>
#include <amc/vector.hpp>
#ifdef AMC_SMALLSET
#include <amc/smallset.hpp>
#endif

namespace probe {
struct Yes : std::true_type {};  // derived from, but not the same as, std::true_type

template <std::size_t S, std::size_t A, int K>
struct E;
#define BYTES alignas(A) unsigned char b[S]
#define SPECIAL(NAME, MC, MA)              \
  NAME() noexcept {}                       \
  NAME(const NAME &) noexcept {}           \
  NAME(NAME &&) MC {}                      \
  NAME &operator=(const NAME &) noexcept { return *this; } \
  NAME &operator=(NAME &&) MA { return *this; }
// 0 triv: trivially copyable, no declaration
template <std::size_t S, std::size_t A> struct E<S, A, 0> { BYTES; };
// 1 trdecl: not trivially copyable, declares std::true_type
template <std::size_t S, std::size_t A> struct E<S, A, 1> { BYTES; using trivially_relocatable = std::true_type; SPECIAL(E, noexcept, noexcept) };
// 2 ntr: not trivially copyable, no declaration
template <std::size_t S, std::size_t A> struct E<S, A, 2> { BYTES; SPECIAL(E, noexcept, noexcept) };
// 3 optout: trivially copyable, declares std::false_type
template <std::size_t S, std::size_t A> struct E<S, A, 3> { BYTES; using trivially_relocatable = std::false_type; };
// 4 throwmove: move constructor / assignment may throw
template <std::size_t S, std::size_t A> struct E<S, A, 4> { BYTES; SPECIAL(E, , ) };
// 5 ntdtor: user provided destructor
template <std::size_t S, std::size_t A> struct E<S, A, 5> { BYTES; ~E() {} };
// 6 trthrow: declares std::true_type, moves may throw
template <std::size_t S, std::size_t A> struct E<S, A, 6> { BYTES; using trivially_relocatable = std::true_type; SPECIAL(E, , ) };
// 7 throwswapok: moves may throw, noexcept swap found by ADL
template <std::size_t S, std::size_t A> struct E<S, A, 7> { BYTES; SPECIAL(E, , ) friend void swap(E &, E &) noexcept {} };
// 8 nmconly: noexcept move constructor, move assignment may throw
template <std::size_t S, std::size_t A> struct E<S, A, 8> { BYTES; SPECIAL(E, noexcept, ) };
// 9 trntdtor: declares std::true_type, user provided destructor
template <std::size_t S, std::size_t A> struct E<S, A, 9> { BYTES; using trivially_relocatable = std::true_type; SPECIAL(E, noexcept, noexcept) ~E() {} };
// 10 declother: trivially copyable, declares a type that is not std::true_type
template <std::size_t S, std::size_t A> struct E<S, A, 10> { BYTES; using trivially_relocatable = Yes; };
// 11 swapthrow: noexcept moves, swap found by ADL may throw
template <std::size_t S, std::size_t A> struct E<S, A, 11> { BYTES; SPECIAL(E, noexcept, noexcept) friend void swap(E &, E &) {} };

struct NT { int v; SPECIAL(NT, noexcept, noexcept) };                                                 // not relocatable
struct TD { int v; using trivially_relocatable = std::true_type; SPECIAL(TD, noexcept, noexcept) };   // declared

template <class T> struct CmpN { int st; SPECIAL(CmpN, noexcept, noexcept) bool operator()(const T &, const T &) const { return false; } };
template <class T> struct CmpD { int st; using trivially_relocatable = std::true_type; SPECIAL(CmpD, noexcept, noexcept)
  bool operator()(const T &, const T &) const { return false; } };

template <class X> constexpr int TR() { return amc::is_trivially_relocatable<X>::value ? 1 : 0; }

template <class T> void pT() {
  std::printf(" %d %d %d %d %d %d %d %d %d %d %d %d %d %d", int(sizeof(T)), int(alignof(T)),
              int(std::is_trivially_copyable<T>::value), int(std::is_trivially_destructible<T>::value),
              int(std::is_nothrow_move_constructible<T>::value), int(std::is_nothrow_move_assignable<T>::value),
              int(amc::is_nothrow_swappable<T>::value), TR<T>(),
              TR<std::pair<T, T> >(), TR<std::pair<T, int> >(), TR<std::pair<T, NT> >(), TR<std::pair<TD, T> >(),
              TR<std::pair<std::pair<T, int>, T> >(), TR<std::pair<NT, NT> >());
}
using std::swap;
template <class V> struct NE {
  static constexpr bool mc = noexcept(V(std::declval<V &&>()));
  static constexpr bool ma = noexcept(std::declval<V &>() = std::declval<V &&>());
  static constexpr bool sw = noexcept(std::declval<V &>().swap(std::declval<V &>()));
  static constexpr bool fsw = noexcept(swap(std::declval<V &>(), std::declval<V &>()));  // found by ADL
};
template <class V> void pV() {
  std::printf(" %lld %d %d %d %d %d", static_cast<long long>(sizeof(V)), TR<V>(), int(NE<V>::mc), int(NE<V>::ma),
              int(NE<V>::sw), int(NE<V>::fsw));
}
template <class F> void pF() {
  std::printf(" %lld %d %d %d %d %d %d %d", static_cast<long long>(sizeof(F)), int(sizeof(typename F::size_type)), TR<F>(),
              int(std::is_trivially_destructible<F>::value), int(NE<F>::mc), int(NE<F>::ma), int(NE<F>::sw), int(NE<F>::fsw));
}
inline void skip(int n) { for (int i = 0; i < n; ++i) std::printf(" -1"); }

template <class T, class S, unsigned long long N, bool Legal, bool Sets>
struct SvPart {
  static void vec() { skip(6); }
  static void fs() { skip(2); }
};
template <class T, class S, unsigned long long N>
struct SvPart<T, S, N, true, false> {
  static void vec() { pV<amc::SmallVector<T, N, amc::allocator<T>, S> >(); }
  static void fs() { skip(2); }
};
template <class T, class S, unsigned long long N>
struct SvPart<T, S, N, true, true> {
  using Al = amc::allocator<T>;
  using SV = amc::SmallVector<T, N, Al, S>;
  static void vec() { pV<SV>(); }
  static void fs() { std::printf(" %d %d", TR<amc::FlatSet<T, std::less<T>, Al, SV> >(), TR<amc::FlatSet<T, CmpN<T>, Al, SV> >()); }
};
template <class T, unsigned long long N, bool Legal, bool Sets>
struct FcvPart {
  static void vec() { skip(8); }
  static void fs() { skip(2); }
};
template <class T, unsigned long long N>
struct FcvPart<T, N, true, false> {
  static void vec() { pF<amc::FixedCapacityVector<T, N> >(); }
  static void fs() { skip(2); }
};
template <class T, unsigned long long N>
struct FcvPart<T, N, true, true> {
  using F = amc::FixedCapacityVector<T, N>;
  using EA = amc::vec::EmptyAlloc;
  static void vec() { pF<F>(); }
  static void fs() { std::printf(" %d %d", TR<amc::FlatSet<T, std::less<T>, EA, F> >(), TR<amc::FlatSet<T, CmpN<T>, EA, F> >()); }
};
template <class T, unsigned long long N, bool Legal>
struct SsPart {
  static void go() { skip(4); }
};
#ifdef AMC_SMALLSET
template <class T, unsigned long long N>
struct SsPart<T, N, true> {
  using Al = amc::allocator<T>;
  static void go() {
    std::printf(" %d %d %d %d", TR<amc::SmallSet<T, N> >(),
                TR<amc::SmallSet<T, N, std::less<T>, Al, amc::FlatSet<T, std::less<T>, Al> > >(),
                TR<amc::SmallSet<T, N, CmpN<T>, Al, amc::FlatSet<T, CmpN<T>, Al> > >(),
                TR<amc::SmallSet<T, N, CmpD<T>, Al, amc::FlatSet<T, CmpD<T>, Al> > >());
  }
};
#endif

template <class T, class S, unsigned long long N, bool SvLegal, bool FcvLegal, bool SsLegal, bool Sets>
void row(long long id, int kind, int w) {
  using Al = amc::allocator<T>;
  using V = amc::vector<T, Al, S>;
  std::printf("R %lld %d %lld %d", id, kind, static_cast<long long>(N), w);
  pT<T>();
  pV<V>();
  SvPart<T, S, N, SvLegal, Sets>::vec();
  FcvPart<T, N, FcvLegal, Sets>::vec();
  std::printf(" %d %d %d", TR<amc::FlatSet<T, std::less<T>, Al, V> >(), TR<amc::FlatSet<T, CmpN<T>, Al, V> >(),
              TR<amc::FlatSet<T, CmpD<T>, Al, V> >());
  SvPart<T, S, N, SvLegal, Sets>::fs();
  FcvPart<T, N, FcvLegal, Sets>::fs();
  SsPart<T, N, SsLegal && Sets>::go();
  std::printf("\n");
}
// a stateful allocator that is not trivially relocatable (it points to itself), not trivially copyable, no declaration:
// is it a part of the containers' trivially_relocatable conjunction?  (line "A ...", informational)
template <class T> struct SelfAlloc {
  using value_type = T; using pointer = T *; using const_pointer = const T *; using size_type = std::size_t;
  using difference_type = std::ptrdiff_t;
  template <class U> struct rebind { using other = SelfAlloc<U>; };
  SelfAlloc() noexcept : self(this) {}
  SelfAlloc(const SelfAlloc &) noexcept : self(this) {}
  SelfAlloc &operator=(const SelfAlloc &) noexcept { return *this; }
  T *allocate(std::size_t n) { return static_cast<T *>(::operator new(n * sizeof(T))); }
  void deallocate(T *p, std::size_t) { ::operator delete(p); }
  SelfAlloc *self;
};
inline void alloc_line() {
  using A = SelfAlloc<int>;
  std::printf("A %d %d %d %d %d\n", TR<A>(), TR<amc::vector<int, A> >(), TR<amc::SmallVector<int, 4, A> >(),
              TR<amc::FlatSet<int, std::less<int>, A> >(), int(sizeof(amc::vector<int, A>)));
}
}  // namespace probe
'''


def row_call(idx, key):
    kind, s, a, N, st = key
    b = lambda x: "true" if x else "false"
    return ("  probe::row<probe::E<%d, %d, %d>, %s, %dULL, %s, %s, %s, %s>(%d, %d, %d);" %
            (s, a, KIND_INDEX[kind], ST[st][1], N, b(sv_legal(N, st)), b(fcv_legal(N)), b(ss_legal(N)), b(sets_on(key)),
             idx, KIND_INDEX[kind], ST[st][2]))


def generate(rows, nshards):
    """Return the list of translation unit texts: shard i holds rows i, i+nshards, ..."""
    shards = []
    for sh in range(nshards):
        body = [row_call(i, rows[i]) for i in range(sh, len(rows), nshards)]
        if sh == 0:
            body.append("  probe::alloc_line();")
        shards.append(PRELUDE + "\nint main() {\n" + "\n".join(body) + "\n  return 0;\n}\n")
    return shards


def parse(text, rows):
    """Probe output -> list of dicts (field -> int), plus the instance key fields."""
    out = []
    for line in text.split("\n"):
        if not line.startswith("R "):
            continue
        vals = [int(x) for x in line[2:].split()]
        if len(vals) != len(FIELDS):
            raise ValueError("probe line has %d fields, expected %d: %s" % (len(vals), len(FIELDS), line))
        d = dict(zip(FIELDS, vals))
        kind, s, a, N, st = rows[d["id"]]
        d["kind"] = kind
        d["s"], d["a"], d["st"] = s, a, st
        if d["N"] != N or d["w"] != ST[st][2]:
            raise ValueError("probe line does not match its instance: %s" % line)
        out.append(d)
    return out


ALLOC_FIELDS = ["alloc_tr", "vector_tr", "smallvector_tr", "flatset_tr", "sizeof_vector"]


def parse_alloc(text):
    """The informational "A" line: SelfAlloc<int> and the containers built on it."""
    for line in text.split("\n"):
        if line.startswith("A "):
            return dict(zip(ALLOC_FIELDS, [int(x) for x in line[2:].split()]))
    return None


if __name__ == "__main__":
    outdir = sys.argv[1]
    tier = sys.argv[2] if len(sys.argv) > 2 else "quick"
    n = int(sys.argv[3]) if len(sys.argv) > 3 else 16
    rows = matrix(tier)
    os.makedirs(outdir, exist_ok=True)
    for i, txt in enumerate(generate(rows, n)):
        with open(os.path.join(outdir, "c17probe_%d.cpp" % i), "w") as f:
            f.write(txt)
    print(json.dumps({"rows": len(rows), "shards": n, "fields": len(FIELDS)}))
