// Vector correspondence driver: executes operation scripts on the real amc vectors (headers of /repo's working
// tree), prints one transcript line per operation (observables compared with the extracted Coq model) and
// evaluates the direct oracles of the properties on the implementation (real std::vector side by side, element
// ledger, allocator ledger, capacity/address rules).  Script/transcript syntax: see DESIGN.md section 4.3 and
// lib/vecgen.py.
#include <algorithm>
#include <iterator>
#include <list>
#include <memory>
#include <vector>

#include "common.hpp"

// -DVF_NO_EXTRAS builds the driver WITHOUT AMC_NONSTD_FEATURES (C16): the non-standard operations answer skip:noext
#ifndef VF_NO_EXTRAS
#ifndef AMC_NONSTD_FEATURES
#define AMC_NONSTD_FEATURES
#endif
#endif
#define private public
#define protected public
#include <amc/fixedcapacityvector.hpp>
#include <amc/smallvector.hpp>
#include <amc/vector.hpp>
#undef private
#undef protected

namespace vf {
template <class T, bool W>
bool LedgerAlloc<T, W>::amc_is_tr() {
  return amc::is_trivially_relocatable<T>::value;
}

// single-pass input iterator over a vector<int> (shared position, like istream_iterator)
struct InputSrc {
  const std::vector<int> *v;
  size_t pos;
};
template <class T>
struct InputIt {
  using iterator_category = std::input_iterator_tag;
  using value_type = T;
  using difference_type = ptrdiff_t;
  using pointer = const T *;
  using reference = T;
  InputSrc *src;  // nullptr = end
  int cur;
  InputIt() : src(nullptr), cur(0) {}
  explicit InputIt(InputSrc *s) : src(s), cur(0) { fetch(); }
  void fetch() {
    if (src && src->pos < src->v->size()) {
      cur = (*src->v)[src->pos++];
    } else {
      src = nullptr;
    }
  }
  T operator*() const { return T(cur); }
  InputIt &operator++() {
    fetch();
    return *this;
  }
  InputIt operator++(int) {
    InputIt t = *this;
    fetch();
    return t;
  }
  bool operator==(const InputIt &o) const { return src == o.src; }
  bool operator!=(const InputIt &o) const { return src != o.src; }
};

// ---------------------------------------------------------------------------------------------
enum Flavour { kVec = 0, kSV = 1, kFCV = 2 };

template <class S>
inline std::string numstr(S x) {
  return std::is_signed<S>::value ? std::to_string(static_cast<long long>(x)) : std::to_string(static_cast<unsigned long long>(x));
}
template <class V>
struct Words {
  static std::string capa(const V &v) { return numstr(v._capa); }
  static std::string size(const V &v) { return numstr(v._size); }
};

template <class Cfg>
struct Driver {
  using V = typename Cfg::V;
  using T = typename V::value_type;
  using R = std::vector<int>;
  static const int K = 3;  // pool size
  static const bool inst = ElInfo<T>::instrumented;

  // pool: raw storage so that construction/destruction are explicit operations (and C14 can abandon an object)
  typename std::aligned_storage<sizeof(V), alignof(V)>::type raw[K];
  bool alive[K];
  bool tainted[K];  // C05 ghost flag
  R ref[K];
  long tempsAlive;
  std::vector<std::string> oracle;  // oracle failures of the current step
  std::string hid;
  int step;

  V &v(int k) { return *reinterpret_cast<V *>(&raw[k]); }

  Driver() : tempsAlive(0), step(0) {
    for (int k = 0; k < K; ++k) {
      alive[k] = false;
      tainted[k] = false;
    }
  }

  void fail(const char *prop, const std::string &msg) { oracle.push_back(std::string(prop) + ":" + msg); }

  static std::string storeOf(const V &x) {
    const char *p = reinterpret_cast<const char *>(x.data());
    const char *o = reinterpret_cast<const char *>(&x);
    if (p == nullptr) return "null";
    if (p >= o && p < o + sizeof(V)) return "inl";
    return "heap";
  }
  static std::vector<int> contents(const V &x) {
    std::vector<int> c;
    for (size_t i = 0; i < static_cast<size_t>(x.size()); ++i) c.push_back(x.begin()[i].value());
    return c;
  }
  std::string describe(int k) {
    if (!alive[k]) return "dead";
    V &x = v(k);
    std::ostringstream os;
    os << static_cast<long>(x.size()) << ";" << static_cast<long>(x.capacity()) << ";" << storeOf(x) << ";"
       << Words<V>::capa(x) << ";" << Words<V>::size(x) << ";" << joinInts(contents(x));
    return os.str();
  }

  // ---- snapshot for the capacity / address oracle (C07) and the strong guarantee (C09)
  struct Snap {
    bool alive;
    long size, cap;
    const void *data;
    std::vector<int> vals;
    std::vector<long> ids;
    std::string store;
  };
  Snap snap(int k) {
    Snap s;
    s.alive = alive[k];
    if (!alive[k]) return s;
    V &x = v(k);
    s.size = static_cast<long>(x.size());
    s.cap = static_cast<long>(x.capacity());
    s.data = x.data();
    s.vals = contents(x);
    s.store = storeOf(x);
    for (long i = 0; i < s.size; ++i) s.ids.push_back(idOf(x.begin()[i]));
    return s;
  }
  template <int C>
  static long idOf(const El<C> &e) {
    return e.id;
  }
  static long idOf(const TC4 &) { return -1; }
  static long idOf(const TC2 &) { return -1; }
  static long idOf(const POD4 &) { return -1; }
  static long idOf(const OA16 &) { return -1; }

  // ---- element event counters
  struct Ev {
    long valC, defC, copyC, moveC, copyA, moveA, dtor;
  };
  static Ev evNow() {
    Ev e = {G().nValC, G().nDefC, G().nCopyC, G().nMoveC, G().nCopyA, G().nMoveA, G().nDtor};
    return e;
  }

  // exception classification
  static std::string classify() {
    try {
      throw;
    } catch (const std::out_of_range &) {
      return "out_of_range";
    } catch (const std::overflow_error &) {
      return "overflow_error";
    } catch (const std::bad_alloc &) {
      return "bad_alloc";
    } catch (const std::runtime_error &e) {
      return std::strncmp(e.what(), "injected", 8) == 0 ? "injected" : "runtime_error";
    } catch (...) {
      return "other";
    }
  }

  // an argument that is a T: either external (a temporary the driver owns) or a reference to an own element
  struct Arg {
    bool own;
    int idx;
    int val;
  };
  static Arg parseArg(const std::string &s) {  // "v12" | "o3"
    Arg a;
    a.own = s[0] == 'o';
    a.idx = a.own ? std::atoi(s.c_str() + 1) : -1;
    a.val = a.own ? 0 : std::atoi(s.c_str() + 1);
    return a;
  }

  void destroySlot(int k) {
    if (alive[k]) {
      v(k).~V();
      alive[k] = false;
    }
    ref[k].clear();
    tainted[k] = false;
  }

  // Run one script line; prints the transcript line.
  void runLine(const std::string &line) {
    std::vector<std::string> tk = split(line);
    if (tk.empty()) return;
    long inject = -1, inject2 = -1;   // "!k op": the k-th throwing-capable event throws; "!k+j op": and then the j-th after it
    size_t t0 = 0;
    if (tk[0][0] == '!') {
      inject = std::atol(tk[0].c_str() + 1);
      size_t plus = tk[0].find('+');
      if (plus != std::string::npos) inject2 = std::atol(tk[0].c_str() + plus + 1);
      t0 = 1;
    }
    const std::string op = tk[t0];
    auto S = [&](size_t i) -> const std::string & {
      static const std::string empty = "0";
      return t0 + i < tk.size() ? tk[t0 + i] : empty;
    };
    auto I = [&](size_t i) -> long { return std::atol(S(i).c_str()); };
    int a = static_cast<int>(I(1));
    if (a < 0 || a >= K) a = 0;
    oracle.clear();
    G().allocEvents.clear();
    ++step;

    // -------- pre-state
    Snap before[K];
    for (int k = 0; k < K; ++k) before[k] = snap(k);
    long errBefore = G().nErrors;
    std::string res = "ok";
    bool threw = false;
    bool skipped = false;
    std::string exn;
    // classification used by the oracles below
    bool strongOp = false;        // C09 strong guarantee documented
    bool mayShrink[K] = {false, false, false};
    bool touched[K] = {false, false, false};
    long insertPoint = -1;        // C07(d): elements before this index must keep address + identity when no realloc is needed
    long reserveArg = -1;
    bool zeroEventSteal = false;  // C07(e)
    touched[a] = true;
    const long N = Cfg::N;
    const long limit = Cfg::limit();  // maximum size (N for FCV, size_type max otherwise)

    // temporaries (external T arguments) live outside the measured region
    std::unique_ptr<T> tmp;
    std::vector<T> srcT;  // for forward ranges
    std::vector<int> srcI;
    InputSrc isrc;
    auto mkTmp = [&](int val) {
      tmp.reset(new T(val));
      ++tempsAlive;
    };
    Ev ev0 = evNow();
    auto arm = [&]() {
      ev0 = evNow();
      G().throwingEvents = 0;
      G().lastInjected.clear();
      G().countdown = inject;
      G().countdown2 = inject2;
    };
    R &r = ref[a];
    const long sz = alive[a] ? static_cast<long>(v(a).size()) : 0;
    long retIdx = -1;
    bool rvOwn = false;  // rvalue reference to an own element: the standard leaves the result unspecified

#define NEED_ALIVE(k)                \
  if (!alive[k]) {                   \
    skipped = true;                  \
    res = "skip:dead";               \
    goto done;                       \
  }
#define FITS(n) ((n) >= 0 && static_cast<unsigned long long>(n) <= static_cast<unsigned long long>(std::numeric_limits<typename V::size_type>::max()))
#define NEED(cond)        \
  if (!(cond)) {          \
    skipped = true;       \
    res = "skip:pre";     \
    goto done;            \
  }
    try {
      if (op == "ctor_default") {
        destroySlot(a);
        arm();
        new (&raw[a]) V();
        alive[a] = true;
      } else if (op == "ctor_n") {
        long n = I(2);
        NEED(FITS(n));
        destroySlot(a);
        strongOp = true;
        arm();
        new (&raw[a]) V(static_cast<typename V::size_type>(n));
        alive[a] = true;
        ref[a].assign(n, 0);
      } else if (op == "ctor_nv") {
        long n = I(2);
        NEED(FITS(n));
        destroySlot(a);
        mkTmp(static_cast<int>(I(3)));
        strongOp = true;
        arm();
        new (&raw[a]) V(static_cast<typename V::size_type>(n), *tmp);
        alive[a] = true;
        ref[a].assign(n, static_cast<int>(I(3)));
      } else if (op == "ctor_range") {
        srcI = parseInts(S(3));
        destroySlot(a);
        strongOp = true;
        if (S(2) == "inp") {
          isrc.v = &srcI;
          isrc.pos = 0;
          arm();
          new (&raw[a]) V(InputIt<T>(&isrc), InputIt<T>());
        } else if (S(2) == "list") {
          std::list<int> l(srcI.begin(), srcI.end());
          arm();
          new (&raw[a]) V(l.begin(), l.end());
        } else {
          arm();
          new (&raw[a]) V(srcI.begin(), srcI.end());
        }
        alive[a] = true;
        ref[a] = srcI;
      } else if (op == "ctor_copy") {
        int b = static_cast<int>(I(2));
        NEED(b >= 0 && b < K && b != a);
        NEED_ALIVE(b);
        destroySlot(a);
        strongOp = true;
        arm();
        new (&raw[a]) V(v(b));
        alive[a] = true;
        ref[a] = ref[b];
      } else if (op == "ctor_move") {
        int b = static_cast<int>(I(2));
        NEED(b >= 0 && b < K && b != a);
        NEED_ALIVE(b);
        destroySlot(a);
        touched[b] = true;
        mayShrink[b] = true;
        zeroEventSteal = before[b].store == "heap";
        arm();
        new (&raw[a]) V(std::move(v(b)));
        alive[a] = true;
        ref[a] = ref[b];
        ref[b].clear();
        tainted[a] = tainted[b];
        tainted[b] = false;
        if (!v(b).empty()) fail("C01", "moved-from vector not empty after move construction");
      } else if (op == "adopt") {
        // SmallVector(amc::vector&&): build the source with the given values and capacity, then steal it
        destroySlot(a);
        srcI = parseInts(S(2));
        long cap = I(3);
        // (a capacity or a length the size_type cannot hold would be truncated by the cast: the library would be asked
        //  something else than the script says - refused, as the model refuses it)
        if (!FITS(cap) || !FITS(static_cast<long>(srcI.size())) || !Cfg::template adoptInto<Driver>(*this, a, srcI, cap)) {
          skipped = true;
          res = "skip:noadopt";
          goto done;
        }
      } else if (op == "dtor") {
        NEED_ALIVE(a);
        arm();
        destroySlot(a);
      } else if (op == "push_back") {
        NEED_ALIVE(a);
        Arg g = parseArg(S(2));
        NEED(!g.own || g.idx < sz);
        int val = g.own ? r[g.idx] : g.val;
        if (!g.own) mkTmp(val);
        strongOp = true;
        insertPoint = sz;
        const T &refArg = g.own ? v(a).begin()[g.idx] : *tmp;
        arm();
        v(a).push_back(refArg);
        r.push_back(val);
      } else if (op == "push_back_rv") {
        NEED_ALIVE(a);
        Arg g = parseArg(S(2));
        NEED(!g.own || g.idx < sz);
        int val = g.own ? r[g.idx] : g.val;
        if (!g.own) mkTmp(val);
        strongOp = true;
        insertPoint = sz;
        T &refArg = g.own ? v(a).begin()[g.idx] : *tmp;
        rvOwn = g.own;
        arm();
        v(a).push_back(std::move(refArg));
        r.push_back(val);
      } else if (op == "emplace_back") {
        NEED_ALIVE(a);
        Arg g = parseArg(S(2));
        NEED(!g.own || g.idx < sz);
        int val = g.own ? r[g.idx] : g.val;
        strongOp = true;
        insertPoint = sz;
        arm();
        if (g.own) {
          v(a).emplace_back(v(a).begin()[g.idx]);
        } else {
          v(a).emplace_back(val);
        }
        r.push_back(val);
      } else if (op == "insert" || op == "insert_rv" || op == "emplace") {
        NEED_ALIVE(a);
        long p = I(2);
        Arg g = parseArg(S(3));
        NEED(p >= 0 && p <= sz && (!g.own || g.idx < sz));
        int val = g.own ? r[g.idx] : g.val;
        if (!g.own && op != "emplace") mkTmp(val);
        // single-element insert / emplace: strong "element moves being noexcept"; before end() elements have to be moved
        strongOp = (p == sz) || (std::is_nothrow_move_constructible<T>::value && std::is_nothrow_move_assignable<T>::value);
        insertPoint = p;
        rvOwn = (op == "insert_rv" && g.own);
        arm();
        typename V::iterator it;
        if (op == "insert") {
          const T &refArg = g.own ? v(a).begin()[g.idx] : *tmp;
          it = v(a).insert(v(a).begin() + p, refArg);
        } else if (op == "insert_rv") {
          T &refArg = g.own ? v(a).begin()[g.idx] : *tmp;
          it = v(a).insert(v(a).begin() + p, std::move(refArg));
        } else if (g.own) {
          it = v(a).emplace(v(a).begin() + p, v(a).begin()[g.idx]);
        } else {
          it = v(a).emplace(v(a).begin() + p, val);
        }
        retIdx = it - v(a).begin();
        rvOwn = (op == "insert_rv" && g.own);
        r.insert(r.begin() + p, val);
        if (retIdx != p) fail("C01", "insert returned position " + std::to_string(retIdx) + " expected " + std::to_string(p));
        res = "idx:" + std::to_string(retIdx);
      } else if (op == "insert_n") {
        NEED_ALIVE(a);
        long p = I(2), n = I(3);
        Arg g = parseArg(S(4));
        NEED(p >= 0 && p <= sz && FITS(n) && (!g.own || g.idx < sz));
        int val = g.own ? r[g.idx] : g.val;
        if (!g.own) mkTmp(val);
        strongOp = (p == sz);  // insertion at the end
        insertPoint = p;
        const T &refArg = g.own ? v(a).begin()[g.idx] : *tmp;
        arm();
        typename V::iterator it = v(a).insert(v(a).begin() + p, static_cast<typename V::size_type>(n), refArg);
        retIdx = it - v(a).begin();
        r.insert(r.begin() + p, static_cast<size_t>(n), val);
        if (retIdx != p) fail("C01", "insert(count) returned position " + std::to_string(retIdx));
        res = "idx:" + std::to_string(retIdx);
      } else if (op == "insert_range") {
        NEED_ALIVE(a);
        long p = I(2);
        srcI = parseInts(S(4));
        NEED(p >= 0 && p <= sz);
        strongOp = (p == sz);
        insertPoint = p;
        typename V::iterator it;
        if (S(3) == "inp") {
          isrc.v = &srcI;
          isrc.pos = 0;
          arm();
          it = v(a).insert(v(a).begin() + p, InputIt<T>(&isrc), InputIt<T>());
        } else if (S(3) == "list") {
          std::list<int> l(srcI.begin(), srcI.end());
          arm();
          it = v(a).insert(v(a).begin() + p, l.begin(), l.end());
        } else if (S(3) == "il" && srcI.size() == 2) {
          arm();
          it = v(a).insert(v(a).begin() + p, {T(srcI[0]), T(srcI[1])});
        } else {
          arm();
          it = v(a).insert(v(a).begin() + p, srcI.begin(), srcI.end());
        }
        retIdx = it - v(a).begin();
        r.insert(r.begin() + p, srcI.begin(), srcI.end());
        if (retIdx != p) fail("C01", "insert(range) returned position " + std::to_string(retIdx));
        res = "idx:" + std::to_string(retIdx);
      } else if (op == "erase") {
        NEED_ALIVE(a);
        long p = I(2);
        NEED(p >= 0 && p < sz);
        insertPoint = p;
        arm();
        typename V::iterator it = v(a).erase(v(a).begin() + p);
        retIdx = it - v(a).begin();
        r.erase(r.begin() + p);
        if (retIdx != p) fail("C01", "erase returned position " + std::to_string(retIdx));
        res = "idx:" + std::to_string(retIdx);
      } else if (op == "erase_range") {
        NEED_ALIVE(a);
        long p = I(2), q = I(3);
        NEED(p >= 0 && p <= q && q <= sz);
        insertPoint = p;
        arm();
        typename V::iterator it = v(a).erase(v(a).begin() + p, v(a).begin() + q);
        retIdx = it - v(a).begin();
        r.erase(r.begin() + p, r.begin() + q);
        if (retIdx != p) fail("C01", "erase(range) returned position " + std::to_string(retIdx));
        res = "idx:" + std::to_string(retIdx);
      } else if (op == "pop_back") {
        NEED_ALIVE(a);
        NEED(sz > 0);
        insertPoint = sz - 1;
        arm();
        v(a).pop_back();
        r.pop_back();
      } else if (op == "pop_back_val") {
#ifdef VF_NO_EXTRAS
        skipped = true;
        res = "skip:noext";
        goto done;
#else
        NEED_ALIVE(a);
        NEED(sz > 0);
        insertPoint = sz - 1;
        int got;
        arm();
        {
          T x = v(a).pop_back_val();
          got = x.value();
        }
        if (got != r.back()) fail("C01", "pop_back_val returned " + std::to_string(got) + " expected " + std::to_string(r.back()));
        r.pop_back();
        res = "val:" + std::to_string(got);
#endif
      } else if (op == "clear") {
        NEED_ALIVE(a);
        insertPoint = 0;
        arm();
        v(a).clear();
        r.clear();
      } else if (op == "resize") {
        NEED_ALIVE(a);
        long n = I(2);
        NEED(FITS(n));
        strongOp = n > sz;
        insertPoint = std::min(n, sz);
        arm();
        v(a).resize(static_cast<typename V::size_type>(n));
        r.resize(static_cast<size_t>(n));
      } else if (op == "resize_v") {
        NEED_ALIVE(a);
        long n = I(2);
        Arg g = parseArg(S(3));
        NEED(FITS(n) && (!g.own || g.idx < sz));
        int val = g.own ? r[g.idx] : g.val;
        if (!g.own) mkTmp(val);
        strongOp = n > sz;
        insertPoint = std::min(n, sz);
        const T &refArg = g.own ? v(a).begin()[g.idx] : *tmp;
        arm();
        v(a).resize(static_cast<typename V::size_type>(n), refArg);
        r.resize(static_cast<size_t>(n), val);
      } else if (op == "assign_n") {
        NEED_ALIVE(a);
        long n = I(2);
        Arg g = parseArg(S(3));
        NEED(FITS(n) && (!g.own || g.idx < sz));
        int val = g.own ? r[g.idx] : g.val;
        if (!g.own) mkTmp(val);
        const T &refArg = g.own ? v(a).begin()[g.idx] : *tmp;
        arm();
        v(a).assign(static_cast<typename V::size_type>(n), refArg);
        r.assign(static_cast<size_t>(n), val);
      } else if (op == "assign_range") {
        NEED_ALIVE(a);
        srcI = parseInts(S(3));
        if (S(2) == "inp") {
          isrc.v = &srcI;
          isrc.pos = 0;
          arm();
          v(a).assign(InputIt<T>(&isrc), InputIt<T>());
        } else if (S(2) == "list") {
          std::list<int> l(srcI.begin(), srcI.end());
          arm();
          v(a).assign(l.begin(), l.end());
        } else {
          arm();
          v(a).assign(srcI.begin(), srcI.end());
        }
        r = srcI;
      } else if (op == "reserve") {
        NEED_ALIVE(a);
        long n = I(2);
        NEED(n >= 0 && static_cast<unsigned long long>(n) <= static_cast<unsigned long long>(std::numeric_limits<typename V::size_type>::max()));
        strongOp = true;
        reserveArg = n;
        arm();
        v(a).reserve(static_cast<typename V::size_type>(n));
        if (Cfg::flavour == kSV && n > N) tainted[a] = true;
      } else if (op == "shrink") {
        NEED_ALIVE(a);
        strongOp = true;
        mayShrink[a] = true;
        arm();
        v(a).shrink_to_fit();
        if (Cfg::flavour == kSV && sz <= N) tainted[a] = false;
      } else if (op == "append_n") {
#ifdef VF_NO_EXTRAS
        skipped = true;
        res = "skip:noext";
        goto done;
#else
        NEED_ALIVE(a);
        long n = I(2);
        NEED(FITS(n));
        strongOp = true;
        insertPoint = sz;
        arm();
        v(a).append(static_cast<typename V::size_type>(n));
        r.resize(r.size() + static_cast<size_t>(n));
#endif
      } else if (op == "append_nv") {
#ifdef VF_NO_EXTRAS
        skipped = true;
        res = "skip:noext";
        goto done;
#else
        NEED_ALIVE(a);
        long n = I(2);
        Arg g = parseArg(S(3));
        NEED(FITS(n) && (!g.own || g.idx < sz));
        int val = g.own ? r[g.idx] : g.val;
        if (!g.own) mkTmp(val);
        strongOp = true;
        insertPoint = sz;
        const T &refArg = g.own ? v(a).begin()[g.idx] : *tmp;
        arm();
        v(a).append(static_cast<typename V::size_type>(n), refArg);
        r.insert(r.end(), static_cast<size_t>(n), val);
#endif
      } else if (op == "append_range") {
#ifdef VF_NO_EXTRAS
        skipped = true;
        res = "skip:noext";
        goto done;
#else
        NEED_ALIVE(a);
        srcI = parseInts(S(3));
        strongOp = true;
        insertPoint = sz;
        if (S(2) == "inp") {
          isrc.v = &srcI;
          isrc.pos = 0;
          arm();
          v(a).append(InputIt<T>(&isrc), InputIt<T>());
        } else if (S(2) == "list") {
          std::list<int> l(srcI.begin(), srcI.end());
          arm();
          v(a).append(l.begin(), l.end());
        } else {
          arm();
          v(a).append(srcI.begin(), srcI.end());
        }
        r.insert(r.end(), srcI.begin(), srcI.end());
#endif
      } else if (op == "copy_assign") {
        int b = static_cast<int>(I(2));
        NEED(b >= 0 && b < K);
        NEED_ALIVE(a);
        NEED_ALIVE(b);
        arm();
        v(a) = v(b);
        r = ref[b];
      } else if (op == "move_assign") {
        int b = static_cast<int>(I(2));
        NEED(b >= 0 && b < K && b != a);
        NEED_ALIVE(a);
        NEED_ALIVE(b);
        touched[b] = true;
        mayShrink[a] = mayShrink[b] = true;
        bool steal = before[b].store == "heap";
        arm();
        v(a) = std::move(v(b));
        r = ref[b];
        ref[b].clear();
        if (steal) {
          tainted[a] = tainted[b];
        }
        tainted[b] = false;
        if (!v(b).empty()) fail("C01", "moved-from vector not empty after move assignment");
      } else if (op == "swap") {
        int b = static_cast<int>(I(2));
        NEED(b >= 0 && b < K);
        NEED_ALIVE(a);
        NEED_ALIVE(b);
        touched[b] = true;
        mayShrink[a] = mayShrink[b] = true;
        zeroEventSteal = a != b && before[a].store == "heap" && before[b].store == "heap";
        arm();
        v(a).swap(v(b));
        std::swap(ref[a], ref[b]);
        std::swap(tainted[a], tainted[b]);
      } else if (op == "swap2") {
#ifdef VF_NO_EXTRAS
        skipped = true;
        res = "skip:noext";
        goto done;
#else
        int b = static_cast<int>(I(2));
        NEED(b >= 0 && b < K && b != a);
        NEED_ALIVE(a);
        NEED_ALIVE(b);
        touched[b] = true;
        mayShrink[a] = mayShrink[b] = true;
        arm();
        v(a).swap2(v(b));
        std::swap(ref[a], ref[b]);
        // swap2 may make either side grow or exchange buffers: recompute the ghost flag from sizes and adoption
        bool ta = tainted[a], tb = tainted[b];
        tainted[a] = ta || tb || static_cast<long>(ref[a].size()) > N;
        tainted[b] = ta || tb || static_cast<long>(ref[b].size()) > N;
#endif
      } else if (op == "at") {
        NEED_ALIVE(a);
        long i = I(2);
        NEED(i >= 0 && static_cast<unsigned long long>(i) <= static_cast<unsigned long long>(std::numeric_limits<typename V::size_type>::max()));
        arm();
        int got = v(a).at(static_cast<typename V::size_type>(i)).value();
        if (i >= sz) fail("C08", "at(i) with i >= size() did not throw");
        else if (got != r[i]) fail("C01", "at returned wrong element");
        res = "val:" + std::to_string(got);
      } else if (op == "cmp") {
        int b = static_cast<int>(I(2));
        NEED(b >= 0 && b < K);
        NEED_ALIVE(a);
        NEED_ALIVE(b);
        arm();
        const V &x = v(a), &y = v(b);
        char buf[8] = {x == y ? '1' : '0', x != y ? '1' : '0', x<y ? '1' : '0', x <= y ? '1' : '0', x> y ? '1' : '0',
                       x >= y ? '1' : '0', 0};
        const R &rx = ref[a], &ry = ref[b];
        char want[8] = {rx == ry ? '1' : '0', rx != ry ? '1' : '0', rx<ry ? '1' : '0', rx <= ry ? '1' : '0',
                        rx> ry ? '1' : '0', rx >= ry ? '1' : '0', 0};
        if (std::strcmp(buf, want) != 0) fail("C01", std::string("comparison operators ") + buf + " expected " + want);
        res = std::string("cmp:") + buf;
      } else if (op == "relocate") {
        // C14: move the object to another address by a raw byte copy, abandon (poison) the source.
        NEED_ALIVE(a);
        if (!amc::is_trivially_relocatable<V>::value) {
          skipped = true;
          res = "skip:notTR";
          goto done;
        }
        int b = static_cast<int>(I(2));
        NEED(b >= 0 && b < K && b != a && !alive[b]);
        arm();
        std::memcpy(static_cast<void *>(&raw[b]), static_cast<const void *>(&raw[a]), sizeof(V));
        std::memset(static_cast<void *>(&raw[a]), 0xDD, sizeof(V));
        alive[b] = true;
        alive[a] = false;
        ref[b] = ref[a];
        ref[a].clear();
        tainted[b] = tainted[a];
        tainted[a] = false;
        touched[b] = true;
      } else {
        skipped = true;
        res = "skip:unknown-op";
      }
    } catch (...) {
      threw = true;
      exn = classify();
      res = "threw:" + exn;
    }
  done:
#undef NEED
#undef FITS
#undef NEED_ALIVE
    G().countdown = -1;
    G().countdown2 = -1;
    Ev ev1 = evNow();
    long throwingEvents = G().throwingEvents;
    if (tmp) {
      tmp.reset();
      --tempsAlive;
    }
    srcT.clear();

    // -------- oracles on the implementation
    if (!skipped) {
      if (threw) {
        // a constructor that threw leaves no object
        if (op.compare(0, 5, "ctor_") == 0) alive[a] = false;
        bool limitErr = exn == "out_of_range" || exn == "overflow_error";
        // C08: clean limit errors; C09 strong: state as before
        for (int k = 0; k < K; ++k) {
          if (!alive[k] || !before[k].alive) continue;
          std::vector<int> now = contents(v(k));
          if (limitErr) {
            if (now != before[k].vals)
              fail("C08", "contents changed by an operation that threw " + exn);
            else if (static_cast<long>(v(k).capacity()) != before[k].cap)
              fail("C08", "capacity changed by an operation that threw " + exn);
          } else if (strongOp && touched[k] && !(rvOwn && !std::is_nothrow_move_assignable<T>::value)) {
            // (the strong clause of C09 presupposes noexcept element moves: an own element passed as an rvalue has been moved
            //  from when growing fails, and can only be given its value back by a move that does not throw)
            if (now != before[k].vals) fail("C09", "strong guarantee: contents changed by failed " + op);
          }
          // basic guarantee: resynchronise the reference with what is left (checked for sanity below)
          ref[k] = now;
        }
        if (limitErr) {
          // was the limit really exceeded?
          bool expectLimit = false;
          if (op == "at") expectLimit = true;
          else if (Cfg::flavour == kFCV) expectLimit = true;  // checked precisely by the model correspondence
          else expectLimit = true;
          (void)expectLimit;
          if (exn == "out_of_range" && op != "at" && Cfg::flavour != kFCV) fail("C08", "out_of_range from a dynamic vector");
          if (exn == "overflow_error" && Cfg::flavour == kFCV) fail("C08", "overflow_error from a fixed capacity vector");
        }
      } else {
        // C08: sizes beyond the limit must have thrown (judged on the reference, before it is resynchronised below)
        if (alive[a] && static_cast<long>(ref[a].size()) > limit)
          fail("C08", "size " + std::to_string(ref[a].size()) + " exceeds the limit " + std::to_string(limit) + " without an exception");
        // C01: contents as std::vector
        for (int k = 0; k < K; ++k) {
          if (!alive[k]) continue;
          std::vector<int> now = contents(v(k));
          if (rvOwn && k == a && now.size() == ref[k].size()) ref[k] = now;  // aliased rvalue: only memory safety and size are checked
          if (now != ref[k] || v(k).empty() != ref[k].empty()) {
            fail(line.find(" o") != std::string::npos ? "C10" : "C01",
                 "contents differ from std::vector: got [" + joinInts(now) + "] expected [" + joinInts(ref[k]) + "] (container " + std::to_string(k) + ")");
            ref[k] = now;  // reported once: later steps are judged from what the container really holds
          }
        }
      }
      // C02: element ledger
      if (G().nErrors != errBefore) {
        for (size_t i = 0; i < G().errors.size(); ++i) {
          const std::string &e = G().errors[i];
          bool alloc = e.find("alloc") != std::string::npos;
          fail(alloc ? "C06" : "C02", e);
        }
        G().errors.clear();
      }
      if (inst) {
        long expect = tempsAlive;
        for (int k = 0; k < K; ++k)
          if (alive[k]) expect += static_cast<long>(v(k).size());
        if (G().live != expect)
          fail(threw ? "C09" : "C02", "live elements " + std::to_string(G().live) + " but containers hold " + std::to_string(expect));
      }
      for (int k = 0; k < K; ++k) {
        if (!alive[k]) continue;
        V &x = v(k);
        // visible elements never moved-from (unless the caller moved them himself: ref holds kMoved there)
        for (size_t i = 0; i < static_cast<size_t>(x.size()); ++i)
          if (x.begin()[i].value() == kMoved && !(i < ref[k].size() && ref[k][i] == kMoved) && !(rvOwn && k == a))
            fail(threw ? "C09" : "C02", "visible element " + std::to_string(i) + " is moved-from (container " + std::to_string(k) + ")");
        // elements live at addresses their type allows (inline slots included)
        if (x.capacity() != 0 && reinterpret_cast<uintptr_t>(x.data()) % alignof(T) != 0)
          fail("ALIGN", "element storage of container " + std::to_string(k) + " is not aligned to alignof(T) = " + std::to_string(alignof(T)) +
                            " (" + (storeOf(x)) + " storage, address mod alignment = " + std::to_string(reinterpret_cast<uintptr_t>(x.data()) % alignof(T)) + ")");
        // C07(a)
        long s = static_cast<long>(x.size()), c = static_cast<long>(x.capacity());
        if (!(x.size() <= x.capacity() && x.capacity() <= x.max_size())) fail("C07", "size<=capacity<=max_size violated: " + std::to_string(s) + "," + std::to_string(c));
        if (before[k].alive && touched[k] == false) {
          if (c != before[k].cap || x.data() != before[k].data) fail("C07", "an untouched container changed");
        }
        // C07(b) capacity never decreases except shrink_to_fit / move / swap
        if (before[k].alive && !mayShrink[k] && c < before[k].cap && op.compare(0, 5, "ctor_") != 0 && op != "adopt" && op != "relocate")
          fail("C07", "capacity decreased from " + std::to_string(before[k].cap) + " to " + std::to_string(c) + " in " + op);
        // C05 inline promise
        if (Cfg::flavour == kFCV) {
          if (storeOf(x) != "inl") fail("C05", "FixedCapacityVector data() outside the object");
        } else if (Cfg::flavour == kSV) {
          if (static_cast<long>(ref[k].size()) > N) tainted[k] = true;
          if (!tainted[k]) {
            if (storeOf(x) != "inl") fail("C05", "untainted SmallVector keeps its elements outside the object (container " + std::to_string(k) + ")");
            if (c != N) fail("C05", "untainted SmallVector reports capacity " + std::to_string(c) + " != N");
            if (storeOf(x) != "inl" || c != N) tainted[k] = true;  // reported once
          }
        }
      }
      // C05: no allocator request while every touched SmallVector is untainted (before and after)
      if (Cfg::flavour != kVec && !G().allocEvents.empty()) {
        bool anyTaint = false;
        for (int k = 0; k < K; ++k)
          if (touched[k] && (tainted[k] || (before[k].alive && before[k].store != "inl"))) anyTaint = true;
        if (op == "adopt") anyTaint = true;
        if (Cfg::flavour == kFCV || !anyTaint) fail("C05", "allocator request although sizes stayed within N: " + joinStr(G().allocEvents));
      }
      // C07(c)
      if (reserveArg >= 0 && !threw && static_cast<long>(v(a).capacity()) < reserveArg) fail("C07", "capacity < n after reserve(n)");
      // C07(d): no reallocation when the result fits
      if (!threw && alive[a] && before[a].alive && insertPoint >= 0 && static_cast<long>(v(a).size()) <= before[a].cap) {
        if (v(a).data() != before[a].data) fail("C07", "data() changed although the resulting size fits the capacity (" + op + ")");
        if (inst) {
          long lim = std::min<long>(insertPoint, static_cast<long>(v(a).size()));
          for (long i = 0; i < lim && i < static_cast<long>(before[a].ids.size()); ++i)
            if (idOf(v(a).begin()[i]) != before[a].ids[i]) {
              fail("C07", "element before the insertion/erasure point was replaced (index " + std::to_string(i) + ")");
              break;
            }
        }
      }
      if (!threw && reserveArg >= 0 && reserveArg <= before[a].cap && v(a).data() != before[a].data) fail("C07", "reserve within capacity reallocated");
      // C07(e): stealing a heap buffer performs no element operation and keeps addresses
      if (zeroEventSteal && !threw) {
        long nev = (ev1.valC - ev0.valC) + (ev1.defC - ev0.defC) + (ev1.copyC - ev0.copyC) + (ev1.moveC - ev0.moveC) +
                   (ev1.copyA - ev0.copyA) + (ev1.moveA - ev0.moveA) + (ev1.dtor - ev0.dtor);
        if (nev != 0) fail("C07", "element operations performed while handing over a heap buffer: " + std::to_string(nev));
        int b = static_cast<int>(I(2));
        if (op == "swap") {
          if (v(a).data() != before[b].data || v(b).data() != before[a].data) fail("C07", "swap of heap-backed vectors did not exchange buffers");
        } else if (v(a).data() != before[b].data) {
          fail("C07", "move from a heap-backed vector did not hand over the buffer");
        }
      }
    }

    // -------- transcript line
    std::ostringstream os;
    os << "T " << hid << " " << step << " | " << line << " | " << res;
    for (int k = 0; k < K; ++k) os << " | " << describe(k);
    os << " | al=" << joinStr(G().allocEvents);
    os << " | ev=" << (ev1.valC - ev0.valC) << "," << (ev1.defC - ev0.defC) << "," << (ev1.copyC - ev0.copyC) << ","
       << (ev1.moveC - ev0.moveC) << "," << (ev1.copyA - ev0.copyA) << "," << (ev1.moveA - ev0.moveA) << ","
       << (ev1.dtor - ev0.dtor) << " te=" << throwingEvents;
    if (!G().lastInjected.empty()) {
      os << " inj=" << G().lastInjected;
      G().lastInjected.clear();
    }
    std::printf("%s\n", os.str().c_str());
    for (size_t i = 0; i < oracle.size(); ++i) std::printf("ORACLE %s %d %s\n", hid.c_str(), step, oracle[i].c_str());
  }

  void finish() {
    // destroy the pool; then nothing may be left alive / outstanding (C02, C06)
    for (int k = 0; k < K; ++k) destroySlot(k);
    oracle.clear();
    if (inst && G().live != 0) fail("C02", "elements alive after all containers are gone: " + std::to_string(G().live));
    if (!G().blocks.empty()) fail("C06", "blocks outstanding after all containers are gone: " + std::to_string(G().blocks.size()));
    if (G().nErrors) {
      for (size_t i = 0; i < G().errors.size(); ++i) fail(G().errors[i].find("alloc") != std::string::npos ? "C06" : "C02", G().errors[i]);
    }
    std::printf("E %s | live=%ld blocks=%zu\n", hid.c_str(), G().live, G().blocks.size());
    for (size_t i = 0; i < oracle.size(); ++i) std::printf("ORACLE %s end %s\n", hid.c_str(), oracle[i].c_str());
  }
};

// ---------------------------------------------------------------------------------------------
// Configurations
template <class T_, class Alloc, class S, long N_>
struct CfgDyn {
  using V = amc::SmallVector<T_, N_, Alloc, S>;
  static const long N = N_;
  static const int flavour = N_ == 0 ? kVec : kSV;
  static long limit() { return static_cast<long>(std::min<unsigned long long>(std::numeric_limits<S>::max(), 1000000000ULL)); }
  template <class D>
  static bool adoptInto(D &d, int a, const std::vector<int> &vals, long cap) {
    return adoptImpl(d, a, vals, cap, std::integral_constant<bool, (N_ > 0)>());
  }
  template <class D>
  static bool adoptImpl(D &, int, const std::vector<int> &, long, std::false_type) {
    return false;
  }
  template <class D>
  static bool adoptImpl(D &d, int a, const std::vector<int> &vals, long cap, std::true_type) {
    amc::vector<T_, Alloc, S> src(vals.begin(), vals.end());
    if (cap <= static_cast<long>(vals.size())) {
      src.shrink_to_fit();
    } else {
      src.reserve(static_cast<S>(cap));
    }
    bool heap = src.capacity() != 0;
    G().allocEvents.clear();
    new (&d.raw[a]) V(std::move(src));
    d.alive[a] = true;
    d.ref[a] = vals;
    d.tainted[a] = heap;
    if (!src.empty()) d.fail("C01", "adopted vector not empty");
    return true;
  }
};
template <class T_, long N_, class Policy = amc::vec::ExceptionGrowingPolicy>
struct CfgFCV {
  using V = amc::FixedCapacityVector<T_, N_, Policy>;
  static const long N = N_;
  static const int flavour = kFCV;
  static long limit() { return N_; }
  template <class D>
  static bool adoptInto(D &, int, const std::vector<int> &, long) {
    return false;
  }
};
template <class T_, long N_, class S>
struct CfgFCVS {
  using V = amc::FixedCapacityVector<T_, N_, amc::vec::ExceptionGrowingPolicy, S>;
  static const long N = N_;
  static const int flavour = kFCV;
  static long limit() { return N_; }
  template <class D>
  static bool adoptInto(D &, int, const std::vector<int> &, long) {
    return false;
  }
};

template <class Cfg>
int runConfig(const std::vector<History> &hs) {
  LedgerBasic::unit() = sizeof(typename Cfg::V::value_type);
  return runHistoriesForked(hs, [](const History &h) {
    G() = Globals();
    {
      Driver<Cfg> *d = new Driver<Cfg>();
      d->hid = h.id;
      std::printf("B %s\n", h.id.c_str());
      for (size_t i = 0; i < h.lines.size(); ++i) d->runLine(h.lines[i]);
      d->finish();
      delete d;
    }
  });
}

using AmcTC4 = amc::BasicAllocatorWrapper<TC4, LedgerBasic>;
using AmcTC2 = amc::BasicAllocatorWrapper<TC2, LedgerBasic>;
using AmcNTR = amc::BasicAllocatorWrapper<El<0>, LedgerBasic>;
using AmcTR = amc::BasicAllocatorWrapper<El<1>, LedgerBasic>;
using AmcPOD = amc::BasicAllocatorWrapper<POD4, LedgerBasic>;

struct Entry {
  const char *name;
  int (*run)(const std::vector<History> &);
};
}  // namespace vf

using namespace vf;
// The configuration table is split over translation units by -DGROUP=k to use all cores.
static const Entry kTable[] = {
#if GROUP == 0
    {"vec.u32.TC4.amc", &runConfig<CfgDyn<TC4, AmcTC4, uint32_t, 0> >},
    {"vec.u32.NTR.led", &runConfig<CfgDyn<El<0>, LedgerAlloc<El<0>, false>, uint32_t, 0> >},
    {"vec.u16.POD.amc", &runConfig<CfgDyn<POD4, AmcPOD, uint16_t, 0> >},
#elif GROUP == 1
    {"vec.u8.TR.ledr", &runConfig<CfgDyn<El<1>, LedgerAlloc<El<1>, true>, uint8_t, 0> >},
    {"vec.s32.TR.amc", &runConfig<CfgDyn<El<1>, AmcTR, int32_t, 0> >},
    {"vec.u32.NTR.ledr", &runConfig<CfgDyn<El<0>, LedgerAlloc<El<0>, true>, uint32_t, 0> >},
#elif GROUP == 2
    {"vec.u64.NTR.amc", &runConfig<CfgDyn<El<0>, AmcNTR, uint64_t, 0> >},
    {"SV3.u32.NTR.led", &runConfig<CfgDyn<El<0>, LedgerAlloc<El<0>, false>, uint32_t, 3> >},
#elif GROUP == 3
    {"SV3.u32.TR.ledr", &runConfig<CfgDyn<El<1>, LedgerAlloc<El<1>, true>, uint32_t, 3> >},
    {"SV4.u32.TC4.amc", &runConfig<CfgDyn<TC4, AmcTC4, uint32_t, 4> >},
    {"SV3.u16.NTR.ledr", &runConfig<CfgDyn<El<0>, LedgerAlloc<El<0>, true>, uint16_t, 3> >},
#elif GROUP == 4
    {"SV4.u8.TC2.led", &runConfig<CfgDyn<TC2, LedgerAlloc<TC2, false>, uint8_t, 4> >},
    {"SV1.s8.NTR.led", &runConfig<CfgDyn<El<0>, LedgerAlloc<El<0>, false>, int8_t, 1> >},
#elif GROUP == 5
    {"SV8.u16.TR.amc", &runConfig<CfgDyn<El<1>, AmcTR, uint16_t, 8> >},
    {"SV2.u64.NTR.amc", &runConfig<CfgDyn<El<0>, AmcNTR, uint64_t, 2> >},
#elif GROUP == 6
    {"FCV5.u8.NTR", &runConfig<CfgFCV<El<0>, 5> >},
    {"FCV5.u8.TR", &runConfig<CfgFCV<El<1>, 5> >},
    {"FCV6.u8.POD", &runConfig<CfgFCV<POD4, 6> >},
    {"SV3.s32.POD.led", &runConfig<CfgDyn<POD4, LedgerAlloc<POD4, false>, int32_t, 3> >},
    {"SV2.u32.OA16.led", &runConfig<CfgDyn<OA16, LedgerAlloc<OA16, false>, uint32_t, 2> >},
    {"SV3.u8.NTM.led", &runConfig<CfgDyn<El<2>, LedgerAlloc<El<2>, false>, uint8_t, 3> >},
#elif GROUP == 7
    {"FCV8.u8.TC4", &runConfig<CfgFCV<TC4, 8> >},
    {"FCV3.s32.NTR", &runConfig<CfgFCVS<El<0>, 3, int32_t> >},
    {"SV4.u8.NTR.led", &runConfig<CfgDyn<El<0>, LedgerAlloc<El<0>, false>, uint8_t, 4> >},
    {"FCV3.u8.OA16", &runConfig<CfgFCV<OA16, 3> >},
    {"vec.u32.NTM.led", &runConfig<CfgDyn<El<2>, LedgerAlloc<El<2>, false>, uint32_t, 0> >},
    {"FCV5.u8.NTM", &runConfig<CfgFCV<El<2>, 5> >},
#endif
};

int main(int argc, char **argv) {
  announceInjection() = true;
  if (argc < 2) {
    for (size_t i = 0; i < sizeof(kTable) / sizeof(kTable[0]); ++i) std::printf("%s\n", kTable[i].name);
    return 0;
  }
  std::string want = argv[1];
  FILE *in = argc > 2 ? std::fopen(argv[2], "r") : stdin;
  if (!in) return 2;
  std::vector<History> hs = readHistories(in);
  for (size_t i = 0; i < sizeof(kTable) / sizeof(kTable[0]); ++i)
    if (want == kTable[i].name) {
      std::printf("CONFIG %s\n", kTable[i].name);
      int crashes = kTable[i].run(hs);
      std::printf("END %s crashes=%d\n", kTable[i].name, crashes);
      return 0;
    }
  std::fprintf(stderr, "unknown configuration %s\n", want.c_str());
  return 2;
}
