// Slot level correspondence driver: calls the element-moving helpers of include/amc/vectorcommon.hpp (namespace amc::vec)
// DIRECTLY on a raw buffer of `cap` slots of the instrumented, non trivially relocatable element vf::El<0>, the way the
// member functions of VectorImpl call them, and prints the state of every slot before and after the call.
// lib/slotcorr.py evaluates the Coq slot models (coq/Slots.v, Erase.v, Alias.v, Throw.v, EmplaceGrow.v) on the same cases and
// compares.  The families of EmplaceGrow.v (emplace_n_th, emplace_grow_th, emplace_back_grow_th) print composite states.
// The families `*_mt` (coq/ThrowMove.v) run the same helpers on vf::El<2>, whose move constructor and move assignment are
// throwing-capable events too: every throw index, every catch branch of shift_right / emplace_n / insert_n is reached.
// The families `*_tr` (coq/SlotsTR.v) run the TRIVIALLY RELOCATABLE overloads on vf::El<1> (declares trivially_relocatable, not
// trivially copyable): the helpers move such elements with std::memmove.  For this driver a memmove issued by the amc headers is a
// LEDGER EVENT like a constructor or a destructor call (vf::relocMemmove below): the bytes are moved by the real memmove, then the
// source slots that are not part of the destination range are overwritten with 0xEE (they hold no object any more: `R`).
// The families of coq/AliasThrow.v (insert_own_*, insert_cnt_own_*, push_back_own_*, insert_range_in_*; _th: El<0>, _tr: El<1>) call the REAL
// member functions of a whole amc::vector with an OWN element as the argument / a single-pass range (composite state block/e/new block).
// The families of coq/Transfer.v (swap_deep, move_n, reloc*, erase_at*) are the WHOLE-CONTENT TRANSFERS: swap_deep, move_n,
// RelocateToNewBuffer / amc::uninitialized_relocate_n run between TWO raw buffers (composite state <buffer 1>/<buffer 2>/<e>).
// The line format, the real function behind every case and the model it is compared with: see SLOTDRV.md.
//
//   CASE <name> <param>=<int>... k=<k|-> | pre=<slots> | post=<slots> | threw=<0|1> | newsize=<n|-> | errs=<n> live=<n> [msg=<text>]
//
// slots: R raw (never constructed or destroyed), L<v> live with value v, M live but moved-from; a trailing `!` marks an
// object whose bytes were copied without its constructor.  k = index of the throwing-capable event (copy construction,
// copy assignment, construction from a value) that throws; `-` = none.
#include <algorithm>
#include <cstddef>
#include <cstdint>
#include <memory>
#include <string>
#include <utility>
#include <vector>

#include "common.hpp"

// every standard header the amc headers include, BEFORE `memmove` is renamed for them
#include <cassert>
#include <cstdlib>
#include <cstring>
#include <functional>
#include <initializer_list>
#include <iterator>
#include <limits>
#include <new>
#include <optional>
#include <set>
#include <stdexcept>
#include <type_traits>
#include <variant>

// ---- bitwise relocation as a ledger event ---------------------------------------------------------------------------------
// The trivially relocatable overloads move objects with `std::memmove (dest, first, n * sizeof (T))` (memory.hpp:
// relocate_at_impl, uninitialized_relocate_n_impl, uninitialized_relocate_impl).  Bytes alone cannot tell where the object is
// afterwards (source and destination hold the same id).  The amc headers are therefore compiled with `memmove` renamed to
// `vf_memmove` (a macro, active only while they are read): while `vf::RL ().on` (the `*_tr` families) each call
//   * checks that every source slot holds a live object            (else ledger error `relocate-from:outside-lifetime`),
//   * checks that every destination slot OUTSIDE the source range holds none (else `relocate-over-live-object`: the bytes of a
//     live object would be overwritten without its destructor, or an object duplicated),
//   * moves the bytes with the real memmove,
//   * fills every source slot outside the destination range with 0xEE: it has no ledger identity any more (`R`), and any later
//     use of it as an object (copy, assignment, destructor) is a ledger error `...:outside-lifetime`.
// A relocated object keeps `self` = the address it was constructed at: it is printed with a trailing `!`.
namespace vf {
struct RelocLedger {
  bool on = false;
  long calls = 0;    // memmove calls seen while on
  long objects = 0;  // objects relocated by them
};
inline RelocLedger &RL() {
  static RelocLedger r;
  return r;
}
inline void *relocMemmove(void *dst, const void *src, size_t bytes) {
  typedef El<1> E;
  if (!RL().on || bytes == 0 || bytes % sizeof(E) != 0) return ::memmove(dst, src, bytes);
  const size_t n = bytes / sizeof(E);
  const uintptr_t d0 = reinterpret_cast<uintptr_t>(dst), s0 = reinterpret_cast<uintptr_t>(src);
  ++RL().calls;
  RL().objects += static_cast<long>(n);
  for (size_t i = 0; i < n; ++i) {
    const uintptr_t si = s0 + i * sizeof(E), di = d0 + i * sizeof(E);
    if (!G().isLive(reinterpret_cast<const E *>(si)->id)) G().err("relocate-from:outside-lifetime");
    const bool dstIsSource = di >= s0 && di < s0 + bytes;
    if (!dstIsSource && G().isLive(reinterpret_cast<const E *>(di)->id)) G().err("relocate-over-live-object");
  }
  void *r = ::memmove(dst, src, bytes);
  for (size_t i = 0; i < n; ++i) {
    const uintptr_t si = s0 + i * sizeof(E);
    const bool srcIsDest = si >= d0 && si < d0 + bytes;
    if (!srcIsDest) std::memset(reinterpret_cast<void *>(si), 0xEE, sizeof(E));
  }
  return r;
}
// turns the relocation ledger on for one case of a `*_tr` family (set up included)
struct RelocScope {
  explicit RelocScope(bool on) { RL().on = on; }
  ~RelocScope() { RL().on = false; }
};
}  // namespace vf
namespace std {
inline void *vf_memmove(void *d, const void *s, size_t n) { return vf::relocMemmove(d, s, n); }
}  // namespace std

#define memmove vf_memmove
#include <amc/vector.hpp>
#undef memmove

namespace vf {
template <class T, bool W>
bool LedgerAlloc<T, W>::amc_is_tr() {
  return amc::is_trivially_relocatable<T>::value;
}
}  // namespace vf

using vf::G;
typedef vf::El<0> T;
typedef uint32_t SizeType;  // size_type of amc::vector<T>

static_assert(!amc::is_trivially_relocatable<T>::value && !std::is_trivially_copyable<T>::value, "El<0> must be NTR");
static_assert(amc::vec::is_shift_nothrow<T>::value, "El<0> moves are noexcept: only copies / value constructions throw");

// the element of the `*_mt` families: as El<0>, and its moves are throwing-capable events ("NTM")
typedef vf::El<2> TM;
static_assert(!amc::is_trivially_relocatable<TM>::value && !std::is_trivially_copyable<TM>::value, "El<2> must be NTR");
static_assert(!amc::vec::is_shift_nothrow<TM>::value && !std::is_nothrow_move_constructible<TM>::value &&
                  !std::is_nothrow_move_assignable<TM>::value,
              "El<2> moves may throw");

// the element of the `*_tr` families: declares trivially_relocatable, is not trivially copyable (copies are throwing-capable events),
// noexcept move constructor (no event)
typedef vf::El<1> TR;
static_assert(amc::is_trivially_relocatable<TR>::value && !std::is_trivially_copyable<TR>::value, "El<1> must be TR and not TC");
static_assert(amc::vec::is_shift_nothrow<TR>::value && std::is_nothrow_move_constructible<TR>::value, "El<1>: relocation and moves do not throw");

static const int kFirstValue = 10;  // the live prefix holds 10, 11, ...
static const int kNewValue = 99;    // the value inserted / assigned when it does not come from the buffer itself
static const int kRangeValue = 100;  // insert_range_tr: the source range holds 100, 101, ...
static const int kSecondValue = 20;  // two-buffer families (coq/Transfer.v): the live prefix of the second buffer holds 20, 21, ...

// raw buffer of exactly `cap` slots (ASan sees any access beyond it), filled with 0xEE: such a slot has no ledger identity
template <class E>
struct BufOf {
  E *data;
  int cap;
  explicit BufOf(int c) : data(static_cast<E *>(std::malloc(c > 0 ? static_cast<size_t>(c) * sizeof(E) : 1))), cap(c) {
    if (c > 0) std::memset(static_cast<void *>(data), 0xEE, static_cast<size_t>(c) * sizeof(E));
  }
  ~BufOf() { std::free(data); }
  BufOf(const BufOf &) = delete;
  BufOf &operator=(const BufOf &) = delete;
};
typedef BufOf<T> Buf;

template <class E>
static std::string statesOf(const E *data, int n) {
  std::vector<std::string> out;
  std::vector<long> claimed;
  for (int i = 0; i < n; ++i) {
    const E *p = data + i;
    if (!G().isLive(p->id) || std::find(claimed.begin(), claimed.end(), p->id) != claimed.end()) {
      out.push_back("R");
      continue;
    }
    claimed.push_back(p->id);
    std::string s = p->v == vf::kMoved ? std::string("M") : "L" + std::to_string(p->v);
    if (p->self != p) s += "!";
    out.push_back(s);
  }
  return vf::joinStr(out);
}
template <class E>
static std::string slotStates(const BufOf<E> &b) {
  return statesOf(b.data, b.cap);
}
template <class E>
static int liveIn(const E *data, int n) {
  int c = 0;
  for (int i = 0; i < n; ++i) c += G().isLive(data[i].id) ? 1 : 0;
  return c;
}
template <class E>
static void killAll(BufOf<E> &b) {
  for (int i = 0; i < b.cap; ++i)
    if (G().isLive(b.data[i].id)) b.data[i].~E();
}

// initial states ----------------------------------------------------------------------------------------------------
// the vector invariant: `size` live elements 10, 11, ... then raw slots
template <class E>
static void setupPrefix(E *buf, int size) {
  for (int i = 0; i < size; ++i) ::new (static_cast<void *>(buf + i)) E(kFirstValue + i);
}
template <class E>
static void setupPrefixFrom(E *buf, int size, int firstValue) {
  for (int i = 0; i < size; ++i) ::new (static_cast<void *>(buf + i)) E(firstValue + i);
}
// the state shift_right(buf + pos, size - pos, count) leaves behind, built by hand (not by shift_right):
// [0,pos) live | min(n,count) moved-from | raw up to pos+count | the n shifted elements | raw
static void setupShifted(T *buf, int size, int pos, int count) {
  const int n = size - pos;
  for (int i = 0; i < pos; ++i) ::new (static_cast<void *>(buf + i)) T(kFirstValue + i);
  for (int i = pos; i < pos + std::min(n, count); ++i) {
    ::new (static_cast<void *>(buf + i)) T(0);
    T tmp(std::move(buf[i]));  // leaves buf[i] moved-from
  }
  for (int i = pos + count; i < size + count; ++i) ::new (static_cast<void *>(buf + i)) T(kFirstValue + i - count);
}

// one case, for every throw index ------------------------------------------------------------------------------------
// body(buf, v) returns the size the member function would set (or -1 when the model does not compute one)
// E: the element type (T = El<0> for the families of Slots / Erase / Alias / Throw / EmplaceGrow, TM = El<2> for ThrowMove)
template <class E, class Setup, class Body>
static void runCaseOf(const char *name, const std::string &params, int cap, bool sweepThrows, long sizeOnThrow, Setup setup, Body body) {
  for (long k = -1;; ++k) {
    bool threw = false;
    {
      vf::RelocScope relocLedger(std::is_same<E, TR>::value);
      BufOf<E> b(cap);
      setup(b.data);
      E v(kNewValue);  // the only live object outside the buffer
      G().errors.clear();
      const long errs0 = G().nErrors;
      const std::string pre = slotStates(b);
      std::printf("CASE %s %s k=%s |", name, params.c_str(), k < 0 ? "-" : std::to_string(k).c_str());
      std::fflush(stdout);  // a crash inside the call leaves the head of the line
      long newSize = sizeOnThrow;
      G().countdown = k;
      try {
        newSize = body(b.data, static_cast<const E &>(v));
      } catch (const std::runtime_error &) {
        threw = true;
      }
      G().countdown = -1;
      const std::string post = slotStates(b);
      const long errs = G().nErrors - errs0;
      std::printf(" pre=%s | post=%s | threw=%d | newsize=%s | errs=%ld live=%ld", pre.c_str(), post.c_str(), threw ? 1 : 0,
                  newSize < 0 ? "-" : std::to_string(newSize).c_str(), errs, G().live - 1);
      if (errs != 0 && !G().errors.empty()) std::printf(" msg=%s", G().errors[0].c_str());
      std::printf("\n");
      killAll(b);
    }
    if (!sweepThrows || (k >= 0 && !threw)) break;  // k = -, 0, 1, ... until the call completes
  }
}
template <class Setup, class Body>
static void runCase(const char *name, const std::string &params, int cap, bool sweepThrows, long sizeOnThrow, Setup setup, Body body) {
  runCaseOf<T>(name, params, cap, sweepThrows, sizeOnThrow, setup, body);
}

static std::string P(const char *a, int x) { return std::string(a) + "=" + std::to_string(x); }
static std::string P(const char *a, int x, const char *b, int y) { return P(a, x) + " " + P(b, y); }

// bodies: what the member functions of VectorImpl / DynamicVector do between adjustCapacity and setSize -----------------
// insert(const_iterator, size_type count, const_reference v), v not an element of the vector, no growth
// (the body after "fix: insert of several elements before end() leaves the vector unchanged when an element copy throws":
// the fill is wrapped in try / catch, the handler calls vec::unshift_right)
template <class E>
static long insertCount(E *buf, int size, int pos, int count, const E &v) {
  E *p = buf + pos;
  if (count > 0) {
    SizeType nElemsToShift = static_cast<SizeType>(size - pos);
    if (nElemsToShift == 0) {
      std::uninitialized_fill_n(p, static_cast<SizeType>(count), v);
    } else {
      amc::vec::shift_right(p, nElemsToShift, static_cast<SizeType>(count));
      try {
        amc::vec::fill_after_shift(p, nElemsToShift, static_cast<SizeType>(count), v);
      } catch (...) {
        amc::vec::unshift_right(p, nElemsToShift, static_cast<SizeType>(count));
        throw;
      }
    }
    return size + count;
  }
  return size;
}
// a forward iterator (and nothing more) over an array of elements: insert(pos, first, last) then takes insert_range(..., forward_iterator_tag)
template <class E>
struct FwdIt {
  typedef std::forward_iterator_tag iterator_category;
  typedef E value_type;
  typedef std::ptrdiff_t difference_type;
  typedef const E *pointer;
  typedef const E &reference;
  const E *p;
  reference operator*() const { return *p; }
  pointer operator->() const { return p; }
  FwdIt &operator++() {
    ++p;
    return *this;
  }
  FwdIt operator++(int) {
    FwdIt r = *this;
    ++p;
    return r;
  }
  bool operator==(const FwdIt &o) const { return p == o.p; }
  bool operator!=(const FwdIt &o) const { return p != o.p; }
};
// insert_range(const_iterator, ForwardIt first, ForwardIt last, std::forward_iterator_tag), the range is not part of the vector, no growth
// (same handler as insert(pos, count, v): copy_after_shift wrapped in try / catch, vec::unshift_right)
template <class E, class ForwardIt>
static long insertRange(E *buf, int size, int pos, ForwardIt first, ForwardIt last) {
  typename std::iterator_traits<ForwardIt>::difference_type count = std::distance(first, last);
  E *p = buf + pos;
  if (count > 0) {
    SizeType nElemsToShift = static_cast<SizeType>(size - pos);
    if (nElemsToShift == 0) {
      amc::uninitialized_copy_n(first, count, p);
    } else {
      amc::vec::shift_right(p, nElemsToShift, static_cast<SizeType>(count));
      try {
        amc::vec::copy_after_shift(first, nElemsToShift, static_cast<SizeType>(count), p);
      } catch (...) {
        amc::vec::unshift_right(p, nElemsToShift, static_cast<SizeType>(count));
        throw;
      }
    }
    return size + count;
  }
  return size;
}
// insert_range_tr: as runCaseOf, with `count` more live objects outside the buffer (the source range 100, 101, ...)
static void runInsertRangeTR(int size, int cap, int pos, int count) {
  const std::string params = P("size", size, "cap", cap) + " " + P("pos", pos, "count", count);
  for (long k = -1;; ++k) {
    bool threw = false;
    {
      vf::RelocScope relocLedger(true);
      BufOf<TR> b(cap);
      setupPrefix(b.data, size);
      TR v(kNewValue);  // not used: the same live object outside the buffer as in every other family
      BufOf<TR> range(count);
      for (int i = 0; i < count; ++i) ::new (static_cast<void *>(range.data + i)) TR(kRangeValue + i);
      G().errors.clear();
      const long errs0 = G().nErrors;
      const std::string pre = slotStates(b);
      std::printf("CASE insert_range_tr %s k=%s |", params.c_str(), k < 0 ? "-" : std::to_string(k).c_str());
      std::fflush(stdout);
      G().countdown = k;
      try {
        FwdIt<TR> first = {range.data}, last = {range.data + count};
        insertRange(b.data, size, pos, first, last);
      } catch (const std::runtime_error &) {
        threw = true;
      }
      G().countdown = -1;
      const std::string post = slotStates(b);
      const long errs = G().nErrors - errs0;
      // the range must be untouched: `count` live objects with their values
      std::string msg;
      for (int i = 0; i < count; ++i)
        if (!G().isLive(range.data[i].id) || range.data[i].v != kRangeValue + i) msg = "the source range was modified";
      std::printf(" pre=%s | post=%s | threw=%d | newsize=- | errs=%ld live=%ld", pre.c_str(), post.c_str(), threw ? 1 : 0, errs,
                  G().live - 1 - count);
      if (errs != 0 && !G().errors.empty()) msg = G().errors[0];
      if (!msg.empty()) std::printf(" msg=%s", msg.c_str());
      std::printf("\n");
      killAll(range);
      killAll(b);
    }
    if (k >= 0 && !threw) break;
  }
}

// insert(const_iterator, const_reference v) with v = element `src` of the same vector, size < capacity
static long insertOwn(T *buf, int size, int pos, int src) {
  const T &v = buf[src];
  const T *position = buf + pos;
  const T *cend = buf + size;
  T *p = buf + pos;
  if (std::addressof(v) >= position && std::addressof(v) < cend) {
    // return this->emplace(position, T(v));  ->  emplace_n(pos, nElemsToShift, std::forward<Args>(args)...)
    amc::vec::emplace_n(p, static_cast<SizeType>(size - pos), T(v));
  } else {
    amc::vec::insert_n(p, static_cast<SizeType>(size - pos), v);
  }
  return size + 1;
}

// ---- the paths that build the new element in a temporary ElemStorage first (coq/EmplaceGrow.v) ---------------------------
// Composite states: segments separated by '/'.
//   emplace_n_th:                          <block 0..cap-1>/<argument>/<e>
//   emplace_grow_th, emplace_back_grow_th: <old block 0..size-1>/<argument>/<e>/<new block 0..capacity-1, or - when none exists>
// <argument>: the state of the object passed to the call (`O` when it was an element of a block that has been freed);
// <e>: `R` when no live El exists outside the block(s) and the external object, `X<n>` otherwise (a leaked temporary).
// src = index of the own element passed as the argument; src = cap + 2 (the slot of the model): the external object.
static std::string eState(long unaccounted) { return unaccounted == 0 ? std::string("R") : "X" + std::to_string(unaccounted); }

template <class E>
static void runEmplaceNOf(const char *name, int size, int cap, int pos, int src, int rv) {
  const bool own = src < size;
  const std::string params = P("size", size, "cap", cap) + " " + P("pos", pos, "src", src) + " " + P("rv", rv);
  for (long k = -1;; ++k) {
    bool threw = false;
    {
      vf::RelocScope relocLedger(std::is_same<E, TR>::value);
      BufOf<E> b(cap);
      setupPrefix(b.data, size);
      E ext(kNewValue);  // alive during every case, the argument when src is not an own element
      E *arg = own ? b.data + src : &ext;
      G().errors.clear();
      const long errs0 = G().nErrors;
      const std::string pre = slotStates(b) + "/" + statesOf(arg, 1) + "/" + eState(G().live - 1 - liveIn(b.data, cap));
      std::printf("CASE %s %s k=%s |", name, params.c_str(), k < 0 ? "-" : std::to_string(k).c_str());
      std::fflush(stdout);
      long newSize = size;
      G().countdown = k;
      try {
        if (rv) {
          amc::vec::emplace_n(b.data + pos, static_cast<SizeType>(size - pos), std::move(*arg));
        } else {
          amc::vec::emplace_n(b.data + pos, static_cast<SizeType>(size - pos), static_cast<const E &>(*arg));
        }
        newSize = size + 1;
      } catch (const std::runtime_error &) {
        threw = true;
      }
      G().countdown = -1;
      const std::string post = slotStates(b) + "/" + statesOf(arg, 1) + "/" + eState(G().live - 1 - liveIn(b.data, cap));
      const long errs = G().nErrors - errs0;
      std::printf(" pre=%s | post=%s | threw=%d | newsize=%ld | errs=%ld live=%ld", pre.c_str(), post.c_str(), threw ? 1 : 0, newSize, errs,
                  G().live - 1);
      if (errs != 0 && !G().errors.empty()) std::printf(" msg=%s", G().errors[0].c_str());
      std::printf("\n");
      killAll(b);
    }
    if (k >= 0 && !threw) break;
  }
}
static void runEmplaceN(int size, int cap, int pos, int src, int rv) { runEmplaceNOf<T>("emplace_n_th", size, cap, pos, src, rv); }

// a FULL amc::vector (size == capacity) whose allocator counts `allocate` as a throwing-capable event
typedef amc::vector<T, vf::LedgerAlloc<T, false>, SizeType> GrowVec;

// pos < 0: emplace_back;  otherwise emplace (begin () + pos, ...)
static void runGrow(const char *name, int size, int pos, int src, int rv) {
  const bool own = src < size;
  const std::string params =
      pos < 0 ? P("size", size, "src", src) + " " + P("rv", rv) : P("size", size, "pos", pos) + " " + P("src", src, "rv", rv);
  for (long k = -1;; ++k) {
    bool threw = false;
    {
      GrowVec v;
      v.reserve(static_cast<SizeType>(size));  // exact
      for (int i = 0; i < size; ++i) v.emplace_back(kFirstValue + i);
      T ext(kNewValue);
      T *oldData = v.data();
      const bool full = static_cast<int>(v.size()) == size && static_cast<int>(v.capacity()) == size;
      std::vector<long> oldIds;
      for (int i = 0; i < size; ++i) oldIds.push_back(oldData[i].id);
      T *arg = own ? oldData + src : &ext;
      G().errors.clear();
      const long errs0 = G().nErrors;
      const size_t blocks0 = G().blocks.size();
      const std::string pre = statesOf(oldData, size) + "/" + statesOf(arg, 1) + "/" + eState(G().live - 1 - size) + "/-";
      std::printf("CASE %s %s k=%s |", name, params.c_str(), k < 0 ? "-" : std::to_string(k).c_str());
      std::fflush(stdout);
      G().countdown = k;
      try {
        if (pos < 0) {
          if (rv) {
            v.emplace_back(std::move(*arg));
          } else {
            v.emplace_back(static_cast<const T &>(*arg));
          }
        } else {
          if (rv) {
            v.emplace(v.begin() + pos, std::move(*arg));
          } else {
            v.emplace(v.begin() + pos, static_cast<const T &>(*arg));
          }
        }
      } catch (const std::runtime_error &) {
        threw = true;
      } catch (const std::bad_alloc &) {
        threw = true;
      }
      G().countdown = -1;
      const bool oldFreed = size > 0 && G().blocks.find(oldData) == G().blocks.end();
      const bool moved = v.data() != oldData;
      std::string oldSeg, argSeg, newSeg;
      long accounted = 0;
      if (size == 0) {
        oldSeg = "-";
      } else if (!oldFreed) {
        oldSeg = statesOf(oldData, size);
        accounted += liveIn(oldData, size);
      } else {
        std::vector<std::string> o;
        for (int i = 0; i < size; ++i) {
          o.push_back(G().isLive(oldIds[i]) ? "X" : "O");  // X: an element of the freed block was never destroyed
        }
        oldSeg = vf::joinStr(o);
      }
      argSeg = own && oldFreed ? std::string("O") : statesOf(arg, 1);
      if (!moved) {
        newSeg = G().blocks.size() == blocks0 ? "-" : "X";  // X: a block was allocated and not released
      } else {
        newSeg = statesOf(v.data(), static_cast<int>(v.capacity()));
        accounted += liveIn(v.data(), static_cast<int>(v.capacity()));
        if (G().blocks.size() != 1) newSeg += ",X";
      }
      const std::string post = oldSeg + "/" + argSeg + "/" + eState(G().live - 1 - accounted) + "/" + newSeg;
      const long errs = G().nErrors - errs0;
      std::printf(" pre=%s | post=%s | threw=%d | newsize=%ld | errs=%ld live=%ld", pre.c_str(), post.c_str(), threw ? 1 : 0,
                  static_cast<long>(v.size()), errs, G().live - 1);
      if (!full) {
        std::printf(" msg=the vector was not full before the call");
      } else if (errs != 0 && !G().errors.empty()) {
        std::printf(" msg=%s", G().errors[0].c_str());
      }
      std::printf("\n");
    }
    if (k >= 0 && !threw) break;
  }
}

// ---- member functions of a whole amc::vector whose argument is one of its OWN elements, and the single-pass range insertion
// (coq/AliasThrow.v).  The vector is built with an exact capacity (`reserve (cap)`, then `size` elements 10, 11, ...): cap == size
// (or cap < size + count) makes the call grow.  Composite state <block 0..cap-1>/<e>/<new block 0..capacity-1, or - when none exists>:
//   block: the block the vector used before the call, read slot by slot through the ledger (`O` for every slot once the allocator
//          ledger says it has been deallocated, `X` for an element of it that was never destroyed; `-` when cap == 0);
//   <e>:   `R` when no live El exists outside the block(s), the external object and the source range, `X<n>` otherwise (the
//          temporaries `T (v)` / `ElemStorage e` cannot be observed from outside);
//   new block: `-` while the vector still uses the old one (`X` if the allocator ledger holds another block).
// nRange: number of external elements 100, 101, ... handed to the body as a single-pass range (not counted in `live`).
template <class E>
struct InIt {
  typedef std::input_iterator_tag iterator_category;
  typedef E value_type;
  typedef std::ptrdiff_t difference_type;
  typedef const E *pointer;
  typedef const E &reference;
  const E *p;
  reference operator*() const { return *p; }
  pointer operator->() const { return p; }
  InIt &operator++() {
    ++p;
    return *this;
  }
  InIt operator++(int) {
    InIt r = *this;
    ++p;
    return r;
  }
  bool operator==(const InIt &o) const { return p == o.p; }
  bool operator!=(const InIt &o) const { return p != o.p; }
};

// E = El<0> (families `*_th`) or El<1> (families `*_tr`: the relocation ledger is on, a relocated object is printed with `!`)
template <class E>
using VecOf = amc::vector<E, vf::LedgerAlloc<E, false>, SizeType>;

template <class E, class Body>
static void runVecOf(const char *name, const std::string &params, int size, int cap, int nRange, Body body) {
  typedef E T;  // the element type of this runner (hides the global El<0>)
  for (long k = -1;; ++k) {
    bool threw = false;
    {
      vf::RelocScope relocLedger(std::is_same<E, TR>::value);
      VecOf<E> v;
      v.reserve(static_cast<SizeType>(cap));  // exact
      for (int i = 0; i < size; ++i) v.emplace_back(kFirstValue + i);
      T ext(kNewValue);  // alive during every case, as in every other family (not used)
      BufOf<T> range(nRange);
      for (int i = 0; i < nRange; ++i) ::new (static_cast<void *>(range.data + i)) T(kRangeValue + i);
      T *oldData = v.data();
      const bool asBuilt = static_cast<int>(v.size()) == size && static_cast<int>(v.capacity()) == cap;
      std::vector<long> oldIds;
      for (int i = 0; i < size; ++i) oldIds.push_back(oldData[i].id);
      G().errors.clear();
      const long errs0 = G().nErrors;
      const size_t blocks0 = G().blocks.size();
      const std::string pre = (cap == 0 ? std::string("-") : statesOf(oldData, cap)) + "/" + eState(G().live - 1 - nRange - size) + "/-";
      std::printf("CASE %s %s k=%s |", name, params.c_str(), k < 0 ? "-" : std::to_string(k).c_str());
      std::fflush(stdout);
      G().countdown = k;
      try {
        body(v, static_cast<const T *>(range.data));
      } catch (const std::runtime_error &) {
        threw = true;
      } catch (const std::bad_alloc &) {
        threw = true;
      }
      G().countdown = -1;
      const bool oldFreed = cap > 0 && G().blocks.find(oldData) == G().blocks.end();
      const bool moved = v.data() != oldData;
      std::string oldSeg, newSeg;
      long accounted = 0;
      if (cap == 0) {
        oldSeg = "-";
      } else if (!oldFreed) {
        oldSeg = statesOf(oldData, cap);
        accounted += liveIn(oldData, cap);
      } else {
        std::vector<std::string> o;
        // (a relocated El<1> keeps its ledger id in the new block: nothing of it is left in the freed one)
        for (int i = 0; i < cap; ++i) o.push_back(!std::is_same<E, TR>::value && i < size && G().isLive(oldIds[i]) ? "X" : "O");
        oldSeg = vf::joinStr(o);
      }
      if (!moved) {
        newSeg = G().blocks.size() == blocks0 ? "-" : "X";  // X: a block was allocated and not released
      } else {
        newSeg = statesOf(v.data(), static_cast<int>(v.capacity()));
        accounted += liveIn(v.data(), static_cast<int>(v.capacity()));
        if (G().blocks.size() != 1) newSeg += ",X";
      }
      const std::string post = oldSeg + "/" + eState(G().live - 1 - nRange - accounted) + "/" + newSeg;
      const long errs = G().nErrors - errs0;
      std::string msg;
      for (int i = 0; i < nRange; ++i)
        if (!G().isLive(range.data[i].id) || range.data[i].v != kRangeValue + i) msg = "the source range was modified";
      if (!asBuilt) msg = "the vector was not built with the requested size and capacity";
      if (errs != 0 && !G().errors.empty()) msg = G().errors[0];
      std::printf(" pre=%s | post=%s | threw=%d | newsize=%ld | errs=%ld live=%ld", pre.c_str(), post.c_str(), threw ? 1 : 0,
                  static_cast<long>(v.size()), errs, G().live - 1 - nRange);
      if (!msg.empty()) std::printf(" msg=%s", msg.c_str());
      std::printf("\n");
      killAll(range);
    }
    if (k >= 0 && !threw) break;
  }
}
// the four families of coq/AliasThrow.v for one element flavour (suffix `_th`: El<0>, `_tr`: El<1>)
template <class E>
static void runOwnFamilies(const char *suffix, const std::string &sc, int size, int cap, int extra, int maxExtra) {
  const std::string sfx(suffix);
  for (int src = 0; src < size; ++src) {
    for (int pos = 0; pos <= size; ++pos) {
      // insert (position, const T &): emplace (position, T (v)) for src >= pos, adjustCapacity + insert_n otherwise; cap == size grows
      runVecOf<E>(("insert_own" + sfx).c_str(), sc + " " + P("pos", pos, "src", src), size, cap, 0,
                  [=](VecOf<E> &v, const E *) { v.insert(v.begin() + pos, static_cast<const E &>(v[static_cast<SizeType>(src)])); });
      // insert (position, count, const T &): count > cap - size grows
      for (int count = 0; count <= maxExtra; ++count) {
        runVecOf<E>(("insert_cnt_own" + sfx).c_str(), sc + " " + P("pos", pos, "count", count) + " " + P("src", src), size, cap, 0,
                    [=](VecOf<E> &v, const E *) {
                      v.insert(v.begin() + pos, static_cast<SizeType>(count), static_cast<const E &>(v[static_cast<SizeType>(src)]));
                    });
      }
    }
    // push_back (const T &): adjustCapacity (size + 1, v), then the copy
    runVecOf<E>(("push_back_own" + sfx).c_str(), sc + " " + P("src", src), size, cap, 0,
                [=](VecOf<E> &v, const E *) { v.push_back(static_cast<const E &>(v[static_cast<SizeType>(src)])); });
  }
  // insert (position, first, last) with single-pass iterators over `count` external elements, within the capacity
  for (int pos = 0; pos <= size; ++pos) {
    for (int count = 0; count <= extra; ++count) {
      runVecOf<E>(("insert_range_in" + sfx).c_str(), sc + " " + P("pos", pos, "count", count), size, cap, count, [=](VecOf<E> &v, const E *range) {
        InIt<E> first = {range}, last = {range + count};
        v.insert(v.begin() + pos, first, last);
      });
    }
  }
}

// ---- whole-content transfers between TWO raw buffers (coq/Transfer.v) ------------------------------------------------------------
// Composite state <buffer 1 0..cap1-1>/<buffer 2 0..cap2-1>/<e>: buffer 1 starts with n1 elements 10, 11, ..., buffer 2 with n2 elements
// 20, 21, ...; <e>: `R` when no live El exists outside the two buffers and the external object, `X<n>` otherwise (the temporary of
// std::swap not destroyed, a copy leaked).  Every throw index: k = -, 0, 1, ... until the call completes.
template <class E, class Body>
static void runTwoOf(const char *name, const std::string &params, int n1, int cap1, int n2, int cap2, Body body) {
  for (long k = -1;; ++k) {
    bool threw = false;
    {
      vf::RelocScope relocLedger(std::is_same<E, TR>::value);
      BufOf<E> b1(cap1), b2(cap2);
      setupPrefixFrom(b1.data, n1, kFirstValue);
      setupPrefixFrom(b2.data, n2, kSecondValue);
      E v(kNewValue);  // not used: the same live object outside the buffers as in every other family
      G().errors.clear();
      const long errs0 = G().nErrors;
      const std::string pre = slotStates(b1) + "/" + slotStates(b2) + "/" + eState(G().live - 1 - liveIn(b1.data, cap1) - liveIn(b2.data, cap2));
      std::printf("CASE %s %s k=%s |", name, params.c_str(), k < 0 ? "-" : std::to_string(k).c_str());
      std::fflush(stdout);
      G().countdown = k;
      try {
        body(b1.data, b2.data);
      } catch (const std::runtime_error &) {
        threw = true;
      }
      G().countdown = -1;
      const std::string post = slotStates(b1) + "/" + slotStates(b2) + "/" + eState(G().live - 1 - liveIn(b1.data, cap1) - liveIn(b2.data, cap2));
      const long errs = G().nErrors - errs0;
      std::printf(" pre=%s | post=%s | threw=%d | newsize=- | errs=%ld live=%ld", pre.c_str(), post.c_str(), threw ? 1 : 0, errs, G().live - 1);
      if (errs != 0 && !G().errors.empty()) std::printf(" msg=%s", G().errors[0].c_str());
      std::printf("\n");
      killAll(b1);
      killAll(b2);
    }
    if (k >= 0 && !threw) break;
  }
}
static std::string P4(const char *a, int w, const char *b, int x, const char *c, int y, const char *d, int z) {
  return P(a, w, b, x) + " " + P(c, y, d, z);
}
// vec::swap_deep (first1, n1, first2, n2): swap of two inline storages (StaticVectorBase / SmallVectorBase::swap_impl), swap2
template <class E>
static void runSwapDeep(const char *name, int n1, int cap1, int n2, int cap2) {
  runTwoOf<E>(name, P4("n1", n1, "cap1", cap1, "n2", n2, "cap2", cap2), n1, cap1, n2, cap2, [=](E *b1, E *b2) {
    amc::vec::swap_deep(b1, static_cast<SizeType>(n1), b2, static_cast<SizeType>(n2));
  });
}
// vec::move_n (first, n, d_first, d_n): buffer 1 is the SOURCE (n elements), buffer 2 the destination (dn elements)
template <class E>
static void runMoveN(const char *name, int n, int cap1, int dn, int cap2) {
  runTwoOf<E>(name, P4("n", n, "cap1", cap1, "dn", dn, "cap2", cap2), n, cap1, dn, cap2, [=](E *b1, E *b2) {
    amc::vec::move_n(b1, static_cast<SizeType>(n), b2, static_cast<SizeType>(dn));
  });
}
// the relocation of the n elements of buffer 1 into the raw buffer 2: vec::RelocateToNewBuffer (what vec::Reallocate,
// SmallVectorBase::grow and resetToSmall call; selects the copy variant for El<2>), or amc::uninitialized_relocate_n itself
template <class E>
static void runReloc(const char *name, int n, int cap1, int cap2, bool direct) {
  runTwoOf<E>(name, P("n", n) + " " + P("cap1", cap1, "cap2", cap2), n, cap1, 0, cap2, [=](E *b1, E *b2) {
    if (direct) {
      (void)amc::uninitialized_relocate_n(b1, static_cast<SizeType>(n), b2);
    } else {
      amc::vec::RelocateToNewBuffer(b1, static_cast<SizeType>(n), b2);
    }
  });
}
static_assert(!amc::vec::RelocateByCopy<T>::value && !amc::vec::RelocateByCopy<TR>::value && amc::vec::RelocateByCopy<TM>::value,
              "RelocateToNewBuffer copies El<2> only");

// usage: slotdrv [max size (default 4)] [max spare capacity = max count (default 3)]
int main(int argc, char **argv) {
  const int maxSize = argc > 1 ? std::atoi(argv[1]) : 4;
  const int maxExtra = argc > 2 ? std::atoi(argv[2]) : 3;
  std::printf("SLOTDRV 1 maxsize=%d maxextra=%d\n", maxSize, maxExtra);
  for (int size = 0; size <= maxSize; ++size) {
    for (int extra = 0; extra <= maxExtra; ++extra) {
      const int cap = size + extra;
      const std::string sc = P("size", size, "cap", cap);
      auto prefix = [=](T *buf) { setupPrefix(buf, size); };

      for (int pos = 0; pos <= size; ++pos) {
        const int n = size - pos;
        for (int count = 0; count <= extra; ++count) {
          const std::string pc = sc + " " + P("pos", pos, "count", count);
          // insert(pos, count, v): without and with a throwing copy
          runCase("insert_cnt", pc, cap, false, size, prefix, [=](T *buf, const T &v) { return insertCount(buf, size, pos, count, v); });
          runCase("insert_cnt_th", pc, cap, true, -1, prefix, [=](T *buf, const T &v) { return insertCount(buf, size, pos, count, v), -1L; });
          if (n > 0 && count > 0) {
            // the two halves on their own
            runCase("shift_right_cnt", pc, cap, false, -1, prefix, [=](T *buf, const T &) {
              amc::vec::shift_right(buf + pos, static_cast<SizeType>(n), static_cast<SizeType>(count));
              return -1L;
            });
            runCase("fill_after_shift", pc, cap, false, -1, [=](T *buf) { setupShifted(buf, size, pos, count); }, [=](T *buf, const T &v) {
              amc::vec::fill_after_shift(buf + pos, static_cast<SizeType>(n), static_cast<SizeType>(count), v);
              return -1L;
            });
          }
        }
        if (n > 0 && extra >= 1) {
          runCase("shift_right1", sc + " " + P("pos", pos), cap, false, -1, prefix, [=](T *buf, const T &) {
            amc::vec::shift_right(buf + pos, static_cast<SizeType>(n));
            return -1L;
          });
        }
        if (extra >= 1) {
          for (int src = 0; src < size; ++src) {
            runCase("insert_own", sc + " " + P("pos", pos, "src", src), cap, false, -1, prefix,
                    [=](T *buf, const T &) { return insertOwn(buf, size, pos, src), -1L; });
          }
          // insert(pos, const T&) with an external value, every throw index: the catch branch of insert_n calls shift_left
          runCase("insert_n_th", sc + " " + P("pos", pos), cap, true, -1, prefix, [=](T *buf, const T &v) {
            amc::vec::insert_n(buf + pos, static_cast<SizeType>(n), v);
            return -1L;
          });
          if (n > 0) {
            // shift_left alone, on the state the real shift_right leaves
            runCase("shift_left", sc + " " + P("pos", pos), cap, false, -1,
                    [=](T *buf) {
                      setupPrefix(buf, size);
                      amc::vec::shift_right(buf + pos, static_cast<SizeType>(n));
                    },
                    [=](T *buf, const T &) {
                      amc::vec::shift_left(buf + pos + 1, static_cast<SizeType>(n));
                      return -1L;
                    });
          }
          // emplace_n: own element / external object, as an lvalue (copied: throwing) and as an rvalue (moved)
          for (int src = 0; src <= size; ++src) {
            for (int rv = 0; rv <= 1; ++rv) runEmplaceN(size, cap, pos, src < size ? src : cap + 2, rv);
          }
        }

        // ---- the same helpers on El<2> (moves are throwing-capable events): every throw index, coq/ThrowMove.v -------------
        auto prefixM = [=](TM *buf) { setupPrefix(buf, size); };
        if (n > 0) {
          for (int count = 1; count <= extra; ++count) {
            runCaseOf<TM>("shift_right_cnt_mt", sc + " " + P("pos", pos, "count", count), cap, true, -1, prefixM, [=](TM *buf, const TM &) {
              amc::vec::shift_right(buf + pos, static_cast<SizeType>(n), static_cast<SizeType>(count));
              return -1L;
            });
          }
        }
        if (n > 0 && extra >= 1) {
          runCaseOf<TM>("shift_right1_mt", sc + " " + P("pos", pos), cap, true, -1, prefixM, [=](TM *buf, const TM &) {
            amc::vec::shift_right(buf + pos, static_cast<SizeType>(n));
            return -1L;
          });
          // shift_left alone, on the state the real shift_right leaves (built without a fault)
          runCaseOf<TM>("shift_left_mt", sc + " " + P("pos", pos), cap, true, -1,
                        [=](TM *buf) {
                          setupPrefix(buf, size);
                          amc::vec::shift_right(buf + pos, static_cast<SizeType>(n));
                        },
                        [=](TM *buf, const TM &) {
                          amc::vec::shift_left(buf + pos + 1, static_cast<SizeType>(n));
                          return -1L;
                        });
        }
        if (extra >= 1) {
          runCaseOf<TM>("insert_n_mt", sc + " " + P("pos", pos), cap, true, -1, prefixM, [=](TM *buf, const TM &v) {
            amc::vec::insert_n(buf + pos, static_cast<SizeType>(n), v);
            return -1L;
          });
          for (int src = 0; src <= size; ++src) {
            for (int rv = 0; rv <= 1; ++rv) runEmplaceNOf<TM>("emplace_n_mt", size, cap, pos, src < size ? src : cap + 2, rv);
          }
        }
      }

      // ---- the trivially relocatable overloads on El<1> (bitwise relocation), every throw index, coq/SlotsTR.v ----------------
      auto prefixR = [=](TR *buf) { setupPrefix(buf, size); };
      for (int pos = 0; pos <= size; ++pos) {
        const int n = size - pos;
        for (int count = 0; count <= extra; ++count) {
          const std::string pc = sc + " " + P("pos", pos, "count", count);
          runCaseOf<TR>("insert_cnt_tr", pc, cap, true, -1, prefixR, [=](TR *buf, const TR &v) { return insertCount(buf, size, pos, count, v), -1L; });
          runInsertRangeTR(size, cap, pos, count);
          if (n > 0 && count > 0) {
            runCaseOf<TR>("shift_right_cnt_tr", pc, cap, true, -1, prefixR, [=](TR *buf, const TR &) {
              amc::vec::shift_right(buf + pos, static_cast<SizeType>(n), static_cast<SizeType>(count));
              return -1L;
            });
            // unshift_right alone, on the state the real shift_right (pos, n, count) leaves
            runCaseOf<TR>("unshift_right_tr", pc, cap, true, -1,
                          [=](TR *buf) {
                            setupPrefix(buf, size);
                            amc::vec::shift_right(buf + pos, static_cast<SizeType>(n), static_cast<SizeType>(count));
                          },
                          [=](TR *buf, const TR &) {
                            amc::vec::unshift_right(buf + pos, static_cast<SizeType>(n), static_cast<SizeType>(count));
                            return -1L;
                          });
          }
        }
        if (n > 0 && extra >= 1) {
          runCaseOf<TR>("shift_right1_tr", sc + " " + P("pos", pos), cap, true, -1, prefixR, [=](TR *buf, const TR &) {
            amc::vec::shift_right(buf + pos, static_cast<SizeType>(n));
            return -1L;
          });
          // shift_left alone, on the state the real shift_right (pos, n) leaves
          runCaseOf<TR>("shift_left_tr", sc + " " + P("pos", pos), cap, true, -1,
                        [=](TR *buf) {
                          setupPrefix(buf, size);
                          amc::vec::shift_right(buf + pos, static_cast<SizeType>(n));
                        },
                        [=](TR *buf, const TR &) {
                          amc::vec::shift_left(buf + pos + 1, static_cast<SizeType>(n));
                          return -1L;
                        });
        }
        if (extra >= 1) {
          runCaseOf<TR>("insert_n_tr", sc + " " + P("pos", pos), cap, true, -1, prefixR, [=](TR *buf, const TR &v) {
            amc::vec::insert_n(buf + pos, static_cast<SizeType>(n), v);
            return -1L;
          });
          for (int src = 0; src <= size; ++src) {
            for (int rv = 0; rv <= 1; ++rv) runEmplaceNOf<TR>("emplace_n_tr", size, cap, pos, src < size ? src : cap + 2, rv);
          }
        }
      }
      for (int first = 0; first <= size; ++first) {
        for (int last = first; last <= size; ++last) {
          runCaseOf<TR>("erase_tr", sc + " " + P("first", first, "last", last), cap, true, -1, prefixR, [=](TR *buf, const TR &) {
            SizeType n = static_cast<SizeType>(last - first);
            if (n != 0) {
              amc::vec::erase_n(buf + first, n, static_cast<SizeType>(size - last));
            }
            return -1L;
          });
        }
      }

      // erase(position): vec::erase_at, the three element flavours (coq/Transfer.v)
      for (int pos = 0; pos < size; ++pos) {
        const std::string sp = sc + " " + P("pos", pos);
        runCaseOf<T>("erase_at", sp, cap, true, -1, prefix, [=](T *buf, const T &) {
          amc::vec::erase_at(buf + pos, static_cast<SizeType>(size - pos - 1));
          return -1L;
        });
        runCaseOf<TR>("erase_at_tr", sp, cap, true, -1, prefixR, [=](TR *buf, const TR &) {
          amc::vec::erase_at(buf + pos, static_cast<SizeType>(size - pos - 1));
          return -1L;
        });
        runCaseOf<TM>("erase_at_mt", sp, cap, true, -1, [=](TM *buf) { setupPrefix(buf, size); }, [=](TM *buf, const TM &) {
          amc::vec::erase_at(buf + pos, static_cast<SizeType>(size - pos - 1));
          return -1L;
        });
      }

      // ---- coq/AliasThrow.v: the argument is an own element, single-pass ranges (real member functions of a whole amc::vector, every
      // throw index), on El<0> and on the trivially relocatable El<1>
      runOwnFamilies<T>("_th", sc, size, cap, extra, maxExtra);
      runOwnFamilies<TR>("_tr", sc, size, cap, extra, maxExtra);

      // emplace / emplace_back of a full vector (growth path), once per size
      if (extra == 0) {
        for (int src = 0; src <= size; ++src) {
          for (int rv = 0; rv <= 1; ++rv) {
            for (int pos = 0; pos <= size; ++pos) runGrow("emplace_grow_th", size, pos, src < size ? src : size + 2, rv);
            runGrow("emplace_back_grow_th", size, -1, src < size ? src : size + 2, rv);
          }
        }
      }

      // erase(first, last)
      for (int first = 0; first <= size; ++first) {
        for (int last = first; last <= size; ++last) {
          runCase("erase", sc + " " + P("first", first, "last", last), cap, false, -1, prefix, [=](T *buf, const T &) {
            SizeType n = static_cast<SizeType>(last - first);
            if (n != 0) {
              amc::vec::erase_n(buf + first, n, static_cast<SizeType>(size - last));
            }
            return -1L;
          });
          // the same with throwing moves: the size is set after erase_n (not reached on a throw)
          runCaseOf<TM>("erase_mt", sc + " " + P("first", first, "last", last), cap, true, -1,
                        [=](TM *buf) { setupPrefix(buf, size); }, [=](TM *buf, const TM &) {
                          SizeType n = static_cast<SizeType>(last - first);
                          if (n != 0) {
                            amc::vec::erase_n(buf + first, n, static_cast<SizeType>(size - last));
                          }
                          return -1L;
                        });
        }
      }

      // resize(count, v), size <= count <= capacity
      for (int count = size; count <= cap; ++count) {
        runCase("resize_grow", sc + " " + P("count", count), cap, true, size, prefix, [=](T *buf, const T &v) {
          if (size < count) {
            std::uninitialized_fill_n(buf + size, static_cast<SizeType>(count - size), v);
          } else {
            amc::destroy_n(buf + count, static_cast<SizeType>(size - count));
          }
          return static_cast<long>(count);
        });
      }
      // assign(count, v): growing within the capacity (vec::fill), or not growing (fill_n + destroy_n)
      for (int count = 0; count <= cap; ++count) {
        if (size < count) {
          runCase("assign_grow", sc + " " + P("count", count), cap, true, -1, prefix, [=](T *buf, const T &v) {
            amc::vec::fill(buf, static_cast<SizeType>(size), static_cast<SizeType>(count), v);
            return -1L;
          });
        } else {
          runCase("assign_shrink", sc + " " + P("count", count), cap, true, -1, prefix, [=](T *buf, const T &v) {
            std::fill_n(buf, static_cast<SizeType>(count), v);
            amc::destroy_n(buf + count, static_cast<SizeType>(size - count));
            return -1L;
          });
        }
      }
    }
  }
  // ---- whole-content transfers between two buffers (coq/Transfer.v) ------------------------------------------------------------------
  const int slack = maxExtra >= 1 ? 1 : 0;  // every capacity tight and with one spare slot
  for (int n1 = 0; n1 <= maxSize; ++n1) {
    for (int n2 = 0; n2 <= maxSize; ++n2) {
      for (int e1 = 0; e1 <= slack; ++e1) {
        for (int e2 = 0; e2 <= slack; ++e2) {
          // swap_deep: each range has room for the elements of the other one
          runSwapDeep<T>("swap_deep", n1, std::max(n1, n2) + e1, n2, std::max(n1, n2) + e2);
          runSwapDeep<TR>("swap_deep_tr", n1, std::max(n1, n2) + e1, n2, std::max(n1, n2) + e2);
          runSwapDeep<TM>("swap_deep_mt", n1, std::max(n1, n2) + e1, n2, std::max(n1, n2) + e2);  // every move is an event (coq/SwapThrow.v)
          // move_n: n1 = the source, n2 = the elements the destination holds before; the destination has room for the source
          runMoveN<T>("move_n", n1, n1 + e1, n2, std::max(n1, n2) + e2);
          runMoveN<TR>("move_n_tr", n1, n1 + e1, n2, std::max(n1, n2) + e2);
          runMoveN<TM>("move_n_mt", n1, n1 + e1, n2, std::max(n1, n2) + e2);  // every move is an event (coq/MoveThrow.v)
        }
      }
    }
  }
  for (int n = 0; n <= maxSize; ++n) {
    for (int e1 = 0; e1 <= slack; ++e1) {
      for (int e2 = 0; e2 <= maxExtra; ++e2) {
        runReloc<T>("reloc", n, n + e1, n + e2, false);
        runReloc<TR>("reloc_tr", n, n + e1, n + e2, false);
        runReloc<TM>("reloc_cp", n, n + e1, n + e2, false);  // RelocateByCopy: every copy is an event
        runReloc<TM>("reloc_mt", n, n + e1, n + e2, true);   // amc::uninitialized_relocate_n: every move is an event
      }
    }
  }
  std::printf("END live=%ld errors=%ld relocations=%ld objects=%ld\n", G().live, G().nErrors, vf::RL().calls, vf::RL().objects);
  return 0;
}
