#include <cstdio>
#include <cstddef>
#include "common.hpp"
#include <amc/smallvector.hpp>
typedef vf::El<2> E;
typedef amc::SmallVector<E, 3> V;
static bool inl(const V &v) { const char *d = (const char *)v.data(); const char *o = (const char *)&v; return d >= o && d < o + sizeof(V); }
static void dump(const char *tag, const V &v) {
  std::printf("  %s size=%u cap=%u inline=%d [", tag, (unsigned)v.size(), (unsigned)v.capacity(), (int)inl(v));
  for (V::const_iterator it = v.begin(); it != v.end(); ++it) std::printf("%d ", it->value());
  std::printf("]\n");
}
int main() {
  std::printf("sizeof(E)=%u sizeof(void*)=%u\n", (unsigned)sizeof(E), (unsigned)sizeof(void *));
  for (int n = 0; n <= 3; ++n) for (long k = -1; k <= n; ++k) {
    long liveBefore = vf::G().live;
    {
      V v; for (int i = 0; i < 5; ++i) v.push_back(E(10 + i));
      while ((int)v.size() > n) v.pop_back();
      const void *blk = v.data(); long l0 = vf::G().live; bool threw = false;
      vf::G().countdown = k; try { v.shrink_to_fit(); } catch (...) { threw = true; } vf::G().countdown = -1;
      std::printf("shrink n=%d k=%ld threw=%d sameblock=%d dlive=%ld\n", n, k, (int)threw, (int)(blk == v.data()), vf::G().live - l0);
      dump("v", v); v.push_back(E(99)); dump("v+99", v);
    }
    std::printf("  leak=%ld errors=%ld\n", vf::G().live - liveBefore, vf::G().nErrors);
  }
  for (int nb = 0; nb <= 3; ++nb) for (long k = -1; k <= nb; ++k) for (int dir = 0; dir < 2; ++dir) {
    long liveBefore = vf::G().live;
    {
      V a; for (int i = 0; i < 5; ++i) a.push_back(E(10 + i)); a.pop_back(); a.pop_back();
      V b; for (int i = 0; i < nb; ++i) b.push_back(E(20 + i));
      const void *blk = a.data(); long l0 = vf::G().live; bool threw = false;
      vf::G().countdown = k; try { if (dir) a.swap(b); else b.swap(a); } catch (...) { threw = true; } vf::G().countdown = -1;
      std::printf("swap nb=%d k=%ld dir=%d threw=%d a.sameblock=%d b.takesblock=%d dlive=%ld\n", nb, k, dir, (int)threw, (int)(blk == a.data()), (int)(blk == b.data()), vf::G().live - l0);
      dump("a", a); dump("b", b); a.push_back(E(98)); b.push_back(E(99)); dump("a+98", a); dump("b+99", b);
    }
    std::printf("  leak=%ld errors=%ld\n", vf::G().live - liveBefore, vf::G().nErrors);
  }
  return vf::G().nErrors ? 1 : 0;
}
