// C16: one fixed program over the part of the API the script language of vecdrv / setdrv cannot express (constructor arguments
// forwarded by emplace, initializer lists, nested containers, class element types of the standard library, comparison of containers,
// free swap).  Its output must be byte-identical under every language level / assertion / optimisation setting.  C++11 only.
#include <cstdio>
#include <cstring>
#include <list>
#include <initializer_list>
#include <string>
#include <utility>
#include <vector>

#include <amc/fixedcapacityvector.hpp>
#include <amc/flatset.hpp>
#include <amc/smallvector.hpp>
#include <amc/vector.hpp>

namespace {

// T(a, b) and T{a, b} are different objects
struct PB {
  long tag;
  PB() : tag(0) {}
  PB(int a) : tag(1000 + a) {}
  PB(int a, int b) : tag(100 * a + b) {}
  PB(int a, int b, int c) : tag(10000 * a + 100 * b + c) {}
  PB(std::initializer_list<int> l) : tag(-static_cast<long>(l.size())) {}
  bool operator<(const PB &o) const { return tag < o.tag; }
  bool operator==(const PB &o) const { return tag == o.tag; }
};

void show(const char *what, const std::string &s) { std::printf("%s \"%s\"\n", what, s.c_str()); }

template <class V>
void showInts(const char *what, const V &v) {
  std::printf("%s [", what);
  for (typename V::const_iterator it = v.begin(); it != v.end(); ++it) std::printf(" %d", static_cast<int>(*it));
  std::printf(" ] size=%lu\n", static_cast<unsigned long>(v.size()));
}

template <class V>
void showTags(const char *what, const V &v) {
  std::printf("%s [", what);
  for (typename V::const_iterator it = v.begin(); it != v.end(); ++it) std::printf(" %ld", it->tag);
  std::printf(" ] size=%lu\n", static_cast<unsigned long>(v.size()));
}

template <class V>
void pbOps(const char *name) {
  std::printf("== %s\n", name);
  V v;
  v.emplace_back();
  v.emplace_back(5);
  v.emplace_back(2, 7);
  v.emplace_back(1, 2, 3);
  v.emplace(v.begin(), 4, 9);
  v.emplace(v.begin() + 2, 3, 3, 3);
  v.emplace(v.end(), 8, 1);
  showTags("emplace", v);
  V w(v);
  w.push_back(PB(6, 6));
  w.insert(w.begin() + 1, PB{1, 2, 3, 4});
  showTags("copy+push", w);
  std::printf("cmp %d %d %d %d %d %d\n", v == w, v != w, v < w, v <= w, v > w, v >= w);
  using std::swap;
  swap(v, w);
  showTags("swapped.v", v);
  showTags("swapped.w", w);
  V x{PB(1, 1), PB(2, 2), PB{3, 3}};
  showTags("init-list", x);
  x = {PB(9, 9)};
  showTags("assign-list", x);
  x.insert(x.begin(), {PB(7), PB(7, 7)});
  showTags("insert-list", x);
  x.assign(3, PB(4, 2));
  showTags("assign-n", x);
  x.erase(x.begin());
  x.resize(4);
  showTags("resize", x);
  V y(2);
  showTags("ctor-n", y);
  V z(2, PB(3, 1));
  showTags("ctor-n-v", z);
}

template <class V>
void stringOps(const char *name) {
  std::printf("== %s\n", name);
  V v;
  v.emplace_back(3, 'x');
  v.emplace_back("hello world, long enough to leave the small string buffer", 11);
  v.emplace(v.begin(), 2, 'y');
  v.emplace(v.begin() + 1, std::string("abcdef"), 2, 3);
  v.emplace_back();
  for (typename V::const_iterator it = v.begin(); it != v.end(); ++it) show("  s", *it);
  V w(v.begin() + 1, v.end());
  w.insert(w.begin(), v.begin(), v.begin() + 2);
  w.erase(w.begin() + 1);
  for (typename V::const_iterator it = w.begin(); it != w.end(); ++it) show("  w", *it);
  std::printf("cmp %d %d\n", v == w, v < w);
}

template <class V>
void nestedOps(const char *name) {
  std::printf("== %s\n", name);
  V v;
  v.emplace_back(2, 7);
  v.emplace_back(4, 1);
  v.emplace(v.begin(), 3, 9);
  v.emplace_back();
  v.push_back(typename V::value_type{2, 7});
  for (typename V::const_iterator it = v.begin(); it != v.end(); ++it) showInts("  inner", *it);
  V w(v);
  w.erase(w.begin());
  std::printf("cmp %d %d\n", v == w, v < w);
}

// Ranges whose value type differs from the element type are converted element by element (never copied as bytes):
// the object representation of every element is printed, so that a `bool` holding the byte 2 shows.
template <class T>
void showBytes(const char *what, const T *first, std::size_t n) {
  std::printf("%s [", what);
  for (std::size_t i = 0; i < n; ++i) {
    unsigned char b[sizeof(T)];
    std::memcpy(b, static_cast<const void *>(first + i), sizeof(T));
    std::printf(" ");
    for (std::size_t k = 0; k < sizeof(T); ++k) std::printf("%02x", static_cast<unsigned>(b[k]));
  }
  std::printf(" ] size=%lu\n", static_cast<unsigned long>(n));
}

template <class V, class Src>
void convertOps(const char *name) {
  typedef typename V::value_type T;
  std::printf("== %s\n", name);
  const Src raw[] = {static_cast<Src>(0), static_cast<Src>(1), static_cast<Src>(2), static_cast<Src>(64), static_cast<Src>(-1), static_cast<Src>(-128),
                     static_cast<Src>(127)};
  const std::size_t n = sizeof(raw) / sizeof(raw[0]);
  std::list<Src> lst(raw, raw + n);
  std::vector<Src> vec(raw, raw + n);
  V a(raw, raw + n);
  showBytes<T>("ctor(pointers)", a.data(), a.size());
  V b(lst.begin(), lst.end());
  showBytes<T>("ctor(list)", b.data(), b.size());
  V c;
  c.assign(vec.begin(), vec.end());
  showBytes<T>("assign(vector it)", c.data(), c.size());
  V d(2);
  d.insert(d.begin() + 1, raw + 2, raw + 5);
  showBytes<T>("insert(pointers)", d.data(), d.size());
  d.insert(d.end(), lst.begin(), lst.end());
  showBytes<T>("insert(list)", d.data(), d.size());
  V e(raw + 1, raw + 3);
  e.assign(raw, raw + n);
  showBytes<T>("assign(pointers)", e.data(), e.size());
}

void flatSetOps() {
  std::printf("== FlatSet\n");
  amc::FlatSet<PB> s;
  s.emplace(2, 7);
  s.emplace(1, 2, 3);
  s.emplace(5);
  s.emplace();
  s.emplace(2, 7);
  s.insert(PB{1, 2});
  s.emplace_hint(s.begin(), 0, 1);
  showTags("emplace", s);
  amc::FlatSet<std::string> t{"pear", "apple", "fig", "apple"};
  t.emplace(3, 'z');
  t.emplace("kiwi-and-more", 4);
  for (amc::FlatSet<std::string>::const_iterator it = t.begin(); it != t.end(); ++it) show("  t", *it);
  amc::FlatSet<int> a{5, 1, 3}, b{1, 3, 5, 7};
  std::printf("cmp %d %d %d count=%lu\n", a == b, a < b, a != b, static_cast<unsigned long>(b.count(7)));
  a.insert({9, 7, 7, 2});
  showInts("insert-list", a);
  using std::swap;
  swap(a, b);
  showInts("swapped.a", a);
  showInts("swapped.b", b);
}

}  // namespace

int main() {
  pbOps<amc::vector<PB> >("vector<PB>");
  pbOps<amc::SmallVector<PB, 3> >("SmallVector<PB,3>");
  pbOps<amc::FixedCapacityVector<PB, 12> >("FixedCapacityVector<PB,12>");
  pbOps<std::vector<PB> >("std::vector<PB> (reference)");
  stringOps<amc::vector<std::string> >("vector<string>");
  stringOps<amc::SmallVector<std::string, 2> >("SmallVector<string,2>");
  stringOps<amc::FixedCapacityVector<std::string, 8> >("FixedCapacityVector<string,8>");
  stringOps<std::vector<std::string> >("std::vector<string> (reference)");
  nestedOps<amc::vector<std::vector<int> > >("vector<std::vector<int>>");
  nestedOps<amc::SmallVector<std::vector<int>, 2> >("SmallVector<std::vector<int>,2>");
  nestedOps<amc::vector<amc::vector<int> > >("vector<amc::vector<int>>");
  nestedOps<amc::FixedCapacityVector<amc::SmallVector<int, 2>, 6> >("FixedCapacityVector<SmallVector<int,2>,6>");
  nestedOps<std::vector<std::vector<int> > >("std::vector<std::vector<int>> (reference)");
  convertOps<amc::vector<bool>, char>("vector<bool> from char");
  convertOps<amc::SmallVector<bool, 3>, unsigned char>("SmallVector<bool,3> from unsigned char");
  convertOps<amc::FixedCapacityVector<bool, 24>, signed char>("FixedCapacityVector<bool,24> from signed char");
  convertOps<amc::vector<unsigned char>, signed char>("vector<unsigned char> from signed char");
  convertOps<amc::vector<int>, unsigned>("vector<int> from unsigned");
  convertOps<amc::SmallVector<float, 2>, int>("SmallVector<float,2> from int");
  convertOps<amc::vector<long>, int>("vector<long> from int");
  convertOps<amc::vector<unsigned short>, short>("vector<unsigned short> from short");
  flatSetOps();
  std::printf("END\n");
  return 0;
}
