// Shared instrumentation for the correspondence drivers (vectors, sets, memory algorithms).
// Written in the C++11 subset so that the same sources build under -std=c++11 .. c++20 (C15/C16).
//
// No hook in /repo is needed: private words are read through `#define private public`, which every
// driver places AFTER all standard headers and BEFORE the amc headers.
#pragma once
#include <cstdio>
#if __cplusplus >= 202002L
#include <compare>
#endif
#include <cstdlib>
#include <cstring>
#include <map>
#include <new>
#include <sstream>
#include <stdexcept>
#include <string>
#include <type_traits>
#include <vector>
#include <unistd.h>
#include <sys/wait.h>

namespace vf {

static const int kMoved = -7;  // value left in a moved-from instrumented element

// ---------------------------------------------------------------------------------------------
// Global ledger of element objects, allocator blocks, event counters and the throw countdown.
// set by the drivers whose transcripts are line oriented (vecdrv): the injected event is printed before it is thrown
inline bool &announceInjection() {
  static bool on = false;
  return on;
}

struct Globals {
  // element ledger: status by id (ids are sequential); 1 = alive, 2 = destroyed
  std::vector<char> status;
  long live = 0;
  // event counters
  long nValC = 0, nDefC = 0, nCopyC = 0, nMoveC = 0, nCopyA = 0, nMoveA = 0, nDtor = 0;
  // errors found by the ledgers (first few kept verbatim)
  std::vector<std::string> errors;
  long nErrors = 0;
  // throw countdown: -1 = never; 0 = the next throwing-capable event throws
  long countdown = -1;
  // second fault: once the first injected exception has been thrown, the countdown restarts from this value (-1 = no second
  // fault): the roll-back code that runs in the handlers is then interrupted by an exception of its own
  long countdown2 = -1;
  long throwingEvents = 0;  // number of throwing-capable events seen since last arm
  // allocator ledger
  std::map<void *, size_t> blocks;  // pointer -> size in "units" (elements or bytes, see allocator)
  std::vector<std::string> allocEvents;
  long nAllocCalls = 0;
  void err(const std::string &m) {
    ++nErrors;
    if (errors.size() < 6) errors.push_back(m);
  }
  long newId() {
    status.push_back(1);
    ++live;
    return static_cast<long>(status.size()) - 1;
  }
  bool isLive(long id) const { return id >= 0 && id < static_cast<long>(status.size()) && status[id] == 1; }
  void kill(long id) {
    status[id] = 2;
    --live;
  }
  // Called at each throwing-capable event
  std::string lastInjected;  // which throwing-capable event the fault injection made throw in the current step
  void tick(const char *what) {
    ++throwingEvents;
    if (countdown == 0) {
      countdown = countdown2;
      countdown2 = -1;
      lastInjected = what;
      if (announceInjection()) {
        std::printf("INJ %s\n", what);  // survives a crash of the operation (stdout is flushed)
        std::fflush(stdout);
      }
      throw std::runtime_error(std::string("injected:") + what);
    }
    if (countdown > 0) --countdown;
  }
  void tickAlloc() {
    ++throwingEvents;
    if (countdown == 0) {
      countdown = countdown2;
      countdown2 = -1;
      lastInjected = "allocate";
      if (announceInjection()) {
        std::printf("INJ allocate\n");
        std::fflush(stdout);
      }
      throw std::bad_alloc();
    }
    if (countdown > 0) --countdown;
  }
};
inline Globals &G() {
  static Globals g;
  return g;
}

// ---------------------------------------------------------------------------------------------
// Element types.  Cat: 0 = NTR (neither trivially copyable nor declared relocatable; remembers its own address),
//                       1 = TR  (not trivially copyable, declares trivially_relocatable = true_type),
//                       2 = NTM (as NTR, and its move constructor / move assignment are throwing-capable events).
template <int Cat>
struct El {
  int v;
  long id;
  const El *self;
  El() : v(0), id(-1), self(this) {
    G().tick("default-construct");
    id = G().newId();
    ++G().nDefC;
  }
  El(int x) : v(x), id(-1), self(this) {  // NOLINT: implicit on purpose (emplace(int))
    G().tick("value-construct");
    id = G().newId();
    ++G().nValC;
  }
  El(const El &o) : v(o.v), id(-1), self(this) {
    o.chk("copy-construct-from");
    G().tick("copy-construct");
    id = G().newId();
    ++G().nCopyC;
  }
  El(El &&o) noexcept(Cat != 2) : v(o.v), id(-1), self(this) {
    o.chk("move-construct-from");
    if (Cat == 2) G().tick("move-construct");
    id = G().newId();
    ++G().nMoveC;
    o.v = kMoved;
  }
  El &operator=(const El &o) {
    chk("copy-assign-to");
    o.chk("copy-assign-from");
    G().tick("copy-assign");
    v = o.v;
    ++G().nCopyA;
    return *this;
  }
  El &operator=(El &&o) noexcept(Cat != 2) {
    chk("move-assign-to");
    o.chk("move-assign-from");
    if (Cat == 2 && this != &o) G().tick("move-assign");
    ++G().nMoveA;
    if (this == &o) {
      // reported, and the value is lost as it is for real types (a libstdc++ std::string is left empty, a vector that steals
      // the buffer of its source then resets the source is left empty): the element sequence shows it too
      G().err("self-move-assign");
      v = kMoved;
      return *this;
    }
    v = o.v;
    o.v = kMoved;
    return *this;
  }
  ~El() {
    chk("destroy");
    if (G().isLive(id)) G().kill(id);
    ++G().nDtor;
  }
  void chk(const char *what) const {
    if (!G().isLive(id)) {
      G().err(std::string(what) + ":outside-lifetime");
      return;
    }
    if (Cat != 1 && self != this) G().err(std::string(what) + ":bitwise-moved-NTR");
  }
  // reading the value through the container (oracle): must be alive
  int value() const {
    chk("read");
    return v;
  }
  bool operator==(const El &o) const { return v == o.v; }
  bool operator<(const El &o) const { return v < o.v; }
#if __cplusplus >= 202002L
  std::strong_ordering operator<=>(const El &o) const { return v <=> o.v; }
#endif
  using trivially_relocatable = typename std::conditional<Cat == 1, std::true_type, std::false_type>::type;
};

// trivially copyable elements of two sizes (4 bytes: needs an extra inline array for N > 2; 2 bytes: shares the pointer bytes up to N = 4)
struct TC4 {
  int v;
  TC4() : v(0) {}
  TC4(int x) : v(x) {}  // NOLINT
  int value() const { return v; }
  bool operator==(const TC4 &o) const { return v == o.v; }
  bool operator<(const TC4 &o) const { return v < o.v; }
#if __cplusplus >= 202002L
  std::strong_ordering operator<=>(const TC4 &o) const { return v <=> o.v; }
#endif
};
struct TC2 {
  short v;
  TC2() : v(0) {}
  TC2(int x) : v(static_cast<short>(x)) {}  // NOLINT
  int value() const { return v; }
  bool operator==(const TC2 &o) const { return v == o.v; }
  bool operator<(const TC2 &o) const { return v < o.v; }
#if __cplusplus >= 202002L
  std::strong_ordering operator<=>(const TC2 &o) const { return v <=> o.v; }
#endif
};
// trivially default constructible as well (like int): value-initialisation and default-initialisation differ for it
struct POD4 {
  int v;
  POD4() = default;
  POD4(int x) : v(x) {}  // NOLINT
  int value() const { return v; }
  bool operator==(const POD4 &o) const { return v == o.v; }
  bool operator<(const POD4 &o) const { return v < o.v; }
#if __cplusplus >= 202002L
  std::strong_ordering operator<=>(const POD4 &o) const { return v <=> o.v; }
#endif
};
// over-aligned trivially copyable element (alignment above that of a pointer: the inline slots must honour it)
struct alignas(16) OA16 {
  int v;
  OA16() : v(0) {}
  OA16(int x) : v(x) {}  // NOLINT
  int value() const { return v; }
  bool operator==(const OA16 &o) const { return v == o.v; }
  bool operator<(const OA16 &o) const { return v < o.v; }
#if __cplusplus >= 202002L
  std::strong_ordering operator<=>(const OA16 &o) const { return v <=> o.v; }
#endif
};
static_assert(std::is_trivially_copyable<OA16>::value && alignof(OA16) == 16 && sizeof(OA16) == 16, "OA16");
static_assert(std::is_trivially_copyable<TC4>::value && std::is_trivially_copyable<TC2>::value, "TC");
static_assert(std::is_trivially_default_constructible<POD4>::value && std::is_trivially_copyable<POD4>::value, "POD");

template <class T>
struct ElInfo {
  static const bool instrumented = false;
  static const char *cat() { return "TC"; }
};
template <int Cat>
struct ElInfo<El<Cat> > {
  static const bool instrumented = true;
  static const char *cat() { return Cat == 1 ? "TR" : (Cat == 2 ? "NTM" : "NTR"); }
};

// ---------------------------------------------------------------------------------------------
// Allocators with a ledger.
inline void allocEvent(const std::string &s) { G().allocEvents.push_back(s); }

// std-like allocator, exact-size checking; optional reallocate
template <class T, bool WithRealloc>
struct LedgerAlloc {
  using value_type = T;
  using pointer = T *;
  using const_pointer = const T *;
  using size_type = size_t;
  using difference_type = ptrdiff_t;
  using reference = T &;
  using const_reference = const T &;
  template <class U>
  struct rebind {
    using other = LedgerAlloc<U, WithRealloc>;
  };
  LedgerAlloc() = default;
  template <class U>
  LedgerAlloc(const LedgerAlloc<U, WithRealloc> &) {}
  T *allocate(size_t n, const void * = 0) {
    ++G().nAllocCalls;
    G().tickAlloc();
    T *p = static_cast<T *>(std::malloc(n * sizeof(T) + 1));
    G().blocks[p] = n;
    allocEvent("+" + std::to_string(n));
    return p;
  }
  void deallocate(T *p, size_t n) {
    if (p == nullptr) {
      if (n != 0) G().err("deallocate(nullptr," + std::to_string(n) + ")");
      allocEvent("-0");
      return;
    }
    auto it = G().blocks.find(p);
    if (it == G().blocks.end()) {
      G().err("deallocate:unknown-or-double-free");
      return;
    }
    if (it->second != n) G().err("deallocate:size-mismatch got " + std::to_string(n) + " want " + std::to_string(it->second));
    allocEvent("-" + std::to_string(it->second));
    G().blocks.erase(it);
    std::free(p);
  }
  template <bool B = WithRealloc>
  typename std::enable_if<B, T *>::type reallocate(T *p, size_t oldCapa, size_t newCapa, size_t nConstructed) {
    ++G().nAllocCalls;
    if (!amc_is_tr()) G().err("reallocate:for-non-trivially-relocatable-type");
    if (p != nullptr) {
      auto it = G().blocks.find(p);
      if (it == G().blocks.end()) {
        G().err("reallocate:unknown-block");
      } else {
        if (it->second != oldCapa) G().err("reallocate:old-capacity-mismatch got " + std::to_string(oldCapa) + " want " + std::to_string(it->second));
      }
    } else if (oldCapa != 0) {
      G().err("reallocate(nullptr) with non zero old capacity");
    }
    if (nConstructed > oldCapa || nConstructed > newCapa) G().err("reallocate:live-count-out-of-range");
    G().tickAlloc();
    T *q = static_cast<T *>(std::malloc(newCapa * sizeof(T) + 1));
    if (nConstructed) std::memcpy(static_cast<void *>(q), static_cast<const void *>(p), nConstructed * sizeof(T));
    if (p) {
      G().blocks.erase(p);
      // poison then free the old block: a stale pointer is then visible to ASan and to the value checks
      std::memset(static_cast<void *>(p), 0xEE, oldCapa * sizeof(T));
      std::free(p);
    }
    G().blocks[q] = newCapa;
    allocEvent("~" + std::to_string(oldCapa) + ">" + std::to_string(newCapa) + "@" + std::to_string(nConstructed));
    return q;
  }
  static bool amc_is_tr();
  template <class U>
  bool operator==(const LedgerAlloc<U, WithRealloc> &) const {
    return true;
  }
  template <class U>
  bool operator!=(const LedgerAlloc<U, WithRealloc> &) const {
    return false;
  }
};

// "basic allocator" (bytes) to be wrapped by amc::BasicAllocatorWrapper, i.e. what amc::allocator is made of
struct LedgerBasic {
  static size_t &unit() {
    static size_t u = 1;
    return u;
  }  // sizeof(T) of the driver's element type, to print element counts
  void *allocate(size_t n) {
    ++G().nAllocCalls;
    G().tickAlloc();
    void *p = std::malloc(n + 1);
    G().blocks[p] = n;
    allocEvent("+" + std::to_string(n / unit()));
    return p;
  }
  void *reallocate(void *p, size_t oldSz, size_t newSz) {
    ++G().nAllocCalls;
    if (p != nullptr) {
      auto it = G().blocks.find(p);
      if (it == G().blocks.end()) {
        G().err("basic-reallocate:unknown-block");
      } else if (it->second != oldSz) {
        G().err("basic-reallocate:old-size-mismatch");
      }
    } else if (oldSz != 0) {
      G().err("basic-reallocate(nullptr) with non zero old size");
    }
    G().tickAlloc();
    void *q = std::malloc(newSz + 1);
    size_t keep = oldSz < newSz ? oldSz : newSz;
    if (keep) std::memcpy(q, p, keep);
    if (p) {
      G().blocks.erase(p);
      std::memset(p, 0xEE, oldSz);
      std::free(p);
    }
    G().blocks[q] = newSz;
    allocEvent("~" + std::to_string(oldSz / unit()) + ">" + std::to_string(newSz / unit()));
    return q;
  }
  void deallocate(void *p, size_t n) {
    if (p == nullptr) {
      if (n != 0) G().err("basic-deallocate(nullptr,n!=0)");
      allocEvent("-0");
      return;
    }
    auto it = G().blocks.find(p);
    if (it == G().blocks.end()) {
      G().err("basic-deallocate:unknown-or-double-free");
      return;
    }
    if (it->second != n) G().err("basic-deallocate:size-mismatch got " + std::to_string(n) + " want " + std::to_string(it->second));
    allocEvent("-" + std::to_string(it->second / unit()));
    G().blocks.erase(it);
    std::free(p);
  }
};

// ---------------------------------------------------------------------------------------------
// small text helpers
inline std::vector<std::string> split(const std::string &s, char sep = ' ') {
  std::vector<std::string> out;
  std::string cur;
  for (size_t i = 0; i < s.size(); ++i) {
    if (s[i] == sep) {
      if (!cur.empty()) out.push_back(cur);
      cur.clear();
    } else {
      cur += s[i];
    }
  }
  if (!cur.empty()) out.push_back(cur);
  return out;
}
inline std::vector<int> parseInts(const std::string &s) {  // "1,2,3" or "-" for empty
  std::vector<int> out;
  if (s == "-" || s.empty()) return out;
  std::vector<std::string> p = split(s, ',');
  for (size_t i = 0; i < p.size(); ++i) out.push_back(std::atoi(p[i].c_str()));
  return out;
}
inline std::string joinInts(const std::vector<int> &v) {
  if (v.empty()) return "-";
  std::string s;
  for (size_t i = 0; i < v.size(); ++i) {
    if (i) s += ",";
    s += std::to_string(v[i]);
  }
  return s;
}
inline std::string joinStr(const std::vector<std::string> &v, const char *sep = ",") {
  if (v.empty()) return "-";
  std::string s;
  for (size_t i = 0; i < v.size(); ++i) {
    if (i) s += sep;
    s += v[i];
  }
  return s;
}

// ---------------------------------------------------------------------------------------------
// Running histories in child processes so that a crash (signal, sanitizer abort) is a verdict.
// `histories` = list of (id, lines).  runOne(id, lines) prints the transcript to stdout.
struct History {
  std::string id;
  std::vector<std::string> lines;
};
inline std::vector<History> readHistories(FILE *in) {
  std::vector<History> hs;
  char *line = nullptr;
  size_t cap = 0;
  ssize_t n;
  while ((n = getline(&line, &cap, in)) > 0) {
    while (n > 0 && (line[n - 1] == '\n' || line[n - 1] == '\r')) line[--n] = 0;
    if (n == 0 || line[0] == '#') continue;
    if (line[0] == 'H' && (line[1] == ' ' || line[1] == 0)) {
      History h;
      h.id = n > 2 ? std::string(line + 2) : std::to_string(hs.size());
      hs.push_back(h);
    } else {
      if (hs.empty()) {
        History h;
        h.id = "0";
        hs.push_back(h);
      }
      hs.back().lines.push_back(line);
    }
  }
  free(line);
  return hs;
}
template <class F>
int runHistoriesForked(const std::vector<History> &hs, F runOne) {
  size_t next = 0;
  int crashes = 0;
  while (next < hs.size()) {
    int fds[2];
    if (pipe(fds) != 0) return -1;
    fflush(stdout);
    pid_t pid = fork();
    if (pid == 0) {
      close(fds[0]);
      setvbuf(stdout, nullptr, _IOLBF, 1 << 16);  // a crash must not lose the lines already produced
      for (size_t i = next; i < hs.size(); ++i) {
        // tell the parent which history is in flight
        unsigned long idx = i;
        if (write(fds[1], &idx, sizeof idx) < 0) _exit(3);
        runOne(hs[i]);
        fflush(stdout);
      }
      unsigned long done = ~0UL;
      if (write(fds[1], &done, sizeof done) < 0) _exit(3);
      _exit(0);
    }
    close(fds[1]);
    unsigned long last = ~0UL - 1, idx;
    bool finished = false;
    while (read(fds[0], &idx, sizeof idx) == static_cast<ssize_t>(sizeof idx)) {
      if (idx == ~0UL) {
        finished = true;
        break;
      }
      last = idx;
    }
    close(fds[0]);
    int status = 0;
    waitpid(pid, &status, 0);
    if (finished && WIFEXITED(status) && WEXITSTATUS(status) == 0) break;
    // the child died while running history `last`
    ++crashes;
    if (last == ~0UL - 1) last = next;
    std::printf("\nCRASH hist=%s status=%s%d\n", hs[last].id.c_str(), WIFSIGNALED(status) ? "signal" : "exit",
                WIFSIGNALED(status) ? WTERMSIG(status) : WEXITSTATUS(status));
    fflush(stdout);
    next = last + 1;
  }
  return crashes;
}
}  // namespace vf
