// Stand-alone probe for the observation of coq/AliasThrow.v (`*_grow_slots_refuted`): on a vector that has to GROW, insert (pos, const T&),
// insert (pos, count, const T&) and push_back (const T&) copy the element AFTER adjustCapacity has reallocated.  When that copy throws, the
// elements are intact but the vector has moved to a larger block (capacity grown, iterators / references invalidated); std::vector (and
// amc's emplace_back / emplace, which build a temporary first) leave capacity and data () untouched.  Also shows what the single-pass
// insert (pos, first, last) leaves behind after a throw once it has grown.  Not part of any check; /repo is only read.
//   g++ -std=c++17 -O1 -g -fsanitize=address,undefined -I/repo/include -Iharness/cpp harness/cpp/alias_probe.cpp -o alias_probe && ./alias_probe
#include <cstdio>
#include <iterator>
#include <string>
#include <vector>

#include "common.hpp"

#include <amc/vector.hpp>

namespace vf {
template <class T, bool W>
bool LedgerAlloc<T, W>::amc_is_tr() {
  return amc::is_trivially_relocatable<T>::value;
}
}  // namespace vf

using vf::G;
typedef vf::El<0> T;
typedef amc::vector<T, vf::LedgerAlloc<T, false>, uint32_t> AmcVec;
typedef std::vector<T> StdVec;

template <class V>
static std::string contents(const V &v) {
  std::string s;
  for (size_t i = 0; i < v.size(); ++i) s += (i ? "," : "") + std::to_string(v[static_cast<typename V::size_type>(i)].v);
  return s;
}

template <class V>
static void build(V &v, int size, int cap) {
  v.reserve(static_cast<typename V::size_type>(cap));
  for (int i = 0; i < size; ++i) v.emplace_back(10 + i);
}

// runs op on a vector of `size` elements 10, 11, ... and capacity `cap`, the k-th throwing-capable event throws
template <class V, class Op>
static void probe(const char *what, int size, int cap, long k, Op op) {
  const long live0 = G().live;
  {
    V v;
    build(v, size, cap);
    const T *data0 = v.data();
    const size_t cap0 = v.capacity();
    const long errs0 = G().nErrors;
    bool threw = false;
    G().countdown = k;
    try {
      op(v);
    } catch (const std::exception &) {
      threw = true;
    }
    G().countdown = -1;
    std::printf("%-58s k=%ld threw=%d size=%zu capacity %zu -> %zu data %s contents=[%s] errs=%ld live=%ld\n", what, k, threw ? 1 : 0,
                static_cast<size_t>(v.size()), cap0, static_cast<size_t>(v.capacity()), v.data() == data0 ? "same" : "MOVED", contents(v).c_str(),
                G().nErrors - errs0, G().live - live0);
  }
  if (G().live != live0) std::printf("  LEAK: %ld objects alive after the vector was destroyed\n", G().live - live0);
}

struct InIt {
  typedef std::input_iterator_tag iterator_category;
  typedef T value_type;
  typedef std::ptrdiff_t difference_type;
  typedef const T *pointer;
  typedef const T &reference;
  const T *p;
  reference operator*() const { return *p; }
  InIt &operator++() {
    ++p;
    return *this;
  }
  InIt operator++(int) {
    InIt r = *this;
    ++p;
    return r;
  }
  bool operator==(const InIt &o) const { return p == o.p; }
  bool operator!=(const InIt &o) const { return p != o.p; }
};

int main() {
  // amc: `allocate` is a throwing-capable event too (LedgerAlloc); std::vector uses std::allocator: only the element copies count
  std::printf("-- insert (begin () + 2, v[0]) on a full vector of 3: the element copy throws\n");
  probe<AmcVec>("amc::vector  insert(pos, own element before pos)", 3, 3, 1, [](AmcVec &v) { v.insert(v.begin() + 2, static_cast<const T &>(v[0])); });
  probe<StdVec>("std::vector  insert(pos, own element before pos)", 3, 3, 0, [](StdVec &v) { v.insert(v.begin() + 2, static_cast<const T &>(v[0])); });
  probe<AmcVec>("amc::vector  insert(pos, own element at/after pos) T(v)", 3, 3, 0, [](AmcVec &v) { v.insert(v.begin() + 1, static_cast<const T &>(v[2])); });
  probe<AmcVec>("amc::vector  insert(pos, own element at/after pos) alloc", 3, 3, 1, [](AmcVec &v) { v.insert(v.begin() + 1, static_cast<const T &>(v[2])); });
  std::printf("-- push_back (v[1]) on a full vector of 3: the element copy throws\n");
  probe<AmcVec>("amc::vector  push_back(own element)", 3, 3, 1, [](AmcVec &v) { v.push_back(static_cast<const T &>(v[1])); });
  probe<StdVec>("std::vector  push_back(own element)", 3, 3, 0, [](StdVec &v) { v.push_back(static_cast<const T &>(v[1])); });
  probe<AmcVec>("amc::vector  emplace_back(own element), copy throws", 3, 3, 0, [](AmcVec &v) { v.emplace_back(static_cast<const T &>(v[1])); });
  probe<AmcVec>("amc::vector  emplace_back(own element), allocation throws", 3, 3, 1, [](AmcVec &v) { v.emplace_back(static_cast<const T &>(v[1])); });
  std::printf("-- insert (begin () + 1, 2, v[2]), size 3, capacity 4: T (v) event 0, allocation event 1, the second copy (event 3) throws\n");
  probe<AmcVec>("amc::vector  insert(pos, 2, own element at/after pos)", 3, 4, 3, [](AmcVec &v) { v.insert(v.begin() + 1, 2u, static_cast<const T &>(v[2])); });
  probe<StdVec>("std::vector  insert(pos, 2, own element at/after pos)", 3, 4, 1, [](StdVec &v) { v.insert(v.begin() + 1, 2u, static_cast<const T &>(v[2])); });
  std::printf("-- insert (begin () + 1, first, last), single-pass range of 3, size 3, capacity 4: copies are events 0, 1 (into e), 3; allocation 2\n");
  {
    T src[3] = {T(100), T(101), T(102)};  // built before the countdown is armed
    for (long k = 0; k <= 4; ++k) {
      probe<AmcVec>("amc::vector  insert(pos, input range of 3)", 3, 4, k, [&src](AmcVec &v) {
        InIt first = {src}, last = {src + 3};
        v.insert(v.begin() + 1, first, last);
      });
    }
  }
  std::printf("END live=%ld errors=%ld\n", G().live, G().nErrors);
  return G().live == 0 ? 0 : 1;
}
