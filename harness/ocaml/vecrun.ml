(* Model runner for the vector scripts: reads the same script files as harness/cpp/vecdrv.cpp, executes them with the
   step function extracted from coq/VecModel.v and prints one canonical line per operation:
     M <hid> <step> | <res> | <cont0> | <cont1> | <cont2> | al=<events>
   with <cont> = dead | size;capacity;store;_capa;_size;vals   (numbers in decimal; the extracted Z is printed exactly) *)
open Vecmodel

(* ---- conversions between OCaml ints / decimal strings and the extracted Z ---- *)
let rec pos_of_int n = if n = 1 then XH else if n land 1 = 0 then XO (pos_of_int (n lsr 1)) else XI (pos_of_int (n lsr 1))
let z_of_int n = if n = 0 then Z0 else if n > 0 then Zpos (pos_of_int n) else Zneg (pos_of_int (-n))
(* decimal string -> Z by Horner in Z arithmetic (M of a 64-bit size type does not fit an OCaml int) *)
let z_of_string s =
  let neg = String.length s > 0 && s.[0] = '-' in
  let s' = if neg then String.sub s 1 (String.length s - 1) else s in
  let ten = z_of_int 10 in
  let acc = ref Z0 in
  String.iter (fun ch -> acc := Z.add (Z.mul !acc ten) (z_of_int (Char.code ch - 48))) s';
  if neg then Z.opp !acc else !acc
(* Z -> decimal string: repeated division by 10 in Z *)
let string_of_z z =
  let ten = z_of_int 10 in
  let rec small_int_of_z z = match z with Z0 -> 0 | Zpos p -> ipos p | Zneg p -> - (ipos p)
  and ipos p = match p with XH -> 1 | XO q -> 2 * ipos q | XI q -> 2 * ipos q + 1 in
  let rec go z acc =
    match z with
    | Z0 -> acc
    | _ -> let q = Z.div z ten in let r = Z.modulo z ten in
           go q (string_of_int (small_int_of_z r) ^ acc) in
  match z with
  | Z0 -> "0"
  | Zpos _ -> go z ""
  | Zneg p -> "-" ^ go (Zpos p) ""
let rec nat_of_int n = if n <= 0 then O else S (nat_of_int (n - 1))

let split_on c s = List.filter (fun x -> x <> "") (String.split_on_char c s)
let ints s = if s = "-" || s = "" then [] else List.map (fun x -> z_of_string x) (split_on ',' s)

let parse_arg s =
  if String.length s > 0 && s.[0] = 'o' then AOwn (nat_of_int (int_of_string (String.sub s 1 (String.length s - 1))))
  else AExt (z_of_string (String.sub s 1 (String.length s - 1)))
let rcat_of s = if s = "inp" then RInp else RFwd

exception Unknown
let parse_op toks =
  let n i = nat_of_int (int_of_string (List.nth toks i)) in
  let z i = z_of_string (List.nth toks i) in
  let s i = List.nth toks i in
  match List.hd toks with
  | "ctor_default" -> CtorDefault (n 1)
  | "ctor_n" -> CtorN (n 1, z 2)
  | "ctor_nv" -> CtorNV (n 1, z 2, z 3)
  | "ctor_range" -> CtorRange (n 1, rcat_of (s 2), ints (s 3))
  | "ctor_copy" -> CtorCopy (n 1, n 2)
  | "ctor_move" -> CtorMove (n 1, n 2)
  | "adopt" -> Adopt (n 1, ints (s 2), z 3)
  | "dtor" -> Dtor (n 1)
  | "push_back" -> PushBack (n 1, parse_arg (s 2))
  | "push_back_rv" -> PushBackRv (n 1, parse_arg (s 2))
  | "emplace_back" -> EmplaceBack (n 1, parse_arg (s 2))
  | "insert" -> Insert (n 1, z 2, parse_arg (s 3))
  | "insert_rv" -> InsertRv (n 1, z 2, parse_arg (s 3))
  | "emplace" -> Emplace (n 1, z 2, parse_arg (s 3))
  | "insert_n" -> InsertN (n 1, z 2, z 3, parse_arg (s 4))
  | "insert_range" -> InsertRange (n 1, z 2, rcat_of (s 3), ints (s 4))
  | "erase" -> Erase (n 1, z 2)
  | "erase_range" -> EraseRange (n 1, z 2, z 3)
  | "pop_back" -> PopBack (n 1)
  | "pop_back_val" -> PopBackVal (n 1)
  | "clear" -> Clear (n 1)
  | "resize" -> Resize (n 1, z 2)
  | "resize_v" -> ResizeV (n 1, z 2, parse_arg (s 3))
  | "assign_n" -> AssignN (n 1, z 2, parse_arg (s 3))
  | "assign_range" -> AssignRange (n 1, rcat_of (s 2), ints (s 3))
  | "reserve" -> Reserve (n 1, z 2)
  | "shrink" -> Shrink (n 1)
  | "append_n" -> AppendN (n 1, z 2)
  | "append_nv" -> AppendNV (n 1, z 2, parse_arg (s 3))
  | "append_range" -> AppendRange (n 1, rcat_of (s 2), ints (s 3))
  | "copy_assign" -> CopyAssign (n 1, n 2)
  | "move_assign" -> MoveAssign (n 1, n 2)
  | "swap" -> Swap (n 1, n 2)
  | "swap2" -> Swap2 (n 1, n 2)
  | "at" -> At (n 1, z 2)
  | "cmp" -> Cmp (n 1, n 2)
  | "relocate" -> Relocate (n 1, n 2)
  | _ -> raise Unknown

let string_of_store = function SInl -> "inl" | SHeap -> "heap" | SNull -> "null"
let string_of_vals l = if l = [] then "-" else String.concat "," (List.map string_of_z l)
let describe_cont cfg = function
  | None -> "dead"
  | Some v ->
      let (((((sz, cap), st), wc), ws), vals) = describe cfg v in
      Printf.sprintf "%s;%s;%s;%s;%s;%s" (string_of_z sz) (string_of_z cap) (string_of_store st) (string_of_z wc)
        (string_of_z ws) (string_of_vals vals)
let string_of_res = function
  | ROk -> "ok"
  | RIdx i -> "idx:" ^ string_of_z i
  | RVal v -> "val:" ^ string_of_z v
  | RCmp bits -> "cmp:" ^ String.concat "" (List.map (fun b -> if b then "1" else "0") bits)
  | RThrew OutOfRange -> "threw:out_of_range"
  | RThrew OverflowError -> "threw:overflow_error"
  | RSkip -> "skip"
let string_of_events cfg evs =
  let basic = (match cfg.calloc with AAmc -> true | _ -> false) in
  let one = function
    | EAlloc n -> "+" ^ string_of_z n
    | EDealloc n -> "-" ^ string_of_z n
    | ERealloc (o, n, l) -> if basic then Printf.sprintf "~%s>%s" (string_of_z o) (string_of_z n)
                            else Printf.sprintf "~%s>%s@%s" (string_of_z o) (string_of_z n) (string_of_z l) in
  if evs = [] then "-" else String.concat "," (List.map one evs)

let () =
  (* argv: flavour N M signed cat alloc scriptfile *)
  let a = Sys.argv in
  let cfg = { fl = (match a.(1) with "vec" -> FVec | "sv" -> FSV | _ -> FFCV);
              cN = z_of_string a.(2); cM = z_of_string a.(3); csigned = (a.(4) = "1");
              ccat = (match a.(5) with "TC" -> TC | "TR" -> TR | _ -> NTR);
              calloc = (match a.(6) with "amc" -> AAmc | "led" -> ALed | "ledr" -> ALedR | _ -> ANone) } in
  let ic = open_in a.(7) in
  let pool = ref init_pool in
  let hid = ref "0" in
  let stepno = ref 0 in
  (try
     while true do
       let line = input_line ic in
       if String.length line = 0 || line.[0] = '#' then ()
       else if line.[0] = 'H' && (String.length line = 1 || line.[1] = ' ') then begin
         hid := (if String.length line > 2 then String.sub line 2 (String.length line - 2) else "?");
         pool := init_pool; stepno := 0
       end else begin
         incr stepno;
         let toks = split_on ' ' line in
         let injected = (match toks with t :: _ -> String.length t > 0 && t.[0] = '!' | [] -> false) in
         if injected then Printf.printf "M %s %d | unmodelled\n" !hid !stepno
         else
           match (try Some (parse_op toks) with _ -> None) with
           | None -> Printf.printf "M %s %d | unmodelled\n" !hid !stepno
           | Some o ->
               let ((p', r), evs) = step cfg !pool o in
               pool := p';
               Printf.printf "M %s %d | %s | %s | %s | %s | al=%s\n" !hid !stepno (string_of_res r)
                 (describe_cont cfg (List.nth p' 0)) (describe_cont cfg (List.nth p' 1)) (describe_cont cfg (List.nth p' 2))
                 (string_of_events cfg evs)
       end
     done
   with End_of_file -> ());
  close_in ic
