(* Model runner for the set scripts (same files as harness/cpp/setdrv.cpp reads), step function extracted from
   coq/SetModel.v.  One line per operation:
     M <hid> <step> | <res> | <set0> | <set1> | <set2>
   with <set> = dead | size;flat|small|large;vals *)
open Setmodel

let rec pos_of_int n = if n = 1 then XH else if n land 1 = 0 then XO (pos_of_int (n lsr 1)) else XI (pos_of_int (n lsr 1))
let z_of_int n = if n = 0 then Z0 else if n > 0 then Zpos (pos_of_int n) else Zneg (pos_of_int (-n))
let rec int_of_pos p = match p with XH -> 1 | XO q -> 2 * int_of_pos q | XI q -> 2 * int_of_pos q + 1
let int_of_z z = match z with Z0 -> 0 | Zpos p -> int_of_pos p | Zneg p -> - (int_of_pos p)
let rec nat_of_int n = if n <= 0 then O else S (nat_of_int (n - 1))
let rec int_of_nat n = match n with O -> 0 | S m -> 1 + int_of_nat m

let split_on c s = List.filter (fun x -> x <> "") (String.split_on_char c s)
let ints s = if s = "-" || s = "" then [] else List.map (fun x -> z_of_int (int_of_string x)) (split_on ',' s)
let string_of_vals l = if l = [] then "-" else String.concat "," (List.map (fun z -> string_of_int (int_of_z z)) l)

exception Unknown
let parse_op toks =
  let n i = nat_of_int (int_of_string (List.nth toks i)) in
  let z i = z_of_int (int_of_string (List.nth toks i)) in
  let s i = List.nth toks i in
  match List.hd toks with
  | "ctor_default" -> SCtorDefault (n 1)
  | "ctor_range" | "ctor_il" -> SCtorRange (n 1, ints (s 2))
  | "ctor_copy" -> SCtorCopy (n 1, n 2)
  | "ctor_move" -> SCtorMove (n 1, n 2)
  | "dtor" -> SDtor (n 1)
  | "from_vector" | "assign_vector" -> SFromVector (n 1, ints (s 2))
  | "steal_vector" -> SStealVector (n 1)
  | "assign_il" -> SAssignIl (n 1, ints (s 2))
  | "insert" | "insert_rv" | "emplace" -> SInsert (n 1, z 2)
  | "insert_hint" | "emplace_hint" -> SInsertHint (n 1, n 2, z 3)
  | "insert_range" | "insert_il" -> SInsertRange (n 1, ints (s 2))
  | "extract_key" -> SExtractKey (n 1, z 2)
  | "extract_pos" -> SExtractPos (n 1, n 2)
  | "insert_node" -> SInsertNode (n 1, n 2)
  | "insert_node_hint" -> SInsertNodeHint (n 1, n 2, n 3)
  | "erase_key" -> SEraseKey (n 1, z 2)
  | "erase_pos" -> SErasePos (n 1, n 2)
  | "erase_range" -> SEraseRange (n 1, n 2, n 3)
  | "clear" -> SClear (n 1)
  | "swap" -> SSwap (n 1, n 2)
  | "copy_assign" -> SCopyAssign (n 1, n 2)
  | "move_assign" -> SMoveAssign (n 1, n 2)
  | "find" -> SFind (n 1, z 2)
  | "count" -> SCount (n 1, z 2)
  | "contains" -> SContains (n 1, z 2)
  | "lb" -> SLb (n 1, z 2)
  | "ub" -> SUb (n 1, z 2)
  | "eqr" -> SEqr (n 1, z 2)
  | "merge" -> SMerge (n 1, n 2)
  | "cmp" -> SCmp (n 1, n 2)
  | "walk" -> SWalk (n 1)
  | "rwalk" -> SRevWalk (n 1)
  | "erase_loop" -> SEraseLoop (n 1, z 2)
  | "relocate" -> SRelocate (n 1, n 2)
  | _ -> raise Unknown

let string_of_node = function None -> "empty" | Some v -> string_of_int (int_of_z v)
let bit b = if b then "1" else "0"
let string_of_res = function
  | SROk -> "ok"
  | SRIns (i, b) -> Printf.sprintf "ins:%d:%s" (int_of_nat i) (bit b)
  | SRIdx i -> Printf.sprintf "idx:%d" (int_of_nat i)
  | SRNode n -> "node:" ^ string_of_node n
  | SRNIns (i, b, n) -> Printf.sprintf "nins:%d:%s:%s" (int_of_nat i) (bit b) (string_of_node n)
  | SRNIdx (i, n) -> Printf.sprintf "nidx:%d:%s" (int_of_nat i) (string_of_node n)
  | SRN n -> Printf.sprintf "n:%d" (int_of_nat n)
  | SRB b -> "b:" ^ bit b
  | SRRng (i, j) -> Printf.sprintf "rng:%d:%d" (int_of_nat i) (int_of_nat j)
  | SRCmp bits -> "cmp:" ^ String.concat "" (List.map bit bits)
  | SRWalk vals -> Printf.sprintf "walk:%d:%s" (List.length vals) (string_of_vals vals)
  | SRLoop (i, e) -> Printf.sprintf "loop:%d:%d" (int_of_nat i) (int_of_nat e)
  | SRVals vals -> "vals:" ^ string_of_vals vals
  | SRSkip -> "skip"

let describe kind = function
  | None -> "dead"
  | Some s ->
      let ((sz, st), vals) = sdescribe kind s in
      Printf.sprintf "%d;%s;%s" (int_of_nat sz) (match int_of_nat st with 0 -> "flat" | 1 -> "small" | _ -> "large") (string_of_vals vals)

let () =
  (* argv: kind(FS|SS) N cmp(less|greater|transp|coarse|mod) scriptfile *)
  let a = Sys.argv in
  let kind = if a.(1) = "FS" then KFlat else KSmall (nat_of_int (int_of_string a.(2))) in
  let ck = (match a.(3) with "greater" -> CKGreater | "coarse" -> CKCoarse | "mod" -> CKMod (z_of_int 5) | _ -> CKLess) in
  let cmp = cmp_of ck in
  let ic = open_in a.(4) in
  let pool = ref sinit in
  let hid = ref "0" in
  let stepno = ref 0 in
  (try
     while true do
       let line = input_line ic in
       if String.length line = 0 || line.[0] = '#' then ()
       else if line.[0] = 'H' && (String.length line = 1 || line.[1] = ' ') then begin
         hid := (if String.length line > 2 then String.sub line 2 (String.length line - 2) else "?");
         pool := sinit; stepno := 0
       end else begin
         incr stepno;
         let toks = split_on ' ' line in
         let injected = (match toks with t :: _ -> String.length t > 0 && t.[0] = '!' | [] -> false) in
         match (if injected then None else (try Some (parse_op toks) with _ -> None)) with
         | None -> Printf.printf "M %s %d | unmodelled\n" !hid !stepno
         | Some o ->
             let (p', r) = sstep cmp kind !pool o in
             pool := p';
             Printf.printf "M %s %d | %s | %s | %s | %s\n" !hid !stepno (string_of_res r)
               (describe kind (List.nth p'.sets 0)) (describe kind (List.nth p'.sets 1)) (describe kind (List.nth p'.sets 2))
       end
     done
   with End_of_file -> ());
  close_in ic
