(* Model runner for the cross-type swap2 cases (property C13): [Swap2.swap2x] extracted from coq/Swap2.v.
   Input, one case per line:   <hid> <cfgA> <capaA> <sizeA> <cfgB> <capaB> <sizeB>      cfg = fl:N:M:signed:cat:alloc
   Output:  M <hid> | res=<ok|threw:...> | postA=<_capa>,<_size>,<store>,<capacity()>,<size()> | postB=... | al=<events> *)
open Swap2model

let rec pos_of_int n = if n = 1 then XH else if n land 1 = 0 then XO (pos_of_int (n lsr 1)) else XI (pos_of_int (n lsr 1))
let z_of_int n = if n = 0 then Z0 else if n > 0 then Zpos (pos_of_int n) else Zneg (pos_of_int (-n))
let z_of_string s =
  let neg = String.length s > 0 && s.[0] = '-' in
  let s' = if neg then String.sub s 1 (String.length s - 1) else s in
  let ten = z_of_int 10 in
  let acc = ref Z0 in
  String.iter (fun ch -> acc := Z.add (Z.mul !acc ten) (z_of_int (Char.code ch - 48))) s';
  if neg then Z.opp !acc else !acc
let string_of_z z =
  let ten = z_of_int 10 in
  let rec small z = match z with Z0 -> 0 | Zpos p -> ipos p | Zneg p -> - (ipos p)
  and ipos p = match p with XH -> 1 | XO q -> 2 * ipos q | XI q -> 2 * ipos q + 1 in
  let rec go z acc = match z with Z0 -> acc | _ -> go (Z.div z ten) (string_of_int (small (Z.modulo z ten)) ^ acc) in
  match z with Z0 -> "0" | Zpos _ -> go z "" | Zneg p -> "-" ^ go (Zpos p) ""

let cfg_of s =
  match String.split_on_char ':' s with
  | [f; n; m; sg; cat; al] ->
      { fl = (match f with "vec" -> FVec | "sv" -> FSV | _ -> FFCV); cN = z_of_string n; cM = z_of_string m; csigned = (sg = "1");
        ccat = (match cat with "TC" -> TC | "TR" -> TR | _ -> NTR);
        calloc = (match al with "amc" -> AAmc | "led" -> ALed | "ledr" -> ALedR | _ -> ANone) }
  | _ -> failwith ("bad cfg " ^ s)
let string_of_store = function SInl -> "inl" | SHeap -> "heap" | SNull -> "null"
let words c x = Printf.sprintf "%s,%s,%s,%s,%s" (string_of_z x.capa_) (string_of_z x.size_) (string_of_store (obs_store c x))
    (string_of_z (b_capacity c x)) (string_of_z (b_size c x))
let events c evs =
  let basic = (match c.calloc with AAmc -> true | _ -> false) in
  List.map (function
    | EAlloc n -> "+" ^ string_of_z n
    | EDealloc n -> "-" ^ string_of_z n
    | ERealloc (o, n, l) -> if basic then Printf.sprintf "~%s>%s" (string_of_z o) (string_of_z n)
                            else Printf.sprintf "~%s>%s@%s" (string_of_z o) (string_of_z n) (string_of_z l)) evs

let () =
  let ic = open_in Sys.argv.(1) in
  (try
     while true do
       let line = input_line ic in
       match List.filter (fun x -> x <> "") (String.split_on_char ' ' line) with
       | [hid; ca; wa; sa; cb; wb; sb] ->
           let c1 = cfg_of ca and c2 = cfg_of cb in
           let t = { capa_ = z_of_string wa; size_ = z_of_string sa } and o = { capa_ = z_of_string wb; size_ = z_of_string sb } in
           let (res, t', o', e1, e2) =
             (match swap2x c1 c2 t o with
              | Inl (((t', o'), e1), e2) -> ("ok", t', o', e1, e2)
              | Inr ((((e, t'), o'), e1), e2) ->
                  ((match e with OutOfRange -> "threw:out_of_range" | OverflowError -> "threw:overflow_error"), t', o', e1, e2)) in
           let al = events c1 e1 @ events c2 e2 in
           Printf.printf "M %s | res=%s | postA=%s | postB=%s | al=%s\n" hid res (words c1 t') (words c2 o')
             (if al = [] then "-" else String.concat "," al)
       | _ -> ()
     done
   with End_of_file -> ());
  close_in ic
